//! Real parser combinators built from abstract terms (call records for C20).
use serde_json::{Value, json};

pub fn do_pc(_req: &Value) -> Value {
    json!({"error": "pc not built yet"})
}
