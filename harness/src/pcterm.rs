//! Real parser combinators of `rusty_pc` built from abstract terms (call records for C20).
//!
//! Every term is built as a boxed parser with the uniform output type `String`
//! (pairs and lists are concatenated, "no value" is the empty string) over a
//! test input of characters.  The closure table (predicates, mappers, error
//! codes) is fixed and shared with the specification PC.tla.

use rusty_pc::boxed::BoxedParser;
use rusty_pc::*;
use serde_json::{Value, json};

#[derive(Clone, Debug, Default, PartialEq)]
pub struct TE {
    fatal: bool,
    code: u8,
}

impl TE {
    fn soft(code: u8) -> Self {
        TE { fatal: false, code }
    }
    fn fatal(code: u8) -> Self {
        TE { fatal: true, code }
    }
}

impl ParserErrorTrait for TE {
    fn is_fatal(&self) -> bool {
        self.fatal
    }
    fn to_fatal(self) -> Self {
        TE {
            fatal: true,
            code: self.code,
        }
    }
}

pub struct TI {
    chars: Vec<char>,
    pos: usize,
}

impl InputTrait for TI {
    type Output = char;

    fn peek(&self) -> char {
        self.chars.get(self.pos).copied().unwrap_or('\0')
    }

    fn read(&mut self) -> char {
        let c = self.peek();
        if self.pos < self.chars.len() {
            self.pos += 1;
        }
        c
    }

    fn get_position(&self) -> usize {
        self.pos
    }

    fn is_eof(&self) -> bool {
        self.pos >= self.chars.len()
    }

    fn set_position(&mut self, position: usize) {
        self.pos = position;
    }
}

type P = BoxedParser<TI, (), String, TE>;

/// An element parser whose verdict depends on its context (the previous element of a `ManyCtxParser`):
/// it reads one character and rejects it, softly and without consuming, when it equals the context.
/// `fatal_on`: a character that makes it fail fatally (after consuming it).
struct DepElem {
    ctx: String,
    fatal_on: Option<char>,
}

impl Parser<TI, String> for DepElem {
    type Output = String;
    type Error = TE;

    fn parse(&mut self, input: &mut TI) -> Result<String, TE> {
        if input.is_eof() {
            return Err(TE::soft(0));
        }
        let position = input.get_position();
        let c = input.read();
        if Some(c) == self.fatal_on {
            return Err(TE::fatal(9));
        }
        if c.to_string() == self.ctx {
            input.set_position(position);
            return Err(TE::soft(0));
        }
        Ok(c.to_string())
    }

    fn set_context(&mut self, ctx: &String) {
        self.ctx = ctx.clone();
    }
}

struct ConcatCombiner;

impl rusty_pc::many::ManyCombiner<String, String> for ConcatCombiner {
    fn seed(&self, element: String) -> String {
        element
    }
    fn accumulate(&self, result: String, element: String) -> String {
        result + &element
    }
}

fn starts_with(s: &str, c: char) -> bool {
    s.starts_with(c)
}

fn child(t: &Value, key: &str) -> Result<P, String> {
    build(&t[key])
}

pub fn build(t: &Value) -> Result<P, String> {
    let op = t["op"].as_str().unwrap_or("");
    Ok(match op {
        "read" => read_p::<TI, TE>().map(|c: char| c.to_string()).boxed(),
        "peekp" => peek_p::<TI, TE>().map(|c: char| c.to_string()).boxed(),
        "one" => one_p::<TI, char, TE>('a').map(|c: char| c.to_string()).boxed(),
        "oneof" => one_of_p::<TI, char, TE>(&['a', 'b'])
            .map(|c: char| c.to_string())
            .boxed(),
        "sup" => supplier::<TI, (), _, String, TE>(String::new).boxed(),
        "softfail" => err_supplier::<TI, (), _, String, TE>(|| TE::soft(1)).boxed(),
        "fatalfail" => err_supplier::<TI, (), _, String, TE>(|| TE::fatal(9)).boxed(),
        "map" => child(t, "p")?.map(|s: String| s + "!").boxed(),
        "lazy" => {
            let tt = t["p"].clone();
            // validate eagerly so that a bad term is reported, not a panic inside the factory
            build(&tt)?;
            lazy(move || build(&tt).expect("validated")).boxed()
        }
        "to_fatal" => child(t, "p")?.to_fatal().boxed(),
        "with_soft_err" => child(t, "p")?.with_soft_err(TE::soft(2)).boxed(),
        "or_fail" => child(t, "p")?.or_fail(TE::fatal(8)).boxed(),
        "map_fatal_err" => child(t, "p")?.map_fatal_err(TE::fatal(7)).boxed(),
        "and_then_ok" => child(t, "p")?
            .and_then(|s: String| Ok::<String, TE>(s + "+"))
            .boxed(),
        "and_then_soft" => child(t, "p")?
            .and_then(|s: String| {
                if starts_with(&s, 'b') {
                    Err(TE::soft(3))
                } else {
                    Ok(s)
                }
            })
            .boxed(),
        "and_then_fatal" => child(t, "p")?
            .and_then(|s: String| {
                if starts_with(&s, 'b') {
                    Err(TE::fatal(5))
                } else {
                    Ok(s)
                }
            })
            .boxed(),
        "and_then_err" => child(t, "p")?
            .and_then_err(|_e: TE| Ok::<String, TE>(String::new()))
            .boxed(),
        "filter" => child(t, "p")?.filter(|s: &String| starts_with(s, 'a')).boxed(),
        "filter_map" => child(t, "p")?
            .filter_map(|s: &String| {
                if starts_with(s, 'a') {
                    Some(s.clone())
                } else {
                    None
                }
            })
            .boxed(),
        "peek" => child(t, "p")?.peek().boxed(),
        "to_option" => child(t, "p")?
            .to_option()
            .map(|o: Option<String>| o.unwrap_or_default())
            .boxed(),
        "or_default" => child(t, "p")?.or_default().boxed(),
        "many1" => child(t, "p")?
            .one_or_more()
            .map(|v: Vec<String>| v.concat())
            .boxed(),
        "many0" => child(t, "p")?
            .zero_or_more()
            .map(|v: Vec<String>| v.concat())
            .boxed(),
        "and" => child(t, "l")?
            .and(child(t, "r")?, |l: String, r: String| l + &r)
            .boxed(),
        "and_left" => child(t, "l")?.and_keep_left(child(t, "r")?).boxed(),
        "and_right" => child(t, "l")?.and_keep_right(child(t, "r")?).boxed(),
        "or" => child(t, "l")?.or(child(t, "r")?).boxed(),
        "orbox" => {
            let l: Box<dyn Parser<TI, (), Output = String, Error = TE>> = Box::new(child(t, "l")?);
            let r: Box<dyn Parser<TI, (), Output = String, Error = TE>> = Box::new(child(t, "r")?);
            OrParser::new(vec![l, r]).boxed()
        }
        "seq2" => seq2(child(t, "l")?, child(t, "r")?, |l: String, r: String| l + &r).boxed(),
        "then_with" => child(t, "p")?
            .then_with_in_context(ctx_parser::<TI, String, TE>(), |l: String, r: String| l + &r)
            .boxed(),
        "then_dep" => child(t, "p")?
            .then_with_in_context(
                DepElem {
                    ctx: String::new(),
                    fatal_on: None,
                },
                |l: String, r: String| l + &r,
            )
            .boxed(),
        "surround_opt" => surround(
            child(t, "l")?,
            child(t, "p")?,
            child(t, "r")?,
            SurroundMode::Optional,
        )
        .boxed(),
        "surround_mand" => surround(
            child(t, "l")?,
            child(t, "p")?,
            child(t, "r")?,
            SurroundMode::Mandatory,
        )
        .boxed(),
        // a run of elements each of which must differ from the one before it (the context handed from one to the next)
        "many_ctx0" | "many_ctx1" | "many_ctx0_fatal" => rusty_pc::many_ctx::ManyCtxParser::new(
            DepElem {
                ctx: String::new(),
                fatal_on: if op == "many_ctx0_fatal" { Some('b') } else { None },
            },
            ConcatCombiner,
            |v: &String| v.clone(),
            op != "many_ctx1",
        )
        .boxed(),
        "delimited" => child(t, "l")?
            .delimited_by(child(t, "r")?, TE::fatal(6))
            .map(|v: Vec<String>| v.concat())
            .boxed(),
        "delimited_opt" => child(t, "l")?
            .delimited_by_allow_missing(child(t, "r")?, TE::fatal(6))
            .map(|v: Vec<Option<String>>| v.into_iter().flatten().collect::<Vec<String>>().concat())
            .boxed(),
        _ => return Err(format!("unknown op {}", op)),
    })
}

/// {"op":"pc","terms":[term...],"inputs":["", "a", ...]} ->
/// {"results":[[ [class, value, code, pos] per input ] per term]}
pub fn do_pc(req: &Value) -> Value {
    let terms = req["terms"].as_array().cloned().unwrap_or_default();
    let inputs: Vec<String> = req["inputs"]
        .as_array()
        .map(|a| a.iter().map(|x| x.as_str().unwrap_or("").to_string()).collect())
        .unwrap_or_default();
    let mut out = vec![];
    for t in terms.iter() {
        let row = crate::guarded(|| {
            let mut parser = match build(t) {
                Ok(p) => p,
                Err(e) => return json!({"error": e}),
            };
            let mut row = vec![];
            for inp in inputs.iter() {
                let mut ti = TI {
                    chars: inp.chars().collect(),
                    pos: 0,
                };
                let cell = match parser.parse(&mut ti) {
                    Ok(v) => json!(["ok", v, 0, ti.pos]),
                    Err(e) => json!([if e.fatal { "fatal" } else { "soft" }, "", e.code, ti.pos]),
                };
                row.push(cell);
            }
            json!(row)
        });
        out.push(row);
    }
    json!({"results": out})
}
