//! Direct calls into the public API of rusty_variant (call records for C04, C19).

use rusty_variant::{
    VArray, Variant, bytes_to_f64, bytes_to_i32, f64_to_bytes, i32_to_bytes, qb_and, qb_or,
};
use serde_json::{Value, json};

fn ints(v: &Value) -> Vec<i32> {
    v.as_array()
        .map(|a| a.iter().map(|x| x.as_i64().unwrap_or(0) as i32).collect())
        .unwrap_or_default()
}

/// A batch of calls of one function: {"op":"call","fn":..., "batch":[args...]}
pub fn do_call(req: &Value) -> Value {
    let f = req["fn"].as_str().unwrap_or("");
    let batch = req["batch"].as_array().cloned().unwrap_or_default();
    let results: Vec<Value> = batch
        .iter()
        .map(|args| crate::guarded(|| one(f, args)))
        .collect();
    json!({"results": results})
}

fn one(f: &str, args: &Value) -> Value {
    match f {
        "qb_and" => {
            let a = ints(args);
            json!(qb_and(a[0], a[1]))
        }
        "qb_or" => {
            let a = ints(args);
            json!(qb_or(a[0], a[1]))
        }
        "not" => {
            let a = ints(args);
            match Variant::VInteger(a[0]).unary_not() {
                Ok(v) => crate::variant_to_json(&v),
                Err(e) => json!({"err": format!("{:?}", e)}),
            }
        }
        "i32_to_bytes" => {
            let a = ints(args);
            json!(i32_to_bytes(a[0]))
        }
        "bytes_to_i32" => {
            let a = ints(args);
            json!(bytes_to_i32([a[0] as u8, a[1] as u8]))
        }
        // doubles travel as [sign, exponent(11 bit), mantissa hi 20 bits, mantissa lo 32 bits as two 16 bit halves]
        "f64_to_bytes" => {
            let x = f64_from_parts(args);
            json!(f64_to_bytes(x))
        }
        "f64_roundtrip" => {
            let x = f64_from_parts(args);
            let b = f64_to_bytes(x);
            let y = bytes_to_f64(&b);
            json!({"bytes": b, "back": f64_parts(y), "same": x.to_bits() == y.to_bits()})
        }
        "bytes_to_f64" => {
            let a = ints(args);
            let b: Vec<u8> = a.iter().map(|x| *x as u8).collect();
            json!(f64_parts(bytes_to_f64(&b)))
        }
        "abs_index" => {
            // args: {dims:[[lo,hi]...], idx:[...]}
            let dims: Vec<(i32, i32)> = args["dims"]
                .as_array()
                .map(|a| {
                    a.iter()
                        .map(|d| {
                            let p = ints(d);
                            (p[0], p[1])
                        })
                        .collect()
                })
                .unwrap_or_default();
            let arr = VArray::new(dims, Variant::VInteger(0));
            let idx = ints(&args["idx"]);
            let len = arr.len();
            match arr.abs_index(&idx) {
                Ok(i) => json!({"ok": i, "len": len}),
                Err(_) => json!({"err": 9, "len": len}),
            }
        }
        "array_rw" => {
            // write a distinct value to every listed index tuple, then read all back
            let dims: Vec<(i32, i32)> = args["dims"]
                .as_array()
                .map(|a| {
                    a.iter()
                        .map(|d| {
                            let p = ints(d);
                            (p[0], p[1])
                        })
                        .collect()
                })
                .unwrap_or_default();
            let mut arr = VArray::new(dims, Variant::VInteger(0));
            let writes = args["writes"].as_array().cloned().unwrap_or_default();
            let mut wres = vec![];
            for (k, w) in writes.iter().enumerate() {
                let idx = ints(w);
                match arr.get_element_mut(&idx) {
                    Ok(slot) => {
                        *slot = Variant::VInteger(k as i32 + 1);
                        wres.push(json!("ok"));
                    }
                    Err(_) => wres.push(json!(9)),
                }
            }
            let mut cells = vec![];
            for i in 0..arr.len() {
                match arr.get(i) {
                    Some(Variant::VInteger(v)) => cells.push(json!(v)),
                    _ => cells.push(Value::Null),
                }
            }
            json!({"writes": wres, "cells": cells})
        }
        _ => json!({"error": "unknown fn"}),
    }
}

fn f64_from_parts(args: &Value) -> f64 {
    let a: Vec<u64> = args
        .as_array()
        .map(|a| a.iter().map(|x| x.as_u64().unwrap_or(0)).collect())
        .unwrap_or_default();
    // [sign, exp, m3 (4 bits), m2 (16), m1 (16), m0 (16)]
    let bits = (a[0] << 63) | (a[1] << 52) | (a[2] << 48) | (a[3] << 32) | (a[4] << 16) | a[5];
    f64::from_bits(bits)
}

fn f64_parts(x: f64) -> Value {
    let b = x.to_bits();
    json!([
        b >> 63,
        (b >> 52) & 0x7ff,
        (b >> 48) & 0xf,
        (b >> 32) & 0xffff,
        (b >> 16) & 0xffff,
        b & 0xffff
    ])
}

/// Millions of random pairs against the machine's own bit operations (bridge:
/// the TLC-validated subset ties the machine operations to Bits.tla).
pub fn bits_bridge(req: &Value) -> Value {
    let n = req["n"].as_u64().unwrap_or(1000);
    let mut state = req["seed"].as_u64().unwrap_or(1) | 1;
    let mut next = || {
        // xorshift64*
        state ^= state >> 12;
        state ^= state << 25;
        state ^= state >> 27;
        state.wrapping_mul(0x2545F4914F6CDD1D)
    };
    let mut bad = vec![];
    let mut count = 0u64;
    for _ in 0..n {
        let r = next();
        let a = (r & 0xffff) as u16 as i16 as i32;
        let b = ((r >> 16) & 0xffff) as u16 as i16 as i32;
        let and_ok = qb_and(a, b) == ((a as i16) & (b as i16)) as i32;
        let or_ok = qb_or(a, b) == ((a as i16) | (b as i16)) as i32;
        let rt = bytes_to_i32(i32_to_bytes(a)) == a;
        let x = f64::from_bits(next());
        let f_ok = !x.is_finite() || bytes_to_f64(&f64_to_bytes(x)).to_bits() == x.to_bits();
        let le_ok = f64_to_bytes(x) == x.to_le_bytes();
        count += 1;
        if !(and_ok && or_ok && rt && f_ok && le_ok) && bad.len() < 5 {
            bad.push(json!({"a": a, "b": b, "xbits": format!("{:016x}", x.to_bits()),
                            "and_ok": and_ok, "or_ok": or_ok, "roundtrip_ok": rt, "f64_ok": f_ok, "le_ok": le_ok}));
        }
    }
    json!({"count": count, "bad": bad})
}
