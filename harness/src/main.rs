//! rbverif: conformance harness binding the TLA+ specifications in /verif/spec
//! to the real rusty-basic code. Speaks ndjson on stdin/stdout (`serve`).
//!
//! Every request runs under catch_unwind with a silenced panic hook: a panic
//! of the code under test is data, never a harness failure.

mod calls;
mod pcterm;
mod shape;

use std::collections::HashMap;
use std::io::{BufRead, Write};
use std::panic::{AssertUnwindSafe, catch_unwind};
use std::sync::Mutex;

use rusty_basic::RuntimeErrorPos;
use rusty_basic::instruction_generator::{
    InstructionGeneratorResult, generate_instructions, unwrap_linter_context,
};
use rusty_basic::interpreter::verif::{RunReport, VerifOptions, run_in_memory};
use rusty_linter::core::lint;
use rusty_parser::parse_main_str;
use rusty_variant::Variant;
use serde_json::{Value, json};

static LAST_PANIC: Mutex<Option<(String, String)>> = Mutex::new(None);

fn install_panic_hook() {
    std::panic::set_hook(Box::new(|info| {
        let msg = if let Some(s) = info.payload().downcast_ref::<&str>() {
            s.to_string()
        } else if let Some(s) = info.payload().downcast_ref::<String>() {
            s.clone()
        } else {
            "<non-string panic>".to_string()
        };
        let loc = info
            .location()
            .map(|l| format!("{}:{}", l.file(), l.line()))
            .unwrap_or_default();
        *LAST_PANIC.lock().unwrap() = Some((msg, loc));
    }));
}

fn take_panic() -> Value {
    match LAST_PANIC.lock().unwrap().take() {
        Some((msg, loc)) => json!({"msg": msg, "loc": loc}),
        None => json!({"msg": "?", "loc": "?"}),
    }
}

pub fn guarded<F: FnOnce() -> Value>(f: F) -> Value {
    match catch_unwind(AssertUnwindSafe(f)) {
        Ok(v) => v,
        Err(_) => json!({"panic": take_panic()}),
    }
}

pub fn variant_to_json(v: &Variant) -> Value {
    fn num(t: &str, f: f64, disp: String) -> Value {
        // sx: the value is exactly a SINGLE value (what a SINGLE variable may hold)
        let sx = !f.is_finite() || ((f as f32) as f64) == f;
        if f.is_finite() && f.fract() == 0.0 && f.abs() < 2147483648.0 {
            json!({"t": t, "v": f as i64, "f": disp, "sx": sx})
        } else {
            json!({"t": t, "f": disp, "finite": f.is_finite(), "sx": sx})
        }
    }
    match v {
        Variant::VInteger(i) => json!({"t": "I", "v": i, "f": i.to_string()}),
        Variant::VLong(l) => {
            if *l >= i32::MIN as i64 && *l <= i32::MAX as i64 {
                json!({"t": "L", "v": l, "f": l.to_string()})
            } else {
                json!({"t": "L", "f": l.to_string(), "finite": true})
            }
        }
        Variant::VSingle(f) => num("S", *f as f64, format!("{}", f)),
        Variant::VDouble(d) => num("D", *d, format!("{}", d)),
        Variant::VString(s) => {
            json!({"t": "$", "s": s, "n": s.chars().count()})
        }
        Variant::VUserDefined(u) => {
            let mut fields = vec![];
            for name in u.names() {
                if let Some(fv) = u.get(name) {
                    fields.push(json!({"name": name.to_string(), "value": variant_to_json(fv)}));
                }
            }
            json!({"t": "U", "fields": fields})
        }
        Variant::VArray(a) => {
            let mut elems = vec![];
            let n = a.len();
            for i in 0..n.min(64) {
                if let Some(e) = a.get(i) {
                    elems.push(variant_to_json(e));
                }
            }
            json!({"t": "A", "len": n, "elems": elems})
        }
    }
}

fn pos_json(p: &rusty_common::Position) -> Value {
    json!([p.row(), p.col()])
}

/// Erases `Position { row: .., col: .. }` from a Debug rendering.
fn erase_positions(s: &str) -> String {
    let mut out = String::with_capacity(s.len());
    let mut rest = s;
    while let Some(idx) = rest.find("Position {") {
        out.push_str(&rest[..idx]);
        out.push_str("P");
        match rest[idx..].find('}') {
            Some(end) => rest = &rest[idx + end + 1..],
            None => {
                rest = "";
            }
        }
    }
    out.push_str(rest);
    out
}

fn runtime_error_json(e: &RuntimeErrorPos) -> Value {
    let err = e.err();
    let code = catch_unwind(AssertUnwindSafe(|| err.get_code()));
    let code_json = match code {
        Ok(c) => json!(c),
        Err(_) => {
            take_panic();
            Value::Null
        }
    };
    let positions: Vec<Value> = e.verif_positions().iter().map(pos_json).collect();
    json!({"k": "err", "code": code_json, "dbg": format!("{:?}", err), "pos": positions})
}

fn bytes_to_string(b: &[u8]) -> Value {
    match std::str::from_utf8(b) {
        Ok(s) => json!(s),
        Err(_) => json!({"bytes": b}),
    }
}

struct Staged {
    igr: InstructionGeneratorResult,
    udt: rusty_parser::UserDefinedTypes,
}

/// Runs parse + lint (+ igen). Returns either the staged program or the
/// response describing the stage that rejected the text.
fn stage(text: &str, want_tree: bool, resp: &mut serde_json::Map<String, Value>) -> Option<Staged> {
    let program = match parse_main_str(text.to_string()) {
        Ok(p) => p,
        Err(e) => {
            resp.insert("stage".into(), json!("parse"));
            resp.insert(
                "error".into(),
                json!({"dbg": format!("{:?}", e.element), "pos": pos_json(&e.pos)}),
            );
            return None;
        }
    };
    if want_tree {
        resp.insert(
            "tree".into(),
            json!(erase_positions(&format!("{:?}", program))),
        );
    }
    let (linted, ctx) = match lint(program) {
        Ok(x) => x,
        Err(e) => {
            resp.insert("stage".into(), json!("lint"));
            resp.insert(
                "error".into(),
                json!({"dbg": format!("{:?}", e.element), "pos": pos_json(&e.pos)}),
            );
            return None;
        }
    };
    if want_tree {
        resp.insert(
            "ltree".into(),
            json!(erase_positions(&format!("{:?}", linted))),
        );
    }
    if resp.contains_key("__upto_lint") {
        resp.remove("__upto_lint");
        resp.insert("stage".into(), json!("linted"));
        return None;
    }
    let (names, udt) = unwrap_linter_context(ctx);
    let igr = generate_instructions(linted, names);
    Some(Staged { igr, udt })
}

fn igen_json(igr: &InstructionGeneratorResult) -> Value {
    let insns: Vec<Value> = igr
        .instructions
        .iter()
        .map(|ip| json!([format!("{:?}", ip.element), ip.pos.row(), ip.pos.col()]))
        .collect();
    json!({"insns": insns, "stmts": igr.statement_addresses})
}

fn report_json(rep: &RunReport, want_trace: bool) -> serde_json::Map<String, Value> {
    let mut m = serde_json::Map::new();
    m.insert("stage".into(), json!("run"));
    m.insert("stdout".into(), bytes_to_string(&rep.stdout));
    m.insert("lpt1".into(), bytes_to_string(&rep.lpt1));
    m.insert("steps".into(), json!(rep.steps));
    let outcome = if rep.budget_exhausted {
        json!({"k": "budget"})
    } else {
        match &rep.result {
            Ok(()) => json!({"k": "ok"}),
            Err(e) => runtime_error_json(e),
        }
    };
    m.insert("outcome".into(), outcome);
    m.insert("final_depths".into(), json!(rep.final_depths));
    m.insert("errors".into(), json!(rep.errors));
    m.insert("error_steps".into(), json!(rep.error_steps));
    if want_trace {
        let t: Vec<Value> = rep
            .insns
            .iter()
            .map(|r| match &r.registers {
                Some(regs) => {
                    let rv: Vec<Value> = regs.iter().map(variant_to_json).collect();
                    json!([r.pc, r.depths, rv])
                }
                None => json!([r.pc, r.depths]),
            })
            .collect();
        m.insert("trace".into(), json!(t));
    }
    if !rep.dumps.is_empty() {
        let d: Vec<Value> = rep
            .dumps
            .iter()
            .map(|d| {
                let vars: Vec<Value> = d
                    .vars
                    .iter()
                    .map(|v| json!({"b": v.block, "name": v.name, "val": variant_to_json(&v.value)}))
                    .collect();
                json!({"pc": if d.pc == usize::MAX { -1 } else { d.pc as i64 }, "vars": vars})
            })
            .collect();
        m.insert("dumps".into(), json!(d));
    }
    m
}

fn stdin_bytes(req: &Value) -> Vec<u8> {
    match req.get("stdin") {
        Some(Value::String(s)) => s.as_bytes().to_vec(),
        Some(Value::Array(a)) => a.iter().map(|x| x.as_u64().unwrap_or(0) as u8).collect(),
        _ => vec![],
    }
}

fn do_run(req: &Value) -> Value {
    let text = req["text"].as_str().unwrap_or("");
    let want_tree = req["tree"].as_bool().unwrap_or(false);
    let want_igen = req["igen"].as_bool().unwrap_or(false);
    let want_trace = req["trace"].as_bool().unwrap_or(false);
    let no_run = req["norun"].as_bool().unwrap_or(false);
    let mut resp = serde_json::Map::new();
    if req["upto"].as_str() == Some("lint") {
        resp.insert("__upto_lint".into(), json!(true));
    }
    let staged = match catch_unwind(AssertUnwindSafe(|| stage(text, want_tree, &mut resp))) {
        Ok(Some(s)) => s,
        Ok(None) => return Value::Object(resp),
        Err(_) => {
            // which stage panicked? find out by re-running stage by stage
            let stage_name = panicking_stage(text);
            return json!({"stage": stage_name, "panic": take_panic()});
        }
    };
    if want_igen {
        resp.insert("igen".into(), igen_json(&staged.igr));
    }
    if no_run {
        resp.insert("stage".into(), json!("igen"));
        return Value::Object(resp);
    }
    // scratch directory for file cases
    let mut old_dir = None;
    if let Some(dir) = req["dir"].as_str() {
        let _ = std::fs::create_dir_all(dir);
        old_dir = std::env::current_dir().ok();
        let _ = std::env::set_current_dir(dir);
        if let Some(files) = req["files"].as_object() {
            for (name, content) in files {
                let bytes: Vec<u8> = match content {
                    Value::String(s) => s.as_bytes().to_vec(),
                    Value::Array(a) => a.iter().map(|x| x.as_u64().unwrap_or(0) as u8).collect(),
                    _ => vec![],
                };
                let _ = std::fs::write(name, bytes);
            }
        }
    }
    let options = VerifOptions {
        budget: req["budget"].as_u64().unwrap_or(200_000),
        trace_instructions: want_trace,
        trace_registers: req["regs"].as_bool().unwrap_or(false),
        dump_at_statements: req["dumps"].as_bool().unwrap_or(false),
        max_dumps: req["max_dumps"].as_u64().unwrap_or(400) as usize,
        dump_final: req["dump_final"].as_bool().unwrap_or(false),
    };
    let mut env = HashMap::new();
    if let Some(e) = req["env"].as_object() {
        for (k, v) in e {
            env.insert(k.clone(), v.as_str().unwrap_or("").to_string());
        }
    }
    let stdin = stdin_bytes(req);
    let Staged { igr, udt } = staged;
    let run = catch_unwind(AssertUnwindSafe(|| run_in_memory(igr, udt, stdin, env, options)));
    let mut result = match run {
        Ok(rep) => {
            let m = report_json(&rep, want_trace);
            resp.extend(m);
            Value::Object(resp)
        }
        Err(_) => {
            resp.insert("stage".into(), json!("run"));
            resp.insert("panic".into(), take_panic());
            Value::Object(resp)
        }
    };
    if let Some(dir) = req["dir"].as_str() {
        // report the files left behind
        let mut files = serde_json::Map::new();
        if let Ok(rd) = std::fs::read_dir(".") {
            for entry in rd.flatten() {
                if let Ok(ft) = entry.file_type() {
                    let name = entry.file_name().to_string_lossy().to_string();
                    if ft.is_file() {
                        if let Ok(b) = std::fs::read(entry.path()) {
                            files.insert(name, json!(b));
                        }
                    }
                }
            }
        }
        result["files_after"] = Value::Object(files);
        if let Some(d) = old_dir {
            let _ = std::env::set_current_dir(d);
        }
        if req["keep_dir"].as_bool() != Some(true) {
            let _ = std::fs::remove_dir_all(dir);
        }
    }
    result
}

fn panicking_stage(text: &str) -> &'static str {
    let p = catch_unwind(AssertUnwindSafe(|| parse_main_str(text.to_string())));
    let program = match p {
        Err(_) => return "parse",
        Ok(Err(_)) => return "parse",
        Ok(Ok(p)) => p,
    };
    let l = catch_unwind(AssertUnwindSafe(|| lint(program)));
    match l {
        Err(_) => "lint",
        Ok(Err(_)) => "lint",
        Ok(Ok(_)) => "igen",
    }
}

fn handle(req: &Value) -> Value {
    let op = req["op"].as_str().unwrap_or("");
    let mut resp = match op {
        "run" => do_run(req),
        "call" => guarded(|| calls::do_call(req)),
        "shape" => shape::do_shape(req),
        "bits_bridge" => guarded(|| calls::bits_bridge(req)),
        "pc" => guarded(|| pcterm::do_pc(req)),
        "ping" => json!({"pong": true}),
        _ => json!({"error": format!("unknown op {}", op)}),
    };
    if let Some(id) = req.get("id") {
        resp["id"] = id.clone();
    }
    resp
}

fn serve() {
    let stdin = std::io::stdin();
    let stdout = std::io::stdout();
    let mut out = std::io::BufWriter::new(stdout.lock());
    for line in stdin.lock().lines() {
        let line = match line {
            Ok(l) => l,
            Err(_) => break,
        };
        if line.trim().is_empty() {
            continue;
        }
        let resp = match serde_json::from_str::<Value>(&line) {
            Ok(req) => {
                LAST_PANIC.lock().unwrap().take();
                handle(&req)
            }
            Err(e) => json!({"error": format!("bad json: {}", e)}),
        };
        let _ = writeln!(out, "{}", resp);
        let _ = out.flush();
    }
}

fn main() {
    install_panic_hook();
    let args: Vec<String> = std::env::args().collect();
    let mode = args.get(1).map(String::as_str).unwrap_or("serve");
    // a big stack, so deep but legitimate recursion is not mistaken for a defect
    let stack_mb: usize = std::env::var("RBVERIF_STACK_MB")
        .ok()
        .and_then(|s| s.parse().ok())
        .unwrap_or(256);
    let mode = mode.to_string();
    let child = std::thread::Builder::new()
        .stack_size(stack_mb * 1024 * 1024)
        .spawn(move || match mode.as_str() {
            "serve" => serve(),
            _ => eprintln!("usage: rbverif serve"),
        })
        .unwrap();
    let _ = child.join();
}
