//! Parse-tree shapes of expressions as JSON (for C10): operators, operands, parentheses and
//! literal nodes with their type and value.

use rusty_parser::{Expression, ExpressionPos, GlobalStatement, PrintArg, Statement, UnaryOperator, parse_main_str};
use serde_json::{Value, json};

fn tree(e: &ExpressionPos) -> Value {
    match &e.element {
        Expression::IntegerLiteral(i) => json!({"k": "lit", "t": "I", "d": i.to_string()}),
        Expression::LongLiteral(l) => json!({"k": "lit", "t": "L", "d": l.to_string()}),
        Expression::SingleLiteral(f) => json!({"k": "lit", "t": "S", "d": format!("{}", f)}),
        Expression::DoubleLiteral(f) => json!({"k": "lit", "t": "D", "d": format!("{}", f)}),
        Expression::StringLiteral(s) => json!({"k": "lit", "t": "$", "d": s}),
        Expression::Variable(name, _) => json!({"k": "v", "n": name.to_string()}),
        Expression::Parenthesis(c) => json!({"k": "par", "e": tree(c)}),
        Expression::UnaryExpression(op, c) => json!({
            "k": "un",
            "op": match op { UnaryOperator::Minus => "neg", UnaryOperator::Not => "not" },
            "e": tree(c)
        }),
        Expression::BinaryExpression(op, l, r, _) => json!({
            "k": "bin",
            "op": format!("{:?}", op),
            "l": tree(l),
            "r": tree(r)
        }),
        other => json!({"k": "other", "dbg": format!("{:?}", other)}),
    }
}

/// {"op":"shape","exprs":[text...]} -> {"results":[tree | {"error":..} ...]}
pub fn do_shape(req: &Value) -> Value {
    let exprs = req["exprs"].as_array().cloned().unwrap_or_default();
    let results: Vec<Value> = exprs
        .iter()
        .map(|x| {
            let text = format!("PRINT {}\n", x.as_str().unwrap_or(""));
            crate::guarded(|| match parse_main_str(text.clone()) {
                Ok(program) => {
                    for gs in program.iter() {
                        if let GlobalStatement::Statement(Statement::Print(p)) = &gs.element {
                            for a in p.args.iter() {
                                if let PrintArg::Expression(e) = a {
                                    return tree(e);
                                }
                            }
                        }
                    }
                    json!({"error": "no expression"})
                }
                Err(e) => json!({"error": format!("{:?}", e.element), "pos": [e.pos.row(), e.pos.col()]}),
            })
        })
        .collect();
    json!({"results": results})
}
