"""Statement templates x slot fillers (the case space Slots.tla).  Every template is a list of lines with the
placeholders {1} and {2}; every filler is a piece of text.  The programs share one preamble that declares a type,
constants, variables, arrays, a SUB and FUNCTIONs, so that every filler means something."""

PRE = ['TYPE MyType', '  X AS INTEGER', '  S AS STRING * 4', 'END TYPE', 'CONST MyConst = 5', 'DIM Arr(3), ArrS$(3), N%, S$, D#',
       'DIM Rec AS MyType', 'DIM RecArr(2) AS MyType', 'N% = 1', 'S$ = "ab"']
POST = ['END', 'MyLabel:', 'RESUME NEXT', 'SUB MySub (P%)', 'END SUB', 'SUB MyArrSub (PA())', 'END SUB', 'SUB MyStrArrSub (PS$())', 'END SUB', 'FUNCTION MyFn% (P%)', '  MyFn% = P%', 'END FUNCTION',
        'FUNCTION MyStr$ (P$)', '  MyStr$ = P$', 'END FUNCTION']

# name -> text ; kinds in Slots.tla ("n": fits a name position, "e": fits an expression position)
FILLERS = {
    # variables and parts of variables
    "N%": "N%", "S$": "S$", "D#": "D#", "Arr": "Arr", "Arr(1)": "Arr(1)", "Arr(N%)": "Arr(N%)", "Arr(MyFn%(1))": "Arr(MyFn%(1))",
    "Arr(9)": "Arr(9)", "Arr(1,1)": "Arr(1, 1)", "Arr()": "Arr()", "ArrS$(1)": "ArrS$(1)", "Rec": "Rec", "Rec.X": "Rec.X", "Rec.S": "Rec.S",
    "Rec.Q": "Rec.Q", "RecArr(1).X": "RecArr(1).X", "RecArr(MyFn%(1)).X": "RecArr(MyFn%(1)).X", "RecArr(1)": "RecArr(1)", "RecArr": "RecArr",
    "N%.X": "N%.X", "A.B.C": "A.B.C", "Undef": "Undef", "Undef%": "Undef%", "Undef(1)": "Undef(1)", "Undef$(1)": "Undef$(1)", "Undef.X": "Undef.X",
    "N": "N", "N$": "N$", "S": "S", "S%": "S%",
    # declared things that are not variables
    "MyConst": "MyConst", "MyConst%": "MyConst%", "MySub": "MySub", "MyFn%": "MyFn%", "MyFn": "MyFn", "MyFn%(1)": "MyFn%(1)", "MyFn%(1,2)": "MyFn%(1, 2)",
    "MyFn%()": "MyFn%()", "MyStr$(S$)": "MyStr$(S$)", "MyStr$(1)": "MyStr$(1)", "MyType": "MyType", "MyLabel": "MyLabel",
    # built-in function names: bare, qualified, called
    "Str": "Str", "Chr": "Chr", "Len": "Len", "Mid": "Mid", "Val": "Val", "Eof": "Eof", "Err": "Err", "Inkey": "Inkey", "Environ": "Environ",
    "Lbound": "Lbound", "String": "String", "Space": "Space", "Str$": "Str$", "Chr$": "Chr$", "Mid$": "Mid$", "Inkey$": "Inkey$", "Err%": "Err%",
    "Len(S$)": "Len(S$)", "Len(N%)": "Len(N%)", "Len(1)": "Len(1)", "Str$(1)": "Str$(1)", "Str$(S$)": "Str$(S$)", "Chr$(65)": "Chr$(65)",
    "Chr$(999)": "Chr$(999)", "Mid$(S$,1)": "Mid$(S$, 1)", "Mid$(S$,0)": "Mid$(S$, 0)", "Mid$(S$,1,2,3)": "Mid$(S$, 1, 2, 3)", "Val(S$)": "Val(S$)",
    "Val(1)": "Val(1)", "Eof(1)": "Eof(1)", "Eof(S$)": "Eof(S$)", "Lbound(Arr)": "Lbound(Arr)", "Ubound(Arr,1)": "Ubound(Arr, 1)",
    "Ubound(Arr,5)": "Ubound(Arr, 5)", "Lbound(N%)": "Lbound(N%)", "Instr(S$,\"a\")": 'Instr(S$, "a")', "Instr(0,S$,\"a\")": 'Instr(0, S$, "a")',
    "Varptr(N%)": "Varptr(N%)", "Varptr(1)": "Varptr(1)", "Varseg(Arr(1))": "Varseg(Arr(1))", "Peek(0)": "Peek(0)", "Cvd(S$)": "Cvd(S$)",
    "Mkd$(1)": "Mkd$(1)", "Left$(S$,-1)": "Left$(S$, -1)", "Right$(S$,1)": "Right$(S$, 1)", "Space$(-1)": "Space$(-1)", "String$(2,\"\")": 'String$(2, "")',
    "Ucase$(S$)": "Ucase$(S$)", "Ltrim$(1)": "Ltrim$(1)", "Environ$(\"A\")": 'Environ$("A")', "Environ$(1)": "Environ$(1)",
    # built-in statement names and keywords where a name is expected
    "Cls": "Cls", "Beep": "Beep", "Close": "Close", "Name": "Name", "Kill": "Kill", "Field": "Field", "Get": "Get", "Open": "Open", "Input": "Input",
    "Line": "Line", "View": "View", "Width": "Width", "Locate": "Locate", "Poke": "Poke", "Def": "Def", "Seg": "Seg", "Read": "Read", "Data": "Data",
    "Lset": "Lset", "End": "End", "Next": "Next", "Sub": "Sub", "Function": "Function", "Type": "Type", "As": "As", "To": "To", "Step": "Step",
    "Then": "Then", "Else": "Else", "Case": "Case", "Is": "Is", "Select": "Select", "Loop": "Loop", "Until": "Until", "While": "While", "Wend": "Wend",
    "Dim": "Dim", "Shared": "Shared", "Static": "Static", "Const": "Const", "Declare": "Declare", "Goto": "Goto", "Gosub": "Gosub", "Return": "Return",
    "On": "On", "Error": "Error", "Resume": "Resume", "Exit": "Exit", "Print": "Print", "Using": "Using", "And": "And", "Not": "Not", "Mod": "Mod",
    "Integer": "Integer", "String$": "String$", "Access": "Access", "Random": "Random", "Output": "Output", "Append": "Append", "Rem": "Rem",
    # literals and expressions
    "1": "1", "0": "0", "-1": "-1", "2.5": "2.5", "32768": "32768", "99999999999": "99999999999", "&HFF": "&HFF", "&H": "&H", "1E5": "1E5", "1.": "1.",
    ".5": ".5", "1#": "1#", "\"s\"": '"s"', "\"\"": '""', "\"s": '"s', "(1)": "(1)", "((1))": "((1))", "(": "(", ")": ")", "1 +": "1 +", "+ 1": "+ 1",
    "N% + 1": "N% + 1", "N% = 1": "N% = 1", "\"a\" + \"b\"": '"a" + "b"', "S$ + 1": "S$ + 1", "-N%": "-N%", "NOT N%": "NOT N%", "1, 2": "1, 2",
    "1; 2": "1; 2", "1 / 0": "1 / 0", "N% MOD 0": "N% MOD 0", "1 AND S$": "1 AND S$", "S$ < \"b\"": 'S$ < "b"', "1 < S$": "1 < S$", "#1": "#1",
    "7 MOD .4": "7 MOD .4", "7 MOD 0": "7 MOD 0", ".4": ".4", "1 / .0000001": "1 / .0000001", "2 ^ 2": "2 ^ 2", "1 \\ 2": "1 \\ 2", "N% AND": "N% AND",
    "Arr(1 TO 2)": "Arr(1 TO 2)", "1 TO": "1 TO", "(1 TO 2)": "(1 TO 2)", "N% * 99999": "N% * 99999", "32767 + N%": "32767 + N%",
    "8": "8", "80": "80", "25": "25", "F$": "F$", "A": "A", "Z": "Z", "X": "X", "Qq": "Qq", "Pq%": "Pq%", "\"T.TXT\"": '"T.TXT"', "\"##\"": '"##"',
    "\"abc\"+Chr$(200)": '"abc" + Chr$(200) + "z"', "Chr$(200)+\"abcd\"": 'Chr$(200) + "abcd"', "String$(5,200)": "String$(5, 200)",
    "\"aé\"": '"a\u00e9bcd"',
    "Pa() AS MyType": "Pa() AS MyType", "Pr AS MyType": "Pr AS MyType", "Pi() AS INTEGER": "Pi() AS INTEGER", "Ps$()": "Ps$()",
    "Pn AS LONG": "Pn AS LONG", "Pu AS Undef": "Pu AS Undef", "Pq%()": "Pq%()",
    "#99999999999": "#99999999999", "#256": "#256", "#0": "#0", "#-1": "#-1", "#1.5": "#1.5", "#N%": "#N%", "#": "#", "#Arr(1)": "#Arr(1)", "#Rec.X": "#Rec.X", "#(1)": "#(1)", "#1 + 1": "#1 + 1", "#MyConst": "#MyConst",
    "#S$": "#S$", "#D#": "#D#", "c": "c", "x": "x", "z": "z", "-5": "-5", "32768": "32768",
    "(Arr())": "(Arr())", "ArrS$()": "ArrS$()", "RecArr()": "RecArr()", "Arr(1)()": "Arr(1)()",
    "FxArr()": "FxArr()", "(FxArr())": "(FxArr())", "FxArr(1)": "FxArr(1)",
    "My.Const": "My.Const", "My.Const%": "My.Const%", "MY.CONST": "MY.CONST", "My.Const.X": "My.Const.X",
    "VARPTR": "VARPTR", "VARSEG": "VARSEG", "LEN": "LEN", "MID$": "MID$", "CHR$": "CHR$", "EOF": "EOF", "PEEK": "PEEK", "INSTR": "INSTR",
    "UBOUND": "UBOUND", "CVD": "CVD", "MKD$": "MKD$", "VAL": "VAL", "STR$": "STR$", "VARPTR()": "VARPTR()", "LEN()": "LEN()",
    "Qf": "Qf", "Qf%": "Qf%", "Qf!": "Qf!", "Qg": "Qg", "Qg$": "Qg$",
    "QQ": "QQ", "A.B$": "A.B$", "Rec.X%": "Rec.X%", "Undef.X$": "Undef.X$", "Rec.S$": "Rec.S$", "&O8": "&O8", "&o17": "&o17", "2#": "2#",
    "": "", " ": " ", ":": ":", "'": "'", ",": ",", ";": ";", "=": "=", "1 TO 2": "1 TO 2", "-": "-", "- -1": "- -1", "(N%": "(N%", "N%)": "N%)",
}

TEMPLATES = {
    "assign": ["{1} = {2}"], "let": ["LET {1} = {2}"], "print": ["PRINT {1}"], "print2": ["PRINT {1}; {2}"], "print-using": ["PRINT USING {1}; {2}"],
    "print-file": ['OPEN "T.TXT" FOR OUTPUT AS #1', "PRINT #1, {1}"], "lprint": ["LPRINT {1}"], "bare": ["{1}"], "call1": ["{1} {2}"],
    "call-kw": ["CALL {1}({2})"], "dim": ["DIM {1}"], "dim-arr": ["DIM {1}({2})"], "dim-as": ["DIM {1} AS {2}"], "dim-shared": ["DIM SHARED {1}"],
    "redim": ["REDIM {1}({2})"], "redim-bare": ["REDIM {1}"], "redim-as": ["REDIM {1} AS {2}"], "redim-shared": ["REDIM SHARED {1}({2})"],
    "dim-shared-arr": ["DIM SHARED {1}({2})"], "dim-arr-as": ["DIM {1}(2) AS {2}"], "dim-two": ["DIM {1}, {2}"], "dim-to": ["DIM Qz({1} TO {2})"],
    "const-two": ["CONST {1} = 1, {2} = 2"], "static-decl": ["STATIC {1}"], "shared-decl": ["SHARED {1}"], "erase": ["ERASE {1}"],
    "print-semi": ["PRINT {1};"], "print-comma": ["PRINT {1},"], "print-tab": ["PRINT TAB({1}); {2}"], "print-spc": ["PRINT SPC({1}); 1"],
    "while-wend-var": ["WHILE {1}", "WEND {2}"], "if-else-line": ["IF {1} THEN PRINT 1 ELSE {2}"], "on-goto": ["ON {1} GOTO {2}"],
    "mid-stmt": ["MID$({1}, 1) = {2}"], "swap": ["SWAP {1}, {2}"], "let-only": ["LET {1}"], "end-kw": ["END {1}"], "data-read2": ["DATA {1}", "READ S$"], "const": ["CONST {1} = {2}"], "if-line": ["IF {1} THEN {2}"], "if-block": ["IF {1} THEN", "END IF"],
    "elseif": ["IF 0 THEN", "ELSEIF {1} THEN", "END IF"], "while": ["WHILE {1}", "N% = 0: S$ = \"\"", "WEND"], "do-while": ["DO WHILE {1}", "EXIT DO", "LOOP"],
    "loop-until": ["DO", "LOOP UNTIL {1}"], "for-var": ["FOR {1} = 1 TO 2", "NEXT"], "for-bounds": ["FOR I% = {1} TO {2}", "NEXT"],
    "for-step": ["FOR I% = 1 TO 2 STEP {1}", "NEXT"], "next-var": ["FOR I% = 1 TO 2", "NEXT {1}"], "select": ["SELECT CASE {1}", "CASE {2}", "END SELECT"],
    "case-range": ["SELECT CASE N%", "CASE {1} TO {2}", "END SELECT"], "case-is": ["SELECT CASE N%", "CASE IS > {1}", "END SELECT"],
    "goto": ["GOTO {1}"], "gosub": ["GOSUB {1}"], "on-error": ["ON ERROR GOTO {1}"], "resume": ["RESUME {1}"], "return": ["RETURN {1}"],
    "label": ["{1}:"], "input": ["INPUT {1}"], "input2": ["INPUT {1}, {2}"], "line-input": ["LINE INPUT {1}"], "read": ["DATA 1, 2", "READ {1}"],
    "data": ["DATA {1}", "READ N%"], "open": ["OPEN {1} FOR INPUT AS #1"], "open-len": ['OPEN "R.DAT" FOR RANDOM AS #1 LEN = {1}'],
    "open-num": ['OPEN "T.TXT" FOR OUTPUT AS {1}'], "close": ["CLOSE {1}"], "field": ['OPEN "R.DAT" FOR RANDOM AS #1 LEN = 8', "FIELD #1, {1} AS {2}", "GET #1, 1"],
    "lset": ['OPEN "R.DAT" FOR RANDOM AS #1 LEN = 8', "FIELD #1, 8 AS F$", "LSET {1} = {2}", "PUT #1, 1"], "get": ['OPEN "R.DAT" FOR RANDOM AS #1 LEN = 8', "FIELD #1, 8 AS F$", "GET #1, {1}"],
    "input-file": ['OPEN "IN.TXT" FOR INPUT AS #1', "INPUT #1, {1}"], "line-input-file": ['OPEN "IN.TXT" FOR INPUT AS #1', "LINE INPUT #1, {1}"],
    "name": ["NAME {1} AS {2}"], "kill": ["KILL {1}"], "environ": ["ENVIRON {1}"], "poke": ["POKE {1}, {2}"], "def-seg": ["DEF SEG = {1}", "PRINT PEEK(0)"],
    "locate": ["LOCATE {1}, {2}"], "color": ["COLOR {1}, {2}"], "width": ["WIDTH {1}, {2}"], "view-print": ["VIEW PRINT {1} TO {2}"], "exit": ["EXIT {1}"],
    "defint": ["DEFINT {1}-{2}"], "member-assign": ["{1}.{2} = 1"], "elem-assign": ["{1}({2}) = 1"], "elem-member-assign": ["{1}({2}).X = 1"],
    "elem-print": ["PRINT {1}({2})"], "elem-member-print": ["PRINT {1}({2}).X"], "two-subscripts": ["N% = {1}({2}, {2})"], "swap-assign": ["{1} = {1} + {2}"],
    "field-two": ['OPEN "R.DAT" FOR RANDOM AS #1 LEN = 8', "FIELD #1, {1} AS F$", "FIELD #1, {2} AS G$, 4 AS H$", "GET #1, 1", "PRINT F$; G$; H$"],
    "dotted-const-assign": ["CONST My.Const = 1", "{1} = 2"], "dotted-const-input": ["CONST My.Const = 1", "READ {1}", "DATA 5"],
    "arr-arg": ["MyArrSub {1}"], "str-arr-arg": ["DIM FxArr(2) AS STRING * 3", "MyStrArrSub {1}"], "close-n": ["CLOSE {1}"], "print-n": ["PRINT {1}, 1"], "input-n": ["INPUT {1}, N%"], "get-n": ["GET {1}, 1"],
    "line-input-n": ["LINE INPUT {1}, S$"], "put-n": ["PUT {1}, 1"], "field-n": ["FIELD {1}, 4 AS F$"], "print-using-n": ['PRINT {1}, USING "#"; 1'],
    "fixed-const-len": ["CONST Kc = {1}", "DIM Fq AS STRING * Kc", "Fq = \"abc\"", "PRINT Fq; LEN(Fq)"],
    "fixed-const-len-type": ["CONST Kc = {1}", "DIM Fr(2) AS STRING * Kc", "PRINT LEN(Fr(1))"],
    "fixed-const-len-arr": ["CONST Kc% = {1}", "REDIM Fs(2) AS STRING * Kc%", "PRINT LEN(Fs(1))"],
    "eof-n": ["PRINT EOF({1})"], "open-as-n": ['OPEN "T.TXT" FOR OUTPUT AS {1}', "CLOSE"],
    "fixed-member": ["Rec.S = {1}", "PRINT Rec.S; LEN(Rec.S)"], "fixed-var": ["DIM Fx AS STRING * 3", "Fx = {1}", "PRINT Fx; LEN(Fx)"],
    "fixed-lset": ['OPEN "R.DAT" FOR RANDOM AS #1 LEN = 4', "FIELD #1, 4 AS F$", "LSET F$ = {1}", "PRINT F$; LEN(F$)"],
    "using-field": ['PRINT USING "\\ \\"; {1}'], "using-bang": ['PRINT USING "!"; {1}'], "fixed-input": ["INPUT Rec.S", "PRINT Rec.S; {1}"],
    "byref-arg": ["MySub {1}"], "byref-fn-arg": ["PRINT MyFn%({1})"], "nested": ["PRINT LEN(STR$(({1}))) + {2}"],
}
DECL_TEMPLATES = {
    # declarations go after the main module
    "function-assign": ["FUNCTION Qf% (Pz%)", "  {1} = {2}", "  {1} = 2", "  Pz% = {1}", "END FUNCTION"],
    "function-assign-s": ["FUNCTION Qg$ (Pz%)", "  {1} = {2}", '  {1} = {1} + "x"', "END FUNCTION"],
    "sub-decl": ["SUB {1} ({2})", "END SUB"], "function-decl": ["FUNCTION {1} ({2})", "END FUNCTION"], "declare": ["DECLARE SUB {1} ({2})"],
    "type-decl": ["TYPE {1}", "  {2} AS INTEGER", "END TYPE"], "type-two": ["TYPE Tq2", "  {1} AS INTEGER", "  {2} AS STRING * 2", "END TYPE"], "type-member": ["TYPE Tq", "  Q AS {1}", "END TYPE"],
}
FILES = {"IN.TXT": "12,abc\r\nline two\r\n"}

# the fillers that make each two-slot template a well-formed statement: every filler is tried in each slot with the
# natural partner in the other slot (besides the pairs with a Core filler, which are sampled)
NATURAL = {
    "assign": ("N%", "1"), "let": ("N%", "1"), "print2": ("N%", "S$"), "print-using": ('"##"', "1"), "call1": ("MySub", "1"), "call-kw": ("MySub", "1"),
    "dim-arr": ("Qq", "1"), "dim-as": ("Qq", "Integer"), "redim": ("Qq", "1"), "const": ("Qq", "1"), "if-line": ("1", "Cls"), "for-bounds": ("1", "1"),
    "select": ("N%", "1"), "case-range": ("0", "1"), "input2": ("N%", "S$"), "field": ("8", "F$"), "lset": ("F$", '"s"'), "name": ('"T.TXT"', '"s"'),
    "poke": ("Varptr(N%)", "1"), "field-two": ("8", "8"), "locate": ("1", "1"), "color": ("1", "0"), "width": ("80", "25"), "view-print": ("1", "25"), "defint": ("A", "Z"),
    "member-assign": ("Rec", "X"), "elem-assign": ("Arr", "1"), "elem-member-assign": ("RecArr", "1"), "elem-print": ("Arr", "1"),
    "elem-member-print": ("RecArr", "1"), "two-subscripts": ("Arr", "1"), "swap-assign": ("N%", "1"), "nested": ("1", "1"),
    "redim-as": ("Qq", "Integer"), "redim-shared": ("Qq", "1"), "dim-shared-arr": ("Qq", "1"), "dim-arr-as": ("Qq", "Integer"), "dim-two": ("Qq", "Pq%"),
    "dim-to": ("1", "8"), "const-two": ("Qq", "Pq%"), "print-tab": ("1", "1"), "while-wend-var": ("0", ""), "if-else-line": ("1", "Cls"),
    "on-goto": ("1", "MyLabel"), "mid-stmt": ("S$", '"s"'), "swap": ("N%", "N%"),
    "function-assign": ("Qf", "1"), "function-assign-s": ("Qg", '"s"'), "sub-decl": ("Qq", "Pq%"), "function-decl": ("Qq", "Pq%"), "declare": ("Qq", "Pq%"), "type-decl": ("Qq", "X"), "type-two": ("Qq", "X"),
}


def stratified(sl, rng, n_random):
    """every one-slot case, every filler in each slot of a two-slot template with the natural partner, plus a random sample"""
    must, rest = [], []
    for (t, a, b) in sl:
        nat = NATURAL.get(t)
        if nat is None or a == nat[0] or b == nat[1]:
            must.append((t, a, b))
        else:
            rest.append((t, a, b))
    rng.shuffle(rest)
    return must + rest[:n_random]


def program(tname, f1, f2):
    if tname in DECL_TEMPLATES:
        lines = [l.replace("{1}", FILLERS[f1]).replace("{2}", FILLERS[f2]) for l in DECL_TEMPLATES[tname]]
        if tname in ("type-decl", "type-member", "type-two", "declare"):
            return "\r\n".join(lines + PRE + ['PRINT "end"'] + POST) + "\r\n"
        return "\r\n".join(PRE + ['PRINT "end"'] + POST + lines) + "\r\n"
    lines = [l.replace("{1}", FILLERS[f1]).replace("{2}", FILLERS[f2]) for l in TEMPLATES[tname]]
    return "\r\n".join(PRE + lines + ['PRINT "end"'] + POST) + "\r\n"


def enumerate_slots(metadir, timeout=1800):
    """TLC enumerates Slots.tla -> (list of (template, filler1, filler2), distinct states, generated states, cmd)"""
    from tlc import run_tlc
    from common import ToolError
    res = run_tlc("Slots.tla", "Slots.cfg", metadir, timeout=timeout, workers=8)
    if res.timed_out or not res.ok:
        raise ToolError("TLC failed enumerating Slots.tla:\n%s" % res.violation)
    out = []
    known_t = set(TEMPLATES) | set(DECL_TEMPLATES)
    for ln in res.printed:
        if ln.startswith("SLOT "):
            t, a, b = ln[5:].split("\t")
            if t not in known_t or a not in FILLERS or b not in FILLERS:
                raise ToolError("Slots.tla and lib/slots.py are out of step: %r" % ln)
            out.append((t, a, b))
    return out, res.distinct, res.generated, res.cmd
