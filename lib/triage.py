"""development helper: summarise the mismatches of a core-style check"""
import sys, json, collections
sys.path.insert(0, '/verif/lib'); sys.path.insert(0, '/verif/lib/props')
from common import text_of, seed
from pool import Pool
from corecheck import CoreRun


def summarize(cases, limit=3):
    groups = collections.defaultdict(list)
    for c in cases:
        if c.get("verdict") != "mismatch":
            continue
        e, o = c["expected"], c["obs"]
        key = (c["fam"].split("/")[0].split(":")[0], "exp=%s/%s" % (e["status"], e["code"]), "obs=%s/%s" % (o["status"], o.get("code")),
               "out_same" if e["out"] == o["out"] else "out_diff")
        groups[key].append(c)
    for key, l in sorted(groups.items(), key=lambda kv: -len(kv[1])):
        print("==", key, len(l))
        for c in l[:limit]:
            print("   fam:", c["fam"])
            print("   text:", c["text"].replace("\r\n", " | ")[:400])
            print("   exp:", repr(text_of(c["expected"]["out"]))[:200], c["expected"]["status"], c["expected"]["code"], c["expected"]["estmt"])
            o = c["obs"]
            print("   obs:", repr(text_of(o["out"]))[:200], o["status"], o.get("code"), o.get("estmt"), o.get("dbg", ""), o.get("panic", ""), o.get("error", ""))


if __name__ == "__main__":
    import importlib
    mod = importlib.import_module(sys.argv[1])
    tier = sys.argv[2] if len(sys.argv) > 2 else "quick"
    cases = mod.cases(tier, seed())
    if len(sys.argv) > 3:
        cases = [c for c in cases if c["fam"].startswith(sys.argv[3])]
    cr = CoreRun("TRIAGE", Pool())
    cr.execute(cases)
    cr.validate(cases)
    print(collections.Counter(c["verdict"] for c in cases))
    summarize(cases)
