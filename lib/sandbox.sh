#!/bin/bash
# sandbox.sh <dir> : a private copy of /verif bound to a private worktree of /repo, for running seeded changes
# and reverted fixes without touching /repo.  Remove with: git -C /repo worktree remove --force <dir>/repo; rm -rf <dir>
set -e
D=$1
mkdir -p $D
git -C /repo worktree add --detach $D/repo HEAD >/dev/null
rsync -a --exclude out --exclude harness/target --exclude .git /verif/ $D/verif/
sed -i "s#/repo/#$D/repo/#g" $D/verif/harness/Cargo.toml
(cd $D/verif/harness && cargo build 2>&1 | tail -1)
echo "sandbox ready: SEEDED_REPO=$D/repo python3 $D/verif/lib/seeded.py run <name> <checks>"
