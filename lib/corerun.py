"""Generic runner for the properties decided through Core.tla / Trace_Core.tla."""
import json
from common import seed, text_of
from pool import Pool
from corecheck import CoreRun, describe
from report import Reporter
import features


def run_property(pid, cases_fn, tier, replay, rule, assumptions, nontrivial=None, post=None, budget=200000, extra=None, extra_req=None):
    rep = Reporter(pid, tier, "model_checking")
    pool = Pool()
    if replay:
        with open(replay) as f:
            d = json.load(f)
        cases = [{"id": 1, "fam": d.get("family") or "replay", "prog": d["prog"], "stdin": d.get("stdin", "")}]
    else:
        cases = cases_fn(tier, seed())
    cr = CoreRun(pid, pool, budget=budget)
    cr.execute(cases, extra_req)
    cr.validate(cases)
    n = {"agree": 0, "mismatch": 0, "skip": 0}
    fams = {}
    nt = set()
    steps = 0
    for c in cases:
        n[c["verdict"]] += 1
        fam = c["fam"].split(":")[0]
        fams[fam] = fams.get(fam, 0) + 1
        steps += c.get("spec_steps", 0)
        if c["verdict"] == "agree":
            ok = nontrivial(c) if nontrivial else (len(c["obs"]["out"]) > 0 or c["obs"]["status"] == "err")
            if ok:
                nt.add(c["text"])
        if c["verdict"] == "mismatch":
            rep.violation(describe(c), features.of_case(c), name=fam)
    if post:
        post(cases, rep, pool)
    ex = extra(rep, pool, tier) if (extra and not replay) else {}
    samples = []
    for c in cases[:: max(1, len(cases) // 4)][:4]:
        samples.append({"family": c["fam"], "text": c["text"], "observed_out": text_of(c["obs"]["out"]),
                        "observed_status": c["obs"]["status"], "verdict": c["verdict"]})
    coverage = {
        "states": cr.states + ex.get("states", 0), "transitions": cr.transitions + ex.get("transitions", 0),
        "traces_validated_against_impl": n["agree"] + n["mismatch"] + ex.get("validated", 0),
        "samples": samples,
        "evaluations": len(cases), "distinct_nontrivial": len(nt),
        "rule": rule,
        "verdicts": n, "families": fams,
        "skipped_outside_modelled_domain_or_fuel": n["skip"],
        "spec_steps_of_agreeing_runs": steps,
        "checker_cmd": cr.cmds[0] if cr.cmds else "",
        "exhaustive": False,
    }
    if ex.get("info"):
        coverage.update(ex["info"])
    if replay:
        for c in cases:
            print("replay verdict:", c["verdict"])
            if c["verdict"] == "mismatch":
                print(" expected:", repr(text_of(c["expected"]["out"])), c["expected"]["status"], c["expected"]["code"])
                print(" observed:", repr(text_of(c["obs"]["out"])), c["obs"]["status"], c["obs"].get("code"))
    return rep.finish(coverage, assumptions)
