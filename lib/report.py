"""Violations, known findings, evidence files, exit codes."""
import json, os, sys, time
from common import ROOT, EVIDENCE, out_dir, seed, dumps

KF_PATH = os.path.join(ROOT, "known_findings.json")


def load_findings(pid):
    if not os.path.exists(KF_PATH):
        return []
    with open(KF_PATH) as f:
        data = json.load(f)
    return [e for e in data.get("findings", []) if e.get("property") == pid]


def match_finding(entry, feats):
    """An entry matches when all its required features are present in the case."""
    need = entry.get("match", {}).get("all", [])
    absent = entry.get("match", {}).get("none", [])
    return bool(need) and all(x in feats for x in need) and not any(x in feats for x in absent)


class Reporter:
    def __init__(self, pid, tier, level):
        self.pid = pid
        self.tier = tier
        self.level = level
        self.t0 = time.time()
        self.findings = [] if os.environ.get("VERIF_NOKF") else load_findings(pid)     # VERIF_NOKF: development aid (triage of listed findings)
        self.hit = {}            # finding id -> count
        self.violations = []     # replay paths
        self.samples = []
        self.nviol = 0
        import shutil
        shutil.rmtree(os.path.join(out_dir(pid), "replay"), ignore_errors=True)

    def violation(self, case_desc, feats=(), name=None):
        """Registers a candidate violation; returns True when it is an unlisted one."""
        for e in self.findings:
            if match_finding(e, feats):
                self.hit[e["id"]] = self.hit.get(e["id"], 0) + 1
                return False
        self.nviol += 1
        if len(self.violations) < int(os.environ.get("VERIF_MAXREPLAY", "40")):
            d = out_dir(self.pid, "replay")
            import re
            path = os.path.join(d, "%s_%03d.json" % (re.sub(r"[^A-Za-z0-9_.+:=,-]", "_", name or "case")[:80], self.nviol))
            case_desc = dict(case_desc)
            case_desc["property"] = self.pid
            case_desc["features"] = sorted(feats)
            case_desc["repro_cmd"] = "./check %s --replay %s" % (self.pid, os.path.relpath(path, ROOT))
            with open(path, "w") as f:
                json.dump(case_desc, f, indent=1)
            self.violations.append(os.path.relpath(path, ROOT))
        return True

    def finish(self, coverage, assumptions, extra=None):
        ev = {"property_id": self.pid, "tier": self.tier, "seed": seed(), "level": self.level,
              "coverage": coverage, "assumptions": assumptions,
              "wall_s": round(time.time() - self.t0, 2), "violations": self.nviol}
        if self.hit:
            ev["known_findings_hit"] = self.hit
        if extra:
            ev.update(extra)
        os.makedirs(EVIDENCE, exist_ok=True)
        with open(os.path.join(EVIDENCE, self.pid + ".json"), "w") as f:
            json.dump(ev, f, indent=1)
        for e in self.findings:
            if e["id"] in self.hit:
                print("KNOWN-FINDING: property=%s %s (%d cases this run)" % (self.pid, e["what"], self.hit[e["id"]]))
        for p in self.violations:
            print("VIOLATION property=%s replay=%s" % (self.pid, p))
        if self.nviol > len(self.violations):
            print("(%d further violations not written out)" % (self.nviol - len(self.violations)))
        sys.stdout.flush()
        return 1 if self.nviol else 0
