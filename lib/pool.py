"""A pool of long-lived `rbverif serve` workers speaking ndjson.

A worker that dies (stack overflow, abort) or hangs is data about the case it
was running: the case gets {"abort": ...} or {"timeout": true} and the worker is
restarted.
"""
import json, os, select, subprocess, threading, queue, time
from common import BIN, NCPU, ToolError


class Worker:
    def __init__(self, env=None):
        self.env = env
        self.p = None
        self.buf = b""
        self.start()

    def start(self):
        env = dict(os.environ)
        if self.env:
            env.update(self.env)
        self.p = subprocess.Popen([BIN, "serve"], stdin=subprocess.PIPE, stdout=subprocess.PIPE,
                                  stderr=subprocess.DEVNULL, env=env, bufsize=0)
        self.buf = b""

    def kill(self):
        try:
            self.p.kill()
            self.p.wait(timeout=5)
        except Exception:
            pass

    def call(self, req, timeout):
        line = (json.dumps(req) + "\n").encode()
        try:
            self.p.stdin.write(line)
            self.p.stdin.flush()
        except (BrokenPipeError, OSError):
            rc = self.p.poll()
            self.kill()
            self.start()
            return {"abort": True, "rc": rc}
        deadline = time.time() + timeout
        fd = self.p.stdout.fileno()
        while True:
            nl = self.buf.find(b"\n")
            if nl >= 0:
                out = self.buf[:nl]
                self.buf = self.buf[nl + 1:]
                try:
                    return json.loads(out)
                except ValueError:
                    return {"error": "bad response", "raw": out[:200].decode("latin1")}
            left = deadline - time.time()
            if left <= 0:
                self.kill()
                self.start()
                return {"timeout": True}
            r, _, _ = select.select([fd], [], [], min(left, 1.0))
            if r:
                chunk = os.read(fd, 1 << 16)
                if not chunk:
                    rc = self.p.wait()
                    self.start()
                    return {"abort": True, "rc": rc}
                self.buf += chunk


class Pool:
    def __init__(self, n=None, env=None):
        if not os.path.exists(BIN):
            raise ToolError("harness binary missing: " + BIN)
        self.n = n or max(2, NCPU - 2)
        self.env = env

    def map(self, reqs, timeout=20.0, progress=None):
        """Runs all requests; returns the responses in order."""
        reqs = list(reqs)
        res = [None] * len(reqs)
        q = queue.Queue()
        for i, r in enumerate(reqs):
            q.put((i, r))
        done = [0]
        lock = threading.Lock()

        def run():
            w = Worker(self.env)
            try:
                while True:
                    try:
                        i, r = q.get_nowait()
                    except queue.Empty:
                        return
                    res[i] = w.call(r, timeout)
                    if progress:
                        with lock:
                            done[0] += 1
                            if done[0] % 5000 == 0:
                                progress(done[0], len(reqs))
            finally:
                w.kill()

        threads = [threading.Thread(target=run, daemon=True) for _ in range(min(self.n, max(1, len(reqs))))]
        for t in threads:
            t.start()
        for t in threads:
            t.join()
        # a request that ran into the wall clock while the machine was busy with the other requests is asked once more, on its
        # own and with three times the time (at most 24 of them): only what is slow on an idle machine too counts as a timeout
        late = [i for i, r in enumerate(res) if isinstance(r, dict) and r.get("timeout")]
        if 0 < len(late) <= 24:
            w = Worker(self.env)
            try:
                for i in late:
                    res[i] = w.call(reqs[i], timeout * 3)
            finally:
                w.kill()
        return res
