#!/bin/bash
# sbsync.sh <dir> : bring a sandbox made by sandbox.sh up to date with /verif (working tree) and /repo (HEAD), keeping the
# seeded/*/meta.json of the sandbox (results of runs made there are merged back with seeded_merge.py)
set -e
D=$1
git -C $D/repo checkout -q --detach $(git -C /repo rev-parse HEAD)
rsync -a --exclude out --exclude harness/target --exclude .git --exclude 'seeded/*/meta.json' --exclude 'seeded/*/caught_by_*' /verif/ $D/verif/
rsync -a --ignore-existing /verif/seeded/ $D/verif/seeded/
sed -i "s#\"/repo/#\"$D/repo/#g; s#= \"/repo/#= \"$D/repo/#g" $D/verif/harness/Cargo.toml
grep -c "$D/repo" $D/verif/harness/Cargo.toml
(cd $D/verif/harness && cargo build 2>&1 | tail -1)
