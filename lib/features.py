"""Structural features of a case, used only to recognise listed known findings."""
from mast import walk_stmts, all_stmts


def exprs_of_stmt(s):
    k = s["k"]
    if k == "let":
        yield s["e"]
        yield s["lhs"]
    elif k == "print":
        for it in s["items"]:
            if it["k"] == "e":
                yield it["e"]
    elif k == "if":
        for a in s["arms"]:
            yield a["c"]
    elif k == "select":
        yield s["e"]
    elif k == "for":
        yield s["lo"]
        yield s["hi"]
        yield s["step"]
    elif k in ("while", "do"):
        yield s["c"]
    elif k == "call":
        yield from s["args"]


def walk_expr(e):
    yield e
    k = e.get("k")
    if k in ("un", "par"):
        yield from walk_expr(e["e"])
    elif k == "bin":
        yield from walk_expr(e["l"])
        yield from walk_expr(e["r"])
    elif k in ("idx",):
        for x in e["subs"]:
            yield from walk_expr(x)
    elif k in ("fcall", "bcall"):
        for x in e["args"]:
            yield from walk_expr(x)


def of_prog(p):
    f = set()
    for s in all_stmts(p):
        f.add("stmt:" + s["k"])
        if s["k"] == "for" and s.get("hasstep"):
            f.add("for-step")
            for inner in walk_stmts(s["body"]):
                if inner["k"] in ("if", "select", "for", "while", "do"):
                    f.add("block-in-for-step")
        for e in exprs_of_stmt(s):
            for x in walk_expr(e):
                if x.get("k") == "bin":
                    f.add("op:" + x["op"])
    return f


def of_case(c):
    f = of_prog(c["prog"]) if "prog" in c else set()
    o = c.get("obs", {})
    f.add("observed:" + str(o.get("status")))
    if o.get("status") == "panic":
        p = o.get("panic", {})
        f.add("panic_at:" + str(p.get("loc", "")).replace("/repo/", ""))
    e = c.get("expected")
    if e:
        f.add("expected:" + str(e.get("status")))
        if e.get("status") == "err":
            f.add("expected_code:%s" % e.get("code"))
    return f
