"""Structural features of a case, used only to recognise listed known findings."""
from mast import walk_stmts, all_stmts


def exprs_of_stmt(s):
    k = s["k"]
    if k == "let":
        yield s["e"]
        yield s["lhs"]
    elif k == "print":
        for it in s["items"]:
            if it["k"] == "e":
                yield it["e"]
    elif k == "if":
        for a in s["arms"]:
            yield a["c"]
    elif k == "select":
        yield s["e"]
    elif k == "for":
        yield s["lo"]
        yield s["hi"]
        yield s["step"]
    elif k in ("while", "do"):
        yield s["c"]
    elif k == "call":
        yield from s["args"]


def walk_expr(e):
    yield e
    k = e.get("k")
    if k in ("un", "par"):
        yield from walk_expr(e["e"])
    elif k == "bin":
        yield from walk_expr(e["l"])
        yield from walk_expr(e["r"])
    elif k in ("idx",):
        for x in e["subs"]:
            yield from walk_expr(x)
    elif k in ("fcall", "bcall"):
        for x in e["args"]:
            yield from walk_expr(x)


def _jumps(stmts, fors, gotos, labels):
    for s in stmts:
        k = s["k"]
        if k in ("goto", "gosub"):
            gotos.append((s["l"], list(fors)))
        elif k == "label":
            labels[s["l"]] = list(fors)
        elif k == "if":
            for a in s["arms"]:
                _jumps(a["body"], fors, gotos, labels)
            _jumps(s["els"], fors, gotos, labels)
        elif k == "select":
            for c in s["cases"]:
                _jumps(c["body"], fors, gotos, labels)
            _jumps(s["els"], fors, gotos, labels)
        elif k == "for":
            _jumps(s["body"], fors + [s["id"]], gotos, labels)
        elif k in ("while", "do"):
            _jumps(s["body"], fors, gotos, labels)


def jump_features(body):
    """goto-out-of-for-into-enclosing-for: a GOTO leaves a FOR body and lands inside an
    enclosing FOR body (the shape of the recorded register-frame leak)"""
    gotos, labels = [], {}
    _jumps(body, [], gotos, labels)
    f = set()
    for l, gstack in gotos:
        if l in labels:
            lstack = labels[l]
            common = 0
            while common < len(gstack) and common < len(lstack) and gstack[common] == lstack[common]:
                common += 1
            if len(gstack) > common and common >= 1 and len(lstack) == common:
                f.add("goto-out-of-for-into-enclosing-for")
            if len(gstack) > common:
                f.add("goto-out-of-for")
    return f


def _blocks(stmts, fors, labels, fails, resumes):
    for s in stmts:
        k = s["k"]
        if s.get("fails"):
            fails.append(list(fors))
        if k == "label":
            labels[s["l"]] = list(fors)
        elif k == "resume" and s.get("mode") == "label":
            resumes.append(s["l"])
        elif k == "if":
            for a in s["arms"]:
                _blocks(a["body"], fors, labels, fails, resumes)
            _blocks(s["els"], fors, labels, fails, resumes)
        elif k == "select":
            for c in s["cases"]:
                _blocks(c["body"], fors, labels, fails, resumes)
            _blocks(s["els"], fors, labels, fails, resumes)
        elif k == "for":
            _blocks(s["body"], fors + [s["id"]], labels, fails, resumes)
        elif k in ("while", "do"):
            _blocks(s["body"], fors, labels, fails, resumes)


def resume_label_features(p):
    """resume-label-leaves-for-into-enclosing-for: a statement marked as the failing one stands in a FOR body (of the module or
    of a procedure) that does not contain the label a RESUME label names, and that label stands inside a FOR body itself (the
    shape of the recorded register-frame leak: the left FOR bodies stay on the machine's stack, the enclosing FOR reads them)"""
    labels, fails, resumes = {}, [], []
    _blocks(p["main"], [], labels, fails, resumes)
    for sp in p.get("subs", []):
        sub_fails = []
        _blocks(sp["body"], ["proc"], {}, sub_fails, [])
        fails += sub_fails
    f = set()
    for l in resumes:
        if l not in labels or not labels[l]:
            continue
        ls = labels[l]
        for fs in fails:
            inner = [x for x in fs if x != "proc"]
            common = 0
            while common < len(inner) and common < len(ls) and inner[common] == ls[common]:
                common += 1
            if len(inner) > common:
                f.add("resume-label-leaves-for-into-enclosing-for")
    return f


def _gosubs(stmts, fors, labels, gosubs, returns):
    for s in stmts:
        k = s["k"]
        if k == "label":
            labels[s["l"]] = list(fors)
        elif k == "gosub":
            gosubs.append(list(fors))
        elif k == "return" and s.get("l"):
            returns.append(s["l"])
        elif k == "if":
            for a in s["arms"]:
                _gosubs(a["body"], fors, labels, gosubs, returns)
            _gosubs(s["els"], fors, labels, gosubs, returns)
        elif k == "select":
            for c in s["cases"]:
                _gosubs(c["body"], fors, labels, gosubs, returns)
            _gosubs(s["els"], fors, labels, gosubs, returns)
        elif k == "for":
            _gosubs(s["body"], fors + [s["id"]], labels, gosubs, returns)
        elif k in ("while", "do"):
            _gosubs(s["body"], fors, labels, gosubs, returns)


def return_label_features(p):
    """return-label-leaves-for-into-enclosing-for: a GOSUB stands in a FOR body that does not contain the label a RETURN label
    names, and that label stands inside a FOR body itself (the same register-frame leak as with RESUME label)"""
    f = set()
    for body in [p["main"]] + [sp["body"] for sp in p.get("subs", [])]:
        labels, gosubs, returns = {}, [], []
        _gosubs(body, [], labels, gosubs, returns)
        for l in returns:
            if l not in labels or not labels[l]:
                continue
            ls = labels[l]
            for gs in gosubs:
                common = 0
                while common < len(gs) and common < len(ls) and gs[common] == ls[common]:
                    common += 1
                if len(gs) > common:
                    f.add("return-label-leaves-for-into-enclosing-for")
    return f


def _vars_in(e):
    return {(x["n"], x["t"]) for x in walk_expr(e) if x.get("k") == "var"}


def call_features(p):
    """byref-subscript-names-earlier-byref-variable: a call passes a plain variable by reference and, further right, an array
    element whose subscript names that variable (the shape of the recorded write-back defect: the subscript is evaluated
    again after the call, when the variable has already got its new value)"""
    f = set()
    lists = []
    for s in all_stmts(p):
        if s["k"] == "call":
            lists.append(s["args"])
        for e in exprs_of_stmt(s):
            for x in walk_expr(e):
                if x.get("k") == "fcall":
                    lists.append(x["args"])
    for args in lists:
        seen = set()
        for a in args:
            if a.get("k") == "idx":
                named = set()
                for sub in a["subs"]:
                    named |= _vars_in(sub)
                if named & seen:
                    f.add("byref-subscript-names-earlier-byref-variable")
            if a.get("k") == "var":
                seen.add((a["n"], a["t"]))
    return f


def _blocks2(stmts, path, labels, fails, resumes, gosubs, returns):
    """like _blocks / _gosubs with SELECT CASE blocks as part of the path (a SELECT keeps its value on the value stack while its
    block runs, as a FOR keeps a register frame)"""
    for s in stmts:
        k = s["k"]
        if s.get("fails"):
            fails.append(list(path))
        if k == "label":
            labels[s["l"]] = list(path)
        elif k == "resume" and s.get("mode") == "label":
            resumes.append(s["l"])
        elif k == "gosub":
            gosubs.append(list(path))
        elif k == "return" and s.get("l"):
            returns.append(s["l"])
        elif k == "if":
            for a in s["arms"]:
                _blocks2(a["body"], path, labels, fails, resumes, gosubs, returns)
            _blocks2(s["els"], path, labels, fails, resumes, gosubs, returns)
        elif k == "select":
            for c in s["cases"]:
                _blocks2(c["body"], path + [s["id"]], labels, fails, resumes, gosubs, returns)
            _blocks2(s["els"], path + [s["id"]], labels, fails, resumes, gosubs, returns)
        elif k == "for":
            _blocks2(s["body"], path + [s["id"]], labels, fails, resumes, gosubs, returns)
        elif k in ("while", "do"):
            _blocks2(s["body"], path, labels, fails, resumes, gosubs, returns)


def leaves_block_features(p):
    """resume-label-leaves-block: a statement marked as the failing one stands in a FOR body / SELECT CASE block (of the module or
    of a procedure) that does not contain the label a RESUME label names; return-label-leaves-block: a GOSUB stands in such a
    block that does not contain the label of a RETURN label.  The shape of the recorded leak as the STACKS see it (C15): what
    the left blocks keep on the register / value stack stays there, wherever the label stands"""
    f = set()
    labels, fails, resumes, gosubs, returns = {}, [], [], [], []
    _blocks2(p["main"], [], labels, fails, resumes, gosubs, returns)
    for sp in p.get("subs", []):
        _blocks2(sp["body"], ["proc"], {}, fails, [], [], [])

    def leaves(src, ls):
        inner = [x for x in src if x != "proc"]
        common = 0
        while common < len(inner) and common < len(ls) and inner[common] == ls[common]:
            common += 1
        return len(inner) > common
    for l in resumes:
        if l in labels and any(leaves(fs, labels[l]) for fs in fails):
            f.add("resume-label-leaves-block")
    for l in returns:
        if l in labels and any(leaves(gs, labels[l]) for gs in gosubs):
            f.add("return-label-leaves-block")
    return f


def of_prog(p):
    f = set()
    f |= leaves_block_features(p)
    f |= jump_features(p["main"])
    f |= resume_label_features(p)
    f |= return_label_features(p)
    f |= call_features(p)
    for sp in p.get("subs", []):
        f |= jump_features(sp["body"])
    for s in all_stmts(p):
        f.add("stmt:" + s["k"])
        if s["k"] == "for" and s.get("hasstep"):
            f.add("for-step")
            for inner in walk_stmts(s["body"]):
                if inner["k"] in ("if", "select", "for", "while", "do"):
                    f.add("block-in-for-step")
        for e in exprs_of_stmt(s):
            for x in walk_expr(e):
                if x.get("k") == "bin":
                    f.add("op:" + x["op"])
    return f


def of_case(c):
    f = of_prog(c["prog"]) if "prog" in c else set()
    o = c.get("obs", {})
    f.add("observed:" + str(o.get("status")))
    if o.get("status") == "panic":
        p = o.get("panic", {})
        f.add("panic_at:" + str(p.get("loc", "")).replace("/repo/", ""))
    e = c.get("expected")
    if e:
        f.add("expected:" + str(e.get("status")))
        if e.get("status") == "err":
            f.add("expected_code:%s" % e.get("code"))
    return f
