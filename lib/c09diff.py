"""dev helper: show first tree difference of a C09 replay file"""
import json,subprocess,sys
sys.path.insert(0,'lib'); sys.path.insert(0,'lib/props')
import run_c09
d=json.load(open(sys.argv[1]))
p=subprocess.Popen(['harness/target/debug/rbverif','serve'],stdin=subprocess.PIPE,stdout=subprocess.PIPE,text=True)
ts=[]
for t in (d['text_a'],d['text_b']):
    p.stdin.write(json.dumps({"op":"run","text":t,"tree":True,"norun":True})+"\n");p.stdin.flush()
    r=json.loads(p.stdout.readline()); ts.append(run_c09.norm_tree(r.get('tree')) or str(r)[:300])
a,b=ts
i=0
while i<min(len(a),len(b)) and a[i]==b[i]: i+=1
print(repr(d['text_a'])); print(repr(d['text_b'])); print(d['features'])
print(a[max(0,i-150):i+250]); print('----'); print(b[max(0,i-150):i+250])
