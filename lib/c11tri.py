"""dev helper: classify C11 mismatches by features"""
import json,sys,collections,os
sys.path.insert(0,'lib'); sys.path.insert(0,'lib/props')
os.environ["VERIF_MAXREPLAY"]="100000"
