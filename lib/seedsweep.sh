#!/bin/bash
# seedsweep.sh <seed> [ids...] : runs the quick tier of the checks with another seed (VERIF_SEED) on the current tree and
# reports what each returned.  A violation under another seed on the unchanged tree is a latent false alarm (or a defect).
seed=$1; shift
ids=${@:-C01 C02 C03 C04 C05 C06 C07 C08 C09 C10 C11 C12 C13 C14 C15 C16 C17 C18 C19 C20}
cd "$(dirname "$0")/.."
for c in $ids; do
  VERIF_SEED=$seed ./check $c --tier quick --nobuild > /tmp/seedsweep_$c.log 2>&1
  rc=$?
  echo "$c seed=$seed exit=$rc $(grep -c '^VIOLATION' /tmp/seedsweep_$c.log) violations $(grep -h 'TOOL-ERROR' /tmp/seedsweep_$c.log | head -1 | cut -c1-120)"
done
