"""Program texts embedded in the repository's own tests and fixtures (extracted from the
current tree): raw string literals r#"..."# and plain string literals that look like
programs, plus fixtures/*.BAS."""
import os, re, glob

RAW = re.compile(r'r#"(.*?)"#', re.S)
PLAIN = re.compile(r'"((?:[^"\\]|\\.)*)"')


def dedent(t):
    lines = t.split("\n")
    return "\n".join(l.strip() if l.strip() else "" for l in lines).strip("\n") + "\n"


def unescape(s):
    return s.replace('\\"', '"').replace("\\n", "\n").replace("\\r", "\r").replace("\\\\", "\\").replace("\\t", "\t")


def programs(repo="/repo"):
    out = []
    seen = set()
    files = []
    for pat in ("rusty_basic/src/**/*.rs", "rusty_linter/src/**/*.rs", "rusty_parser/src/**/*.rs"):
        files += glob.glob(os.path.join(repo, pat), recursive=True)
    for f in sorted(files):
        try:
            src = open(f, encoding="utf-8").read()
        except OSError:
            continue
        cands = [m.group(1) for m in RAW.finditer(src)]
        for m in PLAIN.finditer(src):
            s = unescape(m.group(1))
            if ("PRINT" in s or "=" in s or "\n" in s) and len(s) >= 5 and re.search(r"[A-Za-z]", s):
                cands.append(s)
        for c in cands:
            t = dedent(c)
            if len(t) < 4 or len(t) > 6000 or t in seen:
                continue
            seen.add(t)
            out.append({"src": os.path.relpath(f, repo), "text": t})
    for f in sorted(glob.glob(os.path.join(repo, "fixtures", "*.BAS"))):
        try:
            t = open(f, encoding="utf-8", errors="replace").read()
        except OSError:
            continue
        if t not in seen:
            seen.add(t)
            out.append({"src": os.path.relpath(f, repo), "text": t})
    return out
