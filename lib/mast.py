"""Constructors for the mini-AST shared by the spec (as JSON records) and the renderer."""
import itertools


class Ids:
    def __init__(self):
        self.n = 0

    def next(self):
        self.n += 1
        return self.n


def S(text):
    return list(text.encode("latin1"))


def lit(t, v):
    """numeric literal of type t (negative values become a unary minus), or string"""
    if t == "$":
        return {"k": "lit", "t": "$", "v": S(v) if isinstance(v, str) else v}
    if v < 0:
        return {"k": "un", "op": "neg", "e": lit(t, -v)}
    return {"k": "lit", "t": t, "v": v}


def num(v):
    """a decimal literal as the language types it: INTEGER, LONG (no suffix form beyond)"""
    if v == -2147483648:
        # 2147483648 is not a LONG literal: write the minimum as -2147483647 - 1
        return bin_("-", lit("L", -2147483647), lit("I", 1))
    a = abs(v)
    t = "I" if a <= 32767 else "L"
    return lit(t, v)


def var(n, t):
    return {"k": "var", "n": n, "t": t}


def idx(n, t, subs):
    return {"k": "idx", "n": n, "t": t, "subs": subs}


def arr(n, t):
    """a whole array as an argument: A()"""
    return {"k": "arr", "n": n, "t": t}


def bin_(op, l, r):
    return {"k": "bin", "op": op, "l": l, "r": r}


def un(op, e):
    return {"k": "un", "op": op, "e": e}


def par(e):
    return {"k": "par", "e": e}


def fcall(n, t, args, sid):
    return {"k": "fcall", "n": n, "t": t, "args": args, "sid": sid}


def bcall(n, *args):
    """a built-in string function known to Core: LEN(s), LEFT$(s, n), MID$(s, n, m)"""
    return {"k": "bcall", "n": n, "args": list(args)}


def item(e):
    return {"k": "e", "e": e}


SEMI = {"k": "sep", "s": ";"}
COMMA = {"k": "sep", "s": ","}


class B:
    """statement builder with running ids"""

    def __init__(self):
        self.ids = Ids()

    def let(self, lhs, e):
        return {"k": "let", "id": self.ids.next(), "lhs": lhs, "e": e}

    def print(self, *es):
        items = []
        for i, e in enumerate(es):
            if isinstance(e, dict) and e.get("k") == "sep":
                items.append(e)
            else:
                if items and items[-1]["k"] != "sep":
                    items.append(SEMI)
                items.append(item(e))
        return {"k": "print", "id": self.ids.next(), "items": items}

    def if_(self, arms, els=None):
        return {"k": "if", "id": self.ids.next(),
                "arms": [{"c": c, "body": b} for c, b in arms], "els": els or [],
                "hasels": els is not None}

    def select(self, e, cases, els=None):
        return {"k": "select", "id": self.ids.next(), "e": e,
                "cases": [{"tests": t, "body": b} for t, b in cases], "els": els or [],
                "hasels": els is not None}

    def for_(self, v, lo, hi, step, body, hasstep=True, nextvar=False):
        return {"k": "for", "id": self.ids.next(), "v": v, "lo": lo, "hi": hi,
                "step": step if step is not None else lit("I", 1),
                "hasstep": hasstep and step is not None, "body": body, "nextvar": nextvar}

    def while_(self, c, body):
        return {"k": "while", "id": self.ids.next(), "c": c, "body": body}

    def do(self, pos, kind, c, body):
        return {"k": "do", "id": self.ids.next(), "pos": pos, "kind": kind, "c": c, "body": body}

    def read(self, *targets):
        return {"k": "read", "id": self.ids.next(), "targets": list(targets)}

    def data(self, *vals):
        return {"k": "data", "id": self.ids.next(), "vals": list(vals)}

    def goto(self, l):
        return {"k": "goto", "id": self.ids.next(), "l": l}

    def gosub(self, l):
        return {"k": "gosub", "id": self.ids.next(), "l": l}

    def ret(self, l=""):
        return {"k": "return", "id": self.ids.next(), "l": l}

    def label(self, l):
        return {"k": "label", "id": self.ids.next(), "l": l}

    def onerror(self, mode, l=""):
        return {"k": "onerror", "id": self.ids.next(), "mode": mode, "l": l}

    def resume(self, mode, l=""):
        return {"k": "resume", "id": self.ids.next(), "mode": mode, "l": l}

    def call(self, n, args, style="bare"):
        return {"k": "call", "id": self.ids.next(), "n": n, "args": args, "style": style}

    def dim(self, n, t, dims=None, shared=False, fix=0, extended=False, ty=""):
        return {"k": "dim", "id": self.ids.next(), "n": n, "t": t, "dims": dims or [],
                "shared": shared, "fix": fix, "extended": extended, "ty": ty}

    def const(self, n, t, e, suffixed=True):
        return {"k": "const", "id": self.ids.next(), "n": n, "t": t, "e": e, "suffixed": suffixed}

    def exit(self, what):
        return {"k": "exit", "id": self.ids.next(), "what": what}

    def end(self):
        return {"k": "end", "id": self.ids.next()}

    def fcall(self, n, t, args):
        # sid is patched to the id of the enclosing statement by the caller
        return fcall(n, t, args, self.ids.n + 1)


def eqt(e):
    return {"k": "eq", "e": e}


def ist(op, e):
    return {"k": "is", "op": op, "e": e}


def rtest(lo, hi):
    return {"k": "range", "lo": lo, "hi": hi}


def _params(params):
    out = []
    for p in params:
        # ("X", "I", "", True): an array parameter X%()
        out.append({"n": p[0], "t": p[1], "ty": p[2] if len(p) > 2 else "", "arr": bool(p[3]) if len(p) > 3 else False})
    return out


def sub(n, params, body, static=False):
    return {"n": n, "kind": "sub", "t": "I", "static": static, "params": _params(params), "body": body}


def fun(n, t, params, body, static=False):
    return {"n": n, "kind": "fun", "t": t, "static": static, "params": _params(params), "body": body}


def prog(main, subs=None, types=None):
    return {"main": main, "subs": subs or [], "types": types or []}


def walk_stmts(stmts):
    """yields every statement (pre-order) of a body"""
    for s in stmts:
        yield s
        k = s["k"]
        if k == "if":
            for a in s["arms"]:
                yield from walk_stmts(a["body"])
            yield from walk_stmts(s["els"])
        elif k == "select":
            for c in s["cases"]:
                yield from walk_stmts(c["body"])
            yield from walk_stmts(s["els"])
        elif k in ("for", "while", "do"):
            yield from walk_stmts(s["body"])


def all_stmts(p):
    yield from walk_stmts(p["main"])
    for s in p.get("subs", []):
        yield from walk_stmts(s["body"])


def dlit(v):
    """a DATA item: a signed numeric constant (typed as the language types it) or a string"""
    if isinstance(v, str):
        return {"k": "lit", "t": "$", "v": S(v)}
    return {"k": "lit", "t": "I" if -32768 <= v <= 32767 else "L", "v": v}


def fld(base, f, t, fix=0, ty=""):
    return {"k": "fld", "base": base, "f": f, "t": t, "fix": fix, "ty": ty}


def bound(which, n, t, d=None):
    return {"k": "bound", "which": which, "n": n, "t": t, "d": d if d is not None else lit("I", 1),
            "nodim": d is None}


def typedef(n, fields):
    """fields: list of (name, t, ty, fix)"""
    return {"n": n, "fields": [{"n": f[0], "t": f[1], "ty": f[2] if len(f) > 2 else "", "fix": f[3] if len(f) > 3 else 0}
                               for f in fields]}


def dimspec(lo, hi, nolo=False):
    return {"lo": num(lo), "hi": num(hi), "nolo": nolo}


def flit(t, w, f, neg=False):
    """fractional constant +-(w + f/10), f in 1..9 except 5"""
    return {"k": "flit", "t": t, "w": w, "f": f, "neg": neg}


def cref(n, sfx=""):
    return {"k": "cref", "n": n, "sfx": sfx}
