"""Mini-AST -> BASIC text.  One statement per line (unless told otherwise); the row of
every statement id is recorded so that error positions can be mapped back."""

SUFFIX = {"I": "%", "L": "&", "S": "!", "D": "#", "$": "$"}
OPTEXT = {"+": "+", "-": "-", "*": "*", "/": "/", "mod": "MOD", "=": "=", "<>": "<>", "<": "<",
          "<=": "<=", ">": ">", ">=": ">=", "and": "AND", "or": "OR"}
TYPENAME = {"I": "INTEGER", "L": "LONG", "S": "SINGLE", "D": "DOUBLE", "$": "STRING"}


class RenderError(Exception):
    pass


def sfx(e):
    """type suffix of a variable reference; none for records and extended declarations"""
    if e["t"] == "U" or e.get("bare"):
        return ""
    return SUFFIX[e["t"]]


def lit(t, v):
    if t == "$":
        s = bytes(v).decode("latin1")
        if '"' in s or "\r" in s or "\n" in s:
            raise RenderError("string literal with quote/newline")
        return '"' + s + '"'
    if v < 0:
        raise RenderError("negative literal: use un(neg)")
    if t == "I":
        if v > 32767:
            raise RenderError("integer literal out of range")
        return str(v)
    if t == "L":
        if v <= 32767:
            raise RenderError("long literal must exceed 32767")
        return str(v)
    if t == "S":
        return "%d.0" % v
    if t == "D":
        return "%d.0#" % v
    raise RenderError("bad literal type " + t)


PREC = {"or": 0, "and": 1, "not": 2, "=": 3, "<>": 3, "<": 3, "<=": 3, ">": 3, ">=": 3,
        "+": 4, "-": 4, "mod": 5, "*": 6, "/": 6, "neg": 7}
ATOM = 9


def prec(e):
    k = e["k"]
    if k == "bin":
        return PREC[e["op"]]
    if k == "un":
        return PREC[e["op"]]
    return ATOM


def sub_expr(e, parent_prec, right=False):
    """renders e as an operand of an operator of rank parent_prec, adding parentheses
    only where the standard precedence rules require them to preserve the tree"""
    t = expr(e)
    p = prec(e)
    if p < parent_prec or (right and p == parent_prec) or (right and e["k"] == "un"):
        return "(" + t + ")"
    return t


def expr(e):
    k = e["k"]
    if k == "lit":
        return lit(e["t"], e["v"])
    if k == "big":
        return e["text"]
    if k == "flit":
        return ("-" if e["neg"] else "") + "%d.%d" % (e["w"], e["f"]) + ("#" if e["t"] == "D" else "")
    if k == "var":
        return e["n"] + sfx(e)
    if k == "idx":
        return e["n"] + sfx(e) + "(" + ", ".join(expr(x) for x in e["subs"]) + ")"
    if k == "arr":
        return e["n"] + sfx(e) + "()"
    if k == "fld":
        # a member may be written with the suffix of its type (R.S$, A(1).N&)
        return expr(e["base"]) + "." + e["f"] + (SUFFIX[e["t"]] if e.get("sfxspell") and e["t"] != "U" else "")
    if k == "bound":
        name = "LBOUND" if e["which"] == "l" else "UBOUND"
        if e.get("nodim"):
            return "%s(%s)" % (name, e["n"] + sfx(e))
        return "%s(%s, %s)" % (name, e["n"] + sfx(e), expr(e["d"]))
    if k == "par":
        return "(" + expr(e["e"]) + ")"
    if k == "un":
        if e["op"] == "neg":
            inner = e["e"]
            if inner["k"] == "un" or prec(inner) < PREC["neg"]:
                return "-(" + expr(inner) + ")"
            return "-" + expr(inner)
        return "NOT " + sub_expr(e["e"], PREC["not"])
    if k == "bin":
        p = PREC[e["op"]]
        return sub_expr(e["l"], p) + " " + OPTEXT[e["op"]] + " " + sub_expr(e["r"], p, right=True)
    if k == "err":
        return "ERR"
    if k == "cref":
        return e["n"] + (SUFFIX[e["sfx"]] if e.get("sfx") else "")
    if k == "fcall":
        name = e["n"] + SUFFIX[e["t"]]
        if not e["args"]:
            return name
        return name + "(" + ", ".join(expr(x) for x in e["args"]) + ")"
    if k == "bcall":
        if not e["args"]:
            return e["n"]
        return e["n"] + "(" + ", ".join(expr(x) for x in e["args"]) + ")"
    if k == "ucall":
        return e["name"] + "(" + ", ".join(expr(x) for x in e["args"]) + ")"
    if k == "raw":
        return e["text"]
    raise RenderError("unknown expr kind " + k)


class Out:
    def __init__(self):
        self.lines = []
        self.rows = {}      # stmt id -> row (1-based)
        self.spans = {}     # stmt id -> (row, c0, c1)
        self.endrows = {}   # stmt id of a block statement -> row of its closing line
        self.extrarows = {} # row of an ELSEIF / CASE line -> id of the statement it belongs to

    def emit(self, text, sid=None, indent=0):
        line = " " * indent + text
        self.lines.append(line)
        row = len(self.lines)
        if sid is not None and sid not in self.rows:
            self.rows[sid] = row
            self.spans[sid] = (row, indent + 1, len(line))
        return row


def case_test(t):
    if t["k"] == "eq":
        return expr(t["e"])
    if t["k"] == "is":
        return "IS " + OPTEXT[t["op"]] + " " + expr(t["e"])
    return expr(t["lo"]) + " TO " + expr(t["hi"])


def dim_type(s):
    t = s["t"]
    return TYPENAME[t]


def all_ids(s, acc):
    if isinstance(s, dict):
        if "id" in s and "k" in s:
            acc.append(s["id"])
        for v in s.values():
            all_ids(v, acc)
    elif isinstance(s, list):
        for v in s:
            all_ids(v, acc)
    return acc


def stmt(o, s, ind):
    k = s["k"]
    sid = s.get("id")
    if s.get("colon") and k in ("for", "while", "do"):
        # the whole loop on one line, statements separated by colons
        tmp = Out()
        stmt(tmp, {kk: vv for kk, vv in s.items() if kk != "colon"}, 0)
        row = o.emit(": ".join(l.strip() for l in tmp.lines), sid, ind)
        for i in all_ids(s, []):
            o.rows[i] = row
        o.endrows[sid] = row
        return
    if k == "let":
        o.emit(expr(s["lhs"]) + " = " + expr(s["e"]), sid, ind)
    elif k == "print":
        parts = []
        for it in s["items"]:
            if it["k"] == "sep":
                parts.append(it["s"])
            else:
                parts.append(expr(it["e"]))
        text = "PRINT"
        prev = None
        for it, p in zip(s["items"], parts):
            if it["k"] == "sep":
                text += p
            else:
                if prev is not None and prev["k"] != "sep":
                    raise RenderError("two print items without separator")
                text += " " + p
            prev = it
        o.emit(text, sid, ind)
    elif k == "if" and s.get("oneline"):
        def inline(stmts):
            tmp = Out()
            for x in stmts:
                stmt(tmp, x, 0)
            return " : ".join(tmp.lines), [x.get("id") for x in stmts]
        t1, ids1 = inline(s["arms"][0]["body"])
        text = "IF " + expr(s["arms"][0]["c"]) + " THEN " + t1
        ids = ids1
        if s.get("els"):
            t2, ids2 = inline(s["els"])
            text += " ELSE " + t2
            ids += ids2
        row = o.emit(text, sid, ind)
        for i in ids:
            if i is not None:
                o.rows.setdefault(i, row)
    elif k == "if":
        for j, arm in enumerate(s["arms"]):
            kw = "IF " if j == 0 else "ELSEIF "
            row = o.emit(kw + expr(arm["c"]) + " THEN", sid if j == 0 else None, ind)
            o.extrarows[row] = sid
            body(o, arm["body"], ind + 2)
        if s.get("els") or s.get("hasels"):
            o.emit("ELSE", None, ind)
            body(o, s["els"], ind + 2)
        o.endrows[sid] = o.emit("END IF", None, ind)
    elif k == "select":
        o.emit("SELECT CASE " + expr(s["e"]), sid, ind)
        for c in s["cases"]:
            row = o.emit("CASE " + ", ".join(case_test(t) for t in c["tests"]), None, ind)
            o.extrarows[row] = sid
            body(o, c["body"], ind + 2)
        if s.get("els") or s.get("hasels"):
            o.emit("CASE ELSE", None, ind)
            body(o, s["els"], ind + 2)
        o.endrows[sid] = o.emit("END SELECT", None, ind)
    elif k == "for":
        text = "FOR " + expr(s["v"]) + " = " + expr(s["lo"]) + " TO " + expr(s["hi"])
        if s.get("hasstep", True):
            text += " STEP " + expr(s["step"])
        o.emit(text, sid, ind)
        body(o, s["body"], ind + 2)
        o.endrows[sid] = o.emit("NEXT" + (" " + (s.get("nextname") or expr(s["v"])) if s.get("nextvar") else ""), None, ind)
    elif k == "while":
        o.emit("WHILE " + expr(s["c"]), sid, ind)
        body(o, s["body"], ind + 2)
        o.endrows[sid] = o.emit("WEND", None, ind)
    elif k == "do":
        kw = "WHILE" if s["kind"] == "while" else "UNTIL"
        if s["pos"] == "top":
            o.emit("DO " + kw + " " + expr(s["c"]), sid, ind)
            body(o, s["body"], ind + 2)
            o.endrows[sid] = o.emit("LOOP", None, ind)
        else:
            o.emit("DO", sid, ind)
            body(o, s["body"], ind + 2)
            o.endrows[sid] = o.emit("LOOP " + kw + " " + expr(s["c"]), None, ind)
    elif k == "read":
        o.emit("READ " + ", ".join(expr(t) for t in s["targets"]), sid, ind)
    elif k == "data":
        o.emit("DATA " + ", ".join(data_item(v) for v in s["vals"]), sid, ind)
    elif k == "goto":
        o.emit("GOTO " + s["l"], sid, ind)
    elif k == "gosub":
        o.emit("GOSUB " + s["l"], sid, ind)
    elif k == "return":
        o.emit("RETURN" + (" " + s["l"] if s.get("l") else ""), sid, ind)
    elif k == "label":
        o.emit(s["l"] + ":", sid, 0)
    elif k == "onerror":
        if s["mode"] == "goto":
            o.emit("ON ERROR GOTO " + s["l"], sid, ind)
        elif s["mode"] == "next":
            o.emit("ON ERROR RESUME NEXT", sid, ind)
        else:
            o.emit("ON ERROR GOTO 0", sid, ind)
    elif k == "resume":
        if s["mode"] == "bare":
            o.emit("RESUME", sid, ind)
        elif s["mode"] == "next":
            o.emit("RESUME NEXT", sid, ind)
        else:
            o.emit("RESUME " + s["l"], sid, ind)
    elif k == "call":
        if s.get("style") == "call":
            o.emit("CALL " + s["n"] + ("(" + ", ".join(expr(a) for a in s["args"]) + ")" if s["args"] else ""), sid, ind)
        else:
            o.emit(s["n"] + (" " + ", ".join(expr(a) for a in s["args"]) if s["args"] else ""), sid, ind)
    elif k == "dim":
        text = ("REDIM " if s.get("redim") else "DIM ") + ("SHARED " if s.get("shared") and not s.get("noshared") else "")
        name = s["n"]
        if s["dims"]:
            ds = []
            for d in s["dims"]:
                if d.get("nolo"):
                    ds.append(expr(d["hi"]))
                else:
                    ds.append(expr(d["lo"]) + " TO " + expr(d["hi"]))
            arr = "(" + ", ".join(ds) + ")"
        else:
            arr = ""
        if s.get("bare_redim"):
            # REDIM of an existing dynamic array without repeating its type
            text += name + (SUFFIX[s["t"]] if not s.get("fix", 0) and s["t"] != "U" and not s.get("extended") else "") + arr
        elif s["t"] == "U":
            text += name + arr + " AS " + s["ty"]
        elif s.get("fix", 0) > 0:
            text += name + arr + " AS STRING * " + (s.get("fixtext") or str(s["fix"]))
        elif s.get("extended"):
            text += name + arr + " AS " + TYPENAME[s["t"]]
        else:
            text += name + SUFFIX[s["t"]] + arr
        o.emit(text, sid, ind)
    elif k == "const":
        o.emit("CONST " + s["n"] + (SUFFIX[s["t"]] if s["t"] and s.get("suffixed", True) else "") + " = " + expr(s["e"]), sid, ind)
    elif k == "exit":
        o.emit("EXIT " + ("SUB" if s["what"] == "sub" else "FUNCTION"), sid, ind)
    elif k == "end":
        o.emit("END", sid, ind)
    elif k == "rem":
        o.emit("' " + s.get("text", ""), sid, ind)
    elif k == "raw":
        o.emit(s["text"], sid, ind)
    else:
        raise RenderError("unknown stmt kind " + k)


def data_item(v):
    if v["k"] == "flit":
        return ("-" if v["neg"] else "") + "%d.%d" % (v["w"], v["f"])
    if v["t"] == "$":
        return lit("$", v["v"])
    return str(v["v"])


def body(o, stmts, ind):
    for s in stmts:
        stmt(o, s, ind)


def program(prog):
    """returns (text, rows: id->row, spans, endrows)"""
    o = Out()
    for d in prog.get("pre", []):
        o.emit(d)
    # "types_after": the TYPE blocks stand after that many statements of the main module (constants used as lengths
    # must be defined first)
    k0 = prog.get("types_after", 0)
    body(o, prog["main"][:k0], 0)
    for td in prog.get("types", []):
        o.emit("TYPE " + td["n"])
        for fd in td["fields"]:
            if fd["t"] == "U":
                o.emit("  " + fd["n"] + " AS " + fd["ty"])
            elif fd["t"] == "$":
                o.emit("  " + fd["n"] + " AS STRING * " + (fd.get("fixtext") or "%d" % fd["fix"]))
            else:
                o.emit("  " + fd["n"] + " AS " + TYPENAME[fd["t"]])
        o.emit("END TYPE")
    body(o, prog["main"][k0:], 0)
    for sub in prog.get("subs", []):
        params = ", ".join((p["n"] + ("()" if p.get("arr") else "") + " AS " + p["ty"]) if p["t"] == "U" else (p["n"] + SUFFIX[p["t"]] + ("()" if p.get("arr") else ""))
                           for p in sub["params"])
        head = ("FUNCTION " + sub["n"] + SUFFIX[sub["t"]]) if sub["kind"] == "fun" else ("SUB " + sub["n"])
        if params:
            head += "(" + params + ")"
        if sub.get("static"):
            head += " STATIC"
        o.emit(head)
        body(o, sub["body"], 2)
        o.emit("END FUNCTION" if sub["kind"] == "fun" else "END SUB")
    endrows = dict(o.endrows)
    endrows["extra"] = o.extrarows
    return "\r\n".join(o.lines) + "\r\n", o.rows, o.spans, endrows
