#!/usr/bin/env python3
"""Seeded changes: confirm a change delivered in a scratch worktree, store it under /verif/seeded/<id>/,
and run checks against it.

  seeded.py confirm <name> <worktree> <mutant-dir> <property>    # tests pass + demo differs, then store
  seeded.py run <name> [<check id> ...]                           # apply to /repo, run quick checks, undo
  seeded.py table                                                 # markdown table for DESIGN.md
"""
import json, os, subprocess, sys, shutil, time, glob

ROOT = os.path.dirname(os.path.dirname(os.path.abspath(__file__)))
REPO = os.environ.get("SEEDED_REPO", "/repo")       # a sandbox copy of /verif works against its own worktree of /repo
SEEDED = os.path.join(ROOT, "seeded")


def sh(cmd, cwd=None, timeout=3600, stdin=None):
    p = subprocess.run(cmd, shell=True, cwd=cwd, stdout=subprocess.PIPE, stderr=subprocess.STDOUT, text=True, timeout=timeout,
                       input=stdin, errors="replace")
    return p.returncode, p.stdout


def demo_cmd(mdir):
    if os.path.exists(os.path.join(mdir, "demo.bas")):
        stdin = os.path.join(mdir, "demo.stdin")
        return "cargo run --offline -q -p rusty_basic -- %s %s" % (os.path.join(mdir, "demo.bas"), ("< " + stdin) if os.path.exists(stdin) else "< /dev/null")
    if os.path.exists(os.path.join(mdir, "demo.rs")) and "#[test]" in open(os.path.join(mdir, "demo.rs")).read():
        # a library-level demonstration written as an integration test of rusty_pc
        return ("mkdir -p rusty_pc/tests && cp %s rusty_pc/tests/seed_demo.rs && cargo test --offline -q -p rusty_pc --test seed_demo 2>&1 "
                "| grep -v 'finished in\|^$\|^thread\|RUST_BACKTRACE' | sed 's/finished in.*//' ; rm -f rusty_pc/tests/seed_demo.rs; rmdir rusty_pc/tests 2>/dev/null; true") % os.path.join(mdir, "demo.rs")
    if os.path.exists(os.path.join(mdir, "demo.rs")):
        # a library-level demonstration: run it as an example of rusty_pc
        return ("mkdir -p rusty_pc/examples && cp %s rusty_pc/examples/seed_demo.rs && cargo run --offline -q -p rusty_pc --example seed_demo 2>&1; "
                "rm -f rusty_pc/examples/seed_demo.rs; rmdir rusty_pc/examples 2>/dev/null; true") % os.path.join(mdir, "demo.rs")
    return None


def confirm(name, wt, mdir, prop):
    patch = os.path.join(mdir, "patch.diff")
    rc, out = sh("git status --short -- . ':!MUTANT'", cwd=wt)
    if out.strip():
        print("worktree not clean:\n" + out)
        return 1
    cmd = demo_cmd(mdir)
    res = {"name": name, "property": prop, "confirmed_at": time.strftime("%Y-%m-%dT%H:%M:%SZ", time.gmtime())}
    if cmd:
        rc, base = sh(cmd, cwd=wt)
        res["demo_original"] = base[-3000:]
    rc, out = sh("git apply %s" % patch, cwd=wt)
    if rc != 0:
        print("patch does not apply:\n" + out)
        return 1
    try:
        rc, out = sh("cargo test --workspace --no-fail-fast --offline 2>&1 | grep -E '^test result' | awk '{p+=$4; f+=$6} END {print p, f}'", cwd=wt)
        res["tests"] = out.strip()
        if cmd:
            rc, mut = sh(cmd, cwd=wt)
            res["demo_changed"] = mut[-3000:]
            res["demo_differs"] = mut != base
    finally:
        sh("git checkout -- . && git status --short -- . ':!MUTANT'", cwd=wt)
    print(json.dumps({k: v for k, v in res.items() if k not in ("demo_original", "demo_changed")}))
    ok = res.get("tests", "").endswith(" 0") and res.get("tests", "").split()[0].isdigit() and int(res["tests"].split()[0]) >= 1216
    if cmd:
        ok = ok and res.get("demo_differs")
    if not ok:
        print("NOT CONFIRMED", res.get("tests"), res.get("demo_differs"))
        if cmd:
            print("--- original\n" + res.get("demo_original", "")[-800:] + "\n--- changed\n" + res.get("demo_changed", "")[-800:])
        return 1
    d = os.path.join(SEEDED, name)
    os.makedirs(d, exist_ok=True)
    for f in os.listdir(mdir):
        if os.path.isfile(os.path.join(mdir, f)) and os.path.getsize(os.path.join(mdir, f)) < 200000:
            shutil.copy(os.path.join(mdir, f), os.path.join(d, f))
    meta = {"name": name, "property": prop, "tests_with_change": res["tests"], "demo_differs": res.get("demo_differs"),
            "confirmed_at": res["confirmed_at"], "checks": {}}
    with open(os.path.join(d, "meta.json"), "w") as f:
        json.dump(meta, f, indent=1)
    print("stored", d)
    return 0


def run(name, checks):
    d = os.path.join(SEEDED, name)
    meta = json.load(open(os.path.join(d, "meta.json")))
    checks = checks or [meta["property"]]
    rc, out = sh("git status --short", cwd=REPO)
    if out.strip():
        print(REPO + " not clean:\n" + out)
        return 2
    rc, out = sh("git -C " + REPO + " apply %s" % os.path.join(d, "patch.diff"))
    if rc != 0:
        # the tree has moved on since the change was written: try a three-way application
        rc, out = sh("git -C " + REPO + " apply --3way %s && git -C %s reset -q" % (os.path.join(d, "patch.diff"), REPO))
    if rc != 0:
        print("patch does not apply to " + REPO + ":\n" + out)
        return 2
    try:
        for c in checks:
            t0 = time.time()
            evf = os.path.join(ROOT, "evidence", c + ".json")
            keep = open(evf).read() if os.path.exists(evf) else None      # evidence must come from the unchanged tree
            rc, out = sh("./check %s --tier quick" % c, cwd=ROOT, timeout=7200)
            if keep is not None:
                with open(evf, "w") as f:
                    f.write(keep)
            lines = [l for l in out.splitlines() if l.startswith(("VIOLATION", "KNOWN-FINDING", "TOOL-ERROR"))]
            first = None
            for l in lines:
                if l.startswith("VIOLATION"):
                    first = l.split("replay=")[1].strip()
                    break
            info = {"exit": rc, "violations": sum(1 for l in lines if l.startswith("VIOLATION")), "wall_s": round(time.time() - t0, 1),
                    "verdict": "caught" if rc == 1 else ("missed" if rc == 0 else "tool-error")}
            if first and os.path.exists(os.path.join(ROOT, first)):
                try:
                    rp = json.load(open(os.path.join(ROOT, first)))
                    info["first_replay_features"] = rp.get("features")
                    shutil.copy(os.path.join(ROOT, first), os.path.join(d, "caught_by_%s.json" % c))
                except Exception:
                    pass
            if rc == 2:
                info["output_tail"] = out[-1500:]
            meta["checks"][c] = info
            print(name, c, info["verdict"], info["violations"], "violations", info["wall_s"], "s")
    finally:
        sh("git -C " + REPO + " checkout -- .")
        sh("cargo build", cwd=os.path.join(ROOT, "harness"))      # the harness binary must not keep the change
        with open(os.path.join(d, "meta.json"), "w") as f:
            json.dump(meta, f, indent=1)
    return 0


def table():
    rows = []
    for mf in sorted(glob.glob(os.path.join(SEEDED, "*", "meta.json"))):
        m = json.load(open(mf))
        caught = [c for c, i in m["checks"].items() if i["verdict"] == "caught"]
        missed = [c for c, i in m["checks"].items() if i["verdict"] == "missed"]
        what = m.get("what", "")
        readme = os.path.join(os.path.dirname(mf), "README.md")
        if not what and os.path.exists(readme):
            import re
            what = open(readme, errors="replace").readline().strip().lstrip("# ").strip()
            what = re.sub(r"^(C\d\d\s*/\s*)?([Cc]hange|[Mm]utant|C\d\d mutant)\s*\d*\s*(\([^)]*\))?\s*[-:\u2013]*\s*", "", what)
        first = [h for h in m.get("history", []) if h["verdict"] == "missed"]
        note = " (after strengthening; first missed by %s)" % " ".join(sorted({h["check"] for h in first})) if first else ""
        rows.append("| %s | %s | %s | %s | %s |" % (m["name"], m["property"], what.replace("|", "/"), (" ".join(caught) or "-") + note, " ".join(missed) or "-"))
    print("| seeded change | property | what it changes | caught by (quick) | run but not caught by |")
    print("|---|---|---|---|---|")
    print("\n".join(rows))


if __name__ == "__main__":
    a = sys.argv[1:]
    if a[0] == "confirm":
        sys.exit(confirm(a[1], a[2], a[3], a[4]))
    if a[0] == "run":
        sys.exit(run(a[1], a[2:]))
    if a[0] == "table":
        table()
