"""Instruction-level conformance: real instruction lists + real register traces validated against VM.tla."""
import os, re
from common import out_dir, dumps, ToolError
from tlc import run_tlc

QMAP = {"PercentInteger": "I", "AmpersandLong": "L", "BangSingle": "S", "HashDouble": "D", "DollarString": "$"}
OPRE = re.compile(r"^(\w+)")
NAME = re.compile(r'bare_name: CaseInsensitiveString\("([^"]*)"\), opt_q: (?:Some\((\w+)\)|None)')
OPAQUE = {"t": "?"}
MAXSTEPS = 1200       # TLC evaluates the lock-step check recursively (in worker threads, -Xss1g)


def unescape(body):
    """the text of a Rust Debug string literal (between the quotes) -> list of character codes, or None"""
    out = []
    k = 0
    while k < len(body):
        ch = body[k]
        if ch != "\\":
            out.append(ord(ch))
            k += 1
            continue
        nx = body[k + 1] if k + 1 < len(body) else ""
        if nx == "u":
            m = re.match(r"\\u\{([0-9a-fA-F]+)\}", body[k:])
            if not m:
                return None
            out.append(int(m.group(1), 16))
            k += len(m.group(0))
            continue
        table = {"n": 10, "r": 13, "t": 9, "0": 0, "\\": 92, '"': 34, "'": 39}
        if nx not in table:
            return None
        out.append(table[nx])
        k += 2
    return out


def str_value(codes):
    if codes is None or len(codes) > 60 or any(c > 255 for c in codes):
        return OPAQUE
    return {"t": "$", "v": codes}


def lit_value(dbg):
    m = re.match(r"LoadIntoA\(V(Integer|Long)\((-?\d+)\)\)", dbg)
    if m:
        v = int(m.group(2))
        if abs(v) < 2 ** 31:
            return {"t": "I" if m.group(1) == "Integer" else "L", "v": v}
        return OPAQUE
    m = re.match(r"LoadIntoA\(V(Single|Double)\((-?\d+)(?:\.0)?\)\)", dbg)
    if m:
        v = int(m.group(2))
        if abs(v) <= 2 ** 24:
            return {"t": "S" if m.group(1) == "Single" else "D", "v": v}
    m = re.match(r'LoadIntoA\(VString\("(.*)"\)\)$', dbg, re.S)
    if m:
        return str_value(unescape(m.group(1)))
    return OPAQUE


SIGIL = {"I": "%", "L": "&", "S": "!", "D": "#", "$": "$"}
TYPED = re.compile(r'bare_name: CaseInsensitiveString\("([^"]*)"\), var_type: (.*)\}\)?$', re.S)


def var_name(bare, q):
    return bare.upper() + SIGIL.get(q, "")


def typed_name(dbg):
    """TypedName { bare_name, var_type } -> (name, q, unk): q '?' for records / arrays / unknown"""
    m = TYPED.search(dbg)
    if not m:
        return None
    vt = m.group(2)
    if vt.startswith("BuiltIn("):
        q = QMAP.get(re.match(r"BuiltIn\((\w+)", vt).group(1), "?")
        return var_name(m.group(1), q), q, q == "?"
    if vt.startswith("FixedLengthString"):
        return var_name(m.group(1), "$"), "?", False
    if vt.startswith("UserDefined"):
        return m.group(1).upper(), "?", False
    # arrays and anything else: the key is not reconstructed; the block may hold names the model does not know
    return m.group(1).upper() + "()", "?", True


def decode(dbg):
    op = OPRE.match(dbg).group(1)
    rec = {"op": op}
    if op == "LoadIntoA":
        rec["v"] = lit_value(dbg)
    elif op in ("Cast", "AllocateBuiltIn"):
        m = re.search(r"\((\w+)\)", dbg)
        rec["q"] = QMAP.get(m.group(1), "?") if m else "?"
        if rec["q"] == "?":
            rec["op"] = "Unmodelled"
    elif op in ("VarPathName", "StashFunctionReturnValue"):
        m = NAME.search(dbg)
        if not m:
            rec["op"] = "Unmodelled"
        else:
            q = QMAP.get(m.group(2) or "", "?")
            rec["n"] = var_name(m.group(1), q)
            rec["q"] = q
            rec["sh"] = "shared: true" in dbg
    elif op in ("PushNamed", "IsVariableDefined"):
        t = typed_name(dbg)
        if t is None:
            rec["op"] = "Unmodelled"
        else:
            rec["n"], rec["q"], rec["unk"] = t
    elif op == "PushStaticStack":
        rec["n"] = re.sub(r"\s+", " ", dbg[len("PushStaticStack("):-1])[:120]
    elif op in ("Jump", "JumpIfFalse", "GoSub"):
        m = re.search(r"Resolved\((\d+)\)", dbg)
        if m:
            rec["t"] = int(m.group(1))
        else:
            rec["op"] = "Unmodelled"
    elif op == "Return":
        m = re.search(r"Resolved\((\d+)\)", dbg)
        rec["t"] = int(m.group(1)) if m else -1
    elif op in ("PushRet", "EnqueueToReturnStack"):
        rec["t"] = int(re.search(r"\((\d+)\)", dbg).group(1))
    elif op in ("BuiltInFunction", "BuiltInSub"):
        rec["n"] = re.search(r"\((\w+)", dbg).group(1)
    return rec


def value_of(v):
    if v.get("t") in ("I", "L", "S", "D") and "v" in v:
        if v["t"] == "S" and abs(v["v"]) > 2 ** 24:
            return OPAQUE
        return {"t": v["t"], "v": v["v"]}
    if v.get("t") == "$" and isinstance(v.get("s"), str):
        return str_value([ord(c) for c in v["s"]])
    return OPAQUE


def validate(pid, runs, tag="vm", chunk=400):
    """runs: list of dict(id, insns=[[dbg,row,col]...], trace=[[pc, depths, regs]...], errors=[pc...]) -> stats"""
    d = out_dir(pid)
    stats = {"programs": 0, "steps_validated": 0, "resynchronisations": 0, "drift": [], "states": 0, "transitions": 0}
    recs = []
    byid = {}
    for r in runs:
        tr = []
        for e in r["trace"][:MAXSTEPS]:
            if len(e) < 3:
                continue
            dep = e[1]
            tr.append({"pc": e[0], "r": [value_of(x) for x in e[2]], "vs": dep[0], "rs": dep[1], "vp": dep[2],
                       "br": dep[3], "ret": dep[4], "gs": dep[5], "cx": dep[6]})
        if not tr:
            continue
        recs.append({"id": r["id"], "insns": [decode(x[0]) for x in r["insns"]], "trace": tr, "errsteps": [int(x) for x in (r.get("error_steps") or [])]})
        byid[r["id"]] = {"trace": tr, "dbg": [x[0] for x in r["insns"]]}
    cmd = ""
    for start in range(0, len(recs), chunk):
        path = os.path.join(d, "%s_%d.ndjson" % (tag, start))
        with open(path, "w") as f:
            for r in recs[start:start + chunk]:
                f.write(dumps(r) + "\n")
        res = run_tlc("Trace_VM.tla", "Trace_VM.cfg", os.path.join(d, "tlc_" + tag), env={"TRACE": path}, timeout=3000)
        cmd = res.cmd
        if res.timed_out or not res.ok:
            raise ToolError("TLC failed on Trace_VM (%s):\n%s" % (path, res.violation))
        stats["states"] += res.distinct
        stats["transitions"] += res.generated
        for ln in res.printed:
            w = ln.split(" ")
            if w[0] == "AGREE":
                stats["programs"] += 1
                stats["steps_validated"] += int(w[2])
                stats["resynchronisations"] += int(w[3])
            elif w[0] == "DRIFT":
                dr = {"id": int(w[1]), "step": int(w[2]), "what": " ".join(w[3:]).strip('"')}
                rr = byid.get(dr["id"])
                if rr and 0 < dr["step"] <= len(rr["trace"]):
                    e = rr["trace"][dr["step"] - 1]
                    dr["pc"] = e["pc"]
                    dr["registers_recorded"] = e["r"]
                    if e["pc"] < len(rr["dbg"]):
                        dr["instruction"] = rr["dbg"][e["pc"]][:160]
                        dr["previous_instructions"] = [rr["dbg"][x["pc"]][:100] for x in rr["trace"][max(0, dr["step"] - 6):dr["step"] - 1] if x["pc"] < len(rr["dbg"])]
                stats["drift"].append(dr)
        os.remove(path)
    stats["cmd"] = cmd
    return stats
