"""Instruction-level conformance: real instruction lists + real register traces validated against VM.tla."""
import os, re
from common import out_dir, dumps, ToolError
from tlc import run_tlc

QMAP = {"PercentInteger": "I", "AmpersandLong": "L", "BangSingle": "S", "HashDouble": "D", "DollarString": "$"}
OPRE = re.compile(r"^(\w+)")
NAME = re.compile(r'bare_name: CaseInsensitiveString\("([^"]*)"\), opt_q: (?:Some\((\w+)\)|None)')
OPAQUE = {"t": "?"}
MAXSTEPS = 1200       # TLC evaluates the lock-step check recursively (in worker threads, -Xss1g)


def lit_value(dbg):
    m = re.match(r"LoadIntoA\(V(Integer|Long)\((-?\d+)\)\)", dbg)
    if m:
        v = int(m.group(2))
        if abs(v) < 2 ** 31:
            return {"t": "I" if m.group(1) == "Integer" else "L", "v": v}
        return OPAQUE
    m = re.match(r"LoadIntoA\(V(Single|Double)\((-?\d+)(?:\.0)?\)\)", dbg)
    if m:
        v = int(m.group(2))
        if abs(v) <= 2 ** 24:
            return {"t": "S" if m.group(1) == "Single" else "D", "v": v}
    return OPAQUE


def decode(dbg):
    op = OPRE.match(dbg).group(1)
    rec = {"op": op}
    if op == "LoadIntoA":
        rec["v"] = lit_value(dbg)
    elif op in ("Cast", "AllocateBuiltIn"):
        m = re.search(r"\((\w+)\)", dbg)
        rec["q"] = QMAP.get(m.group(1), "?") if m else "?"
        if rec["q"] in ("?", "$"):
            rec["op"] = "Unmodelled"
    elif op == "VarPathName":
        m = NAME.search(dbg)
        if not m or "shared: true" in dbg:
            rec["op"] = "Unmodelled"
        else:
            rec["n"] = m.group(1).upper() + "|" + (m.group(2) or "")
    elif op in ("Jump", "JumpIfFalse"):
        m = re.search(r"Resolved\((\d+)\)", dbg)
        if m:
            rec["t"] = int(m.group(1))
        else:
            rec["op"] = "Unmodelled"
    return rec


def value_of(v):
    if v.get("t") in ("I", "L", "S", "D") and "v" in v:
        if v["t"] == "S" and abs(v["v"]) > 2 ** 24:
            return OPAQUE
        return {"t": v["t"], "v": v["v"]}
    return OPAQUE


def validate(pid, runs, tag="vm", chunk=400):
    """runs: list of dict(id, insns=[[dbg,row,col]...], trace=[[pc, depths, regs]...], errors=[pc...]) -> stats"""
    d = out_dir(pid)
    stats = {"programs": 0, "steps_validated": 0, "resynchronisations": 0, "drift": [], "states": 0, "transitions": 0}
    recs = []
    for r in runs:
        tr = []
        for e in r["trace"][:MAXSTEPS]:
            if len(e) < 3:
                continue
            dep = e[1]
            tr.append({"pc": e[0], "r": [value_of(x) for x in e[2]], "vs": dep[0], "rs": dep[1], "vp": dep[2]})
        if not tr:
            continue
        recs.append({"id": r["id"], "insns": [decode(x[0]) for x in r["insns"]], "trace": tr, "errors": list(r.get("errors") or [])})
    cmd = ""
    for start in range(0, len(recs), chunk):
        path = os.path.join(d, "%s_%d.ndjson" % (tag, start))
        with open(path, "w") as f:
            for r in recs[start:start + chunk]:
                f.write(dumps(r) + "\n")
        res = run_tlc("Trace_VM.tla", "Trace_VM.cfg", os.path.join(d, "tlc_" + tag), env={"TRACE": path}, timeout=3000)
        cmd = res.cmd
        if res.timed_out or not res.ok:
            raise ToolError("TLC failed on Trace_VM (%s):\n%s" % (path, res.violation))
        stats["states"] += res.distinct
        stats["transitions"] += res.generated
        for ln in res.printed:
            w = ln.split(" ")
            if w[0] == "AGREE":
                stats["programs"] += 1
                stats["steps_validated"] += int(w[2])
                stats["resynchronisations"] += int(w[3])
            elif w[0] == "DRIFT":
                stats["drift"].append({"id": int(w[1]), "step": int(w[2]), "what": w[3]})
        os.remove(path)
    stats["cmd"] = cmd
    return stats
