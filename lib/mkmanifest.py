"""Writes MANIFEST.json from the table below (one source of truth)."""
import json, os, subprocess

ROOT = os.path.dirname(os.path.dirname(os.path.abspath(__file__)))

CHECKS = {
    "C07": dict(level="exploration", design="DESIGN.md section 5 C07",
                technique="TLC enumerates token soups and mutation neighbourhoods (Soup.tla) as state spaces; TLC model-checks the row/column machine (Text.tla); outcomes validated by the TLA+ monitor Outcome.tla",
                text="The input space is a TLA+ state space: every token soup up to length 2 (3) over a 48-token alphabet of the lexer (keywords, identifiers with suffixes, numbers, &H, strings, an unterminated quote, comment mark, operators, punctuation, blank) and every delete / duplicate / swap / truncate at every token of seed programs taken from the repository's tests and the generated families; plus byte-level truncations, seeded random byte strings, random token strings with mixed CR / LF / CR LF and nestings up to depth 200. The real parser and checker run on each text under a watchdog; Outcome.tla admits a checked program or ONE error whose position lies inside the text or immediately at its end (line structure as defined and model-checked in Text.tla). MC_Text checks the position machine against the declarative definition of rows and columns on all texts over {x, CR, LF} up to length 7.",
                note="The oracle is thin (class of outcome and position only), hence exploration. 'Bounded time' and 'no stack overflow' are observed by watchdog / worker death, not derived from the spec."),
    "C08": dict(level="exploration", design="DESIGN.md section 5 C08",
                technique="TLC enumerates the call space (Calls.tla) as a state space; outcomes of the real runs validated by the TLA+ monitor Outcome.tla",
                text="The input space is a TLA+ state space: every built-in function and statement x every tuple of statically admissible argument classes (boundary numbers, each numeric variable type, expressions, array elements, empty / non-ASCII / long / fixed-length strings, open / closed / invalid handles) x expression wrapper x program position (main, inside a SUB, with an error handler active) - 70 815 states, enumerated by TLC. Each is rendered and given to the real checker; what it accepts is compiled and run on several console inputs (empty, number, text, commas, long line, non-UTF-8 bytes); accepted programs of the C01/C03/C04/C05 families and of the repository's own tests run too. Outcome.tla admits only: normal end, a BASIC run-time error with a known code and a position inside the text, or the instruction budget.",
                note="The oracle is thin (class of outcome only), hence exploration, not model checking. Trusted: renderer of argument classes, watchdog. Hangs are bounded by the instruction budget; stack overflow / abort kills the worker and is reported."),
    "C09": dict(level="model_checking", design="DESIGN.md section 5 C09",
                technique="TLC enumeration of layout moves over token sequences (Layout.tla, invariant CanonPreserved) + differential validation of every enumerated variant on the real parser, checker and VM",
                text="Layout.tla describes a program as a token sequence and the layout moves as changes of layout attributes only (letter case of keywords and identifiers, width of a blank run incl. tabs, blank line, trailing comment, newline <-> colon between simple statements, CR LF / LF / CR); TLC checks that every move preserves the canonical token sequence and enumerates, per seed program, every single site x move (thorough: every pair of sites), the all-at-once variants and the three line-ending conventions. The driver materialises every variant and the real front end and VM must give the same parse tree up to positions/comments/letter case, the same verdict (accept, or reject with the same error family) and the same output and outcome as the base text. Seeds: programs of the C01/C03/C04/C05 families, every program text of the repository's tests, and rejected programs.",
                note="Trusted: the site finder (lexer over the base text: string literals, comments, DATA payloads and numeric literals are not sites) - a wrongly eligible site shows as a difference, never as a miss; TLC. Tree comparison is textual (Debug) after erasing positions and comments."),
    "C11": dict(level="model_checking", design="DESIGN.md section 5 C11",
                technique="TLC enumeration and simulation of the fault-injection space (Diag.tla) + TLC validation of the real diagnostics against the position machine of Text.tla (Trace_Diag.tla, MC_Text.tla)",
                text="Diag.tla is the space of cases: 42 injected faults (syntax, type mismatch, undefined label, wrong argument count, division by zero, subscript out of range, overflow, illegal function call; in simple statements and in IF / ELSEIF / FOR / WHILE / SELECT / CASE / LOOP UNTIL lines) x call depth (SUB / FUNCTION chains) x nesting (9 block kinds, one-line IF) x layout (blank lines, comment lines, colon-joined statements before/after, trailing comment, indentation, CR LF / LF / CR / mixed per line, noise before procedures) x a prior handled error. TLC enumerates a configuration exhaustively and samples deep histories (call depth <= 3, nesting <= 3). The renderer records only CHARACTER offsets of the offending statement and of the call sites; Trace_Diag.tla derives rows and columns from the characters with the position machine (MC_Text: machine = declarative definition on all texts over {x, CR, LF} up to length 7, run-compressed machine = machine) and judges the real parser / checker / VM diagnostic: stage, family, row of the statement, column inside it, rows of the active call sites innermost first.",
                note="Trusted: the renderer's offsets (marks not on one row are rejected by the spec), the run-length compression of the text, TLC. A syntax error may point at the character that ends the statement. Columns of call sites are not judged (the property speaks of rows)."),
    "C15": dict(level="model_checking", design="DESIGN.md section 5 C15",
                technique="TLC model checking of the REAL generated instruction lists with an abstract VM (VMAbs.tla) + TLA+ monitor (StackMon.tla) over the hook's depth vectors",
                text="The instruction list the real generator produced for every accepted program (C01/C03/C04/C05/C06 families and every program text embedded in the repository's tests and fixtures) is exported and TLC explores its control-flow graph path by path with an abstract VM that keeps only stack depths, pending returns and pending GOSUBs: static well-formedness (targets resolved and in range, labels once, procedures closed under branches, main ends in Halt and procedures in PopRet, statement addresses ascending), no underflow, no depth beyond a bound (growth with the iteration count), clean state at the final Halt. Every (statement boundary, context, depths relative to the activation) TLC reaches - and every one the hook recorded in the real runs - goes through StackMon.tla: a boundary in a context has one depth vector and empty variable-path / by-ref / argument stacks.",
                note="Trusted: Debug rendering of instructions -> opcode records, the opcode effect table (cross-checked against the effects observed through the hook: drift list in the evidence), TLC. Error edges are not explored statically; runs with handled errors are covered by the dynamic monitor. Call depth <= 3, depth bound 10."),
    "C12": dict(level="model_checking", design="DESIGN.md section 5 C12",
                technique="TLC model checking that the kinding rules (Types.tla) are sound w.r.t. Values.tla + TLC validation of the real checker's verdicts and the real runs' outcomes",
                text="D: for every expression of depth <= 2 over typed leaves TLC shows that an expression the kinding rules accept never evaluates to Type mismatch in Values.tla and that its result has the predicted kind. V: every depth-1 expression (10 binary and 2 unary operators, parentheses, 10 built-ins, subscripts over 6 typed leaves) and seeded depth-2 compositions are placed at 18 syntactic positions (assignment, parentheses, PRINT list, user function argument, subscript, CASE list, unary/binary operand, built-in argument, IF condition, FOR bound, nested call arguments); TLC checks that an ill-kinded statement is rejected as a type error in that statement and that an accepted statement never ends in error 13 or a wrong-kind panic when run; six kinds of single ill-forming edit (string operand, missing label, argument count, by-reference type, duplicate definition, NEXT for the wrong counter) applied to accepted programs must be rejected with the matching family located in the edited statement; consistent renaming must not change the verdict class.",
                note="Trusted: renderer, TLC. Kinds (number/string) only; a well-kinded statement the checker rejects is not judged (the property constrains acceptance); renaming compared on the implementation against itself."),
    "C13": dict(level="model_checking", design="DESIGN.md section 5 C13",
                technique="TLC model checking of the resolution rules (Names.tla) + TLC validation of the real checker's verdict and the real run's output on declaration/use histories",
                text="D: on every DEFtype configuration of the first letter, every declaration state of a base name, every pair of suffixes and both scopes TLC checks the statements of C13 on Names.tla (default SINGLE unless DEFtype, bare = default-suffixed, five suffixes distinct, extended declaration excludes other suffixes, local by default). V: the 5 x 7 DEFtype letter-range configurations, every single and every pair (sampled in quick) of declaration/use statements of one base name in main, suffix probes after DIM AS / CONST in main and in a SUB, main declaration x pairs of SUB statements, and seeded random histories over two bases are rendered with random letter case per occurrence, checked and run by the real code; TLC compares verdict and printed values with the three-valued oracle.",
                note="Trusted: renderer, TLC. Histories the documents leave open (declaration after use, re-declaration, shadowing of shared names/constants in a SUB) are only required not to panic."),
    "C18": dict(level="model_checking", design="DESIGN.md section 5 C18",
                technique="TLC model checking of Files.tla (handle table, store) + TLC validation of recorded file histories (stdout, file bytes, result)",
                text="D: TLC explores every history of up to 6 (7) operations (OPEN in three modes, PRINT #, LINE INPUT #, EOF, CLOSE, CLOSE all, KILL) over two handles and two names and checks the handle-table / cursor invariants, that an error changes nothing but the status, that OUTPUT truncates and APPEND keeps, that PRINT # appends exactly text + CR LF, that CLOSE frees the handle and that EOF is true exactly at the end. V: straight-line programs in a scratch directory - write/close/read-back with every mix of LINE INPUT # / INPUT # incl. a read past the end, OUTPUT vs APPEND, all protocol histories of 1-2 operations and seeded ones of 3-8 over a 31-operation alphabet, RANDOM files (FIELD/LSET/PUT/GET, records in random order), console INPUT / LINE INPUT on the same texts - are run on the real interpreter; TLC runs Files.tla on each recorded history and compares stdout, the bytes of every file afterwards and the final result (codes 55/53/62 exactly, any file error 50..76 for closed / wrong-mode handles).",
                note="Trusted: host file system in a private directory, renderer, TLC. Not judged (left open by the property): same file on two handles, KILL/NAME of open files, LSET with several FIELD lists in force, blanks behind a field, pad byte of LSET (NUL read as blank), unwritable names."),
    "C16": dict(level="model_checking", design="DESIGN.md section 5 C16",
                technique="TLC model checking of the column machine (Print.tla) + TLC validation of recorded PRINT histories (bytes on screen, printer, two files)",
                text="D: over all histories of two PRINT statements built from an alphabet of items (numbers, empty/short/13-14-15-character strings, a string with an embedded CR) and separators in every position on three devices, TLC checks that the column equals the characters since the last break on that device, that a comma lands on a multiple of 14, that a statement without trailing separator ends the line and that other devices are untouched. V: the real interpreter prints item lists (numbers of every type and sign, strings incl. embedded CR/LF, leading/trailing/consecutive separators) to the screen, LPT1 and two files, alone, after pending statements on the same/another device and in random histories; PRINT USING with all formats up to length 3 (5) over {# , . \\ blank ! x}; TLC runs Print.tla on each recorded history (column invariant in every state) and compares the bytes of all four devices.",
                note="Trusted: renderer, byte normalisation (each CR LF / lone CR / lone LF = one break token), TLC. PRINT USING judged only for unambiguous formats (comma/point with # on both sides), numbers that fit; fractional values in hundredths without ties."),
    "C10": dict(level="model_checking", design="DESIGN.md section 5 C10",
                technique="TLC model checking that repair-by-rotation equals precedence climbing (Expr.tla) + TLC validation of the real parser's trees and literal nodes",
                text="D: for every operator chain (all 13 binary operators up to length 3/4, unary operators in front of every operand up to length 2) TLC checks that the transcription of the parser's rotate-to-repair algorithm yields the precedence-climbing tree and keeps the operands in order. V: the REAL parser's tree for every such chain, for parenthesised spans, for class-representative chains up to 5 operators and seeded random chains up to 8 operators is compared by TLC with Prec(tokens); literal nodes for 16-bit values in decimal/&H/&O with leading zeros and sign, sampled 32-bit values, values beyond LONG and fractional literals are checked for narrowest type and exact value.",
                note="Trusted: harness tree export (shape.rs), TLC. Trees compared up to unary-minus placement over * / MOD. Lowercase &h prefix is not generated (the lexer only knows &H; case is C09's subject)."),
    "C20": dict(level="model_checking", design="DESIGN.md section 5 C20",
                technique="denotational TLA+ model of the combinators (PC.tla); TLC validates the results of the real combinators built from the same terms",
                text="The harness builds the REAL rusty_pc combinator for each abstract term (7 leaves that succeed / fail softly / fail fatally, consuming or not; 18 unary, 8 binary, 2 ternary combinators; a fixed closure table) and runs it on all 121 inputs over {a,b,c} up to length 4. TLC evaluates PC.tla - written from the documentation and the contract of C20 - on the same terms and inputs and compares result class, value, error code and position, and checks on the model that a soft failure under an undoing combinator keeps the position and that success never moves it backwards. Terms: depth 1 complete, depth 2 (unary over depth 1, binary over depth-1 x leaf) complete in thorough, seeded depth 3-5 samples.",
                note="Trusted: harness term builder (pcterm.rs), TLC. Terms that repeat a non-consuming success are excluded (the library does not terminate on them by design). Outputs flattened to strings."),
    "C17": dict(level="model_checking", design="DESIGN.md section 5 C17",
                technique="TLC model checking of the defining equations on Strings.tla + TLC validation of recorded built-in results against the definitions",
                text="D: TLC checks the laws (LEFT$+MID$ split, clamping, INSTR least position, LEN additivity, UCASE$/LCASE$ touch only letters, trims remove exactly blanks, SPACE$ = STRING$(n,32), VAL(STR$(k)) = k, errors for negative counts / non-positive starts) on every string up to length 3 (5) over {a, B, blank, CHR$(200)} and all counts in -1..7. V: the same argument space through real BASIC programs with arguments rendered as literals, variables and nested calls; every result or error code is a record validated by TLC against the DEFINITIONS in Strings.tla.",
                note="Trusted: stdout decoding of results, TLC. INSTR with an empty search string not generated."),
    "C19": dict(level="model_checking", design="DESIGN.md section 5 C19",
                technique="TLC model checking of Bits.tla + TLC validation of call records of the real bit primitives and of BASIC programs against it",
                text="D: TLC checks on all 65536 words that Twos16 is a bijection, NOT n = -n-1, the byte split round-trips, the AND/OR laws (idempotence, identities, complement, De Morgan, inclusion-exclusion on a boundary set) and that the IEEE field<->byte layout is an inverse pair. V: every word through i32_to_bytes / NOT, every byte pair through bytes_to_i32, boundary and random pairs through qb_and / qb_or, doubles given by IEEE fields through f64_to_bytes / bytes_to_f64 (powers of two, boundary mantissas, subnormals, beyond 2^63, random patterns); the same through BASIC (AND/OR/NOT, PEEK/POKE, MKD$/CVD); each record validated by TLC against Bits.tla. Millions of random pairs are bridged against the machine operations.",
                note="Trusted: f64::to_bits in the harness (presents a double to the spec as fields), TLC. NaN/infinity excluded."),
    "C02": dict(level="model_checking", design="DESIGN.md section 5 C02",
                technique="TLA+ rewrite rules (Rewrite.tla) applied and proved output-preserving per instance by TLC on Core.tla; real interpreter compared with itself on both spellings",
                text="TLC enumerates every (program, rule, site) over the base programs and seven rules (FOR as WHILE with sign-tested hidden limit/step, WHILE as DO WHILE, DO UNTIL c as DO WHILE NOT c, SELECT CASE as IF/ELSEIF chain with the subject bound once, block IF as single-line IF, FOR without STEP as STEP 1, loop body wrapped in IF -1), runs the reference semantics on both spellings (so an instance is only used when the rule is sound for it in the oracle) and emits the rewritten program; the driver runs the real interpreter on both texts and compares output, outcome and error code.",
                note="Trusted: renderer, TLC. Programs embedded in the repository's tests are not rewritten in this round (no text->mini-AST converter); generated programs from the C01/C03/C05 families are."),
    "C14": dict(level="model_checking", design="DESIGN.md section 5 C14",
                technique="TLA+ reference semantics (Core.tla CONST evaluated by the same Values operators as run-time expressions); TLC validates CONST / run-time / inlined programs",
                text="Every constant expression of the bounded family is run three ways on the real code - CONST c = e : PRINT c (and c + c), PRINT (e), and programs where each use of a constant is replaced by its defining expression - at module and subprogram level; TLC validates each run against Core.tla, so the CONST value, its type (through overflow behaviour and the suffix acceptance probe) and static rejection (which must coincide with the run-time error 6/11) are all decided by the spec.",
                note="Trusted: renderer, TLC. Inexact divisions and out-of-INTEGER operands of MOD/AND/OR are skipped."),
    "C06": dict(level="model_checking", design="DESIGN.md section 5 C06",
                technique="TLC model checking of Values.tla over the boundary set + TLC validation of boundary-route programs against Core.tla + TLA+ monitor TypeMon over typed variable dumps",
                text="D: TLC checks on every (source type, target type, boundary value) and every (operator, types, boundary pair) that Cast/Arith are total and yield a value in the range of the result type or Overflow. R/V: each boundary value is driven through every storing route (assignment, by-value parameter, FOR start/limit/increment, READ, array element, record field, FUNCTION result, by-reference copy-out, STATIC local) from literals, typed variables and sums; expectation (stored value or error 6 at that statement) from Core.tla. M: the hook dumps every variable at statement boundaries; TypeMon.tla checks each dumped value is a value of its variable's type.",
                note="Trusted: renderer, TLC, the dump hook. Fractions only as x.1/.4/.6/.9 constants converted to whole-number types; ties excluded."),
    "C03": dict(level="model_checking", design="DESIGN.md section 5 C03",
                technique="TLA+ reference semantics (Core.tla call actions: copy-in/copy-out, activations, statics); TLC validates recorded runs",
                text="Call programs: 5 parameter types x 8 argument shapes (variable, array element, literal, parenthesised, expression, function call, converted, computed subscript), two-parameter copy-out order, fresh locals incl. recursion, FUNCTION results assigned 0/1/2 times, ALL call histories up to length 4/5 of a STATIC sub called directly, through another SUB, and interleaved with other subprograms, DIM SHARED and CONST identity, calls nested in argument lists in all orders, run-time errors at call depth 1-3 with call-site rows. Each recorded run is validated by TLC against Core.tla.",
                note="Trusted: renderer, TLC. The same variable in two by-reference positions is judged (written back left to right)."),
    "C04": dict(level="model_checking", design="DESIGN.md section 5 C04",
                technique="TLC model checking of Store.tla (index map bijection, frame condition) + TLC validation of VArray call records and of array/record/fixed-string programs against Core.tla",
                text="D: TLC explores the implementation-shaped index loop for every box (1-3 dimensions, lower bounds -2..2, extents 1..4) and every tuple within one step of every face, checking agreement with the lexicographic definition, bijectivity onto 0..len-1, error exactly outside the box and the write frame condition. V: the same tuples through the real VArray::abs_index / get_element_mut, validated by Trace_Store. Programs: 10 shapes x 7 element types written in two orders and read back, LBOUND/UBOUND, one out-of-range access per face, records (nested, in arrays, copied, by reference), STRING*n through six assignment routes; validated against Core.tla.",
                note="Trusted: renderer, TLC. Subscripts beyond INTEGER not generated."),
    "C05": dict(level="model_checking", design="DESIGN.md section 5 C05",
                technique="TLA+ reference semantics (Core.tla jump/handler actions); TLC validates recorded trace-token runs",
                text="Programs in which every statement prints a trace token: all GOTO source/target layouts of a skeleton in main and inside a SUB, all pairs of loop kinds left by GOTO to three landing sites, all GOSUB nesting shapes up to depth 3 (also inside loops and SUBs), RETURN without GOSUB and RETURN label, and error-trap programs (failing statement kind x host block x position x handler mode, failing block headers, all orders of ON ERROR GOTO / RESUME NEXT / GOTO 0). Each recorded run is validated by TLC against Core.tla.",
                note="Trusted: renderer, TLC. Not generated: RESUME NEXT on failing block headers. An error inside a handler is not fixed by the property (skipped by the spec)."),
    "C01": dict(level="model_checking", design="DESIGN.md section 5 C01",
                technique="TLA+ reference semantics (Core.tla); TLC validates recorded runs of the real interpreter",
                text="Families of core-language programs (all ordered pairs and selected triples of 14 block constructs, "
                     "all binary operators x operand type pairs x boundary values, all FOR lo/hi/step triples, SELECT forms, "
                     "READ/DATA layouts, each failing operation at each position of each block kind, seeded random programs) "
                     "are run on the real interpreter; every recorded run (stdout bytes, outcome, error code, failing statement) "
                     "is an initial state of Trace_Core.tla, TLC runs the spec's own actions on the recorded program and "
                     "compares the observables, checking the oracle invariants in every state.",
                note="Trusted: AST->text renderer, TLC. Numeric domain restricted to exactly representable whole numbers; "
                     "cases leaving it are skipped by the spec, never judged."),
}

# what the checks gained while being hardened against seeded changes (DESIGN.md 9.4); appended to the level text
ADDED = {
    "C01": "families for empty blocks, FOR bound / step conversion, truth of non-zero and fractional conditions; runs that exhaust the instruction budget are judged through the spec's fuel (an endless run of a program that Core ends is a mismatch).",
    "C02": "base programs also from the C03 call / EXIT / complete-blocks families, C05 goto families and the empty-block family; rule colonline (whole loop nests on one line).",
    "C03": "STATIC x by-reference, calls after a STATIC procedure ran, places whose subscript calls a function, EXIT from every kind of block with an operand pending in the caller, ordinary and STATIC procedures in every source order, a place computed from a later argument, every block kind running to its end inside a procedure whose caller has an operand pending, SHARED variables passed by reference, parameterless functions as arguments (also with dotted names), 2-3 by-reference arguments of mixed shapes with a value each, fraction literals to whole-number parameters, subscripts naming by-reference variables of the same call (known finding).",
    "C04": "fixed <- fixed, non-ASCII text at the cut, members spelled with their suffix, fresh numeric members in arithmetic, REDIM (also of SHARED arrays inside a SUB and in the module), wrong numbers of subscripts, subscripts that are elements themselves.",
    "C05": "pending-operand family (also STATIC), failing kinds after a returned call and failing built-ins (Core knows LEN / LEFT$ / MID$), GOTO out of SELECT CASE and after finished blocks, errors in the last statement of a block in a loop, bare RESUME inside procedures, the failing statement as last statement of the main module, statements that fail on their first instruction under RESUME, failing ELSEIF / CASE / LOOP UNTIL headers, a jump right behind the failing statement, READ running out of data in the middle, RETURN inside procedures, RESUME label out of procedures and out of blocks (one known finding).",
    "C06": "the monitor judges the type the machine computes with (variant tag), reads record fields, sees SINGLE-exactness; READ / INPUT / VAL into fresh fields, undefined functions as operands, MOD and / at the boundaries, float overflow, DOUBLE beyond SINGLE on both sides through every route, variables and function results that are never assigned, unary operators into every target type.",
    "C07": "alphabet of 111 token classes; Slots.tla (statement templates x fillers, about 1.1 million states, stratified sample in quick) incl. TYPE blocks with two members and dotted names with suffixes, file numbers of every shape, whole arrays as arguments, bare names of built-in functions, dotted constants as targets.",
    "C08": "mis-kinded calls (one argument of a foreign kind, Calls.Mis), the Slots.tla space, fixed-length strings meeting non-ASCII text, non-ASCII console input, and a pass over the SHIPPED command-line program (default interpreter with the real console / printer / screen devices).",
    "C09": "moves for blanks before line ends, comment lines and comment + blank line combinations, blanks around separator colons, tight colons, every joinable line end at once; syntax-tour seeds.",
    "C10": "negated radix literals, operands in parentheses directly after keyword operators, many leading zeros; TLC validates in portions.",
    "C11": "host statement x fault expression product, already-returned helper calls, STATIC / recursive procedures in the chain, prior handled error (division or failing built-in), faults only the end of the input reveals under every line-end convention, open string literals, recursion that has returned before the fault, and the same texts read from a FILE by the shipped program.",
    "C12": "every leaf at every parameter of every built-in, whole records of two TYPEs, undefined functions, user FUNCTION calls in every deep position (subscripts, members, CASE, STEP, DIM bounds, PRINT USING), labels of other procedures, argument lists of built-in statements, renaming across the first letters of DEFtype ranges, every position inside blocks of nine kinds, two member names behind a subscript, whole arrays as leaves.",
    "C13": "SUB parameters, FUNCTION names, REDIM, DEFtype in the middle of the module and overriding earlier ones, constants from constants, every pair of SUB statements after a SHARED declaration.",
    "C14": "local constants shadowing module constants, constants as arguments, as string lengths (also inside SUBs), constants of mixed numeric types under every operator, dotted names, suffixed references inside later constants, both operands failing, a constant as a string length against its written-out value.",
    "C15": "label-scope family (every jump kind x position x label position), run-time panics of accepted programs, statement marks at procedure entries; the value-level VM.tla validated instruction by instruction against the recorded registers (vm_conformance evidence, not an alarm).",
    "C16": "sequences of PRINT USING statements, fractional values (Print.ScaledInField), negative numbers through comma fields, empty lists after pending statements, negative zero, every run of two and three separators, a PRINT statement that runs inside a function called from an item of another PRINT statement.",
    "C17": "arguments passed through variables must be unchanged after the call; whole programs built from the functions (loops, random nests under a handler, results as arguments) judged end to end by Core.tla, whose built-ins are the definitions of Strings.tla.",
    "C18": "FIELD lists shorter than the record, several FIELD lists, records surviving CLOSE / OPEN FOR RANDOM, PRINT #n, x; and blank remainders, foreign line ends (given files, console), CLOSE lists, characters above 127, PRINT # without items and pending lines in every order, PUT of the record buffer as it stands, record operations on handles in another mode, file number 255.",
    "C19": "a panic of a bridge call is data; PEEK / POKE through array elements among other variables, variables of procedures, plain DEF SEG, neighbours of a poked variable, SHARED array elements reached from procedures.",
    "C20": "context-carrying repetition (ManyCtxParser), a failing right side of then_with (then_dep), every combinator over every combinator over every leaf in quick.",
}

NA_REASON = "check not built yet in this round (planned: see DESIGN.md section 5)"


def main():
    props = [json.loads(l)["id"] for l in open(os.path.join(ROOT, "properties.jsonl"))]
    try:
        commits = subprocess.run(["git", "-C", "/repo", "log", "--format=%h %s", "--grep=^verif hooks"],
                                 stdout=subprocess.PIPE, text=True).stdout.strip().splitlines()
    except Exception:
        commits = []
    m = {
        "version": 1,
        "setup_cmd": "cd harness && (test -f Cargo.lock || cp /repo/Cargo.lock .) && CARGO_NET_OFFLINE=true cargo build --offline",
        "hooks": {
            "guard": "cargo feature `verif` on crate rusty_basic (off by default)",
            "enable": "harness/Cargo.toml depends on rusty_basic with features=[\"verif\"]; every check rebuilds the harness "
                      "(and through its path dependencies /repo's current tree) with `cargo build --offline`",
            "baseline_off_cmd": "cd /repo && cargo test --workspace --no-fail-fast --offline",
            "source_commits": [c.split()[0] for c in commits],
            "add_only": True,
        },
        "engines": [
            {"name": "tlc", "path": "spec/", "kind_free_text": "TLA+ specifications checked with TLC 1.8.0",
             "serves_properties": sorted(CHECKS)},
            {"name": "rbverif", "path": "harness/", "kind_free_text": "Rust harness driving the real parser/linter/generator/VM",
             "serves_properties": sorted(CHECKS)},
            {"name": "check", "path": "check", "kind_free_text": "python driver: generate, execute, validate with TLC, classify, evidence",
             "serves_properties": sorted(CHECKS)},
        ],
        "checks": [],
        "not_applicable": [],
        "notes": "Exit codes: 0 held, 1 VIOLATION, 2 tool error/timeout. known_findings.json lists recorded defects and fixed ones.",
    }
    for pid in props:
        if pid in CHECKS:
            c = CHECKS[pid]
            m["checks"].append({
                "property_id": pid,
                "quick_cmd": "./check %s --tier quick" % pid,
                "thorough_cmd": "./check %s --tier thorough" % pid,
                "evidence_file": "evidence/%s.json" % pid,
                "replay_cmd_template": "./check %s --replay {path}" % pid,
                "engine": "tlc+rbverif",
                "level_claimed": {"category": c["level"],
                                  "text": c["text"] + (" Added while hardening against seeded changes: " + ADDED[pid] if pid in ADDED else ""),
                                  "design_ref": c["design"]},
                "level_note": c["note"],
                "technique": c["technique"],
            })
        else:
            m["not_applicable"].append({"property_id": pid, "reason": NA_REASON})
    with open(os.path.join(ROOT, "MANIFEST.json"), "w") as f:
        json.dump(m, f, indent=1)
    print("checks:", [c["property_id"] for c in m["checks"]])


if __name__ == "__main__":
    main()
