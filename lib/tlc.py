"""Runs TLC on a module of /verif/spec and parses what it printed."""
import os, re, subprocess, time, json, shutil
from common import SPEC, NCPU, ToolError

JAR = "/opt/veriftools/tla/tla2tools.jar"


class TlcResult:
    def __init__(self):
        self.lines = []
        self.printed = []       # strings printed through PrintT("...")
        self.generated = 0
        self.distinct = 0
        self.depth = 0
        self.ok = False         # "Model checking completed. No error has been found."
        self.violation = None   # text of the first invariant violation / error
        self.coverage = {}      # action name -> (distinct, total)
        self.wall = 0.0
        self.cmd = ""
        self.timed_out = False


_STR = re.compile(r'^"((?:[^"\\]|\\.)*)"$')


def _unescape(s):
    # TLC prints strings with \" and \\ escapes
    return json.loads('"' + s + '"')


def run_tlc(module, cfg, metadir, env=None, workers=None, timeout=1800, coverage=False,
            simulate=None, extra=None, heap="6g", deque=False):
    """module/cfg are file names inside spec/. Returns a TlcResult."""
    res = TlcResult()
    workers = workers or max(2, NCPU - 2)
    if os.path.isdir(metadir):
        shutil.rmtree(metadir, ignore_errors=True)
    os.makedirs(metadir, exist_ok=True)
    jopts = ["-Xss1g", "-Xmx" + heap, "-XX:+UseParallelGC"]
    if deque:
        jopts.append("-Dtlc2.tool.queue.IStateQueue=StateDeque")
    # java is started directly (same class path as the `tlc` wrapper) so that -Xss is on the command line: the
    # launcher sizes the MAIN thread from it, and TLC evaluates the invariants of initial states in the main thread
    # (a -Xss passed through JAVA_TOOL_OPTIONS only reaches the worker threads)
    cmd = ["java"] + jopts + ["-cp", JAR + ":/opt/veriftools/tla/CommunityModules-deps.jar", "tlc2.TLC"]
    if not os.path.exists(JAR):
        cmd = ["tlc"]
    args = ["-workers", str(workers), "-metadir", metadir, "-cleanup", "-noGenerateSpecTE",
            "-config", cfg]
    if coverage:
        args += ["-coverage", "1"]
    if simulate:
        args += ["-simulate", simulate]
    if extra:
        args += extra
    args.append(module)
    e = dict(os.environ)
    e["JAVA_TOOL_OPTIONS"] = " ".join(jopts)
    if env:
        e.update({k: str(v) for k, v in env.items()})
    res.cmd = "cd spec && " + " ".join(("%s=%s" % (k, v)) for k, v in (env or {}).items()) + " tlc " + " ".join(args)
    t0 = time.time()
    try:
        p = subprocess.run(["timeout", str(int(timeout))] + cmd + args, cwd=SPEC, env=e,
                           stdout=subprocess.PIPE, stderr=subprocess.STDOUT, text=True)
    except Exception as ex:
        raise ToolError("cannot run tlc: %s" % ex)
    res.wall = time.time() - t0
    out = p.stdout
    res.lines = out.splitlines()
    if p.returncode == 124:
        res.timed_out = True
    cov_re = re.compile(r"^<(\w+) line \d+, col \d+ to line \d+, col \d+ of module (\w+)>: (\d+):(\d+)")
    for ln in res.lines:
        m = _STR.match(ln)
        if m:
            try:
                res.printed.append(_unescape(m.group(1)))
            except ValueError:
                res.printed.append(m.group(1))
            continue
        m = re.match(r"^(\d+) states generated, (\d+) distinct states found", ln)
        if m:
            res.generated = int(m.group(1))
            res.distinct = int(m.group(2))
        m = re.match(r"^The depth of the complete state graph search is (\d+)", ln)
        if m:
            res.depth = int(m.group(1))
        if ln.startswith("Model checking completed. No error has been found."):
            res.ok = True
        m = cov_re.match(ln)
        if m:
            res.coverage[m.group(1)] = (int(m.group(3)), int(m.group(4)))
    if not res.ok and not res.timed_out:
        idx = [i for i, ln in enumerate(res.lines) if ln.startswith("Error:")]
        if idx:
            res.violation = "\n".join(res.lines[idx[0]:idx[0] + 60])
        else:
            res.violation = "\n".join(res.lines[-40:])
    shutil.rmtree(metadir, ignore_errors=True)
    return res


def require_clean(res, what):
    """TLC itself must have finished without error; anything else is a tool error
    unless the caller interprets res.violation."""
    if res.timed_out:
        raise ToolError("TLC timed out: " + what)
    if not res.ok:
        raise ToolError("TLC failed on %s:\n%s" % (what, res.violation))
