"""Shared paths and small helpers for the /verif checks."""
import json, os, subprocess, sys, time, hashlib

ROOT = os.path.dirname(os.path.dirname(os.path.abspath(__file__)))
SPEC = os.path.join(ROOT, "spec")
HARNESS = os.path.join(ROOT, "harness")
BIN = os.path.join(HARNESS, "target", "debug", "rbverif")
OUT = os.path.join(ROOT, "out")
EVIDENCE = os.path.join(ROOT, "evidence")
REPO = "/repo"
NCPU = os.cpu_count() or 4


class ToolError(Exception):
    """Something in the machinery failed (exit 2), not the code under test."""


def seed():
    try:
        return int(os.environ.get("VERIF_SEED", "1"))
    except ValueError:
        return 1


def out_dir(pid, sub=None):
    d = os.path.join(OUT, pid) if sub is None else os.path.join(OUT, pid, sub)
    os.makedirs(d, exist_ok=True)
    return d


def build_harness():
    """Rebuilds the harness (and, through its path dependencies, /repo's current tree)."""
    t0 = time.time()
    lock = os.path.join(HARNESS, "Cargo.lock")
    if not os.path.exists(lock):
        subprocess.run(["cp", os.path.join(REPO, "Cargo.lock"), lock], check=False)
    env = dict(os.environ)
    env["CARGO_NET_OFFLINE"] = "true"
    p = subprocess.run(["cargo", "build", "--offline"], cwd=HARNESS, env=env,
                       stdout=subprocess.PIPE, stderr=subprocess.STDOUT, text=True)
    if p.returncode != 0:
        sys.stderr.write(p.stdout[-4000:])
        raise ToolError("cargo build of the harness failed (does /repo still compile?)")
    return time.time() - t0


def codes(s):
    """text -> list of byte codes (the spec's string representation)"""
    if isinstance(s, dict) and "bytes" in s:
        return list(s["bytes"])
    return list(s.encode("utf-8"))


def text_of(codes_):
    return bytes(codes_).decode("utf-8", errors="replace")


def dumps(o):
    return json.dumps(o, separators=(",", ":"), sort_keys=False)


def sha(o):
    return hashlib.sha1(dumps(o).encode()).hexdigest()[:12]
