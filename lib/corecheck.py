"""Shared flow for the properties decided through the reference semantics Core.tla:
program (mini-AST) -> BASIC text -> real interpreter -> recorded observables ->
TLC validates each record against the spec (Trace_Core)."""
import json, os, time
from common import codes, text_of, dumps, out_dir, ToolError
import render
from tlc import run_tlc


def row_maps(rows, endrows):
    inv = {}
    for sid, r in rows.items():
        inv.setdefault(r, sid)
    for sid, r in endrows.items():
        if sid != "extra":
            inv.setdefault(r, sid)
    for r, sid in endrows.get("extra", {}).items():
        inv.setdefault(r, sid)
    return inv


def char_codes(s):
    """the printed text as the character codes the spec uses: a character below 256 is ONE code (the interpreter
    writes it to its byte stream in UTF-8, which is an encoding matter, not a difference in what was printed)"""
    if isinstance(s, dict):
        return codes(s)
    out = []
    for ch in s:
        o = ord(ch)
        out += [o] if o < 256 else list(ch.encode("utf-8"))
    return out


def obs_of(resp, rowinv):
    """harness response -> observables in the vocabulary of the spec"""
    if resp is None:
        return {"status": "lost", "out": [], "code": 0, "estmt": 0, "stack": []}
    if resp.get("timeout"):
        return {"status": "timeout", "out": [], "code": 0, "estmt": 0, "stack": []}
    if resp.get("abort"):
        return {"status": "abort", "out": [], "code": 0, "estmt": 0, "stack": []}
    if "panic" in resp:
        return {"status": "panic", "out": [], "code": 0, "estmt": 0, "stack": [],
                "panic": resp["panic"], "stage": resp.get("stage")}
    st = resp.get("stage")
    if st in ("parse", "lint"):
        err = resp.get("error") or {}
        dbg = str(err.get("dbg"))
        code = 6 if dbg == "Overflow" else 11 if dbg == "DivisionByZero" else 0
        pos = err.get("pos") or [0, 0]
        return {"status": "reject", "out": [], "code": code, "estmt": rowinv.get(pos[0], -1), "stack": [],
                "stage": st, "error": err}
    out = char_codes(resp.get("stdout", ""))
    oc = resp.get("outcome", {})
    if oc.get("k") == "ok":
        return {"status": "ok", "out": out, "code": 0, "estmt": 0, "stack": []}
    if oc.get("k") == "budget":
        return {"status": "budget", "out": out, "code": 0, "estmt": 0, "stack": []}
    if oc.get("k") == "err":
        pos = oc.get("pos") or []
        estmt = rowinv.get(pos[0][0], -1) if pos else -1
        stack = [rowinv.get(p[0], -1) for p in pos[1:]]
        code = oc.get("code")
        return {"status": "err", "out": out, "code": code if code is not None else -1,
                "estmt": estmt, "stack": stack, "dbg": oc.get("dbg"), "pos": pos}
    return {"status": "unknown", "out": out, "code": 0, "estmt": 0, "stack": []}


SPEC_FIELDS = ("status", "out", "code", "estmt", "stack")


def spec_obs(o):
    return {k: o[k] for k in SPEC_FIELDS}


class CoreRun:
    def __init__(self, pid, pool, budget=200000, tlc_timeout=1500, chunk=15000, workers=None):
        self.pid = pid
        self.pool = pool
        self.budget = budget
        self.tlc_timeout = tlc_timeout
        self.chunk = chunk
        self.workers = workers
        self.budget_cases = int(os.environ.get("VERIF_BUDGET_CASES", "80"))
        self.states = 0
        self.transitions = 0
        self.tlc_wall = 0.0
        self.tlc_runs = 0
        self.coverage = {}
        self.cmds = []

    def execute(self, cases, extra_req=None):
        """renders and runs every case on the real interpreter; fills case['text'],
        case['obs'], case['resp'] (trimmed)."""
        reqs = []
        for c in cases:
            text, rows, spans, endrows = render.program(c["prog"])
            c["text"] = text
            c["rows"] = rows
            c["spans"] = spans
            c["rowinv"] = row_maps(rows, endrows)
            r = {"op": "run", "text": text, "budget": self.budget, "stdin": c.get("stdin", "")}
            if extra_req:
                r.update(extra_req)
            if "req" in c:
                r.update(c["req"])
            reqs.append(r)
        resps = self.pool.map(reqs, timeout=30.0)
        for c, resp in zip(cases, resps):
            c["resp"] = resp
            c["obs"] = obs_of(resp, c["rowinv"])
        return cases

    def validate(self, cases, tag="core"):
        """TLC validates every record; sets case['verdict'] in agree|mismatch|skip and
        case['expected'] (the spec's observables) for mismatches."""
        byid = {c["id"]: c for c in cases}
        d = out_dir(self.pid)
        # a run that exhausted the instruction budget: the spec decides whether the program ends (then the machine's
        # endless run is a disagreement) or burns its fuel too (then nothing is judged).  Stepping the spec to its fuel
        # limit is slow, so only a bounded number of such runs is handed to TLC; the others are skipped and counted.
        todo = []
        nbudget = 0
        for c in cases:
            if c["obs"]["status"] == "budget":
                nbudget += 1
                if nbudget <= self.budget_cases:
                    todo.append(c)
                else:
                    c["verdict"] = "skip"
                    c["skipwhy"] = "budget"
            else:
                todo.append(c)
        for start in range(0, len(todo), self.chunk):
            part = todo[start:start + self.chunk]
            path = os.path.join(d, "%s_%d.ndjson" % (tag, start))
            with open(path, "w") as f:
                for c in part:
                    f.write(dumps({"id": c["id"], "prog": c["prog"], "obs": spec_obs(c["obs"])}) + "\n")
            res = run_tlc("Trace_Core.tla", "Trace_Core.cfg", os.path.join(d, "tlc_" + tag),
                          env={"TRACE": path}, timeout=self.tlc_timeout,
                          workers=self.workers)
            self.cmds.append(res.cmd)
            self.tlc_wall += res.wall
            self.tlc_runs += 1
            if res.timed_out:
                raise ToolError("TLC timed out validating %s" % path)
            if not res.ok:
                raise ToolError("TLC stopped on %s (oracle invariant or spec error):\n%s" % (path, res.violation))
            self.states += res.distinct
            self.transitions += res.generated
            for k, (dn, tot) in res.coverage.items():
                a, b = self.coverage.get(k, (0, 0))
                self.coverage[k] = (a + dn, b + tot)
            seen = set()
            for ln in res.printed:
                parts = ln.split(" ", 2)
                if len(parts) < 2 or parts[0] not in ("AGREE", "MISMATCH", "SKIP", "EXPECT"):
                    continue
                cid = int(parts[1])
                c = byid.get(cid)
                if c is None:
                    continue
                seen.add(cid)
                if parts[0] == "AGREE":
                    c["verdict"] = "agree"
                    c["spec_steps"] = int(parts[2]) if len(parts) > 2 and parts[2].strip().isdigit() else 0
                elif parts[0] == "SKIP":
                    c["verdict"] = "skip"
                    c["skipwhy"] = parts[2] if len(parts) > 2 else ""
                else:
                    c["verdict"] = "mismatch"
                    c["expected"] = json.loads(parts[2])
            for c in part:
                if c["id"] not in seen:
                    raise ToolError("TLC gave no verdict for record %s" % c["id"])
            os.remove(path)
        return cases


def describe(c):
    """human-readable summary of a (mismatching) case for replay files"""
    exp = c.get("expected")
    d = {"family": c.get("fam"), "rendered_text": c["text"], "stdin": c.get("stdin", ""),
         "observed": dict(c["obs"], out_text=text_of(c["obs"]["out"])),
         "prog": c["prog"]}
    if exp:
        d["expected"] = dict(exp, out_text=text_of(exp["out"]))
    return d
