"""Turns harness responses into records for Outcome.tla and runs the monitor."""
import os
from common import out_dir, dumps, ToolError
from tlc import run_tlc


def line_lens(text):
    """lengths of the lines of a text; CR LF, CR and LF each end a line"""
    lens = []
    cur = 0
    i = 0
    n = len(text)
    while i < n:
        c = text[i]
        if c == "\r":
            lens.append(cur)
            cur = 0
            if i + 1 < n and text[i + 1] == "\n":
                i += 1
        elif c == "\n":
            lens.append(cur)
            cur = 0
        else:
            cur += 1
        i += 1
    if cur > 0 or not lens:
        lens.append(cur)
    return lens


def end_position(text):
    """the position immediately after the last character, by the position machine of Text.tla:
    position of the last character (a LF right after a CR shares the CR's position) plus one column"""
    row, col, prevcr = 1, 1, False
    last = (1, 0)
    for c in text:
        last = (row, col)
        if c == "\r":
            nxt = (row + 1, 1, True)
        elif c == "\n":
            if prevcr:
                # the LF of a CR LF sits where the CR sat
                last = lastcr
                nxt = (row, col, False)
            else:
                nxt = (row + 1, 1, False)
        else:
            nxt = (row, col + 1, False)
        if c == "\r":
            lastcr = (row, col)
        row, col, prevcr = nxt
    return last[0], last[1] + 1


def record(rid, text, resp, upto="run"):
    """upto = 'lint': only parsing + checking matter (C07)"""
    er, ec = end_position(text)
    r = {"id": rid, "stage": "run", "kind": "ok", "code": 0, "row": 1, "col": 1, "lens": line_lens(text), "endrow": er, "endcol": ec}
    if resp is None:
        r.update(stage="run", kind="abort")
        return r
    if resp.get("timeout"):
        r.update(stage=resp.get("stage") or "parse", kind="timeout")
        return r
    if resp.get("abort"):
        r.update(stage=resp.get("stage") or "parse", kind="abort")
        return r
    st = resp.get("stage") or "run"
    if "panic" in resp:
        r.update(stage=st, kind="panic")
        return r
    if st in ("parse", "lint"):
        pos = (resp.get("error") or {}).get("pos") or [0, 0]
        r.update(stage=st, kind="error", row=pos[0], col=pos[1])
        return r
    if st == "igen" or upto == "lint":
        r.update(stage="igen" if st == "igen" else st, kind="ok")
        return r
    oc = resp.get("outcome") or {}
    if oc.get("k") == "ok":
        r.update(kind="ok")
    elif oc.get("k") == "budget":
        r.update(kind="budget")
    elif oc.get("k") == "err":
        pos = oc.get("pos") or [[0, 0]]
        code = oc.get("code")
        r.update(kind="error", code=code if code is not None else -1, row=pos[0][0], col=pos[0][1])
    else:
        r.update(kind="abort")
    return r


def validate(pid, recs, tag="outcome", timeout=3000):
    """-> (set of ids TLC found inadmissible, states, transitions, cmd)"""
    d = out_dir(pid)
    bad = set()
    states = trans = 0
    cmd = ""
    chunk = 60000
    for start in range(0, len(recs), chunk):
        path = os.path.join(d, "%s_%d.ndjson" % (tag, start))
        with open(path, "w") as f:
            for r in recs[start:start + chunk]:
                f.write(dumps(r) + "\n")
        res = run_tlc("Outcome.tla", "Outcome.cfg", os.path.join(d, "tlc_" + tag), env={"TRACE": path}, timeout=timeout)
        cmd = res.cmd
        if res.timed_out or not res.ok:
            raise ToolError("TLC failed on Outcome:\n%s" % res.violation)
        states += res.distinct
        trans += res.generated
        for ln in res.printed:
            if ln.startswith("MISMATCH "):
                bad.add(int(ln.split()[1]))
        os.remove(path)
    return bad, states, trans, cmd
