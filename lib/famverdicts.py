#!/usr/bin/env python3
"""famverdicts.py <generator module> <family prefix> [tier]: runs the cases of the families with that prefix through the real code
and Core, prints one line per case (development aid; writes nothing but out/TRIAGE)."""
import sys, os
sys.path.insert(0, os.path.dirname(os.path.abspath(__file__)))
sys.path.insert(0, os.path.join(os.path.dirname(os.path.abspath(__file__)), "props"))
import importlib
from pool import Pool
from corecheck import CoreRun
from common import text_of

mod = importlib.import_module(sys.argv[1])
tier = sys.argv[3] if len(sys.argv) > 3 else "quick"
cases = [c for c in mod.cases(tier, 1) if c["fam"].startswith(sys.argv[2])]
pool = Pool()
cr = CoreRun("TRIAGE", pool, budget=200000)
cr.execute(cases, None)
cr.validate(cases)
for c in cases:
    print(c["fam"], c["verdict"], c.get("skipwhy", ""), repr(text_of(c["obs"]["out"]))[:120], c["obs"]["status"])
    if c["verdict"] != "agree" and "-v" in sys.argv:
        print(c["text"])
        print("expected:", c.get("expected"))
