#!/usr/bin/env python3
"""Reverts each `fix:` commit of /repo in turn (in the working tree only) and runs the quick check of the property it
was recorded under: a check that stays green after the defect is put back does not cover it.
   SEEDED_REPO=<worktree> python3 lib/regress.py [hash ...]      -> seeded/regress.json"""
import json, os, re, subprocess, sys, time

ROOT = os.path.dirname(os.path.dirname(os.path.abspath(__file__)))
REPO = os.environ.get("SEEDED_REPO", "/repo")


def sh(cmd, cwd=None, timeout=7200):
    p = subprocess.run(cmd, shell=True, cwd=cwd, stdout=subprocess.PIPE, stderr=subprocess.STDOUT, text=True, timeout=timeout, errors="replace")
    return p.returncode, p.stdout


def main():
    kf = json.load(open(os.path.join(ROOT, "known_findings.json")))
    want = set(sys.argv[1:])
    outp = os.path.join(ROOT, "seeded", "regress.json")
    res = json.load(open(outp)) if os.path.exists(outp) else {}
    for line in kf["fixed"]:
        m = re.match(r"fixed: property=(C\d+) (\w+) (.*)", line)
        pid, h, what = m.groups()
        if want and h not in want:
            continue
        rc, out = sh("git status --short", cwd=REPO)
        if out.strip():
            print("not clean", out)
            return 2
        rc, out = sh("git show %s -- . ':!*/tests/*' | git apply -R" % h, cwd=REPO)
        how = "reverse patch"
        if rc != 0:
            rc, out = sh("git show %s -- . | git apply -R --3way" % h, cwd=REPO)
            how = "reverse patch (3-way)"
        if rc != 0:
            sh("git reset -q --hard HEAD", cwd=REPO)
            res[h] = {"property": pid, "what": what, "verdict": "cannot-revert", "detail": out[-300:]}
            print(h, pid, "cannot revert")
            continue
        t0 = time.time()
        try:
            evf = os.path.join(ROOT, "evidence", pid + ".json")
            keep = open(evf).read() if os.path.exists(evf) else None
            rc, out = sh("./check %s --tier quick" % pid, cwd=ROOT)
            if keep is not None:
                open(evf, "w").write(keep)
            nv = sum(1 for l in out.splitlines() if l.startswith("VIOLATION"))
            res[h] = {"property": pid, "what": what, "how": how, "exit": rc, "violations": nv,
                      "verdict": "caught" if rc == 1 else ("missed" if rc == 0 else "tool-error"), "wall_s": round(time.time() - t0, 1)}
            if rc == 2:
                res[h]["tail"] = out[-600:]
            print(h, pid, res[h]["verdict"], nv)
        finally:
            sh("git reset -q --hard HEAD", cwd=REPO)
        with open(outp, "w") as f:
            json.dump(res, f, indent=1)
    sh("cargo build", cwd=os.path.join(ROOT, "harness"))
    return 0


if __name__ == "__main__":
    sys.exit(main())
