"""C02 check: equivalent spellings.  TLC (Trace_Rewrite.tla) enumerates, for every program,
every rule and every site where it applies, runs the reference semantics on both spellings
(D: the rule is sound in the oracle) and hands out the rewritten program; the driver then runs
the REAL interpreter on both spellings and compares it with itself."""
import json, os
from common import seed, out_dir, dumps, text_of, ToolError
from pool import Pool
from report import Reporter
from tlc import run_tlc
import render, features
import c01, c03, c05


def base_programs(tier, sd):
    progs = []
    want = {"nest", "nest3", "for", "select", "select-edge", "elseif", "random", "err", "empty", "forconv", "truth", "condfrac"}
    for c in c01.cases(tier, sd):
        f = c["fam"].split(":")[0]
        if f in want:
            progs.append(c)
    for c in c05.cases(tier, sd):
        if c["fam"].startswith(("goto-loop", "goto-frames", "goto-select", "gosub", "trap:div")):
            progs.append(c)
    for c in c03.cases(tier, sd):
        if c["fam"].startswith(("recursion", "locals", "static:DV", "for-header-calls", "exit", "complete-blocks")):
            progs.append(c)
    if tier == "quick":
        import random
        rng = random.Random(sd)
        keep = [c for c in progs if c["fam"].split(":")[0] in ("nest", "for")]
        rest = [c for c in progs if c["fam"].split(":")[0] not in ("nest", "for")]
        rng.shuffle(rest)
        rng.shuffle(keep)
        edge = [c for c in rest if c["fam"].startswith(("select-edge", "elseif", "empty", "forconv", "truth", "condfrac"))]
        frames = [c for c in rest if c["fam"].startswith(("goto-frames", "goto-select", "for-header-calls", "exit", "complete-blocks"))]
        rest = [c for c in rest if not c["fam"].startswith(("select-edge", "elseif", "empty", "forconv", "truth", "condfrac", "goto-frames", "goto-select", "for-header-calls", "exit", "complete-blocks"))]
        progs = keep[:500] + rest[:560] + edge[:420] + frames
    for i, c in enumerate(progs):
        c["id"] = i + 1
    return progs


def run_text(pool, texts, budget=200000):
    reqs = [{"op": "run", "text": t, "budget": budget} for t in texts]
    return pool.map(reqs, timeout=30)


def summarize(resp):
    if resp is None or resp.get("timeout") or resp.get("abort"):
        return {"status": "abort"}
    if "panic" in resp:
        return {"status": "panic", "panic": resp["panic"]}
    if resp.get("stage") in ("parse", "lint"):
        return {"status": "reject", "error": resp.get("error")}
    oc = resp.get("outcome", {})
    d = {"status": oc.get("k"), "out": resp.get("stdout")}
    if oc.get("k") == "err":
        d["code"] = oc.get("code")
    return d


def run(tier, replay):
    rep = Reporter("C02", tier, "model_checking")
    pool = Pool()
    d = out_dir("C02")
    if replay:
        with open(replay) as f:
            r = json.load(f)
        ra, rb = run_text(pool, [r["text_a"], r["text_b"]])
        sa, sb = summarize(ra), summarize(rb)
        print("replay:", "same" if sa == sb else "DIFFERENT", sa, sb)
        return 0 if sa == sb else 1
    progs = base_programs(tier, seed())
    byid = {c["id"]: c for c in progs}
    states = trans = 0
    pairs = []
    stats = {"same": 0, "differ": 0, "skip": 0}
    cmds = []
    chunk = 400
    for start in range(0, len(progs), chunk):
        part = progs[start:start + chunk]
        path = os.path.join(d, "rw_%d.ndjson" % start)
        with open(path, "w") as f:
            for c in part:
                f.write(dumps({"id": c["id"], "prog": c["prog"]}) + "\n")
        res = run_tlc("Trace_Rewrite.tla", "Trace_Rewrite.cfg", os.path.join(d, "tlc"), env={"TRACE": path}, timeout=2400)
        cmds.append(res.cmd)
        if res.timed_out or not res.ok:
            raise ToolError("TLC failed on Trace_Rewrite:\n%s" % res.violation)
        states += res.distinct
        trans += res.generated
        for ln in res.printed:
            if not ln.startswith("REWRITE "):
                continue
            _, cid, rule, sid, verdict, pj = ln.split(" ", 5)
            stats[verdict] += 1
            if verdict == "same":
                pairs.append({"id": int(cid), "rule": rule, "sid": int(sid), "prog_b": json.loads(pj)})
        os.remove(path)
    # the implementation against itself
    texts_a, texts_b = [], []
    for p in pairs:
        c = byid[p["id"]]
        if "text" not in c:
            c["text"] = render.program(c["prog"])[0]
        p["text_a"] = c["text"]
        p["text_b"] = render.program(p["prog_b"])[0]
    uniq_a = sorted({p["text_a"] for p in pairs})
    ra = dict(zip(uniq_a, run_text(pool, uniq_a)))
    rb = run_text(pool, [p["text_b"] for p in pairs])
    nontrivial = set()
    by_rule = {}
    for p, resp_b in zip(pairs, rb):
        sa, sb = summarize(ra[p["text_a"]]), summarize(resp_b)
        by_rule[p["rule"]] = by_rule.get(p["rule"], 0) + 1
        if sa["status"] == "budget" or sb["status"] == "budget":
            continue
        if sa == sb:
            if sa.get("out"):
                nontrivial.add((p["text_a"], p["rule"], p["sid"]))
            continue
        c = byid[p["id"]]
        feats = features.of_prog(c["prog"]) | features.of_prog(p["prog_b"]) | {"rule:" + p["rule"]}
        rep.violation({"family": c["fam"], "rule": p["rule"], "site": p["sid"], "text_a": p["text_a"], "text_b": p["text_b"],
                       "observed_a": sa, "observed_b": sb,
                       "expected": "identical output and outcome (the rule is sound in Core.tla for this program)"},
                      feats, name=p["rule"])
    samples = [{"rule": p["rule"], "site": p["sid"], "text_a": p["text_a"], "text_b": p["text_b"]} for p in pairs[:: max(1, len(pairs) // 3)][:3]]
    coverage = {
        "states": states, "transitions": trans,
        "traces_validated_against_impl": len(pairs),
        "samples": samples,
        "evaluations": len(pairs), "distinct_nontrivial": len(nontrivial),
        "rule": "TLC enumerates every (program, rule, applicable site); pairs whose two spellings agree in Core.tla are run "
                "on the real interpreter and compared with each other; non-trivial = printed something; distinct by "
                "(text, rule, site)",
        "base_programs": len(progs), "spec_verdicts": stats, "pairs_by_rule": by_rule,
        "checker_cmd": cmds[0] if cmds else "", "exhaustive": False,
    }
    assumptions = ["rules are applied by the spec itself (Rewrite.tla); the renderer is trusted",
                   "pairs for which the rule is not output-preserving in the oracle (zero step, failing CASE tests) are not judged",
                   "run-time error rows are not compared (the rewritten program has different rows), code and output are"]
    return rep.finish(coverage, assumptions)
