"""C03 — calls: by-reference arguments, fresh locals, results, STATIC and SHARED state."""
import random, itertools
from mast import *   # noqa

T5 = ["I", "L", "S", "D", "$"]


def v0(t):
    return lit("$", "a") if t == "$" else lit("I", 3)


def v1(t):
    return lit("$", "bc") if t == "$" else lit("I", 9)


def bump(t, e):
    return bin_("+", e, lit("$", "x")) if t == "$" else bin_("+", e, lit("I", 1))


def fam_args(tier, rng):
    out = []
    shapes = ["var", "idx", "lit", "par", "expr", "fcall", "convert", "idxexpr", "fcall0", "fcall0par", "err"]
    for t in T5:
        for shape in shapes:
            for style in ("bare",):
                b = B()
                x = var("X", t)
                a = var("A", t)
                body = [b.print(lit("$", "in"), x), b.let(x, v1(t)), b.print(lit("$", "set"), x)]
                subs = [sub("P", [("X", t)], body),
                        fun("F", t, [("Y", t)], [])]
                subs[1]["body"] = [b.let(var("F", t), bump(t, var("Y", t)))]
                main = [b.dim("AR", t, [{"lo": lit("I", 0), "hi": lit("I", 2), "nolo": False}]),
                        b.let(a, v0(t)), b.let(idx("AR", t, [lit("I", 1)]), v0(t)), b.let(var("K", "I"), lit("I", 1))]
                if shape == "var":
                    arg = a
                elif shape == "idx":
                    arg = idx("AR", t, [lit("I", 1)])
                elif shape == "idxexpr":
                    arg = idx("AR", t, [bin_("+", var("K", "I"), lit("I", 0))])
                elif shape == "lit":
                    arg = v0(t)
                elif shape == "par":
                    arg = par(a)
                elif shape == "expr":
                    arg = bump(t, a)
                elif shape == "fcall":
                    arg = fcall("F", t, [a], 0)
                elif shape in ("fcall0", "fcall0par"):
                    # the name of a parameterless function as an argument: a call, its result passed by value
                    subs.append(fun("Z", t, [], [b.print(lit("$", "z")), b.let(var("Z", t), v0(t))]))
                    arg = fcall("Z", t, [], 0)
                    if shape == "fcall0par":
                        arg = par(arg)
                elif shape == "err":
                    if t != "I":
                        continue
                    arg = {"k": "err"}
                else:
                    if t == "$":
                        continue
                    ot = "D" if t != "D" else "I"
                    main.append(b.let(var("O", ot), lit("I", 5)))
                    arg = par(var("O", ot))
                c = b.call("P", [arg], style)
                if shape in ("fcall", "fcall0"):
                    arg["sid"] = c["id"]
                if shape == "fcall0par":
                    arg["e"]["sid"] = c["id"]
                main += [c, b.print(lit("$", "after"), a, idx("AR", t, [lit("I", 1)]), idx("AR", t, [lit("I", 0)]))]
                out.append({"fam": "args:%s/%s/%s" % (t, shape, style), "prog": prog(main, subs)})
    # by-reference array element whose subscript calls a (pure) function: SUB and FUNCTION callee
    for t in T5:
        for host in ("sub", "fun", "fun-print"):
            b = B()
            one = fcall("ONE", "I", [], 0)
            arg = idx("AR", t, [one])
            x = var("X", t)
            pbody = [b.print(lit("$", "in"), x), b.let(x, v1(t))]
            fbody = [b.let(var("Y", t), v1(t)), b.let(var("FB", t), v0(t))]
            subs = [sub("P", [("X", t)], pbody), fun("FB", t, [("Y", t)], fbody), fun("ONE", "I", [], [])]
            subs[2]["body"] = [b.let(var("ONE", "I"), lit("I", 1))]
            main = [b.dim("AR", t, [{"lo": lit("I", 0), "hi": lit("I", 2), "nolo": False}]), b.let(idx("AR", t, [lit("I", 1)]), v0(t))]
            if host == "sub":
                c = b.call("P", [arg])
                one["sid"] = c["id"]
            else:
                fc = fcall("FB", t, [arg], 0)
                c = b.let(var("R", t), fc) if host == "fun" else b.print(fc)
                fc["sid"] = c["id"]
                one["sid"] = c["id"]
            main += [c, b.print(lit("$", "after"), idx("AR", t, [lit("I", 1)]), idx("AR", t, [lit("I", 0)]))]
            out.append({"fam": "args-idxfcall:%s/%s" % (t, host), "prog": prog(main, subs)})
    # the subscript of a by-reference element calls a function that has a by-reference parameter itself, and another
    # by-reference argument follows: every value comes back to its own place
    for t in T5:
        for host in ("sub", "fun"):
            b = B()
            kv = var("KK", "I")
            gi = fcall("GI", "I", [kv], 0)
            arg1 = idx("AR", t, [gi])
            arg2 = var("BB", t)
            x, y = var("X", t), var("Y", t)
            pbody = [b.print(lit("$", "in"), x, y), b.let(x, v1(t)), b.let(y, bump(t, v1(t)))]
            gbody = [b.let(var("GI", "I"), var("N", "I")), b.let(var("N", "I"), bin_("+", var("N", "I"), lit("I", 0)))]
            subs = [fun("GI", "I", [("N", "I")], gbody)]
            main = [b.dim("AR", t, [{"lo": lit("I", 0), "hi": lit("I", 2), "nolo": False}]), b.let(kv, lit("I", 1)),
                    b.let(idx("AR", t, [lit("I", 1)]), v0(t)), b.let(arg2, v0(t))]
            if host == "sub":
                c = b.call("P2", [arg1, arg2])
                subs.append(sub("P2", [("X", t), ("Y", t)], pbody))
            else:
                fc = fcall("F2", t, [arg1, arg2], 0)
                c = b.let(var("R", t), fc)
                fc["sid"] = c["id"]
                subs.append(fun("F2", t, [("X", t), ("Y", t)], pbody + [b.let(var("F2", t), v0(t))]))
            gi["sid"] = c["id"]
            main += [c, b.print(lit("$", "after"), idx("AR", t, [lit("I", 1)]), arg2, kv)]
            out.append({"fam": "args-idxfcall-byref:%s/%s" % (t, host), "prog": prog(main, subs)})
    # the same variable / element in two by-reference positions: both are copied in, and written back left to
    # right, so the right parameter's final value is what the caller sees
    for t in T5:
        for what in ("var", "idx"):
            for order in ((0, 1), (1, 0)):
                b = B()
                vals = [v0(t), v1(t)]
                body = [b.print(var("X", t), var("Y", t)), b.let(var("X", t), vals[order[0]]), b.let(var("Y", t), vals[order[1]])]
                if what == "var":
                    a1, a2 = var("A", t), var("A", t)
                    main = [b.let(var("A", t), v0(t))]
                    show = [var("A", t)]
                else:
                    a1, a2 = idx("AR", t, [lit("I", 1)]), idx("AR", t, [lit("I", 1)])
                    main = [b.dim("AR", t, [{"lo": lit("I", 0), "hi": lit("I", 2), "nolo": False}]), b.let(idx("AR", t, [lit("I", 1)]), v0(t))]
                    show = [idx("AR", t, [lit("I", 1)]), idx("AR", t, [lit("I", 0)])]
                main += [b.call("P", [a1, a2]), b.print(*show)]
                out.append({"fam": "args2-alias:%s/%s/%d" % (t, what, order[0]), "prog": prog(main, [sub("P", [("X", t), ("Y", t)], body)])})
    # two by-reference parameters, written back left to right; mixed by-ref / by-val
    for t1 in T5:
        for t2 in T5:
            for s1 in ("var", "par"):
                for s2 in ("var", "par", "lit"):
                    b = B()
                    body = [b.print(var("X", t1), var("Y", t2)), b.let(var("X", t1), v1(t1)), b.let(var("Y", t2), v1(t2))]
                    a1, a2 = var("A", t1), var("B", t2)
                    arg1 = a1 if s1 == "var" else par(a1)
                    arg2 = a2 if s2 == "var" else (par(a2) if s2 == "par" else v0(t2))
                    main = [b.let(a1, v0(t1)), b.let(a2, v0(t2)), b.call("P", [arg1, arg2]), b.print(a1, a2)]
                    out.append({"fam": "args2:%s%s/%s%s" % (t1, t2, s1, s2), "prog": prog(main, [sub("P", [("X", t1), ("Y", t2)], body)])})
    # by-value conversion that does not fit the parameter type
    for (pt, val) in [("I", 40000), ("I", -40000), ("L", 40000), ("S", 40000), ("I", 32767)]:
        b = B()
        main = [b.print(lit("$", "a")), b.call("P", [num(val)]), b.print(lit("$", "b"))]
        out.append({"fam": "args-convert:%s/%d" % (pt, val), "prog": prog(main, [sub("P", [("X", pt)], [b.print(var("X", pt))])])})
    return out


def fam_locals(tier, rng):
    out = []
    for t in T5:
        for n in (1, 2, 3):
            b = B()
            l = var("L", t)
            body = [b.print(lit("$", "l"), l), b.let(l, bump(t, l)), b.print(lit("$", "l2"), l)]
            main = [b.let(l, v1(t))] + [b.call("P", []) for _ in range(n)] + [b.print(lit("$", "main"), l)]
            out.append({"fam": "locals:%s/%d" % (t, n), "prog": prog(main, [sub("P", [], body)])})
    # recursion: every activation has its own locals and parameters
    for depth in (1, 2, 3, 4):
        for t in ("I", "L", "S", "D"):
            b = B()
            n, l = var("N", t), var("L", t)
            rec = b.call("R", [bin_("-", n, lit("I", 1))])
            body = [b.let(l, bin_("*", n, lit("I", 10))), b.print(lit("$", "down"), n, l),
                    b.if_([(bin_(">", n, lit("I", 1)), [rec])]), b.print(lit("$", "up"), n, l)]
            main = [b.call("R", [num(depth)]), b.print(lit("$", "end"))]
            out.append({"fam": "recursion:%s/%d" % (t, depth), "prog": prog(main, [sub("R", [("N", t)], body)])})
    # recursive FUNCTION (factorial, fibonacci)
    for k in range(0, 7):
        b = B()
        n = var("N", "I")
        f1 = fcall("FACT", "L", [bin_("-", n, lit("I", 1))], 0)
        st = b.let(var("FACT", "L"), bin_("*", n, f1))
        f1["sid"] = st["id"]
        body = [b.if_([(bin_("<=", n, lit("I", 1)), [b.let(var("FACT", "L"), lit("I", 1))])], [st])]
        call = fcall("FACT", "L", [num(k)], 0)
        p = b.print(call)
        call["sid"] = p["id"]
        out.append({"fam": "fact:%d" % k, "prog": prog([p], [fun("FACT", "L", [("N", "I")], body)])})
    return out


def fam_function(tier, rng):
    out = []
    for t in T5:
        for nassign in (0, 1, 2):
            for use in ("print", "let", "expr", "twice", "arg"):
                b = B()
                f = var("F", t)
                body = [b.print(lit("$", "f"), var("Y", t))]
                if nassign >= 1:
                    body.append(b.let(f, v0(t)))
                if nassign >= 2:
                    body.append(b.let(f, v1(t)))
                body.append(b.print(lit("$", "fe")))
                subs = [fun("F", t, [("Y", t)], body)]
                a = var("A", t)
                main = [b.let(a, v0(t))]
                def call():
                    return fcall("F", t, [a], 0)
                if use == "print":
                    c = call(); s = b.print(c); c["sid"] = s["id"]
                elif use == "let":
                    c = call(); s = b.let(var("R", t), c); c["sid"] = s["id"]
                elif use == "expr":
                    c = call(); s = b.print(bump(t, c)); c["sid"] = s["id"]
                elif use == "twice":
                    c1, c2 = call(), call(); s = b.print(bin_("+", c1, c2)); c1["sid"] = c2["sid"] = s["id"]
                else:
                    c1 = call(); c2 = fcall("F", t, [c1], 0); s = b.print(c2); c1["sid"] = c2["sid"] = s["id"]
                main += [s, b.print(lit("$", "r"), var("R", t), a)]
                out.append({"fam": "function:%s/%d/%s" % (t, nassign, use), "prog": prog(main, subs)})
    # FUNCTION modifying its by-reference parameter and a SHARED variable
    for t in ("I", "L", "S", "D"):
        b = B()
        body = [b.let(var("Y", t), bin_("+", var("Y", t), lit("I", 1))), b.let(var("G", "I"), bin_("+", var("G", "I"), lit("I", 10))),
                b.let(var("F", t), bin_("*", var("Y", t), lit("I", 2)))]
        a = var("A", t)
        c = fcall("F", t, [a], 0)
        s = b.let(var("R", t), c)
        c["sid"] = s["id"]
        main = [b.dim("G", "I", shared=True), b.let(a, lit("I", 4)), s, b.print(var("R", t), a, var("G", "I"))]
        out.append({"fam": "function-byref:" + t, "prog": prog(main, [fun("F", t, [("Y", t)], body)])})
    return out


def fam_static(tier, rng):
    out = []
    n = 5 if tier == "thorough" else 4
    acts = "DVOFXT"
    hists = []
    for ln in range(1, n + 1):
        hs = list(itertools.product(acts, repeat=ln))
        if ln >= 4 and tier == "quick":
            hs = rng.sample(hs, 350)
        elif ln >= 5:
            hs = rng.sample(hs, 3000)
        hists += hs
    if True:
        for hist in hists:
            b = B()
            c = var("C", "I")
            sbody = [b.let(c, bin_("+", c, lit("I", 1))), b.print(lit("$", "s"), c)]
            wbody = [b.let(var("WL", "I"), lit("I", 5)), b.call("S", []), b.print(lit("$", "w"), var("WL", "I"))]
            obody = [b.let(var("C", "I"), lit("I", 77)), b.print(lit("$", "o"))]
            fs = var("FS", "I")
            fbody = [b.let(var("K", "I"), bin_("+", var("K", "I"), lit("I", 1))), b.let(fs, var("K", "I"))]
            t_ = var("TC", "I")
            tbody = [b.let(t_, bin_("+", t_, lit("I", 100))), b.print(lit("$", "t"), t_)]
            xfs = fcall("FS", "I", [], 0)
            xs = b.print(lit("$", "xfs"), xfs)
            xfs["sid"] = xs["id"]
            xbody = [b.call("S", []), b.call("T", []), xs, b.print(lit("$", "x"))]
            main = []
            for a in hist:
                if a == "D":
                    main.append(b.call("S", []))
                elif a == "V":
                    main.append(b.call("W", []))
                elif a == "O":
                    main.append(b.call("O", []))
                elif a == "X":
                    main.append(b.call("X", []))
                elif a == "T":
                    main.append(b.call("T", []))
                else:
                    cfs = fcall("FS", "I", [], 0)
                    s = b.print(lit("$", "fs"), cfs)
                    cfs["sid"] = s["id"]
                    main.append(s)
            main.append(b.print(lit("$", "end"), c))
            subs = [sub("S", [], sbody, static=True), sub("W", [], wbody), sub("O", [], obody),
                    fun("FS", "I", [], fbody, static=True), sub("T", [], tbody, static=True), sub("X", [], xbody)]
            out.append({"fam": "static:" + "".join(hist), "prog": prog(main, subs)})
    # STATIC sub with a parameter: rebound at each call, statics kept
    for t in ("I", "$"):
        b = B()
        body = [b.let(var("ACC", t), bin_("+", var("ACC", t), var("X", t))), b.print(var("ACC", t), var("X", t))]
        main = [b.call("S", [v0(t)]), b.call("S", [v1(t)]), b.call("S", [v0(t)])]
        out.append({"fam": "static-param:" + t, "prog": prog(main, [sub("S", [("X", t)], body, static=True)])})
    return out


def fam_shared(tier, rng):
    out = []
    for t in T5:
        for arr in (False, True):
            b = B()
            if arr:
                g = idx("G", t, [lit("I", 1)])
                d = b.dim("G", t, [{"lo": lit("I", 0), "hi": lit("I", 2), "nolo": False}], shared=True)
            else:
                g = var("G", t)
                d = b.dim("G", t, shared=True)
            n = var("N", t)
            p1 = [b.print(lit("$", "p1"), g, n), b.let(g, bump(t, g)), b.let(n, v1(t)), b.call("Q", [])]
            q = [b.print(lit("$", "q"), g, n), b.let(g, bump(t, g))]
            main = [d, b.let(g, v0(t)), b.let(n, v0(t)), b.call("P", []), b.print(lit("$", "m"), g, n),
                    b.call("Q", []), b.print(lit("$", "m2"), g, n)]
            out.append({"fam": "shared:%s/%s" % (t, arr), "prog": prog(main, [sub("P", [], p1), sub("Q", [], q)])})
    # CONST is the same object everywhere; a parameter of the same name hides nothing else
    for t in T5:
        b = B()
        k = var("K", t)
        main = [b.const("K", t, v0(t)), b.print(k), b.call("P", []), b.print(k)]
        cf = fcall("F", t, [], 0)
        pb = [b.print(lit("$", "p"), k), b.print(cf)]
        cf["sid"] = pb[1]["id"]
        out.append({"fam": "const:" + t, "prog": prog(main, [sub("P", [], pb), fun("F", t, [], [b.let(var("F", t), bump(t, k))])])})
    return out


def fam_nested(tier, rng):
    out = []
    # calls nested in argument lists, evaluation order visible through prints and a SHARED counter
    for order in itertools.permutations(["f", "g", "lit"]):
        for style in ("bare",):
            b = B()
            g = var("G", "I")
            fb = [b.let(g, bin_("+", g, lit("I", 1))), b.print(lit("$", "F"), g, var("X", "I")), b.let(var("F", "I"), bin_("+", var("X", "I"), g))]
            gb = [b.let(g, bin_("*", g, lit("I", 2))), b.print(lit("$", "G"), g, var("X", "I")), b.let(var("H", "I"), bin_("-", var("X", "I"), g))]
            pb = [b.print(lit("$", "P"), var("A", "I"), var("B", "I"), var("C", "I"))]
            args, calls = [], []
            for o in order:
                if o == "f":
                    c = fcall("F", "I", [lit("I", 5)], 0); calls.append(c); args.append(c)
                elif o == "g":
                    inner = fcall("F", "I", [lit("I", 2)], 0); c = fcall("H", "I", [inner], 0); calls += [inner, c]; args.append(c)
                else:
                    args.append(bin_("+", g, lit("I", 100)))
            cs = b.call("P", args, style)
            for c in calls:
                c["sid"] = cs["id"]
            main = [b.dim("G", "I", shared=True), b.let(g, lit("I", 1)), cs, b.print(lit("$", "end"), g)]
            subs = [fun("F", "I", [("X", "I")], fb), fun("H", "I", [("X", "I")], gb), sub("P", [("A", "I"), ("B", "I"), ("C", "I")], pb)]
            out.append({"fam": "nested:%s/%s" % ("".join(o[0] for o in order), style), "prog": prog(main, subs)})
    # FUNCTION calls (each with its own loop) in the header of a FOR: the header's values survive the calls
    for which in itertools.product((False, True), repeat=3):
        if not any(which):
            continue
        for sign in (1, -1):
            for inbody in (False, True):
                b = B()
                lo, hi, st = (1, 3, 1) if sign > 0 else (3, 1, -1)

                def mk(name, val):
                    k = var("K", "I")
                    return fun(name, "I", [("X", "I")], [b.for_(k, lit("I", 1), lit("I", 6), None, [b.let(var("Q", "I"), k)], hasstep=False),
                                                         b.print(lit("$", name)), b.let(var(name, "I"), num(val))])
                subs = [mk("LOF", lo), mk("HIF", hi), mk("STF", st)]
                calls = []
                es = []
                for use, name, val in zip(which, ("LOF", "HIF", "STF"), (lo, hi, st)):
                    if use:
                        c = fcall(name, "I", [lit("I", 0)], 0)
                        calls.append(c)
                        es.append(c)
                    else:
                        es.append(num(val))
                i = var("I", "I")
                body = [b.print(i)]
                if inbody:
                    c2 = fcall("HIF", "I", [lit("I", 0)], 0)
                    s2 = b.let(var("W", "I"), c2)
                    c2["sid"] = s2["id"]
                    body.append(s2)
                f = b.for_(i, es[0], es[1], es[2], body)
                for c in calls:
                    c["sid"] = f["id"]
                out.append({"fam": "for-header-calls:%s/%d/%s" % ("".join("c" if w else "-" for w in which), sign, inbody),
                            "prog": prog([f, b.print(lit("$", "end"), i)], subs)})
    # a SUB calling a SUB calling a FUNCTION, by-ref chain two levels deep
    for t in ("I", "L", "S", "D", "$"):
        b = B()
        x = var("X", t)
        inner = [b.let(var("Z", t), bump(t, var("Z", t)))]
        mid = [b.call("INNER", [x]), b.let(x, bump(t, x))]
        main = [b.let(var("A", t), v0(t)), b.call("MIDL", [var("A", t)]), b.print(var("A", t))]
        out.append({"fam": "chain:" + t, "prog": prog(main, [sub("MIDL", [("X", t)], mid), sub("INNER", [("Z", t)], inner)])})
    return out


def fam_errors(tier, rng):
    out = []
    for depth in (1, 2, 3):
        for kind in ("sub", "fun"):
            for fail in ("div", "ovf", "subscript"):
                b = B()
                if fail == "div":
                    f = b.let(var("Z", "I"), bin_("/", lit("I", 1), var("Q", "I")))
                elif fail == "ovf":
                    f = b.let(var("Z", "I"), num(40000))
                else:
                    f = b.let(idx("AR", "I", [lit("I", 9)]), lit("I", 1))
                subs = []
                main = [b.print(lit("$", "start"))]
                for lvl in range(1, depth + 1):
                    name = "P%d" % lvl
                    body = [b.print(lit("$", name))]
                    if lvl == depth:
                        if fail == "subscript":
                            body.append(b.dim("AR", "I", [{"lo": lit("I", 0), "hi": lit("I", 2), "nolo": False}]))
                        body.append(f)
                    else:
                        nxt = "P%d" % (lvl + 1)
                        if kind == "sub":
                            body.append(b.call(nxt, []))
                        else:
                            c = fcall(nxt, "I", [], 0)
                            s = b.let(var("R", "I"), c)
                            c["sid"] = s["id"]
                            body.append(s)
                    body.append(b.print(lit("$", "never")))
                    subs.append(sub(name, [], body) if kind == "sub" else fun(name, "I", [], body))
                if kind == "sub":
                    main.append(b.call("P1", []))
                else:
                    c = fcall("P1", "I", [], 0)
                    s = b.print(c)
                    c["sid"] = s["id"]
                    main.append(s)
                main.append(b.print(lit("$", "end")))
                out.append({"fam": "callerr:%d/%s/%s" % (depth, kind, fail), "prog": prog(main, subs)})
    return out


def fam_exit(tier, rng):
    """EXIT SUB / EXIT FUNCTION from inside one or two FOR loops (with their own limits), called from a FOR of the
    caller: the caller's loop goes on with ITS counter, limit and step"""
    out = []
    for kind in ("sub", "fun"):
        for depth in (1, 2):
            for caller in ("for+", "for-", "none"):
                for via in ("plain", "ifline"):
                    b = B()
                    k, j = var("K", "I"), var("J", "I")
                    ex = b.exit("sub" if kind == "sub" else "function")
                    cond = bin_("=", k, lit("I", 20))
                    leave = b.if_([(cond, [b.print(lit("$", "leave"), k), ex])])
                    if via == "ifline":
                        leave["oneline"] = True
                    inner = [leave, b.print(lit("$", "k"), k)]
                    if depth == 2:
                        inner = [b.for_(j, lit("I", 5), lit("I", 6), None, inner, hasstep=False)]
                    body = [b.for_(k, lit("I", 10), lit("I", 50), lit("I", 10), inner), b.print(lit("$", "never"))]
                    i = var("I", "I")
                    if kind == "sub":
                        call = b.call("P", [])
                        subs = [sub("P", [], body)]
                    else:
                        fc = fcall("F", "I", [], 0)
                        call = b.let(var("R", "I"), fc)
                        fc["sid"] = call["id"]
                        subs = [fun("F", "I", [], [b.let(var("F", "I"), lit("I", 7))] + body)]
                    cb = [b.print(lit("$", "i"), i), call, b.print(lit("$", "back"), i)]
                    if caller == "for+":
                        main = [b.for_(i, lit("I", 1), lit("I", 3), None, cb, hasstep=False)]
                    elif caller == "for-":
                        main = [b.for_(i, lit("I", 3), lit("I", 1), un("neg", lit("I", 1)), cb)]
                    else:
                        main = cb
                    main.append(b.print(lit("$", "end"), i))
                    out.append({"fam": "exit:%s/%d/%s/%s" % (kind, depth, caller, via), "prog": prog(main, subs)})
    return out


def fam_exit_blocks(tier, rng):
    """EXIT SUB / EXIT FUNCTION from inside every kind of block (and nests of two), while the caller has an operand pending
    or stands inside a SELECT CASE / FOR of its own: whatever the left blocks keep on the machine's stacks goes with them"""
    out = []
    kinds = ["select", "selectelse", "for", "while", "do", "if"]
    nests = [(k,) for k in kinds] + [("select", "for"), ("for", "select"), ("select", "select"), ("while", "select"), ("for", "for")]
    for kind in ("sub", "fun"):
        for nest in nests:
            for caller in ("operand", "select", "for", "plain"):
                if kind == "sub" and caller == "operand":
                    continue
                b = B()
                n = var("N", "I")
                ex = b.exit("sub" if kind == "sub" else "function")
                inner = [b.print(lit("$", "leave")), ex]

                def wrap(k, body, lvl):
                    v = var("K%d" % lvl, "I")
                    if k == "select":
                        return [b.select(n, [([eqt(lit("I", 2))], body)], [b.print(lit("$", "else"))])]
                    if k == "selectelse":
                        return [b.select(n, [([eqt(lit("I", 9))], [b.print(lit("$", "nine"))])], body)]
                    if k == "for":
                        return [b.for_(v, lit("I", 1), lit("I", 3), None, body, hasstep=False)]
                    if k == "while":
                        return [b.let(v, lit("I", 0)), b.while_(bin_("<", v, lit("I", 3)), [b.let(v, bin_("+", v, lit("I", 1)))] + body)]
                    if k == "do":
                        return [b.let(v, lit("I", 0)), b.do("bot", "until", bin_(">=", v, lit("I", 3)), [b.let(v, bin_("+", v, lit("I", 1)))] + body)]
                    return [b.if_([(bin_("=", n, lit("I", 2)), body)])]
                body = inner
                for lvl, k in enumerate(reversed(nest)):
                    body = wrap(k, body, lvl)
                body = body + [b.print(lit("$", "never"))]
                if kind == "sub":
                    subs = [sub("P", [("N", "I")], body)]
                    call = b.call("P", [lit("I", 2)])
                else:
                    subs = [fun("F", "I", [("N", "I")], [b.let(var("F", "I"), lit("I", 10))] + body)]
                    fc = fcall("F", "I", [lit("I", 2)], 0)
                    e = bin_("+", lit("I", 1), fc) if caller == "operand" else fc
                    call = b.let(var("R", "I"), e)
                    fc["sid"] = call["id"]
                after = [b.print(lit("$", "r"), var("R", "I"))]
                i = var("I", "I")
                if caller == "select":
                    main = [b.let(var("S", "I"), lit("I", 4)), b.select(var("S", "I"), [([eqt(lit("I", 4))], [call] + after)], [b.print(lit("$", "mainelse"))])]
                elif caller == "for":
                    main = [b.for_(i, lit("I", 1), lit("I", 2), None, [call] + after, hasstep=False)]
                else:
                    main = [call] + after
                main.append(b.print(lit("$", "end")))
                out.append({"fam": "exit-blocks:%s/%s/%s" % (kind, "+".join(nest), caller), "prog": prog(main, subs)})
    return out


FAMILIES = [fam_args, fam_locals, fam_function, fam_static, fam_shared, fam_nested, fam_errors, fam_exit, fam_exit_blocks]


def fam_shared_redim(tier, rng):
    """a SHARED dynamic array re-dimensioned inside a SUB is still the module's array (cases of the C04 REDIM family)"""
    import c04
    return [{"fam": "shared-" + c["fam"], "prog": c["prog"]} for c in c04.fam_redim(tier, rng) if c["fam"].endswith("sub-shared")]


FAMILIES.append(fam_shared_redim)


def fam_static_byref(tier, rng):
    """STATIC procedures and by-reference arguments together: a STATIC SUB / FUNCTION with a by-reference parameter called
    several times with the same and with different variables, elements and fields; ordinary calls made after a STATIC
    procedure has run (its variables stay behind), from the main module and from inside a SUB"""
    out = []
    td = [typedef("CELL", [("V", "I"), ("W", "I")])]
    for t in ("I", "L", "D", "$"):
        for kind in ("sub", "fun"):
            for shape in ("var", "idx", "fld"):
                if shape == "fld" and t != "I":
                    continue
                b = B()
                x, y = var("X", t), var("Y", t)
                cnt = var("CALLS", "I")
                body = [b.let(cnt, bin_("+", cnt, lit("I", 1))), b.let(x, bin_("+", x, y)), b.print(lit("$", "in"), cnt, x)]
                main = [b.dim("AR", t, [dimspec(0, 2)])]
                if shape == "fld":
                    main.append(b.dim("RC", "U", [dimspec(1, 2)], ty="CELL"))

                def place(i):
                    if shape == "var":
                        return var("T%d" % i, t)
                    if shape == "idx":
                        return idx("AR", t, [lit("I", i)])
                    return fld(idx("RC", "U", [lit("I", i)]), "V", "I")
                for i in (1, 2):
                    main.append(b.let(place(i), v0(t) if i == 1 else v1(t)))
                for (i, amount) in ((1, v0(t)), (1, v1(t)), (2, v0(t)), (1, v0(t))):
                    if kind == "sub":
                        main.append(b.call("TALLY", [place(i), amount]))
                    else:
                        fc = fcall("TALLY", "I", [place(i), amount], 0)
                        st = b.print(lit("$", "r"), fc)
                        fc["sid"] = st["id"]
                        main.append(st)
                    main.append(b.print(lit("$", "after"), place(1), place(2)))
                if kind == "sub":
                    subs = [sub("TALLY", [("X", t), ("Y", t)], body, static=True)]
                else:
                    subs = [fun("TALLY", "I", [("X", t), ("Y", t)], body + [b.let(var("TALLY", "I"), cnt)], static=True)]
                out.append({"fam": "static-byref:%s/%s/%s" % (t, kind, shape), "prog": prog(main, subs, td if shape == "fld" else None)})
    # calls after a STATIC procedure has run
    for t in ("I", "$"):
        for first in ("static-sub", "static-fun", "none"):
            for where in ("main", "wrap"):
                b = B()
                x = var("X", t)
                v, w = var("V", t), var("W", t)
                tk = var("TICKS", "I")
                subs = [sub("TICK", [], [b.let(tk, bin_("+", tk, lit("I", 1)))], static=True),
                        fun("TOCK", "I", [], [b.let(tk, bin_("+", tk, lit("I", 1))), b.let(var("TOCK", "I"), tk)], static=True),
                        sub("SHOW", [("V", t)], [b.print(lit("$", "show"), v)]),
                        sub("BUMP", [("V", t)], [b.let(v, bump(t, v))]),
                        fun("TWICE", t, [("V", t)], [b.let(var("TWICE", t), bin_("+", v, v))])]
                tw = fcall("TWICE", t, [w if where == "wrap" else x], 0)

                def calls(target):
                    tw_ = fcall("TWICE", t, [target], 0)
                    st = b.print(lit("$", "twice"), tw_)
                    tw_["sid"] = st["id"]
                    return [b.call("SHOW", [target]), b.call("BUMP", [target]), b.print(lit("$", "bumped"), target), st,
                            b.call("SHOW", [bump(t, target)])]
                main = [b.let(x, v0(t)), b.call("SHOW", [x])]
                if first == "static-sub":
                    main.append(b.call("TICK", []))
                elif first == "static-fun":
                    fc = fcall("TOCK", "I", [], 0)
                    st = b.print(lit("$", "tock"), fc)
                    fc["sid"] = st["id"]
                    main.append(st)
                if where == "main":
                    main += calls(x)
                else:
                    subs.append(sub("WRAP", [("W", t)], calls(w)))
                    main.append(b.call("WRAP", [x]))
                if first != "none":
                    main.append(b.call("TICK", []))
                    main += calls(x)
                main.append(b.print(lit("$", "end"), x))
                out.append({"fam": "after-static:%s/%s/%s" % (t, first, where), "prog": prog(main, subs)})
    # a by-reference FIELD of an array element whose subscript calls a function; a subscript that is the bare name of a
    # parameterless FUNCTION, in an argument and in an assignment target
    for host in ("sub", "fun", "fun-print"):
        for sub_form in ("call1", "bare0"):
            for target in ("fld", "elem"):
                b = B()
                pick = fcall("PICK", "I", [lit("I", 2)], 0) if sub_form == "call1" else fcall("TWO", "I", [], 0)
                if target == "fld":
                    place = fld(idx("RC", "U", [pick]), "V", "I")
                    rd = fld(idx("RC", "U", [lit("I", 2)]), "V", "I")
                    other = fld(idx("RC", "U", [lit("I", 2)]), "W", "I")
                else:
                    place = idx("AR", "I", [pick])
                    rd = idx("AR", "I", [lit("I", 2)])
                    other = idx("AR", "I", [lit("I", 1)])
                x = var("X", "I")
                subs = [fun("PICK", "I", [("I", "I")], [b.let(var("PICK", "I"), var("I", "I"))]),
                        fun("TWO", "I", [], [b.let(var("TWO", "I"), lit("I", 2))]),
                        sub("P", [("X", "I")], [b.print(lit("$", "in"), x), b.let(x, bin_("+", x, lit("I", 1)))]),
                        fun("BUMPF", "I", [("X", "I")], [b.let(x, bin_("+", x, lit("I", 1))), b.let(var("BUMPF", "I"), bin_("*", x, lit("I", 10)))])]
                main = [b.dim("AR", "I", [dimspec(1, 3)]), b.dim("RC", "U", [dimspec(1, 3)], ty="CELL"), b.let(rd, lit("I", 5))]
                if host == "sub":
                    c = b.call("P", [place])
                else:
                    fc = fcall("BUMPF", "I", [place], 0)
                    c = b.let(var("R", "I"), fc) if host == "fun" else b.print(lit("$", "r"), fc)
                    fc["sid"] = c["id"]
                pick["sid"] = c["id"]
                main += [c, b.print(lit("$", "after"), rd, other)]
                # the same place as an assignment target
                pick2 = dict(pick)
                place2 = fld(idx("RC", "U", [pick2]), "V", "I") if target == "fld" else idx("AR", "I", [pick2])
                st = b.let(place2, lit("I", 40))
                pick2["sid"] = st["id"]
                main += [st, b.print(lit("$", "set"), rd, other)]
                out.append({"fam": "place-subscript-call:%s/%s/%s" % (host, sub_form, target), "prog": prog(main, subs, td)})
    return out


FAMILIES.append(fam_static_byref)


def fam_static_order(tier, rng):
    """ordinary and STATIC procedures (SUB / FUNCTION) side by side in every source order: the ordinary ones start with fresh
    locals at every call (read before they are written), the STATIC ones keep theirs - whichever is defined first"""
    out = []
    kinds = [("sub", False), ("sub", True), ("fun", False), ("fun", True)]
    for order in itertools.permutations(range(4), 4):
        if tier == "quick" and rng.random() < 0.5:
            continue
        b = B()
        subs = []
        names = {}
        for j in order:
            kind, st = kinds[j]
            nm = ("S" if kind == "sub" else "F") + ("T" if st else "O")
            cnt = var("CNT", "I")
            arr = idx("LA", "I", [lit("I", 1)])
            body = [b.dim("LA", "I", [dimspec(0, 2)]), b.let(cnt, bin_("+", cnt, lit("I", 1))), b.let(arr, bin_("+", arr, lit("I", 10))),
                    b.print(lit("$", nm), cnt, arr)]
            if kind == "sub":
                subs.append(sub(nm, [], body, static=st))
            else:
                subs.append(fun(nm, "I", [], body + [b.let(var(nm, "I"), cnt)], static=st))
            names[j] = (kind, nm)
        main = []
        for rnd in range(3):
            for j in range(4):
                kind, nm = names[j]
                if kind == "sub":
                    main.append(b.call(nm, []))
                else:
                    fc = fcall(nm, "I", [], 0)
                    stt = b.print(lit("$", "r"), fc)
                    fc["sid"] = stt["id"]
                    main.append(stt)
        out.append({"fam": "static-order:" + "".join(str(x) for x in order), "prog": prog(main, subs)})
    # two by-reference arguments where the place of the first is computed from the second (Take Q(I), I): the place is
    # the one named when the call was made, whatever the callee does to I
    for t in ("I", "$"):
        for kind in ("sub", "fun"):
            for callee_sets in ("both", "index-only", "elem-only"):
                b = B()
                i = var("I", "I")
                x, y = var("X", t), var("Y", "I")
                body = []
                if callee_sets in ("both", "elem-only"):
                    body.append(b.let(x, v1(t)))
                if callee_sets in ("both", "index-only"):
                    body.append(b.let(y, bin_("+", y, lit("I", 1))))
                body.append(b.print(lit("$", "in"), x, y))
                arg1 = idx("AR", t, [i])
                main = [b.dim("AR", t, [dimspec(0, 3)]), b.let(i, lit("I", 1)), b.let(idx("AR", t, [lit("I", 1)]), v0(t))]
                if kind == "sub":
                    main.append(b.call("TAKE", [arg1, i]))
                    subs = [sub("TAKE", [("X", t), ("Y", "I")], body)]
                else:
                    fc = fcall("TAKEF", "I", [arg1, i], 0)
                    stt = b.print(lit("$", "r"), fc)
                    fc["sid"] = stt["id"]
                    main.append(stt)
                    subs = [fun("TAKEF", "I", [("X", t), ("Y", "I")], body + [b.let(var("TAKEF", "I"), lit("I", 5))])]
                main.append(b.print(lit("$", "after"), i, idx("AR", t, [lit("I", 0)]), idx("AR", t, [lit("I", 1)]), idx("AR", t, [lit("I", 2)])))
                out.append({"fam": "args-place-from-later-arg:%s/%s/%s" % (t, kind, callee_sets), "prog": prog(main, subs)})
    return out


FAMILIES.append(fam_static_order)


def fam_complete_blocks(tier, rng):
    """the same nests as exit-blocks, but every block runs to its natural end (a matched CASE, CASE ELSE, no CASE matching and
    no CASE ELSE, a second CASE, a range; loops ending by their conditions) inside a FUNCTION / SUB whose caller has an operand
    pending or stands inside a block of its own: a block that leaves something behind shifts what the caller finds"""
    out = []
    kinds = ["select", "selectelse", "selectnone", "selectsecond", "selectrange", "selectis", "for", "while", "do", "if", "ifelse"]
    nests = [(k,) for k in kinds] + [("select", "for"), ("for", "select"), ("select", "select"), ("while", "selectelse"), ("for", "selectnone")]
    for kind in ("sub", "fun"):
        for nest in nests:
            for caller in ("operand", "roperand", "select", "for", "plain"):
                if kind == "sub" and caller in ("operand", "roperand"):
                    continue
                b = B()
                n = var("N", "I")
                inner = [b.print(lit("$", "in"), n)]

                def wrap(k, body, lvl):
                    v = var("K%d" % lvl, "I")
                    nine = [b.print(lit("$", "nine"))]
                    if k == "select":
                        return [b.select(n, [([eqt(lit("I", 2))], body)], [b.print(lit("$", "else"))])]
                    if k == "selectelse":
                        return [b.select(n, [([eqt(lit("I", 9))], nine)], body)]
                    if k == "selectnone":
                        return [b.select(n, [([eqt(lit("I", 9))], nine)], None)] + body
                    if k == "selectsecond":
                        return [b.select(n, [([eqt(lit("I", 9))], nine), ([eqt(lit("I", 1)), eqt(lit("I", 2))], body)], None)]
                    if k == "selectrange":
                        return [b.select(n, [([rtest(lit("I", 1), lit("I", 3))], body)], [b.print(lit("$", "else"))])]
                    if k == "selectis":
                        return [b.select(n, [([ist(">", lit("I", 5))], nine), ([ist("<", lit("I", 5))], body)], None)]
                    if k == "for":
                        return [b.for_(v, lit("I", 1), lit("I", 2), None, body, hasstep=False)]
                    if k == "while":
                        return [b.let(v, lit("I", 0)), b.while_(bin_("<", v, lit("I", 2)), [b.let(v, bin_("+", v, lit("I", 1)))] + body)]
                    if k == "do":
                        return [b.let(v, lit("I", 0)), b.do("bot", "until", bin_(">=", v, lit("I", 2)), [b.let(v, bin_("+", v, lit("I", 1)))] + body)]
                    if k == "ifelse":
                        return [b.if_([(bin_("=", n, lit("I", 7)), [b.print(lit("$", "seven"))])], body)]
                    return [b.if_([(bin_("=", n, lit("I", 2)), body)])]
                body = inner
                for lvl, k in enumerate(reversed(nest)):
                    body = wrap(k, body, lvl)
                body = body + [b.print(lit("$", "done"))]
                if kind == "sub":
                    subs = [sub("P", [("N", "I")], body)]
                    call = b.call("P", [lit("I", 2)])
                else:
                    subs = [fun("F", "I", [("N", "I")], body + [b.let(var("F", "I"), lit("I", 10))])]
                    fc = fcall("F", "I", [lit("I", 2)], 0)
                    e = bin_("+", lit("I", 100), fc) if caller == "operand" else bin_("-", fc, lit("I", 100)) if caller == "roperand" else fc
                    call = b.let(var("R", "I"), e)
                    fc["sid"] = call["id"]
                after = [b.print(lit("$", "r"), var("R", "I"))]
                i = var("I", "I")
                if caller == "select":
                    main = [b.let(var("S", "I"), lit("I", 4)), b.select(var("S", "I"), [([eqt(lit("I", 4))], [call] + after)], [b.print(lit("$", "mainelse"))])]
                elif caller == "for":
                    main = [b.for_(i, lit("I", 1), lit("I", 2), None, [call] + after, hasstep=False)]
                else:
                    main = [call] + after
                main.append(b.print(lit("$", "end")))
                out.append({"fam": "complete-blocks:%s/%s/%s" % (kind, "+".join(nest), caller), "prog": prog(main, subs)})
    return out


FAMILIES.append(fam_complete_blocks)


def fam_shared_byref(tier, rng):
    """a SHARED variable (scalar, array element) of the module passed by reference: the callee's writes to the parameter arrive in
    the SHARED variable, also when the callee (or a SUB it calls) reads the SHARED name itself before and after"""
    out = []
    for t in T5:
        for shape in ("var", "idx", "par"):
            for callee in ("sub", "fun", "via"):
                b = B()
                if shape == "idx":
                    g = idx("G", t, [lit("I", 1)])
                    d = b.dim("G", t, [{"lo": lit("I", 0), "hi": lit("I", 2), "nolo": False}], shared=True)
                else:
                    g = var("G", t)
                    d = b.dim("G", t, shared=True)
                arg = par(g) if shape == "par" else g
                x = var("X", t)
                pbody = [b.print(lit("$", "in"), x, g), b.let(x, v1(t)), b.print(lit("$", "set"), x), b.call("Q", [])]
                q = [b.print(lit("$", "q"), g)]
                main = [d, b.let(g, v0(t))]
                subs = [sub("Q", [], q)]
                if callee == "sub":
                    subs.append(sub("P", [("X", t)], pbody))
                    main.append(b.call("P", [arg]))
                elif callee == "via":
                    subs.append(sub("P", [("X", t)], pbody))
                    subs.append(sub("V", [("Z", t)], [b.call("P", [var("Z", t)]), b.print(lit("$", "v"), var("Z", t))]))
                    main.append(b.call("V", [arg]))
                else:
                    subs.append(fun("F", "I", [("X", t)], pbody + [b.let(var("F", "I"), lit("I", 1))]))
                    fc = fcall("F", "I", [arg], 0)
                    st = b.let(var("R", "I"), fc)
                    fc["sid"] = st["id"]
                    main.append(st)
                main += [b.print(lit("$", "after"), g), b.call("Q", [])]
                out.append({"fam": "shared-byref:%s/%s/%s" % (t, shape, callee), "prog": prog(main, subs)})
    return out


FAMILIES.append(fam_shared_byref)


def fam_args_mix(tier, rng):
    """two and three by-reference arguments of different shapes (plain variable, array element, member of a record) in every
    order, each parameter given its own value by the callee (a SUB or a FUNCTION): every value comes back to its own place;
    fraction literals given to INTEGER / LONG parameters directly, in parentheses and to a FUNCTION; parameterless functions
    with a dot in their names as arguments"""
    import itertools
    out = []
    td = typedef("RC", [("Y", "I"), ("Z", "I")])
    shapes = {"var": lambda: var("K", "I"), "idx": lambda: idx("AR", "I", [lit("I", 3)]), "fld": lambda: fld(var("RR", "U"), "Y", "I"),
              "var2": lambda: var("M", "I"), "idx0": lambda: idx("AR", "I", [lit("I", 0)])}
    for n in (2, 3):
        for combo in itertools.permutations(["var", "idx", "fld", "var2", "idx0"], n):
            if n == 3 and rng.random() < 0.6 and tier != "thorough":
                continue
            for host in ("sub", "fun"):
                b = B()
                params = [("P%d" % j, "I") for j in range(n)]
                body = [b.print(*[var(pn, "I") for pn, _ in params])] + [b.let(var(pn, "I"), lit("I", 101 * (j + 1))) for j, (pn, _) in enumerate(params)]
                args = [shapes[c]() for c in combo]
                main = [b.dim("AR", "I", [{"lo": lit("I", 0), "hi": lit("I", 4), "nolo": False}]), b.dim("RR", "U", ty="RC")]
                main += [b.let(shapes[c](), lit("I", j + 1)) for j, c in enumerate(combo)]
                if host == "sub":
                    main.append(b.call("BOTH", args))
                    subs = [sub("BOTH", params, body)]
                else:
                    fc = fcall("SUM", "I", args, 0)
                    st = b.let(var("R", "I"), fc)
                    fc["sid"] = st["id"]
                    main.append(st)
                    subs = [fun("SUM", "I", params, body + [b.let(var("SUM", "I"), lit("I", 7))])]
                main.append(b.print(var("K", "I"), var("M", "I"), idx("AR", "I", [lit("I", 3)]), idx("AR", "I", [lit("I", 0)]),
                                    fld(var("RR", "U"), "Y", "I"), fld(var("RR", "U"), "Z", "I"), var("R", "I")))
                out.append({"fam": "args-mix:%s/%s" % ("+".join(combo), host), "prog": prog(main, subs, types=[td])})
    # fraction literals to whole-number parameters
    for t in ("I", "L"):
        for w, f_, neg in ((2, 7, False), (2, 3, False), (1, 6, True), (99, 9, False), (0, 6, False), (0, 4, True)):
            for form in ("bare", "par", "fun"):
                b = B()
                lit_ = flit("S", w, f_, neg)
                arg = par(lit_) if form == "par" else lit_
                x = var("X", t)
                if form == "fun":
                    fc = fcall("TENS", t, [arg], 0)
                    st = b.print(fc)
                    fc["sid"] = st["id"]
                    main = [st]
                    subs = [fun("TENS", t, [("X", t)], [b.let(var("TENS", t), bin_("*", x, lit("I", 10)))])]
                else:
                    main = [b.call("SHOW", [arg])]
                    subs = [sub("SHOW", [("X", t)], [b.print(x)])]
                out.append({"fam": "args-fraclit:%s/%d.%d%s/%s" % (t, w, f_, "-" if neg else "", form), "prog": prog(main, subs)})
    # a parameterless FUNCTION whose name contains a dot, as an argument (a call; its result is passed by value)
    for t in T5:
        for form in ("bare", "par", "twice"):
            b = B()
            x = var("X", t)
            zq = fcall("NEXT.ID", t, [], 0)
            arg = par(zq) if form == "par" else zq
            c = b.call("P", [arg])
            zq["sid"] = c["id"]
            main = [c]
            if form == "twice":
                zq2 = fcall("NEXT.ID", t, [], 0)
                c2 = b.call("P", [zq2])
                zq2["sid"] = c2["id"]
                main.append(c2)
            main.append(b.print(lit("$", "calls"), var("G", "I")))
            subs = [sub("P", [("X", t)], [b.print(lit("$", "in"), x), b.let(x, v1(t))]),
                    fun("NEXT.ID", t, [], [b.let(var("G", "I"), bin_("+", var("G", "I"), lit("I", 1))), b.let(var("NEXT.ID", t), v0(t))])]
            out.append({"fam": "args-dotted-fn:%s/%s" % (t, form), "prog": prog([b.dim("G", "I", shared=True)] + main, subs)})
    return out


FAMILIES.append(fam_args_mix)


def fam_args_subscript_changes(tier, rng):
    """the subscript of a by-reference element names a variable that the same call passes by reference too, and the callee
    changes it: the element is the one the subscript named WHEN THE CALL WAS MADE"""
    out = []
    for t in ("I", "$", "D"):
        for order in ("var-first", "elem-first"):
            for host in ("sub", "fun"):
                b = B()
                i = var("I", "I")
                el = idx("AR", t, [i])
                x, n = var("X", t), var("N", "I")
                body = [b.print(lit("$", "in"), n, x), b.let(n, bin_("+", n, lit("I", 1))), b.let(x, v1(t))]
                args = [i, el] if order == "var-first" else [el, i]
                params = [("N", "I"), ("X", t)] if order == "var-first" else [("X", t), ("N", "I")]
                main = [b.dim("AR", t, [{"lo": lit("I", 0), "hi": lit("I", 3), "nolo": False}]), b.let(i, lit("I", 1))]
                if host == "sub":
                    main.append(b.call("P", args))
                    subs = [sub("P", params, body)]
                else:
                    fc = fcall("F", "I", args, 0)
                    st = b.let(var("R", "I"), fc)
                    fc["sid"] = st["id"]
                    main.append(st)
                    subs = [fun("F", "I", params, body + [b.let(var("F", "I"), lit("I", 1))])]
                main.append(b.print(i, idx("AR", t, [lit("I", 0)]), idx("AR", t, [lit("I", 1)]), idx("AR", t, [lit("I", 2)]), idx("AR", t, [lit("I", 3)])))
                out.append({"fam": "args-subscript-changes:%s/%s/%s" % (t, order, host), "prog": prog(main, subs)})
    return out


FAMILIES.append(fam_args_subscript_changes)


def fam_round9(tier, rng):
    """STATIC procedures in histories with an abandoned activation (an error handled with RESUME label leaves the procedures that
    were running) and STATIC procedures that call themselves (one set of variables, whoever calls)"""
    out = []
    c = var("C", "I")
    # static-after-abandon: S (STATIC counter) is called, then an error happens in T / in U called from T / in S called from
    # T, the handler leaves them with RESUME label, and S is called again from the module and from another procedure that
    # has a local of the same name
    for nbefore in (0, 1, 2):
        for where in ("t", "t-u", "t-s", "s"):
            for after in ("main", "proc", "proc+main", "main+proc"):
                b = B()
                z = var("Z", "I")
                fail = b.let(var("Q", "I"), bin_("/", lit("I", 1), z))
                sbody = [b.let(c, bin_("+", c, lit("I", 1))), b.print(lit("$", "s"), c)]
                if where in ("t-s", "s"):
                    # S fails on request (the SHARED flag is set by the caller): its activation is abandoned after the count
                    sbody += [b.if_([(bin_("=", var("BOOM", "I"), lit("I", 1)), [b.let(var("BOOM", "I"), lit("I", 0)), fail])])]
                tbody = [b.let(c, lit("I", 50)), b.print(lit("$", "t"), c)]
                ubody = [b.print(lit("$", "u")), fail, b.print(lit("$", "u2"))]
                if where == "t":
                    tbody += [fail]
                elif where == "t-u":
                    tbody += [b.call("U", [])]
                elif where == "t-s":
                    tbody += [b.let(var("BOOM", "I"), lit("I", 1)), b.call("S", [])]
                tbody += [b.print(lit("$", "t2"), c)]
                rbody = [b.let(c, lit("I", 100)), b.call("S", []), b.print(lit("$", "r"), c)]
                main = [b.dim("BOOM", "I", shared=True), b.onerror("goto", "H")] + [b.call("S", []) for _ in range(nbefore)]
                if where == "s":
                    main += [b.let(var("BOOM", "I"), lit("I", 1)), b.call("S", [])]
                else:
                    main += [b.call("T", [])]
                main += [b.print(lit("$", "not-here")), b.label("L"), b.print(lit("$", "at-l"))]
                for a in after.split("+"):
                    main += [b.call("S", [])] if a == "main" else [b.call("R", [])]
                main += [b.print(lit("$", "end"), c), b.end(), b.label("H"), b.print(lit("$", "h"), {"k": "err"}), b.resume("label", "L")]
                subs = [sub("S", [], sbody, static=True), sub("T", [], tbody), sub("U", [], ubody), sub("R", [], rbody)]
                out.append({"fam": "static-after-abandon:%d/%s/%s" % (nbefore, where, after), "prog": prog(main, subs)})
    # static-recursion: a STATIC SUB / FUNCTION that calls itself, directly or through another procedure; every activation
    # counts in the same variable.  (Parameters are not read after the inner call.)
    for depth in (1, 2, 3):
        for via in ("direct", "through"):
            for kind in ("sub", "fun"):
                for ncalls in (1, 2):
                    b = B()
                    n = var("N", "I")
                    inner_arg = bin_("-", n, lit("I", 1))
                    if kind == "sub":
                        rec = b.call("V", [inner_arg]) if via == "direct" else b.call("W", [inner_arg])
                        body = [b.let(c, bin_("+", c, lit("I", 1))), b.print(lit("$", "down"), n, c),
                                b.if_([(bin_(">", n, lit("I", 1)), [rec])]), b.print(lit("$", "up"), c)]
                        subs = [sub("V", [("N", "I")], body, static=True)]
                        if via == "through":
                            subs.append(sub("W", [("M", "I")], [b.let(c, lit("I", 7)), b.call("V", [var("M", "I")]), b.print(lit("$", "w"), c)]))
                        main = [b.call("V", [lit("I", depth)]) for _ in range(ncalls)] + [b.print(lit("$", "end"), c)]
                    else:
                        f1 = fcall("V" if via == "direct" else "W", "I", [inner_arg], 0)
                        st = b.let(var("D", "I"), f1)
                        f1["sid"] = st["id"]
                        body = [b.let(c, bin_("+", c, lit("I", 1))), b.print(lit("$", "down"), n, c),
                                b.if_([(bin_(">", n, lit("I", 1)), [st])]), b.let(var("V", "I"), c)]
                        subs = [fun("V", "I", [("N", "I")], body, static=True)]
                        if via == "through":
                            f2 = fcall("V", "I", [var("M", "I")], 0)
                            st2 = b.let(var("W", "I"), f2)
                            f2["sid"] = st2["id"]
                            subs.append(fun("W", "I", [("M", "I")], [b.let(c, lit("I", 7)), st2]))
                        main = []
                        for _ in range(ncalls):
                            fc = fcall("V", "I", [lit("I", depth)], 0)
                            pr = b.print(lit("$", "v"), fc)
                            fc["sid"] = pr["id"]
                            main.append(pr)
                        main.append(b.print(lit("$", "end"), c))
                    out.append({"fam": "static-recursion:%d/%s/%s/%d" % (depth, via, kind, ncalls), "prog": prog(main, subs)})
    return out


FAMILIES.append(fam_round9)


def fam_array_params(tier, rng):
    """whole arrays as arguments (A()): the callee works on the caller's array - what it stores (itself, or by handing the array
    or one of its elements further down, to a SUB or to a FUNCTION called inside an expression) is there after the call"""
    out = []
    for t in ("I", "$", "D"):
        def v(i):
            return lit("$", "v%d" % i) if t == "$" else lit("I", i)
        for mid in ("sub", "fun-let", "fun-if", "fun-print", "none"):
            for deep in ("sub", "fun"):
                for midwrites in ("no", "before", "after"):
                    for passes in ("whole", "element"):
                        if mid == "none" and (midwrites != "no" or passes == "element"):
                            continue
                        b = B()
                        X = lambda i: idx("X", t, [lit("I", i)])
                        Y = lambda i: idx("Y", t, [lit("I", i)])
                        A = lambda i: idx("A", t, [lit("I", i)])
                        # the procedure at the bottom stores into its parameter
                        if passes == "whole":
                            dbody = [b.let(Y(1), v(7)), b.let(Y(3), v(9)), b.print(lit("$", "deep"), Y(2))]
                            dparams = [("Y", t, "", True)]
                            darg = arr("X", t)
                        else:
                            dbody = [b.print(lit("$", "deep"), var("E", t)), b.let(var("E", t), v(7))]
                            dparams = [("E", t)]
                            darg = X(1)
                        if deep == "fun":
                            dbody.append(b.let(var("DEEP", "I"), lit("I", 1)))
                            subs = [fun("DEEP", "I", dparams, dbody)]
                        else:
                            subs = [sub("DEEP", dparams, dbody)]

                        def calldeep(argexpr, how):
                            if deep == "sub":
                                return [b.call("DEEP", [argexpr])]
                            fc = fcall("DEEP", "I", [argexpr], 0)
                            if how == "fun-if":
                                st = b.if_([(bin_("=", fc, lit("I", 1)), [b.print(lit("$", "yes"))])])
                            elif how == "fun-print":
                                st = b.print(lit("$", "r"), fc)
                            else:
                                st = b.let(var("N", "I"), fc)
                            fc["sid"] = st["id"]
                            return [st]
                        main = [b.dim("A", t, [dimspec(1, 3)]), b.let(A(2), v(5))]
                        if mid == "none":
                            main += calldeep(arr("A", t), "fun-let")
                        else:
                            mbody = ([b.let(X(2), v(6))] if midwrites == "before" else []) + calldeep(darg, mid if mid != "sub" else "fun-let") + \
                                    ([b.let(X(2), v(8))] if midwrites == "after" else []) + [b.print(lit("$", "mid"), X(1), X(2), X(3))]
                            if mid == "sub":
                                subs.append(sub("MIDL", [("X", t, "", True)], mbody))
                                main += [b.call("MIDL", [arr("A", t)])]
                            else:
                                mbody.append(b.let(var("MIDL", "I"), lit("I", 2)))
                                subs.append(fun("MIDL", "I", [("X", t, "", True)], mbody))
                                fc = fcall("MIDL", "I", [arr("A", t)], 0)
                                st = b.let(var("K", "I"), fc)
                                fc["sid"] = st["id"]
                                main += [st]
                        main += [b.print(lit("$", "main"), A(1), A(2), A(3))]
                        out.append({"fam": "array-params:%s/%s/%s/%s/%s" % (t, mid, deep, midwrites, passes), "prog": prog(main, subs)})
    return out


FAMILIES.append(fam_array_params)


def cases(tier, seed):
    rng = random.Random(seed)
    out = []
    for f in FAMILIES:
        out.extend(f(tier, rng))
    for i, c in enumerate(out):
        c["id"] = i + 1
    return out
