"""C09 check: layout transformations.  Seed programs (accepted and rejected ones) are lexed
into tokens with typed sites; TLC (Layout.tla) enumerates every subset of up to k sites with
every move and the all-at-once variants, and checks on the spec that each variant has the
same canonical token sequence; the driver materialises each variant and compares it with
its base on the real code: parse tree with positions erased, checker verdict, output."""
import os, random, re, json
from common import out_dir, dumps, seed, ToolError
from pool import Pool
from report import Reporter
from tlc import run_tlc
import corpus, render

LEX = re.compile(r'"[^"\r\n]*"?|\'[^\r\n]*|\r\n|\r|\n|[ \t]+|&[HhOo][0-9A-Fa-f]*|[0-9]+\.?[0-9]*#?|[A-Za-z][A-Za-z0-9.]*[%&!#$]?|<=|>=|<>|.', re.S)
SIMPLE = re.compile(r'^\s*(PRINT\b(?![^\r\n]*\bUSING\b)|[A-Za-z][A-Za-z0-9.]*[%&!#$]?(\([^()\r\n]*\))?\s*=(?!=))', re.I)
JOINABLE = {"PRINT", "LPRINT", "CLS", "BEEP", "GOTO", "GOSUB", "RETURN", "DIM", "REDIM", "CONST", "FOR", "NEXT", "WHILE", "WEND", "DO", "LOOP",
            "INPUT", "READ", "LOCATE", "COLOR", "CLOSE", "OPEN", "KILL", "NAME", "POKE", "LSET", "GET", "PUT", "FIELD", "WIDTH", "VIEW",
            "ENVIRON", "EXIT", "RESUME", "LINE"}
KEYWORDS = JOINABLE | {"IF", "THEN", "ELSE", "ELSEIF", "END", "SELECT", "CASE", "SUB", "FUNCTION", "DECLARE", "TYPE", "DATA", "REM", "DEF", "ON",
                       "AS", "TO", "STEP", "UNTIL", "SHARED", "STATIC", "USING", "AND", "OR", "NOT", "MOD", "IS", "ERROR", "CALL", "LET",
                       "DEFINT", "DEFLNG", "DEFSNG", "DEFDBL", "DEFSTR", "SEG", "ACCESS", "APPEND", "OUTPUT", "RANDOM", "LEN", "SYSTEM", "STOP"}
NOTSIMPLE = re.compile(r'\b(IF|THEN|ELSE|REM|DATA|FOR|NEXT|WHILE|WEND|DO|LOOP|SELECT|CASE|END|SUB|FUNCTION|DECLARE|TYPE|DIM|DEF\w*|ON|RESUME|GOTO|GOSUB|RETURN|CONST)\b', re.I)


def tokenize(text):
    """-> list of token dicts {k, id, text, join, split, case, width, extra}"""
    raw = LEX.findall(text)
    lines = re.split(r'\r\n|\r|\n', text)
    toks = []
    line = 0
    for t in raw:
        if t in ("\r\n", "\r", "\n"):
            k = "eol"
        elif t[0] in " \t":
            k = "blank"
        elif t[0] == '"' or t[0] == "'":
            k = "other"
        elif re.match(r'[A-Za-z]', t) or re.match(r'&[HhOo][0-9A-Fa-f]+$', t):
            k = "word"          # keywords, identifiers, and hexadecimal / octal literals (radix letter and digits a-f)
        elif t == ":":
            k = "colon"
        else:
            k = "other"
        tk = {"k": k, "id": t.upper() if k == "word" else (" " if k == "blank" else ("\n" if k == "eol" else t)),
              "text": t, "join": False, "split": False, "pad": False, "tight": False, "drop": False, "ins": False, "case": "asis", "width": "one", "extra": "none", "line": line}
        toks.append(tk)
        if k == "eol":
            line += 1

    intype = [False] * (len(lines) + 1)
    flag = False
    for i, ln in enumerate(lines):
        first = (re.findall(r'[A-Za-z]+', ln) or [""])[0].upper()
        if first == "TYPE":
            flag = True
        intype[i] = flag
        if first == "END" and re.match(r'\s*END\s+TYPE', ln, re.I):
            flag = False

    def simple(i):
        """may this line be joined with a neighbour by a colon without changing the meaning?"""
        ln = lines[i]
        bare = re.sub(r'"[^"]*"', '""', ln)
        if "'" in bare or ":" in bare or intype[i] or not bare.strip():
            return False
        if re.search(r'\b(IF|THEN|ELSE|ELSEIF|SELECT|CASE|SUB|FUNCTION|DECLARE|TYPE|DATA|REM|DEF\w*|ON)\b', bare, re.I):
            return False          # IF consumes the rest of its line; the others are block / declaration lines
        first = (re.findall(r'[A-Za-z][A-Za-z0-9.]*[%&!#$]?', bare) or [""])[0].upper()
        if first == "END":
            return bare.strip().upper() == "END"
        if first in JOINABLE:
            return True
        if SIMPLE.match(ln):
            return True
        # a call of a user SUB: a name that is no keyword, followed by arguments or nothing
        return bool(re.match(r'^\s*[A-Za-z][A-Za-z0-9.]*(\s+[^=].*)?$', bare)) and first not in KEYWORDS
    # an eol may become a colon when the line before and the line after are simple statements
    for tk in toks:
        if tk["k"] == "eol":
            i = tk["line"]
            if i + 1 < len(lines) and simple(i) and simple(i + 1):
                tk["join"] = True
                # a colon WITHOUT a blank before it, after a line that is one bare word, would turn that word into a label
                tk["tight"] = len(re.findall(r'\S+', lines[i])) > 1
    # a blank next to a comma, a semicolon or an operator sign (not between a word and a parenthesis: whether a keyword
    # may touch a parenthesis is decided case by case by this parser - )STEP yes, )ELSE no - and C09 does not ask for it)
    # separates nothing that would otherwise run together: it may be left out (A=1, PRINT 1;2, X=(1)+(2))
    for i, tk in enumerate(toks):
        if tk["k"] == "blank" and 0 < i < len(toks) - 1:
            a, b_ = toks[i - 1], toks[i + 1]
            signs = "(),;=+-*/<>"
            # not after a name that would become a call / an array reference: NAME (..) and NAME(..) are different things
            if a["k"] == "word" and (b_["text"] in ("+", "-") or a["text"].upper() in KEYWORDS):
                continue        # a sign or a comma directly after a keyword (TO-2, STEP-2, LOCATE, ,0): the blank after a keyword stays
            if (a["k"] == "other" and a["text"] in signs and a["text"] != ")") or (b_["k"] == "other" and b_["text"] in signs and b_["text"] != "("):
                tk["drop"] = True
    # a comma, a semicolon, a relational sign, `=`, `*`, `/` and a closing parenthesis may have blanks around them where
    # the source has none (PRINT USING f$ ; x, A (1 ) = 2 , INPUT #1 , N).  Not `+` / `-` (a sign in front of a number
    # is part of it), not `(` (NAME ( and NAME( are different things), not inside DATA lines (blanks belong to the items)
    start = 0
    for i in range(len(toks) + 1):
        if i == len(toks) or toks[i]["k"] == "eol":
            ln = toks[start:i]
            words = [t for t in ln if t["k"] != "blank"]
            head = words[0]["text"].upper() if words else ""
            if head not in ("DATA", "REM") and not any(t["k"] == "word" and t["text"].upper() == "DATA" for t in ln):
                for j, t in enumerate(ln):
                    if t["k"] == "other" and t["text"] in (",", ";", "=", "*", "/", "<", ">", "<=", ">=", "<>", ")"):
                        prev_t = ln[j - 1]["text"] if j > 0 else ""
                        next_t = ln[j + 1]["text"] if j + 1 < len(ln) else ""
                        if prev_t in ("<", ">", "=") or next_t in ("<", ">", "="):
                            continue        # =< and >= written as two characters stay together
                        if t["text"] == ")" and next_t.startswith("."):
                            continue        # A(1).Member: nothing may stand between the parenthesis and the point
                        t["ins"] = True
            start = i + 1
    # a colon that separates two statements may have blanks around it; the colon of a label may not (it belongs to the name)
    start = 0
    for i in range(len(toks) + 1):
        if i == len(toks) or toks[i]["k"] == "eol":
            ln = toks[start:i]
            words = [t for t in ln if t["k"] != "blank"]
            head = words[0]["text"].upper() if words else ""
            comment_at = next((j for j, t in enumerate(ln) if t["text"].startswith("'")), len(ln))
            for j, t in enumerate(ln):
                if t["k"] == "colon":
                    before = [x for x in ln[:j] if x["k"] != "blank"]
                    is_label = len(before) == 1 and before[0]["k"] in ("word", "other")
                    t["pad"] = (not is_label) and j < comment_at and head not in ("DATA", "REM") and len(before) > 0
            start = i + 1
    # a blank inside a line that only separates tokens; leading blanks of a line are stretchable too
    return toks


def materialise(toks, sites, eolkind, rng):
    eol = {"crlf": "\r\n", "lf": "\n", "cr": "\r"}[eolkind]
    out = []
    for i, tk in enumerate(toks):
        mv = sites.get(i + 1)
        t = tk["text"]
        k = tk["k"]
        if k == "word":
            if mv == "upper":
                t = t.upper()
            elif mv == "lower":
                t = t.lower()
            elif mv == "mixed":
                t = "".join(c.upper() if j % 2 == 0 else c.lower() for j, c in enumerate(t))
        elif k == "blank":
            if mv == "two":
                t = t + " "
            elif mv == "tab":
                t = "\t"
            elif mv == "none":
                t = ""
        elif k == "eol":
            if mv == "join":
                t = " : "
            elif mv == "jointight":
                t = ":"
            elif mv == "joinleft":
                t = " :"
            elif mv == "commentline":
                t = eol + "' a line of its own" + eol
            elif mv == "commentblank":
                t = " ' note" + eol + eol
            elif mv == "commentlineblank":
                t = eol + "  ' a line of its own" + eol + " " + eol
            elif mv == "blankline":
                t = eol + eol
            elif mv == "trailblank":
                t = " " + eol
            elif mv == "comment":
                t = " ' note " + "n" * 44 + eol        # longer than any name may be
            else:
                t = eol
        elif k == "other" and mv in ("insl", "insr", "insboth"):
            t = (" " if mv != "insr" else "") + t + (" " if mv != "insl" else "")
        elif k == "colon" and mv == "split":
            t = eol
        elif k == "colon" and mv == "pad":
            t = "  " + t + "  "
        elif k == "colon" and mv == "padleft":
            t = " " + t
        out.append(t)
    return "".join(out)


def seeds(tier, rng):
    texts = []
    import c01, c03, c05, c04
    # one representative program per family of the other properties (so that every construct the families use is a seed)
    reps = []
    for mod in (c01, c03, c05, c04):
        seen = set()
        for c in mod.cases("quick", 1):
            parts = c["fam"].replace(":", "/").split("/")
            key = tuple(parts[:1]) if mod is c03 else tuple(parts[:2])
            if key in seen:
                continue
            seen.add(key)
            try:
                reps.append(render.program(c["prog"])[0])
            except render.RenderError:
                pass
    reps = [t for t in reps if len(t) <= 700]
    if tier == "quick":
        step = max(1, len(reps) // 45)
        reps = reps[::step]
    texts += reps
    cp = [c["text"] for c in corpus.programs() if 15 <= len(c["text"]) <= 500]
    rng.shuffle(cp)
    texts += cp[: (150 if tier == "thorough" else 14)]
    import tour
    texts += tour.TOUR          # every statement form of the language at least once
    # rejected seeds: verdict class must be stable too
    texts += ['X% = "a"\r\nPRINT X%\r\n', 'PRINT UCASE$(5)\r\n', 'GOTO Nowhere\r\nPRINT 1\r\n', 'FOR I = 1 TO 3\r\nPRINT I\r\n',
              'DIM A AS INTEGER\r\nA$ = "x"\r\n', 'IF X THEN\r\nPRINT 1\r\n']
    out = []
    for i, t in enumerate(texts):
        t = re.sub(r'\r\n|\r|\n', "\r\n", t)
        if not t.endswith("\r\n"):
            t += "\r\n"
        toks = tokenize(t)
        if len(toks) <= 260:
            out.append({"id": i + 1, "text": t, "toks": toks})
    return out


COMMENT_RE = re.compile(r'Positioned \{ element: (?:Statement\()?Comment\("(?:[^"\\]|\\.)*"\)\)?, pos: P \}(, )?')


def norm_tree(tree):
    if tree is None:
        return None
    t = COMMENT_RE.sub("", tree)
    t = t.replace(", ]", "]")
    t = re.sub(r'(?:inline_)?comments: \[(?:Positioned \{ element: "(?:[^"\\]|\\.)*", pos: P \}(?:, )?)*\]', "comments: []", t)
    # an empty ELSE block and no ELSE block are the same statement (a trailing comment after a one-line IF gives the former)
    t = t.replace("else_block: Some([])", "else_block: None")
    # FIELD keeps the NAME of each variable as a string literal, in the letter case of the source
    def field_names(m):
        return re.sub(r'StringLiteral\("([^"]*)"\)', lambda n: 'StringLiteral("%s")' % n.group(1).upper(), m.group(0))
    t = re.sub(r'BuiltInSubCall\((?:Field|LSet), \[.*?\]\)\)', field_names, t)
    return re.sub(r'CaseInsensitiveString\("([^"]*)"\)', lambda m: 'CIS("%s")' % m.group(1).upper(), t)


def summary(resp):
    if resp is None or resp.get("timeout") or resp.get("abort"):
        return {"verdict": "lost"}
    if "panic" in resp:
        return {"verdict": "panic:" + str(resp.get("stage"))}
    if resp.get("stage") in ("parse", "lint"):
        dbg = str((resp.get("error") or {}).get("dbg"))
        return {"verdict": resp["stage"] + ":" + dbg.split("(")[0], "tree": norm_tree(resp.get("tree"))}
    oc = resp.get("outcome", {})
    return {"verdict": "accept", "tree": norm_tree(resp.get("tree")), "out": resp.get("stdout"), "k": oc.get("k"), "code": oc.get("code")}


def run(tier, replay):
    rep = Reporter("C09", tier, "model_checking")
    pool = Pool()
    rng = random.Random(seed())
    d = out_dir("C09")
    if replay:
        with open(replay) as f:
            r = json.load(f)
        ra, rb = pool.map([{"op": "run", "text": r["text_a"], "tree": True, "budget": 50000}, {"op": "run", "text": r["text_b"], "tree": True, "budget": 50000}])
        same = summary(ra) == summary(rb)
        print("replay:", "same" if same else "DIFFERENT")
        return 0 if same else 1
    sd = seeds(tier, rng)
    # pairs of sites (thorough) are enumerated for the 40 shortest seeds: the product over all seeds is out of reach
    pair_ids = {s["id"] for s in sorted(sd, key=lambda x: len(x["toks"]))[:40]}
    spath = os.path.join(d, "seeds.ndjson")
    with open(spath, "w") as f:
        for s in sd:
            f.write(dumps({"id": s["id"], "pairs": s["id"] in pair_ids, "toks": [{k: tk[k] for k in ("k", "id", "join", "split", "pad", "tight", "drop", "ins", "case", "width", "extra")} for tk in s["toks"]]}) + "\n")
    res = run_tlc("Layout.tla", "Layout_%s.cfg" % tier, os.path.join(d, "tlc"), env={"SEEDS": spath}, timeout=3000)
    if res.timed_out:
        raise ToolError("TLC timed out on Layout.tla")
    if not res.ok:
        raise ToolError("Layout.tla: a move does not preserve the canonical token sequence:\n%s" % res.violation)
    byid = {s["id"]: s for s in sd}
    variants = []
    for ln in res.printed:
        if not ln.startswith("VARIANT "):
            continue
        parts = ln.split(" ")
        sid, eolkind, mode = int(parts[1]), parts[2], parts[3]
        sites = {}
        if len(parts) > 4 and parts[4]:
            for kv in parts[4].split(","):
                a, b = kv.split("=")
                sites[int(a)] = b
        variants.append((sid, eolkind, mode, sites))
    cap = 14000 if tier == "quick" else 400000
    if len(variants) > cap:
        # every all-at-once variant and every single-site variant stays; the pairs of sites are sampled
        keep = [v for v in variants if v[2] != "subset" or len(v[3]) <= 1]
        rest = [v for v in variants if v[2] == "subset" and len(v[3]) > 1]
        if tier == "quick":
            keep, rest = [v for v in variants if v[2] != "subset"], [v for v in variants if v[2] == "subset"]
        rng.shuffle(rest)
        variants = keep + rest[:max(0, cap - len(keep)) if tier != "quick" else 13000]
    nvariants_enumerated = len(res.printed)
    import tour, shutil
    fsroot = os.path.join(d, "fs")
    shutil.rmtree(fsroot, ignore_errors=True)

    def req(t, n):
        return {"op": "run", "text": t, "tree": True, "budget": 50000, "stdin": tour.TOUR_STDIN, "dir": os.path.join(fsroot, n)}
    base_resp = dict(zip([s["id"] for s in sd], pool.map([req(s["text"], "b%d" % i) for i, s in enumerate(sd)], timeout=40)))
    nontrivial = set()
    stats = {}
    samples = []
    base_sum = {sid: summary(r) for sid, r in base_resp.items()}
    CH = 20000          # variants are run and judged chunk by chunk: responses (parse trees) are not kept
    for c0 in range(0, len(variants), CH):
      chunk_v = variants[c0:c0 + CH]
      chunk_t = [materialise(byid[v[0]]["toks"], v[3], v[1], rng) for v in chunk_v]
      chunk_r = pool.map([req(t, "v%d" % (c0 + i)) for i, t in enumerate(chunk_t)], timeout=40)
      shutil.rmtree(fsroot, ignore_errors=True)
      if c0 == 0:
          samples = [{"moves": v[3], "eol": v[1], "text_b": t[:300]} for v, t in list(zip(chunk_v, chunk_t))[:: max(1, len(chunk_v) // 3)][:3]]
      for v, t, resp in zip(chunk_v, chunk_t, chunk_r):
        sid, eolkind, mode, sites = v
        a, b = base_sum[sid], summary(resp)
        key = mode + ":" + ",".join(sorted(set(sites.values()))) if mode == "subset" else mode
        stats[key] = stats.get(key, 0) + 1
        if a == b:
            if t != byid[sid]["text"]:
                nontrivial.add(hash(t))
            continue
        which = [k for k in ("verdict", "tree", "out", "k", "code") if a.get(k) != b.get(k)]
        feats = {"mode:" + mode, "eol:" + eolkind} | {"move:" + m for m in sites.values()} | {"differs:" + w for w in which}
        rep.violation({"text_a": byid[sid]["text"], "text_b": t, "moves": sites, "eol": eolkind, "differs_in": which,
                       "observed_a": {k: (a.get(k) if k != "tree" else (a.get(k) or "")[:300]) for k in a},
                       "observed_b": {k: (b.get(k) if k != "tree" else (b.get(k) or "")[:300]) for k in b},
                       "expected": "same parse tree up to positions, same verdict, same output"}, feats, name=which[0] if which else "diff")
    coverage = {
        "states": res.distinct, "transitions": res.generated, "traces_validated_against_impl": len(variants),
        "samples": samples, "variants_enumerated_by_tlc": nvariants_enumerated,
        "evaluations": len(variants), "distinct_nontrivial": len(nontrivial),
        "rule": "seeds: programs of the C01/C03/C04/C05 families, program texts from the repository's tests, and rejected programs; TLC "
                "enumerates, per seed and per line-ending convention (CR LF, LF, CR), every subset of up to %d sites with every move "
                "(case of a keyword/identifier: upper, lower, mixed; blank run: two blanks, tab; line end: blank line, trailing comment, "
                "colon instead of newline between simple statements; a blank inserted before / after / around a comma, semicolon, relational sign, =, *, / or closing parenthesis) and the all-at-once variants; non-trivial = the text differs "
                "from the base; distinct by text" % (2 if tier == "thorough" else 1),
        "seeds": len(sd), "variants_by_move": stats,
        "design_check": {"module": "Layout", "invariant": "CanonPreserved"},
        "checker_cmd": res.cmd, "exhaustive": False,
    }
    assumptions = ["the site finder (lexer + 'simple statement' test) is trusted; a wrongly eligible site shows up as a difference, not as a miss",
                   "trees are compared as Debug text with positions erased, names upper-cased and comment statements removed"]
    return rep.finish(coverage, assumptions)
