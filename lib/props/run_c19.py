"""C19 check: (D) TLC checks Bits.tla (two's complement, bitwise laws, IEEE field layout);
(V) call records of the real primitives - all 65536 words, boundary and random pairs, doubles
given by their IEEE fields - validated by TLC; the same through BASIC programs (AND/OR/NOT,
PEEK/POKE, MKD$/CVD); millions of random pairs bridged against the machine operations."""
import os, random, struct, json
from common import out_dir, dumps, seed, ToolError
from pool import Pool
from report import Reporter
from tlc import run_tlc

EDGE = sorted(set([-32768, -32767, -256, -255, -2, -1, 0, 1, 2, 127, 128, 255, 256, 21845, -21846, 16384, -16385, 32766, 32767]
                  + [2 ** i for i in range(15)] + [-(2 ** i) - 1 for i in range(15)]))


def fields_of_bits(u):
    return [u >> 63, (u >> 52) & 0x7ff, (u >> 48) & 0xf, (u >> 32) & 0xffff, (u >> 16) & 0xffff, u & 0xffff]


def double_cases(tier, rng):
    out = []
    for e in range(1, 2047, 1 if tier == "thorough" else 7):          # powers of two, both signs
        out.append([0, e, 0, 0, 0, 0])
        out.append([1, e, 0, 0, 0, 0])
    for e in (0, 1, 2, 1022, 1023, 1024, 1023 + 52, 1023 + 53, 1023 + 62, 1023 + 63, 1023 + 64, 1023 + 100, 2045, 2046):
        for m in ([0, 0, 0, 1], [15, 65535, 65535, 65535], [8, 0, 0, 0], [0, 1, 0, 0], [5, 21845, 21845, 21845], [0, 0, 0, 0]):
            for s in (0, 1):
                out.append([s, e] + m)
    n = 20000 if tier == "thorough" else 2500
    for _ in range(n):
        u = rng.getrandbits(64)
        if (u >> 52) & 0x7ff == 0x7ff:
            continue   # not finite
        out.append(fields_of_bits(u))
    return out


def chunks(l, n):
    for i in range(0, len(l), n):
        yield l[i:i + n]


def run(tier, replay):
    rep = Reporter("C19", tier, "model_checking")
    pool = Pool()
    rng = random.Random(seed())
    d = out_dir("C19")
    # ---- D
    res = run_tlc("MC_Bits.tla", "MC_Bits.cfg", os.path.join(d, "tlc_mc"), timeout=1500)
    if res.timed_out or not res.ok:
        raise ToolError("Bits.tla violates its own invariants:\n%s" % res.violation)
    states, trans = res.distinct, res.generated
    # ---- V: call records
    words = list(range(-32768, 32768))
    pairs = [(a, b) for a in EDGE for b in EDGE]
    for _ in range(50000 if tier == "thorough" else 6000):
        pairs.append((rng.randint(-32768, 32767), rng.randint(-32768, 32767)))
    dbl = double_cases(tier, rng)
    reqs, meta = [], []

    def add(fn, kind, args_list, mk):
        for part in chunks(list(zip(args_list, [mk(a) for a in args_list])), 2000):
            reqs.append({"op": "call", "fn": fn, "batch": [p[1] for p in part]})
            meta.append((kind, [p[0] for p in part]))

    add("i32_to_bytes", "tob", words, lambda a: [a])
    add("not", "not", words, lambda a: [a])
    add("bytes_to_i32", "fromb", [(lo, hi) for hi in range(256) for lo in range(256)], lambda p: [p[0], p[1]])
    add("qb_and", "and", pairs, lambda p: [p[0], p[1]])
    add("qb_or", "or", pairs, lambda p: [p[0], p[1]])
    add("f64_roundtrip", "f64", dbl, lambda f: f)
    bytes_cases = []
    for f in dbl[:: 3]:
        u = (f[0] << 63) | (f[1] << 52) | (f[2] << 48) | (f[3] << 32) | (f[4] << 16) | f[5]
        bytes_cases.append(list(struct.pack("<Q", u)))
    add("bytes_to_f64", "fromf64", bytes_cases, lambda b: b)
    resps = pool.map(reqs, timeout=300)
    recs = []
    rid = 0
    for (kind, args), resp in zip(meta, resps):
        if not resp or "results" not in resp:
            raise ToolError("harness call failed: %s" % str(resp)[:200])
        for a, x in zip(args, resp["results"]):
            rid += 1
            if isinstance(x, dict) and "panic" in x:
                rep.violation({"api_call": kind, "args": a, "observed": x}, {"panic", "kind:" + kind}, name=kind)
                continue
            if kind == "tob":
                recs.append({"id": rid, "k": "tob", "a": a, "res": x})
            elif kind == "not":
                if x.get("t") != "I":
                    rep.violation({"api_call": "NOT", "args": a, "observed": x}, {"kind:not"}, name="not")
                    continue
                recs.append({"id": rid, "k": "not", "a": a, "res": x["v"]})
            elif kind == "fromb":
                recs.append({"id": rid, "k": "fromb", "b": list(a), "res": x})
            elif kind in ("and", "or"):
                recs.append({"id": rid, "k": kind, "a": a[0], "b": a[1], "res": x})
            elif kind == "f64":
                recs.append({"id": rid, "k": "f64", "f": a, "bytes": x["bytes"], "back": x["back"]})
            else:
                recs.append({"id": rid, "k": "fromf64", "b": a, "res": x})
    # ---- programs: the same primitives through BASIC
    progs, pmeta = [], []
    for a, b in [(x, y) for x in EDGE[::3] for y in EDGE[::4]]:
        progs.append("A%% = %d\r\nB%% = %d\r\nPRINT A%% AND B%%; A%% OR B%%; NOT A%%\r\n" % (a, b))
        pmeta.append(("logic", (a, b)))
    # the operators as CONDITIONS of IF / ELSEIF / WHILE / DO UNTIL / one-line IF: the bitwise word decides (1 AND 2 is false)
    conds = [(1, 2), (5, 10), (4, 4), (-1, 0), (0, 0), (255, 256), (-32768, 32767), (-32768, -32768), (3, 1), (16384, 16384), (-2, 1)]
    for a, b in conds + [(rng.randint(-32768, 32767), rng.randint(-32768, 32767)) for _ in range(10)]:
        for op, kk in (("AND", "andtruth"), ("OR", "ortruth")):
            c = "A%% %s B%%" % op
            text = "A%% = %d\r\nB%% = %d\r\n" % (a, b)
            text += "IF %s THEN\r\nPRINT 1\r\nELSE\r\nPRINT 0\r\nEND IF\r\n" % c
            text += "IF A%% = 12345 AND B%% = 54 THEN\r\nPRINT 7\r\nELSEIF %s THEN\r\nPRINT 1\r\nELSE\r\nPRINT 0\r\nEND IF\r\n" % c
            text += "IF %s THEN PRINT 1 ELSE PRINT 0\r\n" % c
            text += "N%% = 0\r\nWHILE %s\r\nN%% = N%% + 1\r\nIF N%% = 1 THEN A%% = 0: B%% = 0\r\nWEND\r\nPRINT N%%\r\nA%% = %d\r\nB%% = %d\r\n" % (c, a, b)
            text += "N%% = 0\r\nDO WHILE %s\r\nN%% = N%% + 1\r\nIF N%% = 1 THEN A%% = 0: B%% = 0\r\nLOOP\r\nPRINT N%%\r\n" % c
            progs.append(text)
            pmeta.append(("truth", (kk, a, b)))
    for a in EDGE + [rng.randint(-32768, 32767) for _ in range(60)]:
        progs.append("A%% = %d\r\nDEF SEG = VARSEG(A%%)\r\nPRINT PEEK(VARPTR(A%%)); PEEK(VARPTR(A%%) + 1)\r\n" % a)
        pmeta.append(("peek", a))
        lo, hi = (a & 0xffff) & 0xff, (a & 0xffff) >> 8
        progs.append("DIM A%%\r\nA%% = 0\r\nDEF SEG = VARSEG(A%%)\r\nPOKE VARPTR(A%%), %d\r\nPOKE VARPTR(A%%) + 1, %d\r\nPRINT A%%\r\n" % (lo, hi))
        pmeta.append(("poke", (lo, hi)))
    # the same through ELEMENTS of arrays that stand between other variables and arrays (segment / offset arithmetic)
    NL = "\r\n"
    layouts = [["N% = 7", "DIM A%(2)", "A%(1) = 4660", "DIM B%(3)"],
               ["DIM A%(2)", "A%(1) = 4660", "M& = 70000", 'S$ = "xy"', "DIM B%(3)", "Z# = 1.5"],
               ["DIM B%(3)"]]
    for a in EDGE[::2] + [rng.randint(-32768, 32767) for _ in range(20)]:
        for layout in layouts:
            for el in (0, 1, 3):
                ref = "B%%(%d)" % el
                lines = layout + ["%s = %d" % (ref, a), "DEF SEG = VARSEG(%s)" % ref, "PRINT PEEK(VARPTR(%s)); PEEK(VARPTR(%s) + 1)" % (ref, ref)]
                progs.append(NL.join(lines) + NL)
                pmeta.append(("peek", a))
                lo, hi = (a & 0xffff) & 0xff, (a & 0xffff) >> 8
                lines = layout + ["DEF SEG = VARSEG(%s)" % ref, "POKE VARPTR(%s), %d" % (ref, lo), "POKE VARPTR(%s) + 1, %d" % (ref, hi), "PRINT " + ref]
                progs.append(NL.join(lines) + NL)
                pmeta.append(("poke", (lo, hi)))
    # the same for variables of a SUB / STATIC SUB / FUNCTION while the module owns variables of its own, and after the
    # segment was set to an array and set back with a plain DEF SEG; the neighbours of a poked variable keep their values
    for a in EDGE[::2] + [rng.randint(-32768, 32767) for _ in range(12)]:
        lo, hi = (a & 0xffff) & 0xff, (a & 0xffff) >> 8
        for head, tail in (("N% = 7\r\nM& = 70000\r\nP\r\nSUB P\r\n", "END SUB\r\n"), ("N% = 7\r\nP\r\nP\r\nSUB P STATIC\r\n", "END SUB\r\n"),
                           ("DIM G%(3)\r\nN% = F%\r\nFUNCTION F%\r\n", "END FUNCTION\r\n"), ("DIM SHARED X%\r\nN% = 7\r\nP\r\nSUB P\r\n", "END SUB\r\n"),
                           # strings of several lengths (none, two, four, six characters) among the variables of the module, of
                           # a calling procedure and of the procedure itself: where a variable stands does not depend on them
                           ('N% = 7\r\nS$ = "hello!"\r\nT$ = ""\r\nP\r\nSUB P\r\nL$ = "ab"\r\n', "END SUB\r\n"),
                           ('S$ = "abcdefg"\r\nU$ = "four"\r\nCALLER\r\nSUB CALLER\r\nQS$ = "x"\r\nQN% = 3\r\nP\r\nEND SUB\r\nSUB P\r\n', "END SUB\r\n"),
                           ('DIM FX AS STRING * 5\r\nS$ = "hello world"\r\nN% = F%\r\nFUNCTION F%\r\nL$ = "abc"\r\n', "END FUNCTION\r\n")):
            for segline in ("DEF SEG = VARSEG(X%)\r\n", "", "DIM Q%(2)\r\nQ%(1) = 1027\r\nDEF SEG = VARSEG(Q%(1))\r\nDEF SEG\r\n"):
                progs.append(head + "W%% = 1\r\nX%% = %d\r\nY%% = 2\r\n" % a + segline + "PRINT PEEK(VARPTR(X%)); PEEK(VARPTR(X%) + 1); W%; Y%\r\n" + tail)
                pmeta.append(("peek", a))
                progs.append(head + "W% = 1\r\nX% = 0\r\nY% = 2\r\n" + segline + "POKE VARPTR(X%%), %d\r\nPOKE VARPTR(X%%) + 1, %d\r\nPRINT X%%; W%%; Y%%\r\n" % (lo, hi) + tail)
                pmeta.append(("poke", (lo, hi)))
        # the poked value given as a variable: another one, and the poked variable itself
        progs.append("X%% = 0\r\nL%% = %d\r\nH%% = %d\r\nPOKE VARPTR(X%%), L%%\r\nPOKE VARPTR(X%%) + 1, H%%\r\nPRINT X%%\r\n" % (lo, hi))
        pmeta.append(("poke", (lo, hi)))
        progs.append("X%% = %d\r\nPOKE VARPTR(X%%) + 1, X%%\r\nPRINT X%%\r\n" % lo)
        pmeta.append(("poke", (lo, lo)))
        # ... and as an array element: the poked element itself, and another element of the same array
        progs.append("DIM A%%(2)\r\nA%%(1) = %d\r\nDEF SEG = VARSEG(A%%(1))\r\nPOKE VARPTR(A%%(1)) + 1, A%%(1)\r\nPRINT A%%(1)\r\n" % lo)
        pmeta.append(("poke", (lo, lo)))
        progs.append("DIM A%%(2)\r\nA%%(0) = %d\r\nA%%(2) = %d\r\nDEF SEG = VARSEG(A%%(1))\r\nPOKE VARPTR(A%%(1)), A%%(0)\r\nPOKE VARPTR(A%%(1)) + 1, A%%(2)\r\nPRINT A%%(1)\r\n" % (lo, hi))
        pmeta.append(("poke", (lo, hi)))
        # elements of a SHARED array of the module, reached from inside a SUB / a FUNCTION
        for head, tail in (("DIM SHARED XS%(3)\r\nN% = 7\r\nP\r\nSUB P\r\n", "END SUB\r\n"), ("DIM SHARED XS%(3)\r\nDIM G%(2)\r\nN% = F%\r\nFUNCTION F%\r\n", "END FUNCTION\r\n"),
                           ("M& = 70000\r\nREDIM SHARED XS%(3)\r\nP\r\nSUB P\r\nL% = 4\r\n", "END SUB\r\n")):
            for el in (0, 2):
                ref = "XS%%(%d)" % el
                progs.append(head + "%s = %d\r\nDEF SEG = VARSEG(%s)\r\nPRINT PEEK(VARPTR(%s)); PEEK(VARPTR(%s) + 1)\r\n" % (ref, a, ref, ref, ref) + tail)
                pmeta.append(("peek", a))
                progs.append(head + "XS%%(1) = 258\r\nDEF SEG = VARSEG(%s)\r\nPOKE VARPTR(%s), %d\r\nPOKE VARPTR(%s) + 1, %d\r\nPRINT %s\r\n" % (ref, ref, lo, ref, hi, ref) + tail)
                pmeta.append(("poke", (lo, hi)))
        for segline in ("", "DIM Q%(2)\r\nQ%(1) = 1027\r\nDEF SEG = VARSEG(Q%(1))\r\nDEF SEG\r\n", "DIM Q%(2)\r\nDEF SEG = VARSEG(Q%(1))\r\nDEF SEG = VARSEG(X%)\r\n"):
            progs.append("W%% = 1\r\nX%% = %d\r\nY%% = 2\r\n" % a + segline + "PRINT PEEK(VARPTR(X%)); PEEK(VARPTR(X%) + 1); W%; Y%\r\n")
            pmeta.append(("peek", a))
            progs.append("W% = 1\r\nX% = 0\r\nY% = 2\r\n" + segline + "POKE VARPTR(X%%), %d\r\nPOKE VARPTR(X%%) + 1, %d\r\nPRINT X%%; W%%; Y%%\r\n" % (lo, hi))
            pmeta.append(("poke", (lo, hi)))
    # elements FAR into a big array (offsets of 32768 and more inside the segment): the low byte is read and written where it is
    # (address arithmetic beyond 32767 is an Overflow in this interpreter - an observed limit, see DESIGN 9.3 - so only the
    # byte VARPTR itself points at is used)
    for el in (16383, 16384, 16385, 17000, 20000):
        for a in (EDGE[::5] + [rng.randint(-32768, 32767) for _ in range(2)]):
            head = "DIM BIG%%(0 TO 20000)\r\nBIG%%(%d) = %d\r\nBIG%%(%d) = 4660\r\nBIG%%(%d) = 4660\r\n" % (el, a, el - 1, min(el + 1, 20000) if el < 20000 else el - 2)
            progs.append(head + "DEF SEG = VARSEG(BIG%%(%d))\r\nPRINT PEEK(VARPTR(BIG%%(%d)))\r\n" % (el, el))
            pmeta.append(("peek-far", a))
            b_ = rng.randint(0, 255)
            progs.append(head + "DEF SEG = VARSEG(BIG%%(%d))\r\nPOKE VARPTR(BIG%%(%d)), %d\r\nPRINT BIG%%(%d); BIG%%(%d)\r\n" % (el, el, b_, el, el - 1))
            pmeta.append(("poke-far", (a, b_)))
    # doubles built inside BASIC: +-2^k by repeated doubling / halving, small whole numbers
    for k in list(range(0, 120, 3)) + [52, 53, 62, 63, 64, 65, 100, 200, 500, 1000, 1023]:
        for sign in (1, -1):
            for down in (False, True):
                if down and k > 1022:
                    continue
                e = 1023 + (-k if down else k)
                f = [0 if sign > 0 else 1, e, 0, 0, 0, 0]
                by = struct.pack("<Q", (f[0] << 63) | (f[1] << 52))
                op = "/" if down else "*"
                text = "X# = %d\r\nFOR I%% = 1 TO %d\r\nX# = X# %s 2\r\nNEXT\r\nS$ = MKD$(X#)\r\nPRINT LEN(S$); S$ = " % (sign, k, op)
                text += " + ".join("CHR$(%d)" % by[i] for i in range(8))
                if down:
                    text += "\r\nY# = CVD(S$)\r\nPRINT -1; 1\r\n"
                else:
                    text += "\r\nY# = CVD(S$)\r\nPRINT Y# = X#; Y# / X#\r\n"
                progs.append(text)
                pmeta.append(("mkd", f))
    presps = pool.map([{"op": "run", "text": t, "budget": 100000} for t in progs], timeout=60)
    nprog = 0
    for t, (kind, arg), resp in zip(progs, pmeta, presps):
        out = (resp or {}).get("stdout")
        ok = resp and resp.get("stage") == "run" and resp.get("outcome", {}).get("k") == "ok" and isinstance(out, str)
        if not ok:
            rep.violation({"rendered_text": t, "observed": resp, "expected": "program runs"}, {"prog:" + kind}, name=kind)
            continue
        nums = out.split()
        nprog += 1
        try:
            if kind == "logic":
                a, b = arg
                for kk, v in zip(("and", "or", "not"), nums):
                    rid += 1
                    recs.append({"id": rid, "k": kk, "a": a, "b": b, "res": int(v), "text": t})
            elif kind == "peek":
                rid += 1
                recs.append({"id": rid, "k": "tob", "a": arg, "res": [int(nums[0]), int(nums[1])], "text": t})
                if nums[2:4] not in ([], ["1", "2"]):
                    rep.violation({"rendered_text": t, "observed": out, "expected": "the neighbours W% and Y% are 1 and 2"}, {"prog:neighbours"}, name="neighbours")
            elif kind == "truth":
                kk, a, b = arg
                for v in nums[:5]:
                    rid += 1
                    recs.append({"id": rid, "k": kk, "a": a, "b": b, "res": int(v), "text": t})
                if len(nums) != 5:
                    rep.violation({"rendered_text": t, "observed": out, "expected": "five lines"}, {"prog:truth"}, name="truth")
            elif kind == "peek-far":
                rid += 1
                recs.append({"id": rid, "k": "lob", "a": arg, "res": int(nums[0]), "text": t})
            elif kind == "poke-far":
                rid += 1
                recs.append({"id": rid, "k": "setlo", "a": arg[0], "b": arg[1], "res": int(nums[0]), "text": t})
                if nums[1:2] != ["4660"]:
                    rep.violation({"rendered_text": t, "observed": out, "expected": "the element in front of the poked one is still 4660"}, {"prog:neighbours"}, name="neighbours")
            elif kind == "poke":
                rid += 1
                recs.append({"id": rid, "k": "fromb", "b": list(arg), "res": int(nums[0]), "text": t})
                if nums[1:3] not in ([], ["1", "2"]):
                    rep.violation({"rendered_text": t, "observed": out, "expected": "the neighbours W% and Y% are still 1 and 2"}, {"prog:neighbours"}, name="neighbours")
            else:
                # LEN = 8, MKD$(x) equals the eight expected bytes, CVD(MKD$(x)) = x and their ratio is 1
                want = ["8", "-1", "-1", "1"]
                rid += 1
                if nums == want:
                    by = list(struct.pack("<Q", (arg[0] << 63) | (arg[1] << 52)))
                    recs.append({"id": rid, "k": "f64", "f": arg, "bytes": by, "back": arg, "text": t})
                else:
                    rep.violation({"rendered_text": t, "observed": out, "expected": " ".join(want),
                                   "what": "MKD$ bytes / CVD(MKD$(x)) = x for x = +-2^k"}, {"prog:mkd"}, name="mkd")
        except (ValueError, IndexError):
            rep.violation({"rendered_text": t, "observed": out, "expected": "numbers"}, {"prog:" + kind}, name=kind)
    # ---- TLC validates all records
    path = os.path.join(d, "bits.ndjson")
    byid = {}
    with open(path, "w") as f:
        for r in recs:
            byid[r["id"]] = r
            f.write(dumps({k: v for k, v in r.items() if k != "text"}) + "\n")
    res2 = run_tlc("Trace_Bits.tla", "Trace_Bits.cfg", os.path.join(d, "tlc_tr"), env={"TRACE": path}, timeout=2400)
    if res2.timed_out or not res2.ok:
        raise ToolError("TLC failed validating the bit-level call records:\n%s" % res2.violation)
    for ln in res2.printed:
        if ln.startswith("MISMATCH "):
            r = byid[int(ln.split()[1])]
            rep.violation({"record": r, "expected": "Bits.tla (And16/Or16/Not16/BytesLE16/IeeeBytesLE)"},
                          {"kind:" + r["k"]}, name=r["k"])
    os.remove(path)
    # ---- bridge: millions of random pairs against the machine operations
    nb = 4_000_000 if tier == "thorough" else 400_000
    parts = 16
    bres = pool.map([{"op": "bits_bridge", "n": nb // parts, "seed": seed() * 1000 + i} for i in range(parts)], timeout=600)
    bridged = 0
    for br in bres:
        if br and "panic" in br:
            # a panic of the code under test is data, not a tool error
            rep.violation({"api_call": "qb_and/qb_or/i32_to_bytes/f64_to_bytes on random operands", "panic": br["panic"],
                           "expected": "a value for every operand"}, {"bridge", "panic"}, name="bridge-panic")
            continue
        if not br or "count" not in br:
            raise ToolError("bits_bridge failed: %s" % str(br)[:200])
        bridged += br["count"]
        for b in br["bad"]:
            rep.violation({"api_call": "qb_and/qb_or/i32_to_bytes/f64_to_bytes vs machine operations", "observed": b},
                          {"bridge"}, name="bridge")
    kinds = {}
    for r in recs:
        kinds[r["k"]] = kinds.get(r["k"], 0) + 1
    coverage = {
        "states": states + res2.distinct, "transitions": trans + res2.generated,
        "traces_validated_against_impl": len(recs),
        "samples": [{k: v for k, v in r.items() if k != "text"} for r in (recs[0], recs[70000], recs[-1])] + [{"program": progs[-1]}],
        "evaluations": len(recs) + bridged, "distinct_nontrivial": len(recs),
        "rule": "all 65536 words for i32_to_bytes / NOT, all 65536 byte pairs for bytes_to_i32, all pairs of the "
                "boundary/one-hot/complement set plus seeded random pairs for AND/OR, doubles by IEEE fields (powers of two, "
                "boundary mantissas, subnormals, beyond 2^63, random finite patterns); the same through BASIC programs; "
                "every record validated by TLC against Bits.tla; each record is distinct by construction",
        "records_by_kind": kinds, "basic_programs": nprog, "bridged_evaluations": bridged,
        "design_check": {"module": "MC_Bits", "distinct_states": states, "invariants": ["WordOK", "PairOK", "IeeeOK"]},
        "checker_cmd": res2.cmd, "exhaustive": False,
    }
    assumptions = ["a double is presented to the spec by its IEEE fields as computed by f64::to_bits in the harness",
                   "bridged evaluations compare with the machine's & | and to_le_bytes; the TLC-validated subset ties those to Bits.tla",
                   "NaN and infinities are excluded (the property speaks of finite doubles)"]
    return rep.finish(coverage, assumptions)
