"""C04 — arrays, records and fixed-length strings change only where they are written."""
import random, itertools
from mast import *   # noqa

SHAPES = [
    [(0, 2)], [(-2, 0)], [(1, 3)], [(5, 5)], [(-1, 1)],
    [(0, 1), (-1, 1)], [(1, 2), (1, 2)], [(-2, -1), (0, 2)],
    [(0, 1), (1, 2), (-1, 0)], [(1, 1), (0, 2), (2, 3)],
]
ELEMS = ["I", "L", "S", "D", "$", "F", "U"]   # F = STRING * 3, U = record

TYPES = [typedef("INNER", [("N", "L"), ("T", "$", "", 2)]),
         typedef("REC", [("A", "I"), ("S", "$", "", 4), ("IN", "U", "INNER"), ("D", "D")])]


def cells_of(shape):
    return list(itertools.product(*[range(lo, hi + 1) for lo, hi in shape]))


def elem_ref(name, et, idxs):
    t = {"F": "$", "U": "U"}.get(et, et)
    e = idx(name, t, [num(i) for i in idxs])
    if et == "F":
        e["bare"] = True
    return e


def value_for(et, k):
    if et in ("$",):
        return lit("$", "v%d" % k)
    if et == "F":
        return lit("$", "w%dxyz" % k)       # longer than 3: truncated
    return lit("I", k)


def dim_stmt(b, name, et, shape, nolo=False):
    dims = [dimspec(lo, hi, nolo and lo == 0) for lo, hi in shape]
    if et == "F":
        return b.dim(name, "$", dims, fix=3)
    if et == "U":
        return b.dim(name, "U", dims, ty="REC")
    return b.dim(name, et, dims)


def fam_arr(tier, rng):
    out = []
    for shape in SHAPES:
        cs = cells_of(shape)
        for et in ELEMS:
            for order in ("fwd", "rev"):
                b = B()
                main = [dim_stmt(b, "AR", et, shape)]
                seq = cs if order == "fwd" else list(reversed(cs))
                for k, c in enumerate(seq):
                    tgt = elem_ref("AR", et, c)
                    if et == "U":
                        main.append(b.let(fld(tgt, "A", "I"), lit("I", k + 1)))
                        main.append(b.let(fld(fld(elem_ref("AR", et, c), "IN", "U", ty="INNER"), "T", "$", 2), lit("$", "q%dz" % k)))
                    else:
                        main.append(b.let(tgt, value_for(et, k + 1)))
                for c in reversed(seq):
                    if et == "U":
                        main.append(b.print(fld(elem_ref("AR", et, c), "A", "I"),
                                            fld(fld(elem_ref("AR", et, c), "IN", "U", ty="INNER"), "T", "$", 2),
                                            fld(elem_ref("AR", et, c), "S", "$", 4), lit("$", "|")))
                    else:
                        main.append(b.print(elem_ref("AR", et, c), lit("$", "|")))
                t = {"F": "$", "U": "U"}.get(et, et)
                for d in range(1, len(shape) + 1):
                    lb, ub = bound("l", "AR", t, num(d)), bound("u", "AR", t, num(d))
                    if et == "F":
                        lb["bare"] = ub["bare"] = True
                    main.append(b.print(lb, ub))
                out.append({"fam": "arr:%s/%d/%s" % (et, len(shape), order), "prog": prog(main, types=TYPES)})
            # one out-of-range access per face, reads and writes
            if et in ("I", "$", "U", "F") or tier == "thorough":
                for d in range(len(shape)):
                    for side in ("lo", "hi"):
                        for rw in ("read", "write"):
                            b = B()
                            c = [lo for lo, hi in shape]
                            c[d] = shape[d][0] - 1 if side == "lo" else shape[d][1] + 1
                            main = [dim_stmt(b, "AR", et, shape), b.print(lit("$", "a"))]
                            ref = elem_ref("AR", et, c)
                            if et == "U":
                                ref = fld(ref, "A", "I")
                            if rw == "read":
                                main.append(b.print(ref))
                            else:
                                main.append(b.let(ref, value_for("I" if et == "U" else et, 1)))
                            main.append(b.print(lit("$", "never")))
                            out.append({"fam": "oob:%s/%d/%s/%s" % (et, len(shape), side, rw), "prog": prog(main, types=TYPES)})
    # default lower bound 0, subscripts given as whole SINGLE / DOUBLE values and expressions
    for st in ("S", "D", "L"):
        b = B()
        main = [b.dim("AR", "I", [dimspec(0, 3, True), dimspec(1, 2)]), b.let(var("K", st), lit("I", 2)),
                b.let(idx("AR", "I", [var("K", st), lit("I", 1)]), lit("I", 7)),
                b.let(idx("AR", "I", [bin_("+", var("K", st), lit("I", 1)), lit("I", 2)]), lit("I", 8))]
        for i in range(0, 4):
            for j in (1, 2):
                main.append(b.print(idx("AR", "I", [lit("I", i), lit("I", j)])))
        main.append(b.print(bound("l", "AR", "I"), bound("u", "AR", "I"), bound("l", "AR", "I", lit("I", 2)), bound("u", "AR", "I", lit("I", 2))))
        out.append({"fam": "arr-subscript-type:" + st, "prog": prog(main)})
    # LBOUND/UBOUND with a dimension out of range
    for d in (0, 3):
        b = B()
        out.append({"fam": "bound-dim:%d" % d, "prog": prog([b.dim("AR", "I", [dimspec(1, 2), dimspec(0, 1)]), b.print(bound("u", "AR", "I", num(d)))])})
    # conversion to the element type on store
    for et, v in [("I", 40000), ("I", 7), ("L", 40000), ("S", 40000)]:
        b = B()
        out.append({"fam": "arr-convert:%s" % et, "prog": prog([b.dim("AR", et, [dimspec(0, 1)]), b.let(idx("AR", et, [lit("I", 1)]), num(v)),
                                                              b.print(idx("AR", et, [lit("I", 1)]), idx("AR", et, [lit("I", 0)]))])})
    return out


def rec_fields(base):
    return [fld(base, "A", "I"), fld(base, "S", "$", 4), fld(fld(base, "IN", "U", ty="INNER"), "N", "L"),
            fld(fld(base, "IN", "U", ty="INNER"), "T", "$", 2), fld(base, "D", "D")]


def fam_rec(tier, rng):
    out = []
    vals = [lit("I", 5), lit("$", "hello!"), num(70000), lit("$", "z"), lit("I", 9)]
    for which in range(5):
        for host in ("scalar", "element"):
            b = B()
            if host == "scalar":
                base = lambda: var("R", "U")
                other = lambda: var("O", "U")
                main = [b.dim("R", "U", ty="REC"), b.dim("O", "U", ty="REC")]
            else:
                base = lambda: idx("R", "U", [lit("I", 1)])
                other = lambda: idx("R", "U", [lit("I", 2)])
                main = [b.dim("R", "U", [dimspec(1, 2)], ty="REC")]
            main.append(b.let(rec_fields(base())[which], vals[which]))
            main.append(b.print(*(rec_fields(base()) + [lit("$", "|")])))
            main.append(b.print(*(rec_fields(other()) + [lit("$", "|")])))
            out.append({"fam": "rec:%d/%s" % (which, host), "prog": prog(main, types=TYPES)})
            # the same with every member written with the suffix of its type (R.S$ = .., PRINT R.IN.N&)
            for wr, rd in ((True, False), (False, True), (True, True)):
                b2 = b          # statement ids go on
                m2 = [dict(x) for x in main[:-3]]

                def spelled(fs, on):
                    for f_ in fs:
                        if on:
                            f_["sfxspell"] = True
                    return fs
                m2.append(b2.let(spelled(rec_fields(base()), wr)[which], vals[which]))
                m2.append(b2.print(*(spelled(rec_fields(base()), rd) + [lit("$", "|")])))
                m2.append(b2.print(*(spelled(rec_fields(other()), rd) + [lit("$", "|")])))
                out.append({"fam": "rec-suffix:%d/%s/%s%s" % (which, host, "w" if wr else "-", "r" if rd else "-"), "prog": prog(m2, types=TYPES)})
    # numeric members that were never assigned take part in arithmetic as values of THEIR type (a fresh LONG member is
    # a LONG zero: adding 20000 twice does not overflow; a fresh DOUBLE member keeps 15 digits)
    for host in ("scalar", "element"):
        b = B()
        if host == "scalar":
            base = lambda: var("R", "U")
            main = [b.dim("R", "U", ty="REC")]
        else:
            base = lambda: idx("R", "U", [lit("I", 2)])
            main = [b.dim("R", "U", [dimspec(1, 2)], ty="REC")]
        fa, fs, fn, ft, fd = rec_fields(base())
        main += [b.print(bin_("+", bin_("+", fn, lit("I", 20000)), lit("I", 20000))),
                 b.print(bin_("*", bin_("+", fd, lit("L", 40000)), lit("I", 1000))),
                 b.print(bin_("+", bin_("+", fa, lit("I", 20000)), lit("I", 10000))),
                 b.let(fn, bin_("+", fn, lit("L", 70000))), b.let(fd, bin_("+", fd, lit("L", 123456789))),
                 b.print(*rec_fields(base()))]
        out.append({"fam": "rec-fresh-arith:" + host, "prog": prog(main, types=TYPES)})
    # whole-record assignment copies; later writes to the copy do not touch the source
    b = B()
    r, o = (lambda: var("R", "U")), (lambda: var("O", "U"))
    main = [b.dim("R", "U", ty="REC"), b.dim("O", "U", ty="REC"),
            b.let(fld(r(), "A", "I"), lit("I", 1)), b.let(fld(fld(r(), "IN", "U", ty="INNER"), "T", "$", 2), lit("$", "ab")),
            b.let(o(), r()), b.let(fld(o(), "A", "I"), lit("I", 2)),
            b.print(*rec_fields(r())), b.print(*rec_fields(o()))]
    out.append({"fam": "rec-copy", "prog": prog(main, types=TYPES)})
    # record passed by reference: the callee's writes are visible after return
    b = B()
    body = [b.let(fld(var("P", "U"), "A", "I"), lit("I", 42)), b.let(fld(var("P", "U"), "S", "$", 4), lit("$", "abcdefgh"))]
    main = [b.dim("R", "U", ty="REC"), b.call("M", [var("R", "U")]), b.print(*rec_fields(var("R", "U")))]
    out.append({"fam": "rec-byref", "prog": prog(main, [sub("M", [("P", "U", "REC")], body)], types=TYPES)})
    # a record field passed by reference
    for which in range(5):
        b = B()
        f = rec_fields(var("R", "U"))[which]
        t = f["t"]
        body = [b.print(var("X", t)), b.let(var("X", t), vals[which])]
        main = [b.dim("R", "U", ty="REC"), b.call("M", [f]), b.print(*rec_fields(var("R", "U")))]
        out.append({"fam": "field-byref:%d" % which, "prog": prog(main, [sub("M", [("X", t)], body)], types=TYPES)})
    return out


def fam_fix(tier, rng):
    out = []
    # (characters above 127 count as one character each, like any other)
    texts = ["", "a", "abc", "abcd", "abcdefg", "\u00c8", "ab\u00c8d", "\u00c8\u00c9\u00ca\u00cb"]
    for n in (1, 3, 5):
        for s in texts:
            for route in ("direct", "field", "element", "byref", "byref-element", "concat"):
                b = B()
                subs = []
                if route == "direct":
                    fv = var("F", "$"); fv["bare"] = True
                    main = [b.dim("F", "$", fix=n), b.let(fv, lit("$", s))]
                    show = fv
                elif route == "concat":
                    fv = var("F", "$"); fv["bare"] = True
                    main = [b.dim("F", "$", fix=n), b.let(fv, lit("$", s)), b.let(fv, bin_("+", fv, lit("$", "Q")))]
                    show = fv
                elif route == "field":
                    td = [typedef("FT", [("S", "$", "", n), ("K", "I")])]
                    main = [b.dim("R", "U", ty="FT"), b.let(fld(var("R", "U"), "S", "$", n), lit("$", s))]
                    show = fld(var("R", "U"), "S", "$", n)
                elif route == "element":
                    e = idx("AR", "$", [lit("I", 1)]); e["bare"] = True
                    main = [b.dim("AR", "$", [dimspec(0, 1)], fix=n), b.let(e, lit("$", s))]
                    show = e
                elif route == "byref":
                    fv = var("F", "$"); fv["bare"] = True
                    subs = [sub("M", [("X", "$")], [b.print(lit("$", "["), var("X", "$"), lit("$", "]")), b.let(var("X", "$"), lit("$", s))])]
                    main = [b.dim("F", "$", fix=n), b.call("M", [fv])]
                    show = fv
                else:
                    e = idx("AR", "$", [lit("I", 1)]); e["bare"] = True
                    subs = [sub("M", [("X", "$")], [b.let(var("X", "$"), lit("$", s))])]
                    main = [b.dim("AR", "$", [dimspec(0, 1)], fix=n), b.call("M", [e])]
                    show = e
                main.append(b.print(lit("$", "["), show, lit("$", "]")))
                types = td if route == "field" else []
                out.append({"fam": "fix:%d/%s/%d" % (n, route, len(s)), "prog": prog(main, subs, types=types)})
    # the source is itself a fixed-length string of another length: the target keeps ITS length
    for n in (1, 3, 5):
        for m in (2, 3, 6):
            for stext in ("", "ab", "abcdefg"):
                for route in ("direct", "field", "element"):
                    b = B()
                    gv = var("G", "$"); gv["bare"] = True
                    main = [b.dim("G", "$", fix=m), b.let(gv, lit("$", stext))]
                    types = []
                    if route == "direct":
                        fv = var("F", "$"); fv["bare"] = True
                        main += [b.dim("F", "$", fix=n), b.let(fv, gv)]
                        show = fv
                    elif route == "field":
                        types = [typedef("FT", [("S", "$", "", n), ("K", "I")])]
                        main += [b.dim("R", "U", ty="FT"), b.let(fld(var("R", "U"), "S", "$", n), gv)]
                        show = fld(var("R", "U"), "S", "$", n)
                    else:
                        e = idx("AR", "$", [lit("I", 1)]); e["bare"] = True
                        main += [b.dim("AR", "$", [dimspec(0, 1)], fix=n), b.let(e, gv)]
                        show = e
                    main.append(b.print(lit("$", "["), show, lit("$", "]"), lit("$", "["), gv, lit("$", "]")))
                    out.append({"fam": "fix-from-fixed:%d<-%d/%s/%d" % (n, m, route, len(stext)), "prog": prog(main, [], types=types)})
    return out


def fam_redim(tier, rng):
    """dynamic arrays: REDIM gives a fresh array with the new bounds and the SAME element type (also when the type
    is not repeated); a SHARED dynamic array re-dimensioned inside a SUB is still the module's array"""
    out = []
    kinds = [("I", 0, False), ("$", 0, False), ("$", 3, False), ("D", 0, True)]
    for t, fixn, ext in kinds:
        for second in ("typed", "bare"):
            for where in ("main", "sub-shared", "main-shared", "fun-shared"):
                b = B()

                def dm(lo, hi, **kw):
                    d = b.dim("AR", t, [dimspec(lo, hi)], fix=fixn)
                    d["redim"] = True
                    if ext:
                        d["extended"] = True
                    d.update(kw)
                    return d

                def el(i):
                    e = idx("AR", t, [lit("I", i)])
                    if fixn or ext:
                        e["bare"] = True
                    return e
                val = lit("$", "abcdef") if t == "$" else lit("I", 7)
                show = lambda: b.print(lit("$", "["), el(1), lit("$", "]"), lit("$", "["), el(2), lit("$", "]"), bound("l", "AR", t, num(1)), bound("u", "AR", t, num(1)))
                first = dm(0, 2, shared=(where != "main"))
                again = dm(1, 4, bare_redim=(second == "bare"))
                if where == "main":
                    main = [first, b.let(el(1), val), show(), again, show(), b.let(el(2), val), show()]
                    subs = []
                elif where == "main-shared":
                    # re-dimensioned in the module without repeating SHARED: the subprograms still see it
                    again["noshared"] = True
                    again["shared"] = True
                    main = [first, b.let(el(1), val), show(), again, b.let(el(2), val), b.call("G", []), show()]
                    subs = [sub("G", [], [b.print(lit("$", "g"), el(2), bound("u", "AR", t, num(1))), b.let(el(4), val)])]
                elif where == "fun-shared":
                    # the same inside a FUNCTION
                    again["noshared"] = True
                    again["shared"] = True
                    fc = fcall("GF", "I", [], 0)
                    st_ = b.let(var("R", "I"), fc)
                    fc["sid"] = st_["id"]
                    main = [first, b.let(el(1), val), show(), st_, show(), b.let(el(2), val), show()]
                    subs = [fun("GF", "I", [], [again, b.let(el(4), val), b.print(lit("$", "g"), bound("u", "AR", t, num(1))),
                                                b.let(var("GF", "I"), bound("u", "AR", t, num(1)))])]
                else:
                    again["noshared"] = True
                    again["shared"] = True          # the spec: it IS the shared array; the text does not say SHARED
                    main = [first, b.let(el(1), val), show(), b.call("G", []), show(), b.let(el(2), val), show()]
                    gbody = [again, b.let(el(4), val), b.print(lit("$", "g"), bound("u", "AR", t, num(1)))]
                    if not fixn and not ext:
                        # an array of the same name and ANOTHER type in the SUB is an array of its own
                        ot = "$" if t != "$" else "I"
                        od = b.dim("AR", ot, [dimspec(0, 3)])
                        od["redim"] = True
                        oe = idx("AR", ot, [lit("I", 1)])
                        gbody += [od, b.let(oe, lit("$", "other") if ot == "$" else lit("I", 9)), b.print(lit("$", "o"), oe, bound("u", "AR", ot, num(1)), el(4))]
                    subs = [sub("G", [], gbody)]
                out.append({"fam": "redim:%s%d%s/%s/%s" % (t, fixn, "x" if ext else "", second, where), "prog": prog(main, subs)})
    return out


FAMILIES = [fam_arr, fam_rec, fam_fix, fam_redim]


def fam_arity(tier, rng):
    """an access with fewer or more subscripts than the array has dimensions denotes no element: error 9, nothing changes
    (alone, and under ON ERROR RESUME NEXT with every element printed afterwards)"""
    out = []
    for shape in ([(1, 2), (1, 3)], [(0, 1), (-1, 1)], [(0, 1), (1, 2), (-1, 0)], [(1, 3)]):
        cs = cells_of(shape)
        for et in ("I", "$", "D", "U", "F"):
            for nsub in range(1, len(shape) + 2):
                if nsub == len(shape):
                    continue
                for rw in ("read", "write"):
                    for mode in ("stop", "next"):
                        b = B()
                        main = [dim_stmt(b, "AR", et, shape)]
                        for k, c in enumerate(cs):
                            tgt = elem_ref("AR", et, c)
                            main.append(b.let(fld(tgt, "A", "I") if et == "U" else tgt, value_for("I" if et == "U" else et, k + 1)))
                        if mode == "next":
                            main.append(b.onerror("next"))
                        c = ([hi for lo, hi in shape] + [1])[:nsub]
                        ref = elem_ref("AR", et, c)
                        if et == "U":
                            ref = fld(ref, "A", "I")
                        main.append(b.print(lit("$", "a")))
                        if rw == "read":
                            main.append(b.let(var("X", "$" if et in ("$", "F") else "D"), ref))
                        else:
                            main.append(b.let(ref, value_for("I" if et == "U" else et, 77)))
                        main.append(b.print(lit("$", "b"), var("X", "$" if et in ("$", "F") else "D")))
                        for c in cs:
                            r = elem_ref("AR", et, c)
                            main.append(b.print(fld(r, "A", "I") if et == "U" else r, lit("$", "|")))
                        out.append({"fam": "arity:%s/%dof%d/%s/%s" % (et, nsub, len(shape), rw, mode), "prog": prog(main, types=TYPES)})
    return out


FAMILIES.append(fam_arity)


def fam_nested_subscript(tier, rng):
    """a subscript that is itself an element of another array (also of the same array, also two levels deep, also in a
    two-dimensional array): exactly the element the inner value names is written / read"""
    out = []
    for et in ("I", "$", "D"):
        for form in ("other", "same", "deep", "twodim", "both"):
            for rw in ("write", "read"):
                b = B()
                main = [b.dim("AR", et, [dimspec(0, 4)]), b.dim("IX", "I", [dimspec(0, 3)]), b.dim("G", et, [dimspec(0, 2), dimspec(0, 3)])]
                main += [b.let(idx("IX", "I", [lit("I", k)]), lit("I", v)) for k, v in ((0, 2), (1, 3), (2, 1), (3, 0))]
                for k in range(5):
                    main.append(b.let(idx("AR", et, [lit("I", k)]), value_for(et, k + 1)))
                if form == "other":
                    sub_ = [idx("IX", "I", [lit("I", 1)])]
                    tgt = idx("AR", et, sub_)
                elif form == "same":
                    if et != "I":
                        continue
                    tgt = idx("AR", et, [idx("AR", et, [lit("I", 1)])])
                elif form == "deep":
                    tgt = idx("AR", et, [idx("IX", "I", [idx("IX", "I", [lit("I", 2)])])])
                elif form == "twodim":
                    tgt = idx("G", et, [idx("IX", "I", [lit("I", 2)]), idx("IX", "I", [lit("I", 1)])])
                else:
                    tgt = idx("G", et, [idx("IX", "I", [lit("I", 3)]), bin_("+", idx("IX", "I", [lit("I", 2)]), lit("I", 1))])
                if rw == "write":
                    main.append(b.let(tgt, value_for(et, 77)))
                else:
                    main.append(b.print(lit("$", "r"), tgt))
                for k in range(5):
                    main.append(b.print(idx("AR", et, [lit("I", k)]), lit("$", "|")))
                for k in range(4):
                    main.append(b.print(idx("IX", "I", [lit("I", k)])))
                for r in range(3):
                    main.append(b.print(*[idx("G", et, [lit("I", r), lit("I", c_)]) for c_ in range(4)]))
                out.append({"fam": "nested-subscript:%s/%s/%s" % (et, form, rw), "prog": prog(main)})
    return out


FAMILIES.append(fam_nested_subscript)


def fam_static_store(tier, rng):
    """arrays, records and fixed-length strings that a STATIC procedure DIMensions for itself: made once, they hold at every
    call what the earlier calls stored (element kinds: INTEGER, STRING, STRING * n, record; a fixed-length scalar and a record
    scalar next to them), whoever calls"""
    out = []
    for kind in ("I", "$", "fix", "rec", "I-varbound", "fix-varbound"):
        varbound = kind.endswith("-varbound")
        kind = kind.split("-")[0]
        for ncalls in (2, 3):
            for callers in ("main", "proc", "mixed"):
                b = B()
                k = var("K", "I")
                if kind == "rec":
                    el = lambda i: fld(idx("AR", "U", [i]), "S", "$", 4)
                    dimst = b.dim("AR", "U", [dimspec(1, 4)], ty="REC")
                    val = bin_("+", lit("$", "r"), lit("$", "w"))
                elif kind == "fix":
                    def el(i):
                        e = idx("AR", "$", [i]); e["bare"] = True
                        return e
                    dimst = b.dim("AR", "$", [dimspec(1, 4)], fix=3)
                    val = lit("$", "abcdef")
                elif kind == "$":
                    el = lambda i: idx("AR", "$", [i])
                    dimst = b.dim("AR", "$", [dimspec(1, 4)])
                    val = lit("$", "xy")
                else:
                    el = lambda i: idx("AR", "I", [i])
                    dimst = b.dim("AR", "I", [dimspec(1, 4)])
                    val = bin_("*", k, lit("I", 11))
                fs = var("FS", "$"); fs["bare"] = True
                pre = []
                if varbound:
                    # the upper bound is a variable of the procedure (made once all the same: the array holds what earlier calls stored)
                    dimst["dims"] = [{"lo": lit("I", 1), "hi": var("SZ", "I"), "nolo": False}]
                    pre = [b.let(var("SZ", "I"), lit("I", 4))]
                body = pre + [dimst, b.dim("FS", "$", fix=2), b.dim("RS", "U", ty="REC"),
                        b.let(k, bin_("+", k, lit("I", 1))), b.let(el(k), val),
                        b.if_([(bin_("=", k, lit("I", 1)), [b.let(fs, lit("$", "first")), b.let(fld(var("RS", "U"), "A", "I"), lit("I", 42))])]),
                        b.print(lit("$", "k"), k, lit("$", "["), el(lit("I", 1)), lit("$", "]["), el(lit("I", 2)), lit("$", "]["), el(lit("I", 3)), lit("$", "]"),
                                fs, fld(var("RS", "U"), "A", "I"))]
                subs = [sub("ST", [], body, static=True), sub("VIA", [], [b.dim("AR", "I", [dimspec(1, 2)]), b.call("ST", []), b.print(lit("$", "via"), idx("AR", "I", [lit("I", 1)]))])]
                main = []
                for i in range(ncalls):
                    frm = "main" if callers == "main" else "proc" if callers == "proc" else ("main" if i % 2 == 0 else "proc")
                    main.append(b.call("ST", []) if frm == "main" else b.call("VIA", []))
                main.append(b.print(lit("$", "end")))
                out.append({"fam": "static-store:%s%s/%d/%s" % (kind, "-varbound" if varbound else "", ncalls, callers), "prog": prog(main, subs, types=TYPES)})
    return out


FAMILIES.append(fam_static_store)


def fam_static_byref_places(tier, rng):
    """elements, record members and fixed-length strings handed one after the other to the SAME procedure (STATIC or not), which
    changes its parameters: every place gets the value of ITS call, cut / padded to its own length"""
    out = []
    for static in (True, False):
        for place in ("fix-el", "rec-fix", "rec-int", "int-el", "fix-scalar"):
            for ncalls in (2, 3):
                b = B()
                n = var("N", "I")
                body = [b.let(n, bin_("+", n, lit("I", 1))), b.let(var("CNT", "I"), bin_("+", var("CNT", "I"), lit("I", 10))),
                        b.let(var("TGT", "$"), bin_("+", lit("$", "call-too-long"), lit("$", "!")))]
                main, shows = [], []
                if place in ("rec-fix", "rec-int"):
                    main.append(b.dim("TB", "U", [dimspec(1, 3)], ty="REC"))
                elif place == "fix-el":
                    main.append(b.dim("PL", "$", [dimspec(1, 3)], fix=5))
                elif place == "int-el":
                    main.append(b.dim("IA", "I", [dimspec(1, 3)]))
                else:
                    main += [b.dim("F1", "$", fix=3), b.dim("F2", "$", fix=6), b.dim("F3", "$", fix=1)]
                main.append(b.dim("ST", "$", [dimspec(1, 3)]))
                for i in range(1, ncalls + 1):
                    ii = lit("I", i)
                    if place == "rec-fix":
                        t_, c_ = fld(idx("TB", "U", [ii]), "S", "$", 4), fld(idx("TB", "U", [ii]), "A", "I")
                    elif place == "rec-int":
                        t_, c_ = idx("ST", "$", [ii]), fld(idx("TB", "U", [ii]), "A", "I")
                    elif place == "fix-el":
                        t_ = idx("PL", "$", [ii]); t_["bare"] = True
                        c_ = var("M%d" % i, "I")
                    elif place == "int-el":
                        t_, c_ = idx("ST", "$", [ii]), idx("IA", "I", [ii])
                    else:
                        t_ = var("F%d" % i, "$"); t_["bare"] = True
                        c_ = var("M%d" % i, "I")
                    main += [b.let(c_, lit("I", i * 100)), b.call("STAMP", [t_, c_])]
                    shows += [lit("$", "["), t_, lit("$", "]"), c_]
                main.append(b.print(*shows))
                subs = [sub("STAMP", [("TGT", "$"), ("CNT", "I")], body, static=static)]
                out.append({"fam": "byref-places:%s/%s/%d" % ("static" if static else "plain", place, ncalls), "prog": prog(main, subs, types=TYPES)})
    return out


FAMILIES.append(fam_static_byref_places)


def cases(tier, seed):
    rng = random.Random(seed)
    out = []
    for f in FAMILIES:
        out.extend(f(tier, rng))
    for i, c in enumerate(out):
        c["id"] = i + 1
    return out


def call_records(tier, seed):
    """index tuples within one step of every face of every box, for the real VArray"""
    rng = random.Random(seed)
    los = [-2, 0, 1] if tier == "quick" else [-2, -1, 0, 1, 2]
    maxe = 3 if tier == "quick" else 4
    dimset = [(lo, lo + e - 1) for lo in los for e in range(1, maxe + 1)]
    boxes = []
    for n in (1, 2, 3):
        boxes.extend(itertools.product(dimset, repeat=n))
    if tier == "quick":
        rng.shuffle(boxes)
        boxes = boxes[:250]
    recs = []
    rid = 0
    for box in boxes:
        around = list(itertools.product(*[range(lo - 1, hi + 2) for lo, hi in box]))
        for t in around:
            rid += 1
            recs.append({"id": rid, "k": "abs", "dims": [list(d) for d in box], "idx": list(t)})
        writes = around[:]
        rng.shuffle(writes)
        rid += 1
        recs.append({"id": rid, "k": "rw", "dims": [list(d) for d in box], "writes": [list(w) for w in writes[:12]]})
    return recs
