"""C07 check: the input space is a TLA+ state space (Soup.tla): every token soup up to a length
over the lexer's alphabet and the whole mutation neighbourhood (delete / duplicate / swap /
truncate at every token) of seed programs; plus seeded random byte strings and deep nestings.
The real parser + checker run on every text under a watchdog; TLC (Outcome.tla) validates
that each ends with a program or ONE error whose position lies inside the text or
immediately at its end.  MC_Text.tla checks the row/column machine against its definition."""
import os, random, re, json
from common import out_dir, dumps, seed, ToolError
from pool import Pool
from report import Reporter
from tlc import run_tlc
import outcome, corpus, render

TOKENS = ["PRINT", "IF", "THEN", "ELSE", "END", "FOR", "TO", "NEXT", "STEP", "WHILE", "WEND", "DO", "LOOP", "SELECT", "CASE", "DIM", "AS",
          "INTEGER", "SUB", "FUNCTION", "GOTO", "ON", "ERROR", "RESUME", "CONST", "AND", "NOT", "MOD", "A", "B%", "C$", "X.Y", "1", "2.5",
          "&HFF", '"s"', '"', "'", "(", ")", ",", ";", "=", "+", "-", ":", "#", " ",
          "\u00e9", "\u00f1x", "x\u00f1", "Str", "Len", "A(1)", "R.X(1)", ".", "$", "%", "1E5", "&H", "_",
          "&O8", "&O17", "&o7", "&hff", "&HG", "X.Y$", "A.B.C%", "A$(1)", "TYPE", "CALL", "DATA", "READ", "INPUT", "OPEN", "GOSUB", "RETURN",
          "EXIT", "DEFINT", "STATIC", "SHARED", "REDIM", "LET", "ELSEIF", "UNTIL", "USING", "TAB(", "2#", "1e", "1.", ".5", "LPRINT", "REM",
          "DECLARE", "LINE", "FIELD", "LSET", "GET", "CLOSE", "*", "/", "<", "<>", "\\", "^", "!", "&", "?", "1D5", "99999999999", "OR"]
NTOK_CFG = len(TOKENS)      # the constant NTok of Soup_*.cfg
EOLS = ["\r\n", "\n", "\r"]

LEX = re.compile(r'"[^"\r\n]*"?|\r\n|\r|\n|[ \t]+|&[HhOo][0-9A-Fa-f]*|[0-9]+\.?[0-9]*|[A-Za-z][A-Za-z0-9.]*[%&!#$]?|<=|>=|<>|.', re.S)


def lex(text):
    return LEX.findall(text)


def seeds(tier, rng):
    out = []
    texts = []
    for c in corpus.programs():
        if 20 <= len(c["text"]) <= 700:
            texts.append(c["text"])
    rng.shuffle(texts)
    import c01, c03, c05, c04
    fam = []
    for mod in (c01, c03, c05, c04):
        cs = mod.cases("quick", 1)
        rng.shuffle(cs)
        for c in cs[:6]:
            try:
                fam.append(render.program(c["prog"])[0])
            except render.RenderError:
                pass
    n = 120 if tier == "thorough" else 18
    for t in (fam + texts)[:n]:
        toks = lex(t)
        if 3 <= len(toks) <= 400:
            out.append(toks)
    return out


def mutate(toks, op, i):
    i -= 1
    if op == "delete":
        return toks[:i] + toks[i + 1:]
    if op == "duplicate":
        return toks[:i + 1] + toks[i:]
    if op == "swap":
        return toks[:i] + [toks[i + 1], toks[i]] + toks[i + 2:] if i + 1 < len(toks) else toks
    return toks[:i]


def run(tier, replay):
    assert len(TOKENS) == NTOK_CFG, "TOKENS and NTok of Soup_*.cfg are out of step"
    rep = Reporter("C07", tier, "exploration")
    pool = Pool()
    rng = random.Random(seed())
    d = out_dir("C07")
    res0 = run_tlc("MC_Text.tla", "MC_Text.cfg", os.path.join(d, "tlc_text"), timeout=900)
    if res0.timed_out or not res0.ok:
        raise ToolError("Text.tla: the position machine disagrees with its definition:\n%s" % res0.violation)
    states, trans = res0.distinct, res0.generated
    texts = []     # (class, text)
    if replay:
        with open(replay) as f:
            texts = [("replay", json.load(f)["text"])]
    else:
        sd = seeds(tier, rng)
        spath = os.path.join(d, "seeds.ndjson")
        with open(spath, "w") as f:
            f.write(dumps({"lens": [len(s) for s in sd]}) + "\n")
        res = run_tlc("Soup.tla", "Soup_%s.cfg" % tier, os.path.join(d, "tlc_soup"), env={"SEEDS": spath}, timeout=1800)
        if res.timed_out or not res.ok:
            raise ToolError("TLC failed enumerating Soup.tla:\n%s" % res.violation)
        states += res.distinct
        trans += res.generated
        for ln in res.printed:
            if ln.startswith("SOUP "):
                idx = [int(x) for x in ln[5:].split(",")]
                toks = [TOKENS[i - 1] for i in idx]
                # two renderings: tokens glued, tokens separated by blanks; three line endings at the end
                texts.append(("soup", "".join(toks)))
                texts.append(("soup", " ".join(toks) + rng.choice(EOLS)))
            elif ln.startswith("MUT "):
                _, a, b, op = ln.split(" ")
                toks = mutate(sd[int(a) - 1], op, int(b))
                texts.append(("mut:" + op, "".join(toks)))
        # grammar-aware space: statement templates x slot fillers (Slots.tla)
        import slots
        sl, s3, t3, cmd3 = slots.enumerate_slots(os.path.join(d, "tlc_slots"))
        states += s3
        trans += t3
        for (tn, fa, fb) in slots.stratified(sl, rng, 250000 if tier == "thorough" else 12000):
            texts.append(("slot:" + tn, slots.program(tn, fa, fb)))
        # byte-level truncation of a few seeds, random bytes decoded as UTF-8, deep nesting, odd line endings
        for s in sd[:6]:
            t = "".join(s)
            step = 1 if tier == "thorough" else 3
            for k in range(0, len(t), step):
                texts.append(("truncate-byte", t[:k]))
        for _ in range(40000 if tier == "thorough" else 3000):
            n = rng.randint(0, 40)
            b = bytes(rng.choice([rng.randint(0, 255), rng.randint(32, 126), 13, 10, 34, 39, 40, 41]) for _ in range(n))
            texts.append(("random-bytes", b.decode("utf-8", errors="replace")))
        for _ in range(6000 if tier == "thorough" else 800):
            n = rng.randint(1, 12)
            texts.append(("random-tokens", rng.choice(["", " "]).join(rng.choice(TOKENS + EOLS + EOLS) for _ in range(n))))
        for depth in (10, 50, 100, 150, 200):
            texts.append(("deep", "PRINT " + "(" * depth + "1" + ")" * depth + "\r\n"))
            texts.append(("deep", "PRINT " + "-" * depth + "1\r\n"))
            texts.append(("deep", "PRINT " + "NOT " * depth + "1\r\n"))
            texts.append(("deep", "".join("IF 1 THEN\r\n" for _ in range(depth)) + "PRINT 1\r\n" + "".join("END IF\r\n" for _ in range(depth))))
            texts.append(("deep", "".join("FOR I%d = 1 TO 2\r\n" % k for k in range(depth)) + "NEXT\r\n" * depth))
            texts.append(("deep", "PRINT " + "(" * depth + "\r\n"))
            texts.append(("deep", "A = " + "F(" * depth + "1" + ")" * depth + "\r\n"))
            texts.append(("deep", "PRINT 1" + " + 1" * depth * 5 + "\r\n"))
            # a parenthesis directly after a keyword operator / a sign / an array name, nested: time must stay bounded
            texts.append(("deep", "PRINT " + "NOT(" * depth + "1" + ")" * depth + "\r\n"))
            texts.append(("deep", "PRINT " + "1 AND(" * depth + "1" + ")" * depth + "\r\n"))
            texts.append(("deep", "PRINT " + "2 MOD(" * depth + "1" + ")" * depth + "\r\n"))
            texts.append(("deep", "PRINT " + "-(" * depth + "1" + ")" * depth + "\r\n"))
            texts.append(("deep", "DIM A(5)\r\nPRINT " + "A(" * depth + "1" + ")" * depth + "\r\n"))
            texts.append(("deep", "PRINT " + "LEN(STR$(" * depth + "1" + "))" * depth + "\r\n"))
            texts.append(("deep", "".join("SELECT CASE %d\r\nCASE %d\r\n" % (k, k) for k in range(depth)) + "END SELECT\r\n" * depth))
            texts.append(("deep", "".join("DO\r\n" for _ in range(depth)) + "LOOP\r\n" * depth))
        # WIDE texts: lists with many elements and with many elements left out (every count up to 40, then 100 and 1000) in every
        # statement that takes a list; a byte order mark in front of a text (and elsewhere)
        for n in list(range(1, 41)) + [64, 100, 1000]:
            commas = "," * n
            ones = ", ".join("1" for _ in range(n))
            for head in ("COLOR ", "LOCATE ", "WIDTH ", "VIEW PRINT ", "PRINT ", "LPRINT ", "INPUT ", "CLOSE ", "READ ", "DATA ", "PRINT #1, ", "SCREEN ",
                         "P ", "X = F(", "DIM A(", "FIELD #1, ", "LINE INPUT ", "ON X GOTO ", "ENVIRON "):
                close = ")" if head.endswith("(") else ""
                texts.append(("wide", head + commas + "7" + close + "\r\n"))
                texts.append(("wide", head + ones + close + "\r\n"))
                if n <= 8 or n in (32, 33, 1000):
                    texts.append(("wide", head + commas + close + "\r\n"))
                    texts.append(("wide", head + "7" + commas + close + "\r\n"))
        # DEFtype statements over letters of both cases, in both orders (a range that runs backwards is one located error)
        for kw in ("DEFINT", "DEFLNG", "DEFSNG", "DEFDBL", "DEFSTR"):
            for lo in "AaCcMmXxZz":
                for hi in "AaCcMmXxZz":
                    texts.append(("deftype-range", "%s %s-%s\r\nPRINT 1\r\n" % (kw, lo, hi)))
                    if lo == "M":
                        texts.append(("deftype-range", "%s %s-%s, %s\r\nPRINT 1\r\n" % (kw, lo, hi, hi)))
        bom = "\ufeff"
        for t in ['PRINT "hi"\r\n', "", "\r\n", "X = 1 : PRINT X\r\n", "' comment\r\nPRINT 1\r\n", "10 PRINT 1\r\n", "SUB P\r\nEND SUB\r\n"]:
            texts.append(("bom", bom + t))
            texts.append(("bom", bom + bom + t))
            texts.append(("bom", t + bom))
            texts.append(("bom", " " + bom + t))
            texts.append(("bom", t[:3] + bom + t[3:]))
        for sdt in sd[:40]:
            texts.append(("bom", bom + (sdt if isinstance(sdt, str) else "".join(sdt))))
        # SEVERAL faults of one kind in one text (two to four subprograms declared and not implemented, named like built-ins,
        # defined twice; jumps to labels that do not exist; ill-typed statements): still ONE error, and the same one every time
        import itertools
        names = ["Alpha", "Beta", "Gamma", "Delta"]
        builtins = ["Val", "Eof", "Peek", "Len", "Chr$", "Str$"]
        for k in (2, 3, 4):
            for perm in list(itertools.permutations(names[:k]))[:6]:
                texts.append(("several-faults", "".join("DECLARE FUNCTION %s! (x!)\r\n" % n for n in perm) + 'PRINT "hi"\r\n'))
                texts.append(("several-faults", "".join("DECLARE SUB %s (x!)\r\n" % n for n in perm) + 'PRINT "hi"\r\n'))
                texts.append(("several-faults", 'PRINT "hi"\r\n' + "".join("SUB %s\r\nEND SUB\r\nSUB %s\r\nEND SUB\r\n" % (n, n) for n in perm)))
                texts.append(("several-faults", "".join("GOTO %s\r\n" % n for n in perm) + 'PRINT "hi"\r\n'))
                texts.append(("several-faults", "".join('%s%% = "a"\r\n' % n for n in perm)))
                texts.append(("several-faults", "".join("PRINT %s(1, 2)\r\n" % n for n in perm) + "".join("FUNCTION %s (x)\r\nEND FUNCTION\r\n" % n for n in perm)))
            for perm in list(itertools.permutations(builtins, k))[:10]:
                texts.append(("several-faults", 'PRINT "hi"\r\n' + "".join("FUNCTION %s (x)\r\nEND FUNCTION\r\n" % n for n in perm)))
                texts.append(("several-faults", 'PRINT "hi"\r\n' + "".join("SUB %s (x)\r\nEND SUB\r\n" % n.replace("$", "") for n in perm)))
    resps = pool.map([{"op": "run", "text": t, "upto": "lint"} for c, t in texts], timeout=15)
    # "a single error": the outcome is a function of the text.  Every text that ended in an error is checked again (the texts with
    # several faults three times more), in whatever worker is free: class and position must be the same
    def err_sig(r):
        return None if not r else (r.get("stage"), json.dumps(r.get("error"), sort_keys=True), "panic" in r)
    again = [i for i, ((c, t), r) in enumerate(zip(texts, resps)) if r and r.get("stage") in ("parse", "lint") and r.get("error")]
    rng.shuffle(again)
    again = sorted(again[: (6000 if tier == "quick" else 60000)] + [i for i in again if texts[i][0] == "several-faults"] * 3)
    resps2 = pool.map([{"op": "run", "text": texts[i][1], "upto": "lint"} for i in again], timeout=15)
    unstable = {}
    for i, r2 in zip(again, resps2):
        if r2 and not r2.get("timeout") and err_sig(r2) != err_sig(resps[i]) and i not in unstable:
            unstable[i] = r2
    for i, r2 in unstable.items():
        rep.violation({"class": texts[i][0], "text": texts[i][1], "observed": {"first": resps[i].get("error"), "again": r2.get("error")},
                       "expected": "the same single error every time the same text is checked"},
                      {"class:" + texts[i][0], "unstable"}, name="unstable")
    recs, meta = [], {}
    for i, ((cls, t), resp) in enumerate(zip(texts, resps)):
        rid = i + 1
        recs.append(outcome.record(rid, t, resp, upto="lint"))
        meta[rid] = (cls, t, resp)
    bad, s2, t2, cmd = outcome.validate("C07", recs)
    kinds = {}
    for r in recs:
        k = r["stage"] + "/" + r["kind"]
        kinds[k] = kinds.get(k, 0) + 1
    for rid in sorted(bad):
        cls, t, resp = meta[rid]
        rec = [r for r in recs if r["id"] == rid][0]
        feats = {"class:" + cls, "kind:" + rec["kind"], "stage:" + rec["stage"]}
        if resp and "panic" in resp:
            feats.add("panic_at:" + str(resp["panic"].get("loc", "")).replace("/repo/", ""))
        rep.violation({"class": cls, "text": t, "observed": {k: rec[k] for k in ("stage", "kind", "row", "col")}, "line_lengths": rec["lens"][:20],
                       "panic": (resp or {}).get("panic"), "error": (resp or {}).get("error"),
                       "expected": "Outcome.tla: a checked program, or one error positioned inside the text or immediately at its end"},
                      feats, name=cls.replace(":", "_"))
    classes = {}
    for c, t in texts:
        classes[c] = classes.get(c, 0) + 1
    coverage = {
        "evaluations": len(texts), "distinct_nontrivial": len({t for c, t in texts}),
        "rule": "TLC enumerates all token soups up to length 2 (3) over a 61-token alphabet (each rendered glued and blank-separated) "
                "and every delete / duplicate / swap / truncate at every token of the seed programs; plus byte-level truncations, "
                "seeded random byte strings decoded as UTF-8, random token strings with mixed line endings and nestings up to depth "
                "200; distinct by text",
        "samples": [{"class": meta[r["id"]][0], "text": meta[r["id"]][1][:200], "outcome": r["stage"] + "/" + r["kind"], "row": r["row"], "col": r["col"]}
                    for r in recs[:: max(1, len(recs) // 4)][:4]],
        "states": states + s2, "transitions": trans + t2, "traces_validated_against_impl": len(recs),
        "texts_by_class": classes, "outcomes": kinds, "texts_checked_again_for_the_same_outcome": len(again),
        "design_check": {"module": "MC_Text", "distinct_states": res0.distinct, "invariants": ["MachineIsDefinition", "RowsMonotone"]},
        "checker_cmd": cmd, "exhaustive": False,
    }
    assumptions = ["'bounded time' is observed by a 15 s watchdog per text, stack overflow by the death of the worker",
                   "line structure of a text as in Text.tla (CR, LF or CR LF end a line)",
                   "the oracle is thin: only the class of the outcome and the position are judged"]
    return rep.finish(coverage, assumptions)
