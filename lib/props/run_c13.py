"""C13 check: (D) TLC checks the resolution rules of Names.tla against the statements of the
property on every DEFtype / declaration configuration; (V) declaration / use histories are
rendered as programs (random letter case per occurrence), checked and run by the real code,
and verdict + printed values validated by TLC against the three-valued oracle."""
import os, random, itertools, json
from common import out_dir, dumps, seed, ToolError
from pool import Pool
from report import Reporter
from tlc import run_tlc

SUF = {"": "", "I": "%", "L": "&", "S": "!", "D": "#", "$": "$"}
TN = {"I": "INTEGER", "L": "LONG", "S": "SINGLE", "D": "DOUBLE", "$": "STRING"}
DEFKW = {"I": "DEFINT", "L": "DEFLNG", "S": "DEFSNG", "D": "DEFDBL", "$": "DEFSTR"}
SFX = ["", "I", "L", "S", "D", "$"]
TYPES = ["I", "L", "S", "D", "$"]


SPELL = {}       # base name -> how it is written in the program being rendered (set by render)


def nm(b, sfx, rng):
    """a name occurrence in random letter case; a base name may be WRITTEN with dots (no record variable exists in these
    programs, so a dot is a character of the name like any other: Names.tla sees the base name only)"""
    b = SPELL.get(b, b)
    s = "".join(ch.lower() if rng.random() < 0.5 else ch.upper() for ch in b)
    return s + SUF[sfx]


def val_text(t, i):
    return '"s%d"' % i if t == "$" else str(i)


def render(p, rng, types_of):
    """types_of(stmt) -> the type the assigned value must have (so the literal is a number or a string)"""
    lines = []
    SPELL.clear()
    if p.get("dotted"):
        SPELL.update({b: b + "." + tail for b, tail in (("A", "B"), ("B", "A.C"), ("M", "M"), ("Z", "Z9"), ("ZED", "X"), ("AB", "C"),
                                                        ("F", "N"), ("X", "Y"), ("QA", "Z"), ("QB", "Q.Q"))})
    SPELL.update(p.get("spell", {}))
    used_show = set()
    for d in p["defs"]:
        lo, hi = chr(d["lo"]), chr(d["hi"])
        # the two letters of a range in independent letter case (DEFINT i-N)
        if rng.random() < 0.5:
            lo = lo.lower()
        if rng.random() < 0.5:
            hi = hi.lower()
        lines.append("%s %s-%s" % (DEFKW[d["t"]], lo, hi) if d["lo"] != d["hi"] else "%s %s" % (DEFKW[d["t"]], lo))

    def stmt(s, ind):
        k = s["k"]
        el = "(1)" if s.get("arr") else ""
        if k == "let":
            return ind + "%s%s = %s" % (nm(s["b"], s["sfx"], rng), el, val_text(s["vt"], s["id"]))
        if k == "print":
            return ind + "PRINT %s%s" % (nm(s["b"], s["sfx"], rng), el)
        if k == "parg":
            # the name as an ARGUMENT of a call: printed by a SUB that takes it by value (in parentheses), or - form "bare",
            # only where the type of what the name denotes is the parameter's - handed over as it stands
            show = "PVS" if s["vt"] == "$" else "PVN"
            if s.get("bare"):
                show = "PR" + s["vt"].replace("$", "T")
                used_show.add(show)
                return ind + "%s %s%s" % (show, nm(s["b"], s["sfx"], rng), el)
            used_show.add(show)
            return ind + "%s (%s%s)" % (show, nm(s["b"], s["sfx"], rng), el)
        if k == "dimsfx" and s.get("arr"):
            return ind + "DIM %s(3)" % nm(s["b"], s["sfx"], rng)
        if k == "redim":
            return ind + "REDIM %s(3)" % nm(s["b"], s["sfx"], rng)
        if k == "dimas":
            return ind + "DIM %s%s AS %s" % ("SHARED " if s["shared"] else "", nm(s["b"], "", rng), TN[s["t"]])
        if k == "dimsfx":
            return ind + "DIM %s%s" % ("SHARED " if s["shared"] else "", nm(s["b"], s["sfx"], rng))
        if k == "const" and s.get("ref"):
            return ind + "CONST %s = %s" % (nm(s["b"], s["sfx"], rng), nm(s["ref"], "", rng))
        if k == "const":
            return ind + "CONST %s = %s" % (nm(s["b"], s["sfx"], rng), val_text(s["vt"], s["id"]))
        if k == "call":
            if p.get("params"):
                q = p["params"][0]
                return ind + "P %s%s" % (nm(q["argb"], q["t"], rng), "()" if q.get("arr") else "")
            return ind + "P"
        if k == "printlit":
            return ind + 'PRINT "%s"' % "".join(chr(c) for c in s["text"])
        if k == "def":
            lo, hi = chr(s["lo"]), chr(s["hi"])
            if rng.random() < 0.5:
                lo = lo.lower()
            if rng.random() < 0.5:
                hi = hi.lower()
            return ind + ("%s %s-%s" % (DEFKW[s["t"]], lo, hi) if s["lo"] != s["hi"] else "%s %s" % (DEFKW[s["t"]], lo))
        raise ValueError(k)

    for s in p["main"]:
        lines.append(stmt(s, ""))
    if p.get("params"):
        q = p["params"][0]
        par = "()" if q.get("arr") else ""
        if q["ext"]:
            lines.append("SUB P (%s%s AS %s)" % (nm(q["b"], "", rng), par, TN[q["t"]]))
        else:
            # a parameter written without a suffix has the default type of its first letter
            lines.append("SUB P (%s%s)" % (nm(q["b"], "" if q.get("bare") else q["t"], rng), par))
    else:
        lines.append("SUB P")
    for s in p["sub"]:
        lines.append(stmt(s, "  "))
    lines.append("END SUB")
    for f in p.get("fn", []):
        lines.append("FUNCTION %s" % nm(f["b"], f["t"], rng))
        lines.append("  %s = %s" % (nm(f["b"], f["t"], rng), val_text(f["t"], f["id"])))
        lines.append("END FUNCTION")
    for show in sorted(used_show):
        par = {"PVN": "V#", "PVS": "V$", "PRI": "V%", "PRL": "V&", "PRS": "V!", "PRD": "V#", "PRT": "V$"}[show]
        lines += ["SUB %s (%s)" % (show, par), "  PRINT %s" % par, "END SUB"]
    return "\r\n".join(lines) + "\r\n"


def resolve_type(defs, c, sfx):
    if sfx:
        return sfx
    t = "S"
    for d in defs:
        if d["lo"] <= c <= d["hi"]:
            t = d["t"]
    return t


def mk(k, b, **kw):
    d = {"k": k, "b": b, "c": ord(b[0])}
    d.update(kw)
    return d


def build(defs, main_ops, sub_ops):
    """attach ids and the literal kind each LET / CONST needs (a guess of the variable's type that only
    decides whether a number or a string is written; a wrong guess is a type mismatch at lint time,
    which the oracle cannot see, so such programs are filtered out below through ext tables)"""
    ident = [0]
    ext_main, ext_sub = {}, {}
    shared_ext = {}

    cur = {"defs": list(defs)}

    def fix(ops, sc):
        out = []
        for o in ops:
            o = dict(o)
            if o["k"] == "def":
                cur["defs"] = cur["defs"] + [{"t": o["t"], "lo": o["lo"], "hi": o["hi"]}]
            ext = ext_main if sc == "main" else ext_sub
            if o["k"] == "dimas":
                ext.setdefault(o["b"], o["t"])
                if o.get("shared"):
                    shared_ext[o["b"]] = o["t"]
            if o["k"] in ("let", "const"):
                ident[0] += 1
                o["id"] = ident[0] % 9 + 1
                if o["k"] == "const":
                    o["vt"] = o["sfx"] if o["sfx"] else "I"
                elif o["b"] in ext:
                    o["vt"] = ext[o["b"]]
                elif sc == "sub" and o["b"] in shared_ext:
                    o["vt"] = shared_ext[o["b"]]
                else:
                    o["vt"] = resolve_type(cur["defs"], o["c"], o["sfx"])
            out.append(o)
        return out
    # the closing PRINTs: a base declared AS type or as a constant in main is only printed bare
    # (any other suffix is a rejection, which is probed by dedicated histories, not by every program)
    declared = set()
    for o in main_ops:
        if o.get("k") in ("dimas", "const"):
            declared.add(o["b"])
    expanded = []
    for o in main_ops:
        if o.get("k") == "finalprints":
            for b in o["bases"]:
                for sfx in ([""] if b in declared else SFX):
                    expanded.append(mk("print", b, sfx=sfx))
        else:
            expanded.append(o)
    m = fix(expanded, "main")
    s = fix(sub_ops, "sub")
    return {"defs": defs, "main": m, "sub": s, "params": []}


def alphabet(b, sub):
    ops = []
    for s in SFX:
        ops.append(mk("let", b, sfx=s))
        ops.append(mk("print", b, sfx=s))
    for t in TYPES:
        ops.append(mk("dimas", b, t=t, shared=False))
        if not sub:
            ops.append(mk("dimas", b, t=t, shared=True))
    for s in SFX:
        ops.append(mk("dimsfx", b, sfx=s, shared=False))
        if not sub:
            ops.append(mk("dimsfx", b, sfx=s, shared=True))
    for s in ("", "I", "$", "D"):
        ops.append(mk("const", b, sfx=s))
    return ops


def final_prints(bases):
    return [{"k": "finalprints", "bases": bases}]


def gen(tier, rng):
    progs = []
    defsets = [[]]
    for t in TYPES:
        defsets.append([{"t": t, "lo": 65, "hi": 65}])          # A only
        defsets.append([{"t": t, "lo": 65, "hi": 67}])          # A-C
        defsets.append([{"t": t, "lo": 66, "hi": 90}])          # B-Z: does not cover A
        defsets.append([{"t": t, "lo": 65, "hi": 90}, {"t": "I", "lo": 77, "hi": 78}])
    AM = alphabet("A", False)
    AS = alphabet("A", True)
    # the 26 x 5 DEFtype configurations: first, middle, last letter and ranges crossing them
    for t in TYPES:
        for lo, hi in [(65, 65), (77, 77), (90, 90), (65, 77), (76, 78), (78, 90), (65, 90)]:
            for b in ("A", "M", "Z", "ZED", "AB"):
                d = [{"t": t, "lo": lo, "hi": hi}]
                main = [mk("let", b, sfx=""), mk("let", b, sfx=resolve_type(d, ord(b[0]), "")), mk("print", b, sfx="")]
                for s in SFX:
                    main.append(mk("print", b, sfx=s))
                # the same names as ARGUMENTS of a call (by value in parentheses, and as they stand): a name denotes the same
                # variable wherever it is used
                for s in SFX:
                    ty = resolve_type(d, ord(b[0]), s)
                    main.append(mk("parg", b, sfx=s, vt=ty))
                    main.append(mk("parg", b, sfx=s, vt=ty, bare=True))
                main.append({"k": "call"})
                for dotted in (False, True):
                    pr = build(d, main, [mk("print", b, sfx=""), mk("parg", b, sfx="", vt=resolve_type(d, ord(b[0]), ""))])
                    pr["dotted"] = dotted
                    progs.append(("deftype", pr))
    # a later DEFtype statement takes letters back from an earlier one (every pair of types, DEFSNG included): the last
    # statement that covers a letter decides
    for t1 in TYPES:
        for t2 in TYPES:
            if t1 == t2:
                continue
            for (lo2, hi2) in ((65, 67), (65, 65), (77, 90)):
                d = [{"t": t1, "lo": 65, "hi": 90}, {"t": t2, "lo": lo2, "hi": hi2}]
                for b in ("A", "B", "M"):
                    main = [mk("let", b, sfx=""), mk("print", b, sfx="")] + [mk("print", b, sfx=s) for s in SFX] + [{"k": "call"}]
                    progs.append(("deftype-override", build(d, main, [mk("let", b, sfx=""), mk("print", b, sfx=""), mk("print", b, sfx=t2)])))
    # DEFtype statements in the middle of the main module: they govern the names that follow them, and the SUB
    for t in TYPES:
        for t0 in [None] + [x for x in TYPES if x != t][:2]:
            for b in ("A", "M"):
                for lo, hi in ((65, 90), (ord(b[0]), ord(b[0]))):
                    d0 = [{"t": t0, "lo": 65, "hi": 90}] if t0 else []
                    dstmt = {"k": "def", "b": b, "c": ord(b[0]), "t": t, "lo": lo, "hi": hi}
                    main = [mk("let", b, sfx=""), mk("print", b, sfx=""), dstmt, mk("print", b, sfx=""), mk("let", b, sfx=""), mk("print", b, sfx="")]
                    main += [mk("print", b, sfx=x) for x in SFX] + [{"k": "call"}]
                    progs.append(("defpos", build(d0, main, [mk("print", b, sfx=""), mk("let", b, sfx=""), mk("print", b, sfx=""), mk("print", b, sfx=t)])))
    # a parameter of the SUB, scalar or array, declared with a suffix or AS type: inside the SUB its name (bare where the
    # declaration allows it, or with its suffix) IS the caller's variable; other suffixes are other variables (suffix
    # declaration) or rejected (AS type)
    for t in TYPES:
        for ext in (False, True):
            for arr in (False, True):
                for use_sfx in SFX:
                    for act, dotted in (("print", False), ("let", False), ("parg", False), ("print", True), ("let", True), ("parg", True)):
                        argb = "QB" if arr else "QA"
                        if arr and not ext and not (use_sfx == t or (use_sfx == "" and t == "S")):
                            continue    # an undeclared array: implicit arrays are not supported (DESIGN 9.2), no oracle
                        prm = {"b": "X", "t": t, "ext": ext, "argb": argb, "arr": arr}
                        main = [mk("dimsfx", argb, sfx=t, shared=False, arr=arr)] if arr else []
                        main += [mk("let", argb, sfx=t, arr=arr), {"k": "call"}, mk("print", argb, sfx=t, arr=arr)]
                        sub_ops = [mk(act, "X", sfx=use_sfx, arr=arr), mk("print", "X", sfx=t, arr=arr)]
                        pr = build([], main, sub_ops)
                        pr["params"] = [prm]
                        pr["dotted"] = dotted
                        # the literal written by a LET inside the SUB must have the kind of the variable it names
                        for o in pr["sub"]:
                            if o["k"] in ("let", "parg"):
                                o["vt"] = t if (use_sfx in ("", t) and (ext or use_sfx == t or (use_sfx == "" and t == "S"))) else (use_sfx or "S")
                        progs.append(("param", pr))
    # a parameter written WITHOUT a suffix: it has the default type of its letter (SINGLE, or what a DEFtype statement says), so
    # inside the SUB the bare name and the name with that suffix are the caller's variable, other suffixes are other variables
    for t in TYPES:
        for use_sfx in SFX:
            for act in ("print", "let", "parg"):
                for dotted in (False, True):
                    defs = [] if t == "S" else [{"t": t, "lo": 88, "hi": 88}]
                    prm = {"b": "X", "t": t, "ext": False, "argb": "QA", "arr": False, "bare": True}
                    main = [mk("let", "QA", sfx=t), {"k": "call"}, mk("print", "QA", sfx=t)]
                    pr = build(defs, main, [mk(act, "X", sfx=use_sfx), mk("print", "X", sfx=t)])
                    pr["params"] = [prm]
                    pr["dotted"] = dotted
                    for o in pr["main"] + pr["sub"]:
                        if o["k"] in ("let", "parg"):
                            o["vt"] = t if o["b"] == "QA" or use_sfx in ("", t) else use_sfx
                    progs.append(("param-bare", pr))
    # REDIM with a bare name and with every suffix while a dynamic array of another (or the same) type exists, under every
    # default type of the letter: the bare name is the array of the default type
    for t in TYPES:
        for dflt in [None] + TYPES:
            for second in SFX:
                for where in ("main", "sub"):
                    defs = [] if dflt is None else [{"t": dflt, "lo": 66, "hi": 66}]
                    ops = [mk("redim", "B", sfx=t), mk("let", "B", sfx=t, arr=True), mk("redim", "B", sfx=second),
                           mk("print", "B", sfx=t, arr=True), mk("print", "B", sfx=second, arr=True)]
                    pr = build(defs, ops if where == "main" else [{"k": "call"}], ops if where == "sub" else [])
                    for o in pr["main"] + pr["sub"]:
                        if o["k"] == "let":
                            o["vt"] = t
                    progs.append(("redim", pr))
    # the name of a FUNCTION: every use and declaration of it, with every suffix, in main and inside a SUB
    for t in TYPES:
        for use_sfx in SFX:
            for where in ("main", "sub"):
                for kind, dotted in [(k, dt) for dt in (False, True) for k in ("print", "parg", "pargbare", "let", "dimsfx", "dimas", "const")]:
                    if kind in ("parg", "pargbare"):
                        op = mk("parg", "F", sfx=use_sfx, vt=t)
                        if kind == "pargbare":
                            op["bare"] = True
                    elif kind == "dimas":
                        if use_sfx == "":
                            continue
                        op = mk("dimas", "F", t=use_sfx, shared=False)
                    elif kind == "dimsfx":
                        op = mk("dimsfx", "F", sfx=use_sfx, shared=False)
                    else:
                        op = mk(kind, "F", sfx=use_sfx)
                    main = ([op] if where == "main" else []) + [{"k": "call"}, mk("print", "QA", sfx="I")]
                    pr = build([], main, [op] if where == "sub" else [])
                    pr["fn"] = [{"b": "F", "t": t, "id": 4}]
                    pr["dotted"] = dotted
                    for o in pr["main"] + pr["sub"]:
                        if o["k"] == "let":
                            o["vt"] = use_sfx or "S"
                    progs.append(("fname", pr))
    # a parameter that carries the name of a FUNCTION: with another type it is a duplicate definition
    for t in TYPES:
        for pt in TYPES:
            for ext, dotted in ((False, False), (True, False), (False, True), (True, True)):
                main = [mk("let", "QA", sfx=pt), {"k": "call"}, mk("print", "QA", sfx=pt)]
                pr = build([], main, [mk("print", "QB", sfx="I")])
                pr["params"] = [{"b": "F", "t": pt, "ext": ext, "argb": "QA", "arr": False}]
                pr["dotted"] = dotted
                pr["fn"] = [{"b": "F", "t": t, "id": 4}]
                for o in pr["main"]:
                    if o["k"] == "let":
                        o["vt"] = pt
                progs.append(("fname-param", pr))
                # the same parameter written without a suffix (its type is the default type of the letter F)
                if not ext:
                    import copy
                    pb = copy.deepcopy(pr)
                    pb["defs"] = [] if pt == "S" else [{"t": pt, "lo": 70, "hi": 70}]
                    pb["params"][0]["bare"] = True
                    progs.append(("fname-param", pb))
    # a constant defined from another constant: the name on the right resolves in the scope of the definition
    for gsfx in ("", "$"):
        for local_first in (True, False):
            for where in ("sub", "main"):
                ref = {"ref": "A", "refc": 65}
                if where == "sub":
                    sub_ops = ([mk("const", "A", sfx=gsfx)] if local_first else []) + [dict(mk("const", "B", sfx=""), **ref), mk("print", "B", sfx=""), mk("print", "A", sfx="")]
                    main = [mk("const", "A", sfx=gsfx), {"k": "call"}, mk("print", "A", sfx="")]
                else:
                    sub_ops = [mk("print", "A", sfx="")]
                    main = [mk("const", "A", sfx=gsfx), dict(mk("const", "B", sfx=""), **ref), mk("print", "B", sfx=""), {"k": "call"}]
                for dotted in (False, True):
                    pr = build([], main, sub_ops)
                    pr["dotted"] = dotted
                    progs.append(("const-ref", pr))
    # all 1- and 2-statement declaration/use histories in main (then all names printed), x DEFtype sets
    ds_few = defsets[:1] + rng.sample(defsets[1:], 3 if tier == "quick" else 8)
    for d in ds_few:
        for a in AM:
            progs.append(("main1", build(d, [a, mk("let", "A", sfx="I"), {"k": "call"}] + final_prints(["A"]), [mk("print", "A", sfx="")])))
            for b2 in (AM if tier == "thorough" else rng.sample(AM, 12)):
                progs.append(("main2", build(d, [a, b2, {"k": "call"}] + final_prints(["A"]), [mk("print", "A", sfx="I")])))
    # probes: after DIM A AS type / CONST A<sfx>, one use with each suffix (the only statement that may be rejected)
    for t in TYPES:
        for s2 in SFX:
            for use in ("let", "print"):
                for sh in (False, True):
                    progs.append(("probe-dimas", build(rng.choice(defsets[:4]), [mk("dimas", "A", t=t, shared=sh), mk(use, "A", sfx=s2), {"k": "call"}], [])))
                    progs.append(("probe-dimas-sub", build([], [mk("dimas", "A", t=t, shared=sh), {"k": "call"}], [mk(use, "A", sfx=s2)])))
    for cs in ("", "I", "$", "D", "L", "S"):
        for s2 in SFX:
            progs.append(("probe-const", build([], [mk("const", "A", sfx=cs), mk("print", "A", sfx=s2), {"k": "call"}], [mk("print", "A", sfx=s2)])))
    # main declaration x sub history: local unless shared / constant
    decls = [o for o in AM if o["k"] in ("dimas", "dimsfx", "const")] + [mk("let", "A", sfx=s) for s in SFX]
    for dcl in decls:
        for s1 in AS:
            # after a SHARED declaration every pair of statements of the SUB is tried (what the SUB already knows of the base
            # name - another suffix, a declaration of its own - must not change what SHARED means), else a sample
            for s2 in (AS if tier == "thorough" or dcl.get("shared") else rng.sample(AS, 5)):
                main = [dcl, mk("let", "A", sfx=""), {"k": "call"}] + final_prints(["A"])
                if dcl["k"] == "const":
                    main = [dcl, {"k": "call"}] + final_prints(["A"])
                progs.append(("sub2", build(rng.choice(defsets[:6]), main, [s1, s2, mk("print", "A", sfx="")])))
    # longer random histories over two bases
    n = 20000 if tier == "thorough" else 2500
    BM = alphabet("B", False)
    BS = alphabet("B", True)
    for _ in range(n):
        d = rng.choice(defsets)
        m = [rng.choice(AM + BM) for _ in range(rng.randint(1, 5))]
        s = [rng.choice(AS + BS) for _ in range(rng.randint(0, 4))]
        pr = build(d, m + [{"k": "call"}] + final_prints(["A", "B"]), s + [mk("print", "A", sfx=""), mk("print", "B", sfx="$")])
        pr["dotted"] = rng.random() < 0.25
        progs.append(("random", pr))
    # the same over two names of which one is written as the other plus ".X": a name with a dot is a name of its own,
    # whatever else begins like it (A = 1 : A.X = 2) and in whatever order the two are met
    AXM = alphabet("AX", False)
    AXS = alphabet("AX", True)
    for _ in range(n // 4):
        d = rng.choice(defsets)
        m = [rng.choice(AM + AXM) for _ in range(rng.randint(1, 5))]
        s = [rng.choice(AS + AXS) for _ in range(rng.randint(0, 4))]
        pr = build(d, m + [{"k": "call"}] + final_prints(["A", "AX"]), s + [mk("print", "A", sfx=""), mk("print", "AX", sfx="$")])
        pr["spell"] = {"AX": rng.choice(["A.X", "A.X.Y", "A..X"])}
        progs.append(("random-prefix", pr))
    return progs


def strip(p):
    """the program as the spec sees it"""
    def st(s):
        return {k: v for k, v in s.items() if k != "vt"}
    return {"defs": p["defs"], "main": [st(s) for s in p["main"]], "sub": [st(s) for s in p["sub"]],
            "fn": p.get("fn", []),
            "params": [{k: v for k, v in q.items() if k not in ("arr", "bare")} for q in p.get("params", [])]}


def run(tier, replay):
    rep = Reporter("C13", tier, "model_checking")
    pool = Pool()
    rng = random.Random(seed())
    d = out_dir("C13")
    res = run_tlc("MC_Names.tla", "MC_Names.cfg", os.path.join(d, "tlc_mc"), timeout=900)
    if res.timed_out or not res.ok:
        raise ToolError("Names.tla violates the statements of the property:\n%s" % res.violation)
    states, trans = res.distinct, res.generated
    if replay:
        with open(replay) as f:
            r = json.load(f)
        progs = [("replay", r["prog_full"])]
    else:
        progs = gen(tier, rng)
    texts = [render(p, rng, None) for fam, p in progs]
    resps = pool.map([{"op": "run", "text": t, "budget": 100000} for t in texts], timeout=60)
    recs, fams = [], {}
    for i, ((fam, p), text, resp) in enumerate(zip(progs, texts, resps)):
        rid = i + 1
        fams[rid] = (fam, p, text)
        if not resp or "panic" in resp or resp.get("timeout") or resp.get("abort"):
            rep.violation({"family": fam, "rendered_text": text, "prog_full": p, "observed": resp,
                           "expected": "a verdict of the checker (no panic) for every declaration history"},
                          {"panic", "panic_at:" + str((resp or {}).get("panic", {}).get("loc", "")).replace("/repo/", "")}, name="panic")
            continue
        if resp.get("stage") in ("parse", "lint"):
            obs = {"verdict": "reject", "out": [], "error": resp.get("error")}
        elif resp.get("outcome", {}).get("k") == "ok":
            so = resp.get("stdout")
            obs = {"verdict": "accept", "out": list(so.encode("utf-8")) if isinstance(so, str) else so.get("bytes", [])}
        else:
            obs = {"verdict": "runerr", "out": [], "outcome": resp.get("outcome")}
        recs.append({"id": rid, "prog": strip(p), "obs": obs})
    path = os.path.join(d, "names.ndjson")
    with open(path, "w") as f:
        for r in recs:
            f.write(dumps({"id": r["id"], "prog": r["prog"], "obs": {"verdict": r["obs"]["verdict"], "out": r["obs"]["out"]}}) + "\n")
    res2 = run_tlc("Trace_Names.tla", "Trace_Names.cfg", os.path.join(d, "tlc_tr"), env={"TRACE": path}, timeout=3000)
    if res2.timed_out or not res2.ok:
        raise ToolError("TLC failed on Trace_Names:\n%s" % res2.violation)
    byid = {r["id"]: r for r in recs}
    nag = nskip = 0
    agree_by, skip_by = {}, {}
    for ln in res2.printed:
        pp = ln.split(" ", 2)
        if pp[0] in ("AGREE", "SKIP") and len(pp) > 1 and pp[1].isdigit() and int(pp[1]) in fams:
            tgt = agree_by if pp[0] == "AGREE" else skip_by
            tgt[fams[int(pp[1])][0]] = tgt.get(fams[int(pp[1])][0], 0) + 1
        if pp[0] == "AGREE":
            nag += 1
        elif pp[0] == "SKIP":
            nskip += 1
        elif pp[0] == "MISMATCH":
            r = byid[int(pp[1])]
            fam, p, text = fams[r["id"]]
            exp = json.loads(pp[2])
            feats = {"fam:" + fam, "expected:" + exp["verdict"], "observed:" + r["obs"]["verdict"]}
            feats |= {"stmt:" + s["k"] for s in p["main"] + p["sub"]}
            rep.violation({"family": fam, "rendered_text": text, "prog_full": p,
                           "expected": {"verdict": exp["verdict"], "out": bytes(exp["out"]).decode("latin1")},
                           "observed": {"verdict": r["obs"]["verdict"], "out": bytes(r["obs"]["out"]).decode("latin1"),
                                        "error": r["obs"].get("error"), "outcome": r["obs"].get("outcome")}}, feats, name=fam)
    os.remove(path)
    byfam = {}
    for fam, p, t in fams.values():
        byfam[fam] = byfam.get(fam, 0) + 1
    coverage = {
        "states": states + res2.distinct, "transitions": trans + res2.generated,
        "traces_validated_against_impl": len(recs) - nskip,
        "samples": [{"program": fams[r["id"]][2], "verdict": r["obs"]["verdict"], "out": bytes(r["obs"]["out"]).decode("latin1")}
                    for r in recs[:: max(1, len(recs) // 3)][:3]],
        "evaluations": len(progs), "distinct_nontrivial": len({fams[r["id"]][2].upper() for r in recs}),
        "rule": "DEFtype: 5 types x 7 letter ranges (first / middle / last letter, crossing ranges) x 5 names; histories: every "
                "single declaration/use statement of one base name (bare and 5 suffixes: assignment, PRINT, DIM AS each type, DIM "
                "with each suffix, DIM SHARED forms, CONST) and every pair (sampled in quick) in main, every main declaration x "
                "pairs of statements inside a SUB, seeded random histories over two base names; a SUB parameter (scalar / array, suffix / AS "
                "type) used with every suffix; the name of a FUNCTION used / assigned / declared with every suffix in main and in a SUB; every occurrence of a name in "
                "random letter case; all names printed at the end; distinct by upper-cased text",
        "histories_by_family": byfam, "agree_by_family": agree_by, "unspecified_by_family": skip_by, "agree": nag, "unspecified_by_the_documents": nskip,
        "design_check": {"module": "MC_Names", "distinct_states": states,
                         "invariants": ["DefaultIsSingle", "BareIsDefault", "SuffixesDistinct", "ExtendedExcludes", "LocalByDefault", "UseSiteIndifferent"]},
        "checker_cmd": res2.cmd, "exhaustive": False,
    }
    assumptions = ["three-valued oracle: histories the documents leave open (a declaration after a use of the same base, "
                   "re-declarations, SUB declarations shadowing shared names / module constants) are only required not to panic",
                   "letter case is randomised per occurrence and invisible to the oracle (case-insensitivity by construction)"]
    return rep.finish(coverage, assumptions)
