"""C15 check: the REAL instruction lists of accepted programs (generated families and every
program text embedded in the repository's tests and fixtures) are exported; TLC (VMAbs.tla)
model-checks each one's control-flow graph completely - static well-formedness, and on every
path: no underflow, empty expression stacks at statement boundaries, no growth, clean final
state.  The hook's depth vectors at statement boundaries of the real runs are checked by the
monitor StackMon.tla (same boundary in the same context => same depths)."""
import os, re, random, json
from common import out_dir, dumps, seed, ToolError
from pool import Pool
from report import Reporter
from tlc import run_tlc
import render, corpus, features

OPRE = re.compile(r"^(\w+)")
TARGET = re.compile(r"Resolved\((\d+)\)")
LABEL = re.compile(r'^Label\(CaseInsensitiveString\("(.*)"\)\)')


def parse_insn(dbg, prev_op):
    op = OPRE.match(dbg).group(1)
    t = -1
    if "Unresolved" in dbg:
        t = -2
    else:
        m = TARGET.search(dbg)
        if m and op in ("Jump", "JumpIfFalse", "GoSub", "OnErrorGoTo", "ResumeLabel", "Return"):
            t = int(m.group(1))
    if op == "PushRet":
        t = int(re.search(r"PushRet\((\d+)\)", dbg).group(1))
    lab = ""
    proc = False
    m = LABEL.match(dbg)
    if m:
        lab = m.group(1)
        proc = lab.startswith(":sub:") or lab.startswith(":fun:")
    return {"op": op, "t": t, "lab": lab, "proc": proc, "call": op == "Jump" and prev_op == "PushRet"}


def label_scope_programs():
    """every kind of jump x where it stands (module level before / after the procedures, inside a SUB, inside a FUNCTION) x
    where its label stands: the checker decides which combinations are programs; what it accepts must keep every branch
    inside its own procedure"""
    jumps = {"goto": "IF N% = 99 THEN GOTO {l}", "gosub": "IF N% = 99 THEN GOSUB {l}", "on-goto": "ON N% GOTO {l}", "on-gosub": "ON N% GOSUB {l}",
             "on-error": "ON ERROR GOTO {l}", "resume": "IF N% = 99 THEN RESUME {l}", "return": "IF N% = 99 THEN RETURN {l}",
             "if-goto": "IF N% = 99 THEN {l}" , "else-goto": "IF N% = 1 THEN PRINT 1 ELSE GOTO {l}"}
    labels = {"main1": "LM1", "main2": "LM2", "main3": "LM3", "sub": "LS", "fun": "LF", "sub2": "LS2"}
    out = []
    for jk, jt in jumps.items():
        for frm in ("main1", "main2", "sub", "fun"):
            for lk, lab in labels.items():
                j = jt.replace("{l}", lab)
                lines = ["N% = 0"]
                lines += [j] if frm == "main1" else []
                lines += ["P", "R% = F%(1)", 'PRINT "main"', "END", "LM1:", 'PRINT "lm1"', "RETURN"]
                lines += ["SUB P"] + (["  " + j] if frm == "sub" else []) + ['  PRINT "p"', "  EXIT SUB", "LS:", '  PRINT "ls"', "END SUB"]
                # module-level code that stands after a SUB, between the procedures
                lines += [j] if frm == "main2" else []
                lines += ["LM2:", 'PRINT "lm2"', "END"]
                lines += ["SUB P2", "LS2:", '  PRINT "p2"', "END SUB"]
                lines += ["FUNCTION F% (X%)"] + (["  " + j] if frm == "fun" else []) + ["  F% = X%", "  EXIT FUNCTION", "LF:", "  F% = 2", "END FUNCTION"]
                # and after a FUNCTION, at the end of the file
                lines += ["LM3:", 'PRINT "lm3"', "END"]
                out.append({"src": "labels:%s/%s/%s" % (jk, frm, lk), "text": "\r\n".join(lines) + "\r\n"})
    return out


def sources(tier, sd):
    import c01, c03, c04, c05, c06
    out = []
    for mod, pick in ((c01, None), (c03, None), (c05, None), (c04, None), (c06, ("for-edge", "round"))):
        cs = mod.cases("quick" if tier == "quick" else "thorough", sd)
        rng = random.Random(sd)
        if tier == "quick":
            rng.shuffle(cs)
            # families built around what a statement leaves on the stacks are always in
            must = [c for c in cs if c["fam"].startswith(("trap-loop", "goto-select", "goto-after", "pending", "exit-blocks", "goto-frames",
                                                          "trap-last-main", "trap-resume-in-proc", "static-order"))]
            cs = must + [c for c in cs if c not in must][:700]
        elif len(cs) > 12000:
            rng.shuffle(cs)
            cs = cs[:12000]
        for c in cs:
            if pick and not c["fam"].startswith(pick):
                continue
            try:
                out.append({"src": mod.__name__ + ":" + c["fam"], "text": render.program(c["prog"])[0], "prog": c["prog"]})
            except render.RenderError:
                pass
    for c in corpus.programs():
        out.append({"src": "corpus:" + c["src"], "text": c["text"]})
    out += label_scope_programs()
    # every statement form at least once
    import tour
    for i, t in enumerate(tour.TOUR):
        out.append({"src": "tour:%d" % i, "text": t})
    # loops written on ONE line with colons (several constructs of the same kind start on the same row)
    import copy
    n = 0
    for c in c01.cases("quick", sd):
        if c["fam"].startswith(("nest", "for:", "random")):
            p = copy.deepcopy(c["prog"])
            if mark_colon_prog(p):
                try:
                    out.append({"src": "colon:" + c["fam"], "text": render.program(p)[0], "prog": p})
                    n += 1
                except render.RenderError:
                    pass
            if n >= (2000 if tier == "thorough" else 150):
                break
    return out


LOOPS = ("for", "while", "do")


def colonable(s):
    return s["k"] in ("let", "print", "read") or (s["k"] in LOOPS and all(colonable(x) for x in s["body"]))


def mark_colon(stmts):
    """marks every loop whose whole body can be joined with colons; returns how many were marked"""
    n = 0
    for s in stmts:
        if s["k"] in LOOPS and s["body"] and all(colonable(x) for x in s["body"]):
            def mark(x):
                if x["k"] in LOOPS:
                    x["colon"] = True
                    for y in x["body"]:
                        mark(y)
            mark(s)
            n += 1
        elif s["k"] in LOOPS:
            n += mark_colon(s["body"])
        elif s["k"] == "if":
            for a in s["arms"]:
                n += mark_colon(a["body"])
            n += mark_colon(s.get("els", []))
        elif s["k"] == "select":
            for a in s["cases"]:
                n += mark_colon(a["body"])
            n += mark_colon(s.get("els", []))
    return n


def mark_colon_prog(p):
    n = mark_colon(p["main"])
    for sp in p.get("subs", []):
        n += mark_colon(sp["body"])
    return n


def run(tier, replay):
    rep = Reporter("C15", tier, "model_checking")
    pool = Pool()
    d = out_dir("C15")
    if replay:
        with open(replay) as f:
            srcs = [{"src": "replay", "text": json.load(f)["rendered_text"]}]
    else:
        srcs = sources(tier, seed())
    # 1. export the real instruction lists (accepted programs only)
    import shutil
    fsroot = os.path.join(d, "fs")
    shutil.rmtree(fsroot, ignore_errors=True)
    resps = pool.map([{"op": "run", "text": s["text"], "igen": True, "trace": True, "budget": 4000, "stdin": "1\r\n2\r\n",
                       "dir": os.path.join(fsroot, "c%d" % i)} for i, s in enumerate(srcs)], timeout=60)
    shutil.rmtree(fsroot, ignore_errors=True)
    progs, dyn, deltas = [], [], {}
    rid = 0
    nacc = 0
    for s, r in zip(srcs, resps):
        if not r or "igen" not in r:
            if r and "panic" in r and r.get("stage") == "igen":
                rep.violation({"rendered_text": s["text"], "source": s["src"], "observed": r,
                               "expected": "instructions for a program the checker accepted"},
                              {"igen-panic", "panic_at:" + str(r["panic"].get("loc", "")).replace("/repo/", "")}, name="igen")
            continue
        nacc += 1
        rid += 1
        insns = []
        prev = ""
        for x in r["igen"]["insns"]:
            ins = parse_insn(x[0], prev)
            insns.append(ins)
            prev = ins["op"]
        progs.append({"id": rid, "insns": insns, "stmts": r["igen"]["stmts"], "src": s["src"], "text": s["text"], "prog": s.get("prog")})
        # 2. dynamic boundary tuples, relative to the activation entered by the innermost call
        tr = r.get("trace") or []
        if r.get("stage") == "run" and "panic" in r:
            # the machine itself gave up while running an accepted program: a pop from an empty stack, a jump nowhere
            rep.violation({"rendered_text": s["text"], "source": s["src"], "observed": {"panic": r["panic"]},
                           "expected": "no execution underflows a stack or leaves the instruction list"},
                          {"run-panic", "panic_at:" + str(r["panic"].get("loc", "")).replace("/repo/", "")}, name="runpanic")
            continue
        if not tr or r.get("stage") != "run":
            continue
        stmts = set(r["igen"]["stmts"])
        ops = [i["op"] for i in insns]
        base = [[0, 1, 0, 0, 0, 0, 1]]     # val reg vp byref arg gosub states  at program start
        seen, tuples = set(), []
        errs = set(r.get("errors") or [])
        for k, (pc, dep) in enumerate(tr):
            val, reg, vp, byref, ret, gosub, states, trace_, blocks, argst = dep
            cur = [val, reg, vp, byref, argst, gosub, states]
            if pc < len(ops):
                if pc in stmts:
                    b = base[-1]
                    t = (pc, states - b[6], gosub - b[5], len(base) - 1, val - b[0], reg - b[1], vp - b[2], byref - b[3], argst - b[4])
                    if t not in seen:
                        seen.add(t)
                        tuples.append(list(t))
                # opcode effects actually observed (drift indicator); skip instructions that raised
                if k + 1 < len(tr) and pc not in errs and ops[pc] not in ("PopRet", "Jump", "JumpIfFalse", "GoSub", "Return", "PushRet", "Halt"):
                    nd = tr[k + 1][1]
                    frames_b = states - argst
                    frames_a = nd[6] - nd[9]
                    dv = (nd[0] - val, nd[1] - reg, nd[2] - vp, nd[3] - byref, nd[9] - argst, frames_a - frames_b)
                    deltas.setdefault((ops[pc], dv), s["src"])
                if ops[pc] == "PushRet":
                    # the callee's activation starts here: remember the depths of the caller at the call
                    base.append([val, reg, vp, byref, argst, gosub, states])
                elif ops[pc] == "PopRet" and len(base) > 1:
                    base.pop()
        if tuples and not errs:
            dyn.append({"id": rid, "b": tuples[:400]})
        elif tuples:
            dyn.append({"id": rid, "b": tuples[:400], "had_errors": True})
    byid = {p["id"]: p for p in progs}
    # 3. TLC explores every instruction list
    states = trans = 0
    tags = {}
    static_b = {}
    chunk = 1500
    cmd = ""
    for start in range(0, len(progs), chunk):
        path = os.path.join(d, "progs_%d.ndjson" % start)
        with open(path, "w") as f:
            for p in progs[start:start + chunk]:
                f.write(dumps({"id": p["id"], "insns": p["insns"], "stmts": p["stmts"]}) + "\n")
        res = run_tlc("VMAbs.tla", "VMAbs.cfg", os.path.join(d, "tlc"), env={"PROGS": path}, timeout=3000)
        cmd = res.cmd
        if res.timed_out or not res.ok:
            raise ToolError("TLC failed on VMAbs:\n%s" % res.violation)
        states += res.distinct
        trans += res.generated
        for ln in res.printed:
            parts = ln.split(" ")
            if parts[0] == "B" and len(parts) == 11:
                v = [int(x) for x in parts[1:]]
                # [addr, ctx, gosub, calldepth, val, reg, vp, byref, arg]
                static_b.setdefault(v[0], set()).add((v[1], v[2], v[3], v[4], v[5], v[6], v[7], v[8], v[9]))
            elif len(parts) == 3 and parts[0].isupper():
                tags.setdefault((parts[0], int(parts[1])), int(parts[2]))
        os.remove(path)
    for (tag, pid), pc in sorted(tags.items()):
        if tag == "UNKNOWN-OPCODE":
            raise ToolError("opcode %s is not in the effect table of VMAbs.tla" % byid[pid]["insns"][pc]["op"])
        p = byid[pid]
        feats = {"static:" + tag}
        if p.get("prog"):
            feats |= features.of_prog(p["prog"])
        window = [(a, p["insns"][a]["op"], p["insns"][a]["t"]) for a in range(max(0, pc - 6), min(len(p["insns"]), pc + 4))]
        rep.violation({"source": p["src"], "rendered_text": p["text"], "finding": tag, "address": pc, "instructions_around": window,
                       "expected": "VMAbs.tla: " + tag + " must not be reachable"}, feats, name=tag.lower())
    # 4. the monitor over the dynamic depth vectors
    mpath = os.path.join(d, "mon.ndjson")
    drecs = {}
    with open(mpath, "w") as f:
        for r in dyn:
            f.write(dumps({"id": r["id"], "b": r["b"]}) + "\n")
        # the boundary tuples TLC reached on ANY path of the instruction list (static pass)
        for pid_, tset in sorted(static_b.items()):
            f.write(dumps({"id": pid_ + 5 * 10 ** 6, "b": [list(t) for t in sorted(tset)][:600]}) + "\n")
        k = 10 ** 6
        for (op, dv), src in sorted(deltas.items()):
            k += 1
            drecs[k] = (op, dv, src)
            f.write(dumps({"id": k, "k": "delta", "op": op, "d": list(dv)}) + "\n")
    ppath = os.path.join(d, "empty_progs.ndjson")
    with open(ppath, "w") as f:
        f.write(dumps({"id": 0, "insns": [{"op": "Halt", "t": -1, "lab": "", "proc": False, "call": False}], "stmts": [0]}) + "\n")
    res2 = run_tlc("StackMon.tla", "StackMon.cfg", os.path.join(d, "tlc_mon"), env={"TRACE": mpath, "PROGS": ppath}, timeout=3000)
    if res2.timed_out or not res2.ok:
        raise ToolError("TLC failed on StackMon:\n%s" % res2.violation)
    drift = []
    had_err = {r["id"] for r in dyn if r.get("had_errors")}
    for ln in res2.printed:
        tag, sid = ln.split(" ")
        sid = int(sid)
        if tag == "DRIFT":
            drift.append({"op": drecs[sid][0], "observed_delta": list(drecs[sid][1]), "first_seen_in": drecs[sid][2]})
        elif tag in ("INCONSISTENT", "DIRTY"):
            static = sid >= 5 * 10 ** 6
            if static:
                sid -= 5 * 10 ** 6
            p = byid[sid]
            feats = {("static:" if static else "dynamic:") + tag, "with-errors" if sid in had_err else "no-errors"}
            if p.get("prog"):
                feats |= features.of_prog(p["prog"])
            b = sorted(static_b[sid]) if static else [r for r in dyn if r["id"] == sid][0]["b"]
            # which stacks are involved: tuple = [addr, ctx, gosub, calldepth, val, reg, vp, byref, arg]
            comp = {4: "val", 5: "reg", 6: "vp", 7: "byref", 8: "arg"}
            if tag == "DIRTY":
                for t in b:
                    for i in (6, 7, 8):
                        if t[i] != 0:
                            feats.add("dirty:" + comp[i])
            else:
                seen = {}
                for t in b:
                    key = (t[0], t[1], t[2], t[3])
                    if key in seen:
                        for i in (4, 5, 6, 7, 8):
                            if seen[key][i] != t[i]:
                                feats.add("incons:" + comp[i])
                    else:
                        seen[key] = t
            rep.violation({"source": p["src"], "rendered_text": p["text"], "finding": tag,
                           "boundary_tuples": "[addr, ctx, gosub, calldepth, val, reg, vp, byref, arg] relative to the activation: " + json.dumps(b[:60]),
                           "expected": "StackMon.tla: same boundary in the same context => same depths; expression stacks empty at boundaries"},
                          feats, name=tag.lower())
    os.remove(mpath)
    # 3. instruction-level conformance of the values: the real register file before every instruction of a sample of
    #    the runs, validated in lock step against VM.tla (evidence about the model's fidelity; reported, never an alarm of C15)
    import vmtrace
    nvm = int(os.environ.get("VERIF_NVM", "0")) or (150 if tier == "quick" else 2000)
    dyn_ids = {r["id"] for r in dyn}
    ran = [p for p in progs if p["id"] in dyn_ids]
    samp = ran[:: max(1, len(ran) // nvm)][:nvm] if not replay else ran
    vresps = pool.map([{"op": "run", "text": p["text"], "igen": True, "trace": True, "regs": True, "budget": 1500, "stdin": "1\r\n2\r\n",
                        "dir": os.path.join(fsroot, "v%d" % i)} for i, p in enumerate(samp)], timeout=60)
    shutil.rmtree(fsroot, ignore_errors=True)
    vruns = [{"id": p["id"], "insns": r["igen"]["insns"], "trace": r.get("trace") or [], "error_steps": r.get("error_steps") or []}
             for p, r in zip(samp, vresps) if r and "igen" in r and "panic" not in r]
    vm = vmtrace.validate("C15", vruns) if vruns else {}
    texts_by_id = {p["id"]: p for p in samp}
    for dr in vm.get("drift", []):
        if dr["id"] in texts_by_id:
            dr["source"] = texts_by_id[dr["id"]]["src"]
            dr["text"] = texts_by_id[dr["id"]]["text"][:1500]
    srccount = {}
    for p in progs:
        k = p["src"].split(":")[0]
        srccount[k] = srccount.get(k, 0) + 1
    coverage = {
        "states": states + res2.distinct, "transitions": trans + res2.generated,
        "traces_validated_against_impl": len(dyn),
        "samples": [{"source": p["src"], "instructions": len(p["insns"]), "statement_addresses": p["stmts"][:12], "text": p["text"][:300]}
                    for p in progs[:: max(1, len(progs) // 3)][:3]],
        "evaluations": len(srcs), "distinct_nontrivial": len({p["text"] for p in progs}),
        "rule": "every accepted program of the C01/C03/C04/C05/C06 families (sampled in quick) and every program text embedded in the "
                "repository's tests and fixtures that the checker accepts: its real instruction list is model-checked by TLC path by "
                "path (call depth <= 3, every depth <= 10); the real runs' depth vectors at statement boundaries are monitored; distinct "
                "by program text",
        "accepted_programs": nacc, "by_source": srccount, "dynamic_runs_monitored": len(dyn),
        "opcode_effects_observed": len(deltas), "drift": drift[:20],
        "vm_conformance": {"module": "Trace_VM / VM.tla", "programs": vm.get("programs", 0), "steps_validated": vm.get("steps_validated", 0),
                           "resynchronisations_on_unmodelled_values": vm.get("resynchronisations", 0),
                           "value_drift": vm.get("drift", [])[:20], "states": vm.get("states", 0)},
        "checker_cmd": cmd, "exhaustive": False,
    }
    assumptions = ["opcode effect table of VMAbs.tla (cross-checked against the effects the hook observed: see 'drift')",
                   "error edges are not explored statically (a handler is entered from the statement boundary after ON ERROR); runs with "
                   "errors are covered by the dynamic monitor",
                   "statement boundaries inside a callee are judged relative to the depths at the call"]
    return rep.finish(coverage, assumptions)
