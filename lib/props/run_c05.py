"""C05 check: label/jump layouts, GOSUB histories and error-trap programs; stdout is the
statement-level trace; each recorded run validated by TLC against Core.tla."""
from corerun import run_property
import c05


def nontrivial(c):
    ks = {s["k"] for s in __import__("mast").all_stmts(c["prog"])}
    return bool(ks & {"goto", "gosub", "return", "onerror", "resume"})


def run(tier, replay):
    return run_property(
        "C05", c05.cases, tier, replay,
        rule="goto: all (source,target) positions of a 5-statement skeleton in main and in a SUB, forward/backward, "
             "plain and from inside IF; goto-loop: all pairs of loop kinds x landing site; gosub: all nesting shapes "
             "(a,c,d) up to 3x3x2 in main/SUB/inside loops; trap: failing statement kind x host block x position x "
             "handler mode, failing block headers, all orders of enabling/disabling handlers; non-trivial = the program "
             "contains a jump or handler statement and TLC accepted the run; distinct by text",
        assumptions=[
            "every statement prints a trace token, so stdout is the statement-level trace",
            "RESUME NEXT on failing block headers and errors inside callees with an active handler are not generated "
            "(the property does not fix them); the spec skips them",
        ], nontrivial=nontrivial)
