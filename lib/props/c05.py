"""C05 — GOTO/GOSUB/RETURN and ON ERROR/RESUME transfer control exactly as written.

Every statement of a generated program prints a trace token, so stdout is the
statement-level trace of the run."""
import random, itertools
from mast import *   # noqa
from c01 import wrap, BLOCKS

LOOPS = ["for+", "for-", "forvar", "while", "dotopwhile", "dobotuntil"]


def tok(b, s, *vs):
    return b.print(lit("$", s), *vs)


def guard_goto(b, label, n=2):
    """IF G% < n THEN G% = G% + 1 : GOTO label (bounded backward jump)"""
    g = var("G", "I")
    return b.if_([(bin_("<", g, lit("I", n)), [b.let(g, bin_("+", g, lit("I", 1))), b.goto(label)])])


def fam_goto(tier, rng):
    out = []
    # forward / backward jumps between top-level positions, in main and inside a SUB
    n = 5
    for src in range(n):
        for dst in range(n + 1):
            for where in ("main", "sub"):
                for via in ("plain", "if"):
                    b = B()
                    body = []
                    for i in range(n + 1):
                        if i == dst:
                            body.append(b.label("L1"))
                        if i < n:
                            body.append(tok(b, "s%d" % i))
                            if i == src:
                                if dst <= src:
                                    body.append(guard_goto(b, "L1"))
                                elif via == "plain":
                                    body.append(b.goto("L1"))
                                else:
                                    body.append(b.if_([(bin_("=", var("G", "I"), lit("I", 0)), [tok(b, "in"), b.goto("L1")])],
                                                      [tok(b, "else")]))
                    body.append(tok(b, "end"))
                    if where == "main":
                        p = prog(body)
                    else:
                        p = prog([tok(b, "m0"), b.call("P", []), tok(b, "m1")], [sub("P", [], body)])
                    out.append({"fam": "goto:%s/%s" % (where, via), "prog": p})
    # leaving one or two loops; landing after them or inside the outer loop body
    kinds = LOOPS if tier == "thorough" else ["for+", "for-", "while", "dobotuntil"]
    for k1 in kinds:
        for k2 in kinds:
            for land in ("after", "outer-tail", "outer-head"):
                for where in ("main", "sub"):
                    b = B()
                    c1, c2 = var("C1", "I"), var("C2", "I")
                    inner_body = [tok(b, "i", c1, c2),
                                  b.if_([(bin_("=", c2, lit("I", 1)), [tok(b, "jump"), b.goto("OUT")])]),
                                  tok(b, "i2", c1, c2)]
                    inner = wrap(b, k2, inner_body, 2)
                    if land == "after":
                        outer_body = [tok(b, "o", c1)] + inner + [tok(b, "o2", c1)]
                        body = wrap(b, k1, outer_body, 1) + [b.label("OUT"), tok(b, "out", c1, c2)]
                    elif land == "outer-tail":
                        outer_body = [tok(b, "o", c1)] + inner + [tok(b, "skipped")] + [b.label("OUT"), tok(b, "t", c1, c2)]
                        body = wrap(b, k1, outer_body, 1) + [tok(b, "done", c1, c2)]
                    else:
                        outer_body = [b.label("OUT"), tok(b, "h", c1), b.let(var("H", "I"), bin_("+", var("H", "I"), lit("I", 1))),
                                      b.if_([(bin_("<", var("H", "I"), lit("I", 3)), inner)])]
                        body = wrap(b, k1, outer_body, 1) + [tok(b, "done", c1, c2)]
                    if where == "main":
                        p = prog(body)
                    else:
                        p = prog([tok(b, "m0"), b.call("P", []), tok(b, "m1")], [sub("P", [], body)])
                    out.append({"fam": "goto-loop:%s/%s/%s/%s" % (k1, k2, land, where), "prog": p})
    # the label sits inside another construct (IF, SELECT, WHILE, DO, FOR) within an enclosing FOR; the GOTO comes from a
    # deeper FOR: the enclosing loops keep their own counter, limit and step
    for mk in ("if", "ifelse", "select", "while", "dotopwhile", "dobotuntil", "for+", "for-"):
        for k0 in ("for+", "for-"):
            for where in ("main", "sub"):
                b = B()
                c1, c3 = var("C1", "I"), var("C3", "I")
                # the inner loop has its own, different limit and step
                inner = [b.for_(c3, lit("I", 10), lit("I", 50), lit("I", 10),
                                [b.if_([(bin_("=", c3, lit("I", 20)), [tok(b, "jump"), b.goto("OUT2")])]), tok(b, "i3", c3)])]
                mbody = [tok(b, "m", c1)] + inner + [tok(b, "skipped"), b.label("OUT2"), tok(b, "t", c1, c3)]
                obody = [tok(b, "o", c1)] + wrap(b, mk, mbody, 2) + [tok(b, "o2", c1)]
                body = wrap(b, k0, obody, 1) + [tok(b, "done", c1, c3)]
                if where == "main":
                    p = prog(body)
                else:
                    p = prog([tok(b, "m0"), b.call("P", []), tok(b, "m1")], [sub("P", [], body)])
                out.append({"fam": "goto-frames:%s/%s/%s" % (k0, mk, where), "prog": p})
    # a block has been completed (SELECT CASE with / without CASE ELSE, FOR, WHILE, IF, nests of them); a GOTO that stands
    # AFTER it in the same body (forward, and backward as a loop) must not believe it is still inside
    for blk in ("select", "select-noelse", "selectelse", "for", "while", "if", "select-noelse+for", "for+select-noelse"):
        for where in ("main", "sub"):
            for inner_loop in (False, True):
                b = B()
                n = var("N", "I")
                body = [tok(b, "in")]
                for lvl, k in enumerate(reversed(blk.split("+"))):
                    v = var("K%d" % lvl, "I")
                    if k == "select":
                        body = [b.select(n, [([eqt(lit("I", 2))], body)], [tok(b, "else")])]
                    elif k == "select-noelse":
                        body = [b.select(n, [([eqt(lit("I", 2))], body), ([eqt(lit("I", 3))], [tok(b, "three")])])]
                    elif k == "selectelse":
                        body = [b.select(n, [([eqt(lit("I", 9))], [tok(b, "nine")])], body)]
                    elif k == "for":
                        body = [b.for_(v, lit("I", 1), lit("I", 2), None, body, hasstep=False)]
                    elif k == "while":
                        body = [b.let(v, lit("I", 0)), b.while_(bin_("<", v, lit("I", 2)), [b.let(v, bin_("+", v, lit("I", 1)))] + body)]
                    else:
                        body = [b.if_([(bin_("=", n, lit("I", 2)), body)], [tok(b, "else")])]
                p_ = var("PASS", "I")
                seq = [b.let(n, lit("I", 2)), b.label("AGAIN"), b.let(p_, bin_("+", p_, lit("I", 1))), tok(b, "pass", p_)] + body + \
                      [b.if_([(bin_("<", p_, lit("I", 3)), [b.goto("AGAIN")])]), b.goto("FWD"), tok(b, "skipped"), b.label("FWD"), tok(b, "fwd")]
                if inner_loop:
                    r = var("RR", "I")
                    seq = [b.for_(r, lit("I", 1), lit("I", 2), None, [b.let(p_, lit("I", 0))] + seq + [tok(b, "r", r)], hasstep=False)]
                    # labels inside the FOR must be unique: one round only uses them; fine (the FOR repeats the same labels' code)
                seq = seq + [tok(b, "end")]
                if where == "main":
                    p = prog(seq)
                else:
                    p = prog([tok(b, "m0"), b.call("P", []), tok(b, "m1")], [sub("P", [], seq)])
                out.append({"fam": "goto-after:%s/%s/%s" % (blk, where, "in-for" if inner_loop else "flat"), "prog": p})
    # leaving a SELECT CASE block (alone, around or inside a FOR) with GOTO: in the main module, in a SUB, and in a
    # FUNCTION that was called while its caller had an operand pending
    for nest in (("select",), ("selectelse",), ("select", "for"), ("for", "select"), ("select", "select"), ("while", "select")):
        for where in ("main", "sub", "fun-operand"):
            for times in (1, 3):
                b = B()
                n = var("N", "I")
                body = [tok(b, "jump"), b.goto("OUT3")]
                for lvl, k in enumerate(reversed(nest)):
                    v = var("K%d" % lvl, "I")
                    if k == "select":
                        body = [b.select(n, [([eqt(lit("I", 2))], body)], [tok(b, "else")])]
                    elif k == "selectelse":
                        body = [b.select(n, [([eqt(lit("I", 9))], [tok(b, "nine")])], body)]
                    elif k == "for":
                        body = [b.for_(v, lit("I", 1), lit("I", 3), None, body, hasstep=False)]
                    else:
                        body = [b.let(v, lit("I", 0)), b.while_(bin_("<", v, lit("I", 2)), [b.let(v, bin_("+", v, lit("I", 1)))] + body)]
                body = body + [tok(b, "skipped"), b.label("OUT3"), tok(b, "landed")]
                if where == "main":
                    r = var("RR", "I")
                    if times == 3:
                        # the jump happens once per iteration of an enclosing FOR (label inside that FOR)
                        p = prog([b.let(n, lit("I", 2)), b.for_(r, lit("I", 1), lit("I", 3), None, body, hasstep=False), tok(b, "end", r)])
                    else:
                        p = prog([b.let(n, lit("I", 2))] + body + [tok(b, "end")])
                elif where == "sub":
                    calls = [b.call("P", [lit("I", 2)]) for _ in range(times)]
                    p = prog([tok(b, "m0")] + calls + [tok(b, "m1")], [sub("P", [("N", "I")], body)])
                else:
                    main = []
                    for _ in range(times):
                        fc = fcall("F", "I", [lit("I", 2)], 0)
                        st = tok(b, "res", bin_("+", lit("I", 1), fc))
                        fc["sid"] = st["id"]
                        main.append(st)
                    p = prog(main + [tok(b, "end")], [fun("F", "I", [("N", "I")], body + [b.let(var("F", "I"), lit("I", 10))])])
                out.append({"fam": "goto-select:%s/%s/%d" % ("+".join(nest), where, times), "prog": p})
    return out


def fam_gosub(tier, rng):
    out = []
    # GOSUB nesting histories: each subroutine may call deeper ones
    # routines R1..R3 at the end of main, guarded by END
    shapes = []
    for a in range(0, 4):
        for c in range(0, 4):
            for d in range(0, 3):
                shapes.append((a, c, d))
    for (a, c, d) in shapes:
        for where in ("main", "sub"):
            for loop in (None, "for+", "for-", "while"):
                b = B()
                calls = [tok(b, "start")]
                core = []
                for i in range(a):
                    core += [b.gosub("R1"), tok(b, "back1")]
                if loop:
                    calls += wrap(b, loop, core + [tok(b, "it", var("C1", "I"))], 1)
                else:
                    calls += core
                calls += [tok(b, "fin")]
                r1 = [b.label("R1"), tok(b, "r1")]
                for i in range(c):
                    r1 += [b.gosub("R2"), tok(b, "back2")]
                r1 += [b.ret()]
                r2 = [b.label("R2"), tok(b, "r2")]
                for i in range(d):
                    r2 += [b.gosub("R3"), tok(b, "back3")]
                r2 += [b.ret()]
                r3 = [b.label("R3"), tok(b, "r3"), b.ret()]
                if where == "main":
                    p = prog(calls + [b.end()] + r1 + r2 + r3)
                else:
                    p = prog([tok(b, "m0"), b.call("P", []), tok(b, "m1")],
                             [sub("P", [], calls + [b.exit("sub")] + r1 + r2 + r3)])
                out.append({"fam": "gosub:%d%d%d/%s/%s" % (a, c, d, where, loop), "prog": p})
    # RETURN without GOSUB, RETURN label
    for pre in range(0, 3):
        b = B()
        body = [tok(b, "a")] + [x for i in range(pre) for x in (b.gosub("R"), tok(b, "bk"))] + [b.ret(), tok(b, "never"), b.end(),
                b.label("R"), tok(b, "r"), b.ret()]
        out.append({"fam": "return-without-gosub", "prog": prog(body)})
    for pre in range(1, 3):
        b = B()
        body = [tok(b, "a")] + [x for i in range(pre) for x in (b.gosub("R"), tok(b, "bk"))] + [tok(b, "x"), b.label("ALT"), tok(b, "alt"), b.end(),
                b.label("R"), tok(b, "r"), b.ret("ALT")]
        out.append({"fam": "return-label", "prog": prog(body)})
    # RETURN label consumes its GOSUB like a plain RETURN: a later RETURN continues after the GOSUB before it,
    # and with none left it is error 3
    for depth in range(1, 4):
        for where in ("main",):          # RETURN label is a module-level form (the checker rejects it in a subprogram)
            for stray in (False, True):
                b = B()
                body = [tok(b, "a")]
                routines = []
                # routine Ri: GOSUB R(i+1) ... ; the innermost returns to a label inside its caller
                body += [b.gosub("R1"), tok(b, "back0")]
                if depth == 1:
                    body += [b.label("LAND"), tok(b, "land")]
                if stray:
                    body += [b.ret(), tok(b, "never")]
                for i in range(1, depth + 1):
                    r = [b.label("R%d" % i), tok(b, "r%d" % i)]
                    if i < depth:
                        r += [b.gosub("R%d" % (i + 1)), tok(b, "skipped%d" % i), b.label("AFTER%d" % i), tok(b, "after%d" % i), b.ret()]
                    else:
                        r += [b.ret("AFTER%d" % (i - 1))] if depth > 1 else [b.ret("LAND")]
                    routines += r
                if where == "main":
                    p = prog(body + [b.end()] + routines)
                else:
                    p = prog([tok(b, "m0"), b.call("P", []), tok(b, "m1")], [sub("P", [], body + [b.exit("sub")] + routines)])
                out.append({"fam": "return-label-nested:%d/%s/%s" % (depth, where, stray), "prog": p})
    return out


def failing(b, kind):
    """a statement that fails while Q% = 0 and succeeds once Q% = 1 (the handler repairs Q%); the statement carries the
    mark `fails` (read by lib/features.py only)"""
    st, code = _failing(b, kind)
    st["fails"] = True
    return st, code


def _failing(b, kind):
    q = var("Q", "I")
    if kind == "div":
        return b.let(var("Z", "I"), bin_("/", lit("I", 6), q)), 11
    if kind == "ovf":
        # 32767 + (1 - Q%) overflows when Q% = 0
        return b.let(var("Z", "I"), bin_("+", var("M", "I"), par(bin_("-", lit("I", 1), q)))), 6
    if kind == "castovf":
        return b.let(var("Z", "I"), bin_("-", lit("L", 40000), bin_("*", q, lit("I", 10000)))), 6
    if kind == "subscript":
        return b.let(idx("AR", "I", [bin_("-", lit("I", 4), q)]), lit("I", 1)), 9
    if kind == "print":
        return b.print(lit("$", "v"), bin_("mod", lit("I", 7), q)), 11
    if kind == "nodata":
        return b.read(var("Z", "I")), 4
    # the failing expression is an argument of a call that is itself an argument of another call (the subprograms
    # FA%, GA% and PA are added by call_subs): the half-collected argument lists must be forgotten
    # a call (of an ordinary / a STATIC function) has already RETURNED when the statement fails: what the call
    # pushed and popped must leave the statement's own bookkeeping as it was
    # a built-in function fails (it has a context and a call-stack entry of its own): MID$("abcd", Q%, 1) with Q% = 0
    if kind == "builtin":
        return b.let(var("ZS", "$"), bin_("+", lit("$", "<"), bcall("MID$", lit("$", "abcd"), q, lit("I", 2)))), 5
    if kind in ("aftercall", "afterstatic"):
        c1 = fcall("FA" if kind == "aftercall" else "FS", "I", [lit("I", 6)], 0)
        st = b.let(var("Z", "I"), bin_("/", c1, q))
        c1["sid"] = st["id"]
        return st, 11
    if kind in ("argcall", "argnest", "arg2", "idxcall"):
        div = bin_("/", lit("I", 6), q)
        if kind == "argcall":
            c1 = fcall("FA", "I", [div], 0)
            st = b.call("PA", [c1, lit("I", 2)])
            calls = [c1]
        elif kind == "argnest":
            c2 = fcall("GA", "I", [div], 0)
            c1 = fcall("FA", "I", [c2], 0)
            st = b.let(var("Z", "I"), bin_("+", c1, lit("I", 1)))
            calls = [c1, c2]
        elif kind == "arg2":
            st = b.call("PA", [lit("I", 1), div])
            calls = []
        else:
            c1 = fcall("FA", "I", [bin_("-", lit("I", 7), bin_("/", lit("I", 6), q))], 0)     # 7 - 6 = 1 once Q% = 1
            st = b.let(idx("AR", "I", [c1]), lit("I", 1))
            calls = [c1]
        for c in calls:
            c["sid"] = st["id"]
        return st, 11
    raise ValueError(kind)


def call_subs(b):
    x = var("X", "I")
    return [fun("FA", "I", [("X", "I")], [b.let(var("FA", "I"), x)]), fun("GA", "I", [("X", "I")], [b.let(var("GA", "I"), bin_("+", x, lit("I", 1)))]),
            fun("FS", "I", [("X", "I")], [b.let(var("FS", "I"), x)], static=True),
            sub("PA", [("X", "I"), ("Y", "I")], [b.print(lit("$", "pa"), x, var("Y", "I"))])]


CALLKINDS = ("argcall", "argnest", "arg2", "idxcall", "aftercall", "afterstatic")


FKINDS = ["div", "ovf", "castovf", "subscript", "print", "argcall", "argnest", "arg2", "idxcall", "aftercall", "afterstatic", "builtin"]
HOSTS = ["main", "if", "ifthen", "ifelse", "elseif", "select", "selectelse", "selectlast", "for+", "for-", "while", "dotopwhile", "dobotuntil", "sub"]


def fam_trap(tier, rng):
    out = []
    fk = FKINDS if tier == "thorough" else ["div", "subscript", "ovf", "argcall", "argnest", "arg2", "builtin"]
    for kind in fk:
        for host in HOSTS:
            for where in ("only", "first", "middle", "last"):
                for mode in ("resume", "resumenext", "resumelabel", "onerrornext", "goto0", "none"):
                    b = B()
                    pre = [b.dim("AR", "I", [{"lo": lit("I", 0), "hi": lit("I", 3), "nolo": False}]),
                           b.let(var("M", "I"), lit("I", 32767))]
                    f, code = failing(b, kind)
                    p1, p2 = tok(b, "p1"), tok(b, "p2")
                    body = {"only": [f], "first": [f, p1], "middle": [p1, f, p2], "last": [p1, f]}[where]
                    subs = []
                    if host == "main":
                        core = body
                    elif host == "sub":
                        core = [tok(b, "c0"), b.call("P", []), tok(b, "c1")]
                        subs = [sub("P", [], [b.dim("AR", "I", [{"lo": lit("I", 0), "hi": lit("I", 3), "nolo": False}]),
                                              b.let(var("M", "I"), lit("I", 32767))] + body + [tok(b, "pend")])]
                    elif host == "ifthen":
                        core = [b.let(var("C1", "I"), lit("I", 5)),
                                b.if_([(bin_("=", var("C1", "I"), lit("I", 5)), body),
                                       (bin_("=", var("C1", "I"), lit("I", 5)), [tok(b, "wrong-elseif")])], [tok(b, "wrong-else")])]
                    else:
                        core = wrap(b, host, body, 1)
                    # ERR is shown again after the recovery: every form of RESUME clears it
                    tail = [tok(b, "after", var("Q", "I")), b.label("FIN"), tok(b, "fin", {"k": "err"}), b.end()]
                    if mode == "none":
                        main = pre + core + tail
                    elif mode == "onerrornext":
                        main = pre + [b.onerror("next")] + core + tail
                    elif mode == "goto0":
                        main = pre + [b.onerror("goto", "H"), b.onerror("zero")] + core + tail + \
                            [b.label("H"), tok(b, "h", {"k": "err"}), b.resume("next")]
                    else:
                        hb = [b.label("H"), tok(b, "h", {"k": "err"})]
                        if mode == "resume":
                            hb += [b.let(var("Q", "I"), lit("I", 1)), b.let(var("T", "I"), lit("I", 7)), b.resume("bare")]
                        elif mode == "resumenext":
                            hb += [b.let(var("T", "I"), lit("I", 7)), b.resume("next")]
                        else:
                            hb += [b.let(var("T", "I"), lit("I", 7)), b.resume("label", "FIN")]
                        main = pre + [b.onerror("goto", "H")] + core + [tok(b, "t", var("T", "I"))] + tail + hb
                    if host == "sub" and mode == "resume":
                        # the SUB has its own Q%; repairing the module-level one would loop forever
                        continue
                    if kind in CALLKINDS:
                        if tier == "quick" and where in ("first", "middle"):
                            continue
                        subs = subs + call_subs(b)
                        # after the handled error: calls that must still work with clean argument lists
                        main = main[:]
                        k = [i for i, x in enumerate(main) if x.get("k") == "label" and x.get("l") == "FIN"][0]
                        main[k:k] = [b.call("PA", [lit("I", 8), lit("I", 9)])]
                    out.append({"fam": "trap:%s/%s/%s/%s" % (kind, host, where, mode), "prog": prog(main, subs)})
    # the failing statement is the last (or only) one of a block that stands inside a loop and fails in every round:
    # whatever the block keeps on the machine's stacks is released in every round
    for kind in ("div", "subscript", "argcall", "builtin"):
        for host in ("select", "selectelse", "if", "ifelse", "elseif", "while", "dobotuntil", "for+"):
            for where in ("only", "last"):
                for mode in ("resumenext", "onerrornext"):
                    b = B()
                    pre = [b.dim("AR", "I", [{"lo": lit("I", 0), "hi": lit("I", 3), "nolo": False}]), b.let(var("M", "I"), lit("I", 32767))]
                    f, code = failing(b, kind)
                    body = [f] if where == "only" else [tok(b, "p1"), f]
                    r = var("RR", "I")
                    loop = b.for_(r, lit("I", 1), lit("I", 3), None, [tok(b, "round", r)] + wrap(b, host, body, 1) + [tok(b, "tail", r)], hasstep=False)
                    subs = call_subs(b) if kind in CALLKINDS else []
                    tail = [tok(b, "after", r), b.end()]
                    if mode == "onerrornext":
                        main = pre + [b.onerror("next"), loop] + tail
                    else:
                        main = pre + [b.onerror("goto", "H"), loop] + tail + [b.label("H"), tok(b, "h", {"k": "err"}), b.resume("next")]
                    out.append({"fam": "trap-loop:%s/%s/%s/%s" % (kind, host, where, mode), "prog": prog(main, subs)})
    # the failing statement is the very last statement of the main module (no END after it) and procedures follow: after
    # ON ERROR RESUME NEXT the program simply ends - it does not run on into the first procedure
    for kind in ("div", "subscript", "builtin"):
        for nprocs in (1, 2):
            for host in ("main", "if", "for+", "select"):
                b = B()
                pre = [b.dim("AR", "I", [{"lo": lit("I", 0), "hi": lit("I", 3), "nolo": False}]), b.onerror("next"), tok(b, "a")]
                f, code = failing(b, kind)
                core = [f] if host == "main" else wrap(b, host, [f], 1)
                subs = [sub("PX", [], [tok(b, "in-px-nobody-calls")])]
                if nprocs == 2:
                    subs.insert(0, fun("FX", "I", [], [tok(b, "in-fx-nobody-calls"), b.let(var("FX", "I"), lit("I", 1))]))
                out.append({"fam": "trap-last-main:%s/%d/%s" % (kind, nprocs, host), "prog": prog(pre + core, subs)})
    # bare RESUME after an error inside a SUB / FUNCTION: the statement is executed again IN that procedure (its locals), the
    # handler having repaired a SHARED variable
    for kind in ("sub", "fun"):
        for depth in (1, 2):
            b = B()
            gq = var("GQ", "I")
            loc = var("LOC", "I")
            z = var("Z", "I")
            fail = b.let(z, bin_("+", loc, bin_("/", lit("I", 6), gq)))
            pbody = [b.let(loc, lit("I", 30)), tok(b, "p-in", loc), fail, tok(b, "p-after", loc, z)]
            subs = []
            if kind == "sub":
                subs.append(sub("PS", [("X", "I")], pbody))
                call_inner = b.call("PS", [lit("I", 1)])
            else:
                subs.append(fun("PF", "I", [("X", "I")], pbody + [b.let(var("PF", "I"), z)]))
                fc = fcall("PF", "I", [lit("I", 1)], 0)
                call_inner = tok(b, "res", bin_("+", lit("I", 100), fc))
                fc["sid"] = call_inner["id"]
            if depth == 2:
                subs.append(sub("OUTER", [], [b.let(var("OL", "I"), lit("I", 5)), call_inner, tok(b, "outer", var("OL", "I"))]))
                call = b.call("OUTER", [])
            else:
                call = call_inner
            main = [b.dim("GQ", "I", shared=True), b.let(var("LOC", "I"), lit("I", 77)), b.onerror("goto", "H"), call,
                    tok(b, "main", var("LOC", "I"), var("Z", "I")), b.end(),
                    b.label("H"), tok(b, "h", {"k": "err"}), b.let(gq, lit("I", 2)), b.resume("bare")]
            out.append({"fam": "trap-resume-in-proc:%s/%d" % (kind, depth), "prog": prog(main, subs)})
    # failing block headers with RESUME (re-execute) and RESUME label
    for hk in ("if", "while", "for", "select", "dotop", "elseif", "elseif2", "case", "case2", "caserange", "dobot"):
        for mode in ("resume", "resumelabel", "none"):
            b = B()
            q = var("Q", "I")
            cond = bin_(">", bin_("/", lit("I", 6), q), lit("I", 100))
            w = var("W", "I")
            if hk in ("elseif", "elseif2"):
                # the conditions before the failing one do not depend on what the handler repairs
                arms = [(bin_("=", w, lit("I", 5)), [tok(b, "then")])] + ([(bin_("=", w, lit("I", 6)), [tok(b, "second")])] if hk == "elseif2" else []) + \
                       [(bin_(">", bin_("/", lit("I", 6), q), lit("I", 2)), [tok(b, "elseif")])]
                st = b.if_(arms, [tok(b, "else")])
            elif hk in ("case", "case2", "caserange"):
                tests = {"case": [eqt(bin_("/", lit("I", 6), q))], "case2": [eqt(lit("I", 4)), eqt(bin_("/", lit("I", 6), q))],
                         "caserange": [rtest(lit("I", 5), bin_("/", lit("I", 12), q))]}[hk]
                st = b.select(lit("I", 6), [([eqt(lit("I", 1))], [tok(b, "one")]), (tests, [tok(b, "case")])], [tok(b, "other")])
            elif hk == "dobot":
                st = b.do("bot", "until", bin_(">", bin_("/", lit("I", 6), q), lit("I", 2)), [b.let(w, bin_("+", w, lit("I", 1))), tok(b, "body", w)])
            elif hk == "if":
                st = b.if_([(cond, [tok(b, "then")])], [tok(b, "else")])
            elif hk == "while":
                st = b.while_(cond, [tok(b, "body")])
            elif hk == "dotop":
                st = b.do("top", "while", cond, [tok(b, "body")])
            elif hk == "for":
                st = b.for_(var("K", "I"), lit("I", 1), bin_("/", lit("I", 2), q), None, [tok(b, "body", var("K", "I"))])
            else:
                st = b.select(bin_("/", lit("I", 6), q), [([eqt(lit("I", 6))], [tok(b, "six")])], [tok(b, "other")])
            hb = [b.label("H"), tok(b, "h", {"k": "err"}), b.let(q, lit("I", 1))]
            hb += [b.resume("bare")] if mode == "resume" else [b.resume("label", "FIN")]
            main = ([b.onerror("goto", "H")] if mode != "none" else []) + [tok(b, "a"), st, tok(b, "b"), b.label("FIN"), tok(b, "fin"), b.end()] + hb
            out.append({"fam": "trap-header:%s/%s" % (hk, mode), "prog": prog(main)})
    # orders of enabling / disabling handlers
    acts = ["goto", "next", "zero"]
    for seq in itertools.product(acts, repeat=2 if tier == "quick" else 3):
        b = B()
        main = []
        for a in seq:
            main.append(b.onerror(a, "H" if a == "goto" else ""))
            f, _ = failing(b, "div")
            main += [tok(b, "before"), f, tok(b, "afterf")]
        main += [b.label("FIN"), tok(b, "fin"), b.end(), b.label("H"), tok(b, "h", {"k": "err"}), b.resume("next")]
        out.append({"fam": "trap-order:" + "".join(x[0] for x in seq), "prog": prog(main)})
    # RESUME without an error: error 20
    b = B()
    out.append({"fam": "resume-without-error", "prog": prog([tok(b, "a"), b.resume("next"), tok(b, "b")])})
    return out


def fam_pending(tier, rng):
    """a statement fails, under a handler, inside a FUNCTION that was called while the caller had an operand
    pending: after RESUME NEXT / RESUME the caller must still find ITS operand"""
    out = []
    for kind in ("div", "ovf", "subscript", "argnest", "aftercall", "afterstatic", "builtin"):
        for mode in ("resumenext", "onerrornext", "resume"):
            for depth, static, host in ((1, False, "plain"), (2, False, "plain"), (1, True, "plain"), (2, True, "plain"),
                                        (1, False, "selectlast"), (2, False, "selectelse"), (1, False, "select"), (1, False, "for+"), (1, True, "selectlast")):
                b = B()
                q = var("Q", "I")
                f, code = failing(b, kind)
                # the failing statement keeps an operand on the value stack: 7 + (failing expression) where possible
                if f["k"] == "let" and f["lhs"]["k"] == "var":
                    f["e"] = bin_("+", lit("$", "p") if f["lhs"]["t"] == "$" else lit("I", 7), par(f["e"]))
                fb = [b.dim("AR", "I", [{"lo": lit("I", 0), "hi": lit("I", 3), "nolo": False}]), b.let(var("M", "I"), lit("I", 32767))]
                if mode == "resume":
                    fb.append(b.let(q, var("GQ", "I")))          # the handler repairs the SHARED GQ%; the body re-reads it
                # the failing statement may be the last one of a block of the function (of the last CASE block of a SELECT
                # CASE without CASE ELSE ...): the block's end is what RESUME NEXT continues with
                fb += [tok(b, "f-in")] + ([f] if host == "plain" else wrap(b, host, [tok(b, "w"), f], 1)) + [tok(b, "f-out"), b.let(var("FB", "I"), lit("I", 1))]
                subs = [fun("FB", "I", [("X", "I")], fb, static=static)] + (call_subs(b) if kind in CALLKINDS else [])
                c1 = fcall("FB", "I", [lit("I", 0)], 0)
                e = bin_("+", lit("I", 100), c1)
                if depth == 2:
                    c0 = fcall("FO", "I", [lit("I", 0)], 0)
                    inner = b.let(var("FO", "I"), e)
                    c1["sid"] = inner["id"]
                    subs.append(fun("FO", "I", [("X", "I")], [tok(b, "o-in"), inner], static=static))
                    st = tok(b, "res", bin_("*", lit("I", 2), c0))
                    c0["sid"] = st["id"]
                else:
                    st = tok(b, "res", e)
                    c1["sid"] = st["id"]
                tail = [tok(b, "after"), b.end()]
                if mode == "onerrornext":
                    main = [b.onerror("next"), st] + tail
                elif mode == "resumenext":
                    main = [b.onerror("goto", "H"), st] + tail + [b.label("H"), tok(b, "h", {"k": "err"}), b.resume("next")]
                else:
                    main = [b.dim("GQ", "I", shared=True), b.onerror("goto", "H"), st] + tail + \
                        [b.label("H"), tok(b, "h", {"k": "err"}), b.let(var("GQ", "I"), lit("I", 1)), b.resume("bare")]
                    if kind in ("ovf",):
                        continue
                out.append({"fam": "pending:%s/%s/%d%s%s" % (kind, mode, depth, "/static" if static else "", "" if host == "plain" else "/" + host), "prog": prog(main, subs)})
    return out


FAMILIES = [fam_goto, fam_gosub, fam_trap, fam_pending]


def fam_trap_first(tier, rng):
    """statements that fail on their very first machine instruction (RETURN without GOSUB, READ past the last DATA item,
    RESUME without an error, an undimensioned place) under a handler that answers RESUME twice and RESUME NEXT the third time:
    RESUME re-executes exactly the failing statement, whatever stands before it (another statement, a label, a block end)"""
    out = []
    for kind in ("return", "read", "resume", "resumenext"):
        for before in ("print", "let", "label", "blockend", "call", "first"):
            for host in ("main", "select", "for", "if"):
                b = B()
                n = var("N", "I")
                if kind == "return":
                    f = b.ret()
                elif kind == "read":
                    f = b.read(var("Z", "I"))
                else:
                    f = b.resume("bare" if kind == "resume" else "next")
                pre = {"print": [tok(b, "before")], "let": [b.let(var("W", "I"), bin_("+", var("W", "I"), lit("I", 1)))], "label": [b.label("L1")],
                       "blockend": [b.if_([(bin_("=", n, lit("I", 0)), [tok(b, "blk")])])], "call": [b.call("PP", [])], "first": []}[before]
                core = pre + [f, tok(b, "after", n, var("W", "I"))]
                if host != "main":
                    if before == "label":
                        continue
                    core = wrap(b, {"select": "select", "for": "for+", "if": "if"}[host], core, 1)
                main = [b.onerror("goto", "H")] + ([tok(b, "start")] if before != "first" or host != "main" else []) + core + [tok(b, "fin", n), b.end(),
                        b.label("H"), b.let(n, bin_("+", n, lit("I", 1))), tok(b, "h", n, {"k": "err"}),
                        b.if_([(bin_("<", n, lit("I", 3)), [b.resume("bare")])]), b.resume("next")]
                out.append({"fam": "trap-first:%s/%s/%s" % (kind, before, host), "prog": prog(main, [sub("PP", [], [tok(b, "pp")])])})
    return out


FAMILIES.append(fam_trap_first)


def fam_partial(tier, rng):
    """READ with several variables when the data runs out in the middle: the variables before the failing one have their
    values; RETURN inside a procedure while only its callers have a GOSUB pending: error 3, and the callers' GOSUB still stands"""
    out = []
    for ndata in (0, 1, 2):
        for mode in ("resumenext", "onerrornext", "none"):
            b = B()
            a, c, d = var("A", "I"), var("C", "$"), var("D", "I")
            main = [b.data(*[num(7), lit("$", "x")][:ndata])] if ndata else []
            main += ([b.onerror("goto", "H")] if mode == "resumenext" else [b.onerror("next")] if mode == "onerrornext" else [])
            main += [tok(b, "a"), b.read(a, c, d), tok(b, "after", a, c, d), b.end(), b.label("H"), tok(b, "h", {"k": "err"}), b.resume("next")]
            out.append({"fam": "read-partial:%d/%s" % (ndata, mode), "prog": prog(main)})
    for callee in ("sub", "fun", "subsub"):
        for mode in ("none", "resumenext", "onerrornext"):
            b = B()
            body = [tok(b, "in"), b.ret(), tok(b, "afterret")]
            if callee == "fun":
                subs = [fun("F", "I", [], body + [b.let(var("F", "I"), lit("I", 4))])]
                fc = fcall("F", "I", [], 0)
                call = tok(b, "f", fc)
                fc["sid"] = call["id"]
            elif callee == "sub":
                subs = [sub("S", [], body)]
                call = b.call("S", [])
            else:
                subs = [sub("S", [], [b.call("T", []), tok(b, "s")]), sub("T", [], body)]
                call = b.call("S", [])
            main = ([b.onerror("goto", "H")] if mode == "resumenext" else [b.onerror("next")] if mode == "onerrornext" else []) + \
                   [b.gosub("R"), tok(b, "back"), b.end(), b.label("R"), tok(b, "r"), call, tok(b, "rdone"), b.ret(),
                    b.label("H"), tok(b, "h", {"k": "err"}), b.resume("next")]
            out.append({"fam": "return-in-proc:%s/%s" % (callee, mode), "prog": prog(main, subs)})
    return out


FAMILIES.append(fam_partial)


def fam_resume_label_proc(tier, rng):
    """an error inside a SUB (one or two calls deep, also a STATIC one, also with a GOSUB pending there), answered by RESUME
    label: the module goes on at the label with ITS variables, the SUB can be called again, a GOSUB that was pending in the
    module can still be returned from, and later errors are reported as errors of the module"""
    out = []
    for kind in ("div", "subscript", "builtin"):
        for depth in (1, 2):
            for static in (False, True):
                for extra in ("plain", "gosub-in-main", "gosub-in-sub", "for-in-sub"):
                    b = B()
                    a = var("A", "I")
                    f, code = failing(b, kind)
                    body = [b.dim("AR", "I", [{"lo": lit("I", 0), "hi": lit("I", 3), "nolo": False}]), b.let(var("M", "I"), lit("I", 32767)),
                            b.let(var("LOC", "I"), bin_("+", var("LOC", "I"), lit("I", 1))), tok(b, "in", var("LOC", "I"))]
                    if extra == "gosub-in-sub":
                        body += [b.gosub("SL"), tok(b, "notreached"), b.exit("sub"), b.label("SL"), f, b.ret()]
                    elif extra == "for-in-sub":
                        body += [b.for_(var("J", "I"), lit("I", 1), lit("I", 3), None, [f, tok(b, "j", var("J", "I"))], hasstep=False)]
                    else:
                        body += [f, tok(b, "notreached")]
                    subs = [sub("P", [], body, static=static)]
                    call = b.call("P", [])
                    if depth == 2:
                        subs.append(sub("OUTER", [], [b.let(var("OL", "I"), lit("I", 5)), b.call("P", []), tok(b, "outer")]))
                        call = b.call("OUTER", [])
                    n = var("N", "I")
                    main = [b.onerror("goto", "H"), b.let(a, lit("I", 5))]
                    core = [b.label("AGAIN"), b.let(n, bin_("+", n, lit("I", 1))), tok(b, "round", n, a),
                            b.if_([(bin_("<", n, lit("I", 3)), [call])]), tok(b, "done", n, a)]
                    if extra == "gosub-in-main":
                        main += [b.gosub("G"), tok(b, "back", a), b.end(), b.label("G")] + core + [b.ret()]
                    else:
                        main += core + [b.end()]
                    main += [b.label("H"), tok(b, "h", {"k": "err"}, a), b.let(a, bin_("+", a, lit("I", 1))), b.resume("label", "AGAIN")]
                    out.append({"fam": "trap-resume-label-in-proc:%s/%d/%s/%s" % (kind, depth, "static" if static else "plain", extra), "prog": prog(main, subs)})
    return out


FAMILIES.append(fam_resume_label_proc)


def fam_resume_label_out(tier, rng):
    """RESUME label out of blocks of the module: the failing statement stands inside a FOR body / a SELECT CASE block / both,
    nested in an outer FOR; the label stands inside the outer FOR behind the inner block, in front of it, or behind the outer FOR"""
    out = []
    for kind in ("div", "subscript"):
        for inner in ("for", "select", "for+select", "select+for", "while", "proc-for"):
            for where in ("behind-inner", "before-inner", "behind-outer"):
                b = B()
                i, j = var("I", "I"), var("J", "I")
                f, code = failing(b, kind)
                core = [f, tok(b, "ok", i)]
                subs = []

                def wrap1(k, body):
                    if k == "for":
                        return [b.for_(j, lit("I", 1), lit("I", 3), None, body + [tok(b, "j", j)], hasstep=False)]
                    if k == "select":
                        return [b.select(lit("I", 2), [([eqt(lit("I", 2))], body)], [tok(b, "else")])]
                    return [b.let(var("W", "I"), lit("I", 0)), b.while_(bin_("<", var("W", "I"), lit("I", 2)), [b.let(var("W", "I"), bin_("+", var("W", "I"), lit("I", 1)))] + body)]
                if inner == "proc-for":
                    subs = [sub("P", [], [b.dim("AR", "I", [{"lo": lit("I", 0), "hi": lit("I", 3), "nolo": False}])] + wrap1("for", core))]
                    blk = [b.call("P", [])]
                else:
                    blk = core
                    for k in reversed(inner.split("+")):
                        blk = wrap1(k, blk)
                pre = [b.dim("AR", "I", [{"lo": lit("I", 0), "hi": lit("I", 3), "nolo": False}])]
                lab = [b.label("L"), tok(b, "at-l", i)]
                if where == "behind-inner":
                    body = [tok(b, "i", i)] + blk + lab
                    tail = []
                elif where == "before-inner":
                    body = [tok(b, "i", i)] + lab + blk
                    tail = []
                else:
                    body = [tok(b, "i", i)] + blk
                    tail = lab
                main = pre + [b.onerror("goto", "H"), b.for_(i, lit("I", 1), lit("I", 2), None, body, hasstep=False)] + tail + \
                       [tok(b, "done", i), b.end(), b.label("H"), tok(b, "h", {"k": "err"}), b.let(var("Q", "I"), lit("I", 1)), b.resume("label", "L")]
                out.append({"fam": "trap-resume-label-out:%s/%s/%s" % (kind, inner, where), "prog": prog(main, subs)})
    return out


FAMILIES.append(fam_resume_label_out)


def fam_trap_then_jump(tier, rng):
    """the statement right behind the failing one is a jump (GOTO out of a FOR body / out of a SELECT CASE block / forward in the
    same block, GOSUB, EXIT SUB, RETURN): RESUME NEXT continues WITH that jump"""
    out = []
    for kind in ("div", "subscript", "builtin"):
        for jump in ("goto-out-of-for", "goto-out-of-select", "goto-forward", "gosub", "return", "exit-sub"):
            for mode in ("resumenext", "onerrornext"):
                b = B()
                i, j = var("I", "I"), var("J", "I")
                f, code = failing(b, kind)
                pre = [b.dim("AR", "I", [{"lo": lit("I", 0), "hi": lit("I", 3), "nolo": False}]), b.let(var("M", "I"), lit("I", 32767))]
                on = [b.onerror("goto", "H")] if mode == "resumenext" else [b.onerror("next")]
                hb = [b.label("H"), tok(b, "h", {"k": "err"}), b.resume("next")]
                subs = []
                if jump == "goto-out-of-for":
                    body = [tok(b, "i", i), b.for_(j, lit("I", 1), lit("I", 3), None, [tok(b, "j", j), f, b.goto("OUT"), tok(b, "jumped-over")], hasstep=False),
                            b.label("OUT"), tok(b, "out", i, j)]
                    core = [b.for_(i, lit("I", 1), lit("I", 2), None, body, hasstep=False)]
                elif jump == "goto-out-of-select":
                    body = [tok(b, "i", i), b.select(i, [([eqt(lit("I", 1)), eqt(lit("I", 2))], [f, b.goto("OUT"), tok(b, "jumped-over")])], [tok(b, "else")]),
                            b.label("OUT"), tok(b, "out", i)]
                    core = [b.for_(i, lit("I", 1), lit("I", 2), None, body, hasstep=False)]
                elif jump == "goto-forward":
                    core = [tok(b, "a"), f, b.goto("OUT"), tok(b, "jumped-over"), b.label("OUT"), tok(b, "out")]
                elif jump == "gosub":
                    core = [tok(b, "a"), f, b.gosub("G"), tok(b, "back"), b.goto("FIN"), b.label("G"), tok(b, "g"), b.ret(), b.label("FIN")]
                elif jump == "return":
                    core = [b.gosub("G"), tok(b, "back"), b.goto("FIN"), b.label("G"), tok(b, "g"), f, b.ret(), tok(b, "not-here"), b.label("FIN")]
                else:
                    subs = [sub("P", [], [b.dim("AR", "I", [{"lo": lit("I", 0), "hi": lit("I", 3), "nolo": False}]), b.let(var("M", "I"), lit("I", 32767)),
                                          tok(b, "in"), f, b.exit("sub"), tok(b, "not-here")])]
                    core = [b.call("P", []), tok(b, "after-p")]
                main = pre + on + core + [tok(b, "fin"), b.end()] + hb
                out.append({"fam": "trap-then-jump:%s/%s/%s" % (kind, jump, mode), "prog": prog(main, subs)})
    return out


FAMILIES.append(fam_trap_then_jump)


def fam_return_label_out(tier, rng):
    """RETURN label from a routine that was entered by a GOSUB inside a FOR body / SELECT CASE block nested in an outer FOR: the
    label stands inside the outer FOR behind the inner block, or behind the outer FOR"""
    out = []
    for inner in ("for", "select", "for+select", "while"):
        for where in ("behind-inner", "behind-outer"):
            b = B()
            i, j = var("I", "I"), var("J", "I")
            core = [b.if_([(bin_("=", var("G", "I"), lit("I", 0)), [b.let(var("G", "I"), lit("I", 1)), b.gosub("SR")])]), tok(b, "ok", i)]

            def wrap1(k, body):
                if k == "for":
                    return [b.for_(j, lit("I", 1), lit("I", 3), None, body + [tok(b, "j", j)], hasstep=False)]
                if k == "select":
                    return [b.select(lit("I", 2), [([eqt(lit("I", 2))], body)], [tok(b, "else")])]
                return [b.let(var("W", "I"), lit("I", 0)), b.while_(bin_("<", var("W", "I"), lit("I", 2)), [b.let(var("W", "I"), bin_("+", var("W", "I"), lit("I", 1)))] + body)]
            blk = core
            for k in reversed(inner.split("+")):
                blk = wrap1(k, blk)
            lab = [b.label("L"), tok(b, "at-l", i)]
            body = [tok(b, "i", i)] + blk + (lab if where == "behind-inner" else [])
            main = [b.for_(i, lit("I", 1), lit("I", 2), None, body, hasstep=False)] + (lab if where == "behind-outer" else []) + \
                   [tok(b, "done", i), b.end(), b.label("SR"), tok(b, "sr"), b.ret("L")]
            out.append({"fam": "return-label-out:%s/%s" % (inner, where), "prog": prog(main)})
    return out


FAMILIES.append(fam_return_label_out)


def fam_return_in_block(tier, rng):
    """a plain RETURN (or RETURN label) that stands INSIDE a FOR body / SELECT CASE block / WHILE body of the routine: the
    routine's blocks are left, the loop that holds the GOSUB goes on with its own limit and step.  And a GOSUB that is still
    pending when its procedure ends: it is gone with the procedure, the RETURN of the caller's routine finds the caller's GOSUB"""
    out = []
    for inner in ("for", "select", "for+select", "select+for", "while", "for+for"):
        for site in ("flat", "for", "for+select", "while"):
            for where in ("main", "sub"):
                for form in ("plain", "label"):
                    if form == "label" and where == "sub":
                        continue        # RETURN label is a module-level form
                    b = B()
                    i, j, k2 = var("I", "I"), var("J", "I"), var("K", "I")

                    def wrapr(kind, body, v):
                        if kind == "for":
                            return [b.for_(v, lit("I", 1), lit("I", 5), None, body + [tok(b, "rj", v)], hasstep=False)]
                        if kind == "select":
                            return [b.select(lit("I", 7), [([eqt(lit("I", 7))], body)], [tok(b, "relse")])]
                        return [b.let(var("W", "I"), lit("I", 0)),
                                b.while_(bin_("<", var("W", "I"), lit("I", 2)), [b.let(var("W", "I"), bin_("+", var("W", "I"), lit("I", 1)))] + body)]
                    rbody = [tok(b, "in"), b.ret("L") if form == "label" else b.ret(), tok(b, "never")]
                    vs = [j, k2]
                    for n, kind in enumerate(reversed(inner.split("+"))):
                        rbody = wrapr(kind, rbody, vs[n % 2])
                    routine = [b.label("SR"), tok(b, "sr")] + rbody + [tok(b, "rend"), b.ret()]
                    core = [b.gosub("SR"), tok(b, "back", i)] + ([b.label("L"), tok(b, "at-l")] if form == "label" else [])
                    if site == "flat":
                        body = core + [b.gosub("SR"), tok(b, "back2")] if form == "plain" else core
                    else:
                        blk = core
                        for kind in reversed(site.split("+")[1:]):
                            blk = [b.select(lit("I", 2), [([eqt(lit("I", 2))], blk)], [tok(b, "else")])]
                        if site.startswith("for"):
                            body = [b.for_(i, lit("I", 1), lit("I", 3), None, [tok(b, "i", i)] + blk, hasstep=False)]
                        else:
                            body = [b.let(var("V", "I"), lit("I", 0)),
                                    b.while_(bin_("<", var("V", "I"), lit("I", 2)), [b.let(var("V", "I"), bin_("+", var("V", "I"), lit("I", 1)))] + blk)]
                    # an expression with a pending operand after it all: the value stack is what it was
                    tail = [tok(b, "done", bin_("+", lit("I", 100), i))]
                    if where == "main":
                        p = prog([tok(b, "a")] + body + tail + [b.end()] + routine)
                    else:
                        p = prog([tok(b, "m0"), b.call("P", []), tok(b, "m1")], [sub("P", [], [tok(b, "a")] + body + tail + [b.exit("sub")] + routine)])
                    out.append({"fam": "return-in-block:%s/%s/%s/%s" % (inner, site, where, form), "prog": p})
    for leave in ("exit", "end", "function"):
        for caller in ("main-routine", "sub-routine", "main-flat"):
            for npending in (1, 2):
                b = B()
                inner = [tok(b, "s")] + [b.gosub("L%d" % n) for n in range(1, 2)] + [tok(b, "not-here"), b.exit("function" if leave == "function" else "sub")]
                labs = []
                for n in range(1, npending + 1):
                    labs += [b.label("L%d" % n), tok(b, "l%d" % n)] + ([b.gosub("L%d" % (n + 1))] if n < npending else [])
                inner = inner + labs + ([b.exit("function" if leave == "function" else "sub")] if leave != "end" else [])
                if leave == "function":
                    subs = [fun("F", "I", [], inner)]
                    fc = fcall("F", "I", [], 0)
                    call = tok(b, "f", fc)
                    fc["sid"] = call["id"]
                else:
                    subs = [sub("S", [], inner)]
                    call = b.call("S", [])
                if caller == "main-routine":
                    main = [b.gosub("R"), tok(b, "back"), b.end(), b.label("R"), tok(b, "r"), call, tok(b, "after"), b.ret(), tok(b, "never")]
                elif caller == "main-flat":
                    main = [tok(b, "a"), call, tok(b, "after"), b.ret(), tok(b, "never")]       # error 3: nothing is pending in the module
                else:
                    subs = subs + [sub("T", [], [b.gosub("R"), tok(b, "back"), b.exit("sub"), b.label("R"), tok(b, "r"), call, tok(b, "after"), b.ret()])]
                    main = [tok(b, "a"), b.call("T", []), tok(b, "z")]
                out.append({"fam": "gosub-pending-at-end:%s/%s/%d" % (leave, caller, npending), "prog": prog(main, subs)})
    return out


FAMILIES.append(fam_return_in_block)


def cases(tier, seed):
    rng = random.Random(seed)
    out = []
    for f in FAMILIES:
        out.extend(f(tier, rng))
    for i, c in enumerate(out):
        c["id"] = i + 1
    return out
