"""C18 check: (D) TLC explores all operation histories of Files.tla up to a length over two
handles and two names (handle table / store invariants, errors change nothing, OUTPUT
truncates, APPEND extends, EOF exact); (V) recorded histories of the real interpreter in a
scratch directory - stdout, the bytes of every file afterwards, the final result - are
validated by TLC against Files.tla."""
import os, random, itertools, json, shutil
from common import out_dir, dumps, seed, ToolError
from pool import Pool
from report import Reporter
from tlc import run_tlc

NAMES = ["A", "B", "C"]


def S(t):
    return [ord(c) for c in t]


def decode_utf8(bs):
    try:
        return [ord(c) for c in bytes(bs).decode("utf-8")]
    except (UnicodeDecodeError, ValueError):
        return list(bs)


def fname(n):
    return n + ".TXT"


def q(codes):
    """a string expression for the text: characters that cannot stand in a literal are written CHR$(n)"""
    parts, cur = [], ""
    for c in codes:
        if 32 <= c < 127 and c != 34:
            cur += chr(c)
        else:
            if cur:
                parts.append('"%s"' % cur)
                cur = ""
            parts.append("CHR$(%d)" % c)
    if cur or not parts:
        parts.append('"%s"' % cur)
    return " + ".join(parts)


def render(ops):
    lines = []
    for o in ops:
        k = o["op"]
        if k == "given":
            continue
        if k == "open":
            if o["mode"] == "random":
                lines.append('OPEN "%s" FOR RANDOM AS #%d LEN = %d' % (fname(o["name"]), o["n"], o["len"]))
            else:
                lines.append('OPEN "%s" FOR %s AS #%d' % (fname(o["name"]), o["mode"].upper(), o["n"]))
        elif k == "print":
            lines.append("PRINT #%d, %s" % (o["n"], q(o["text"])))
        elif k == "printsemi":
            lines.append("PRINT #%d, %s;" % (o["n"], q(o["text"])))
        elif k == "printnl":
            lines.append("PRINT #%d," % o["n"])
        elif k == "lineinput":
            lines += ["LINE INPUT #%d, L$" % o["n"], 'PRINT "[" + L$ + "]"']
        elif k == "input":
            lines += ["INPUT #%d, L$" % o["n"], 'PRINT "[" + L$ + "]"']
        elif k == "inputnum":
            lines += ["INPUT #%d, N%%" % o["n"], "PRINT N%"]
        elif k == "eof":
            lines.append("PRINT EOF(%d)" % o["n"])
        elif k == "close":
            lines.append("CLOSE #%d" % o["n"])
        elif k == "closeall":
            lines.append("CLOSE")
        elif k == "close2":
            lines.append("CLOSE #%d, #%d" % (o["n"], o["m"]))
        elif k == "kill":
            lines.append('KILL "%s"' % fname(o["name"]))
        elif k == "name":
            lines.append('NAME "%s" AS "%s"' % (fname(o["name"]), fname(o["to"])))
        elif k == "cinput":
            lines += ["INPUT L$", 'PRINT "[" + L$ + "]"']
        elif k == "clineinput":
            lines += ["LINE INPUT L$", 'PRINT "[" + L$ + "]"']
        elif k == "field":
            lines.append("FIELD #%d, " % o["n"] + ", ".join("%d AS %s%d%d$" % (w, "FGH"[o.get("g", 0)], o["n"], i + 1) for i, w in enumerate(o["ws"])))
        elif k == "lset":
            lines.append("LSET %s%d%d$ = %s" % ("FGH"[o.get("g", 0)], o["n"], o["i"], q(o["text"])))
        elif k == "put":
            lines.append("PUT #%d, %d" % (o["n"], o["r"]))
        elif k == "get":
            lines.append("GET #%d, %d" % (o["n"], o["r"]))
        elif k == "show":
            lines.append('PRINT "[" + %s%d%d$ + "]"' % ("FGH"[o.get("g", 0)], o["n"], o["i"]))
        else:
            raise ValueError(k)
    return "\r\n".join(lines) + "\r\n"


def spec_ops(ops):
    out = []
    for o in ops:
        o2 = dict(o)
        if "name" in o2:
            o2["name"] = fname(o2["name"])
        if "to" in o2:
            o2["to"] = fname(o2["to"])
        out.append(o2)
    return out


def O(op, **kw):
    d = {"op": op}
    d.update(kw)
    return d


TEXTS = ["x", "", "ab,cd", "hello", "1", "42", "a b", "7,8,9", "q,"]


def render_h(fam, ops):
    """families whose name ends in @255 use file number 255 (the largest there is) where the history says 2"""
    t = render(ops)
    if fam.endswith("@255"):
        t = t.replace("#2", "#255").replace("EOF(2)", "EOF(255)")
    return t


def gen(tier, rng):
    hs = _gen(tier, rng)
    extra = [(fam + "@255", ops, si) for fam, ops, si in hs if fam in ("readback", "append", "readnum", "protocol1", "random-reopen")
             and any(o.get("n") == 2 for o in ops)]
    rng.shuffle(extra)
    return hs + extra[:60]


def _gen(tier, rng):
    hs = []
    # (a) write, close, read back in every mix of LINE INPUT / INPUT, EOF after each read, one read past the end
    for k in (1, 2, 3):
        for texts in itertools.product(TEXTS[:6] if tier == "quick" else TEXTS, repeat=k):
            if tier == "quick" and k == 3 and rng.random() < 0.8:
                continue
            w = [O("open", n=1, name="A", mode="output")] + [O("print", n=1, text=S(t)) for t in texts] + [O("close", n=1)]
            nfields = sum(len(t.split(",")) for t in texts)
            for reader in ("lineinput", "input", "mixed"):
                r = [O("open", n=2, name="A", mode="input"), O("eof", n=2)]
                cnt = k if reader == "lineinput" else nfields
                for j in range(cnt + 1):
                    kind = reader if reader != "mixed" else rng.choice(["lineinput", "input"])
                    r += [O(kind, n=2), O("eof", n=2)]
                hs.append(("readback", w + r, ""))
    # characters above 127 come back as the characters they were
    for codes in ([99, 97, 102, 233], [233], [200, 44, 201], [65, 255, 66], [128, 32, 129]):
        for reader in ("lineinput", "input"):
            w = [O("open", n=1, name="A", mode="output"), O("print", n=1, text=codes), O("print", n=1, text=S("end")), O("close", n=1)]
            r = [O("open", n=2, name="A", mode="input")] + [O(reader, n=2) for _ in range(3 if 44 in codes else 2)] + [O("eof", n=2)]
            hs.append(("readback-high", w + r, ""))
    # numbers
    for t in ("1", "42", "7,8,9", "12,x"):
        hs.append(("readnum", [O("open", n=1, name="A", mode="output"), O("print", n=1, text=S(t)), O("close", n=1),
                               O("open", n=1, name="A", mode="input")] + [O("inputnum", n=1) for _ in range(len(t.split(",")) + 1)], ""))
    # (b) append keeps earlier content; output truncates
    for first in ("output", "append"):
        for second in ("output", "append"):
            for pre in (True, False):
                ops = []
                if pre:
                    ops += [O("open", n=1, name="A", mode=first), O("print", n=1, text=S("one")), O("close", n=1)]
                ops += [O("open", n=1, name="A", mode=second), O("print", n=1, text=S("two")), O("close", n=1),
                        O("open", n=3, name="A", mode="input"), O("lineinput", n=3), O("eof", n=3), O("lineinput", n=3), O("lineinput", n=3)]
                hs.append(("append", ops, ""))
    # (c) protocol: all short histories over an operation alphabet, on a directory where A exists
    alpha = []
    for n in (1, 2):
        for f in ("A", "B"):
            for m in ("input", "output", "append"):
                alpha.append(O("open", n=n, name=f, mode=m))
        alpha += [O("print", n=n, text=S("p")), O("lineinput", n=n), O("input", n=n), O("eof", n=n), O("close", n=n)]
        # record operations on handles that are closed or open as text files: file errors
        alpha += [O("get", n=n, r=1), O("put", n=n, r=1), O("field", n=n, ws=[2], g=0)]
    alpha += [O("closeall"), O("close2", n=1, m=2), O("close2", n=2, m=1), O("kill", name="A"), O("kill", name="B"), O("name", name="A", to="B"), O("name", name="B", to="C")]
    pre = [O("open", n=3, name="A", mode="output"), O("print", n=3, text=S("l1")), O("print", n=3, text=S("l2,x")), O("close", n=3)]
    for a in alpha:
        hs.append(("protocol1", pre + [a], ""))
        for b in alpha:
            hs.append(("protocol2", pre + [a, b], ""))
    tri = list(itertools.product(alpha, repeat=3))
    rng.shuffle(tri)
    for t in tri[: (20000 if tier == "thorough" else 2500)]:
        hs.append(("protocol3", pre + list(t), ""))
    for _ in range(8000 if tier == "thorough" else 800):
        hs.append(("protocolN", pre + [rng.choice(alpha) for _ in range(rng.randint(4, 8))], ""))
    # (d) random-access files: what is PUT at record r is what GET r returns, whatever else was written
    for ws in ([4], [3, 5], [2, 2, 4]):
        ln = sum(ws)
        for _ in range(150 if tier == "thorough" else 25):
            ops = [O("open", n=1, name="C", mode="random", len=ln), O("field", n=1, ws=ws)]
            written = []
            for _ in range(rng.randint(2, 6)):
                r = rng.randint(1, 5)
                for i in range(len(ws)):
                    ops.append(O("lset", n=1, i=i + 1, text=S(rng.choice(["a", "bcd", "longer text", "", "zz"]))))
                ops.append(O("put", n=1, r=r))
                written.append(r)
            for r in rng.sample(written + [1, 6], 3):
                ops.append(O("get", n=1, r=r))
                for i in range(len(ws)):
                    ops.append(O("show", n=1, i=i + 1))
            ops.append(O("close", n=1))
            hs.append(("random", ops, ""))
    # (d1b) PUT and GET interleaved, record numbers next to each other, GETs beyond the end of the file in between (what a
    # GET beyond the end leaves behind must not move the next PUT / GET)
    for ws in ([4], [2, 2]):
        ln = sum(ws)
        for _ in range(200 if tier == "thorough" else 40):
            ops = [O("open", n=1, name="C", mode="random", len=ln), O("field", n=1, ws=ws)]
            r = rng.randint(1, 2)
            for _ in range(rng.randint(4, 9)):
                if rng.random() < 0.5:
                    for i in range(len(ws)):
                        ops.append(O("lset", n=1, i=i + 1, text=S(rng.choice(["AAAA", "bb", "CCCCCC", "d"]))))
                    ops.append(O("put", n=1, r=r))
                else:
                    ops.append(O("get", n=1, r=r))
                    for i in range(len(ws)):
                        ops.append(O("show", n=1, i=i + 1))
                r = max(1, r + rng.choice([1, 1, 1, 0, -1, 2]))
            for q in range(1, 6):
                ops.append(O("get", n=1, r=q))
                ops.append(O("show", n=1, i=1))
            ops.append(O("close", n=1))
            hs.append(("random-mixed", ops, ""))
    # (d1c) record numbers beyond 32767 (one- and two-byte records keep the file small)
    for ln in ((1, 2) if tier == "thorough" else (1,)):
        for _ in range(12 if tier == "thorough" else 2):
            ops = [O("open", n=1, name="C", mode="random", len=ln), O("field", n=1, ws=[ln])]
            rs = rng.sample([1, 2, 32766, 32767, 32768, 32769, 40000, 65535, 65536] if tier == "thorough" else [1, 32767, 32768, 32769, 32770], 4)
            for k, r in enumerate(rs):
                ops.append(O("lset", n=1, i=1, text=S("abcdefgh"[k] * ln)))
                ops.append(O("put", n=1, r=r))
            for r in rs + [rng.choice([3, 32771, 50000] if tier == "thorough" else [3, 32771])]:
                ops.append(O("get", n=1, r=r))
                ops.append(O("show", n=1, i=1))
            ops.append(O("close", n=1))
            hs.append(("random-far", ops, ""))
    # (d2) FIELD lists that describe only the beginning of the record; record numbers far apart
    for ws, ln in (([4, 4], 16), ([3], 8), ([2, 5], 9), ([1, 1, 1], 7)):
        for _ in range(120 if tier == "thorough" else 20):
            ops = [O("open", n=1, name="C", mode="random", len=ln), O("field", n=1, ws=ws)]
            written = []
            for _ in range(rng.randint(2, 6)):
                r = rng.randint(1, 6)
                for i in range(len(ws)):
                    ops.append(O("lset", n=1, i=i + 1, text=S(rng.choice(["A", "BCD", "longer text", "Zz", "qrstu"]))))
                ops.append(O("put", n=1, r=r))
                written.append(r)
            for r in sorted(set(written)) + [rng.randint(1, 6)]:
                ops.append(O("get", n=1, r=r))
                for i in range(len(ws)):
                    ops.append(O("show", n=1, i=i + 1))
            ops.append(O("close", n=1))
            hs.append(("random-short", ops, ""))
    # (d3b) PUT without an LSET since the last FIELD or GET: the record buffer goes out as it stands - a record copied with
    # GET r1 / PUT r2, written twice with one LSET, written right after FIELD (blank), after the file was opened again
    for ws in ([4], [3, 5], [2, 2, 2]):
        ln = sum(ws)
        for variant in ("copy", "twice", "blank", "reopen-copy", "partial"):
            ops = [O("open", n=1, name="C", mode="random", len=ln), O("field", n=1, ws=ws)]
            if variant != "blank":
                for i in range(len(ws)):
                    ops.append(O("lset", n=1, i=i + 1, text=S(["first", "ab", "Z"][i % 3])))
                ops.append(O("put", n=1, r=1))
            if variant == "copy":
                ops += [O("get", n=1, r=1), O("put", n=1, r=2)]
            elif variant == "twice":
                ops += [O("put", n=1, r=3)]
            elif variant == "blank":
                ops += [O("put", n=1, r=1)]
            elif variant == "reopen-copy":
                ops += [O("close", n=1), O("open", n=1, name="C", mode="random", len=ln), O("field", n=1, ws=ws), O("get", n=1, r=1), O("put", n=1, r=2)]
            else:
                ops += [O("get", n=1, r=1), O("lset", n=1, i=1, text=S("N")), O("put", n=1, r=2)]
            for r in (1, 2, 3):
                ops.append(O("get", n=1, r=r))
                for i in range(len(ws)):
                    ops.append(O("show", n=1, i=i + 1))
            ops.append(O("close", n=1))
            hs.append(("random-put-as-is:" + variant, ops, ""))
    # (d4) records survive CLOSE: the file is opened again FOR RANDOM (same or another handle) and read / extended
    for ws in ([4], [3, 5]):
        ln = sum(ws)
        for _ in range(60 if tier == "thorough" else 12):
            ops = [O("open", n=1, name="C", mode="random", len=ln), O("field", n=1, ws=ws)]
            written = []
            for _ in range(rng.randint(1, 4)):
                r = rng.randint(1, 4)
                for i in range(len(ws)):
                    ops.append(O("lset", n=1, i=i + 1, text=S(rng.choice(["a", "bcd", "Longer", "zz", "12345"]))))
                ops.append(O("put", n=1, r=r))
                written.append(r)
            h2 = rng.choice([1, 2])
            ops += [O("close", n=1), O("open", n=h2, name="C", mode="random", len=ln), O("field", n=h2, ws=ws)]
            if rng.random() < 0.5:
                r = rng.randint(1, 5)
                for i in range(len(ws)):
                    ops.append(O("lset", n=h2, i=i + 1, text=S(rng.choice(["NEW", "q"]))))
                ops.append(O("put", n=h2, r=r))
                written.append(r)
            for r in sorted(set(written)) + [5]:
                ops.append(O("get", n=h2, r=r))
                for i in range(len(ws)):
                    ops.append(O("show", n=h2, i=i + 1))
            ops.append(O("close", n=h2))
            hs.append(("random-reopen", ops, ""))
    # (d3) several FIELD statements for one file: every list describes the record from its first byte
    for first, second, ln in (([8], [4, 4], 8), ([4, 4], [8], 8), ([2, 6], [5, 3], 8), ([8], [4, 4], 16), ([3, 3], [6], 6), ([6], [2, 2, 2], 6)):
        for _ in range(40 if tier == "thorough" else 8):
            # records are written through ONE list, read back through two
            ops = [O("open", n=1, name="C", mode="random", len=ln), O("field", n=1, ws=first, g=1)]
            nrec = rng.randint(1, 3)
            for r in range(1, nrec + 1):
                for i in range(len(first)):
                    ops.append(O("lset", n=1, i=i + 1, g=1, text=S(rng.choice(["ABCDEFGH", "ijklmnop", "12345678", "Qq"]) )))
                ops.append(O("put", n=1, r=r))
            ops.append(O("field", n=1, ws=second, g=0))
            for r in rng.sample(range(1, nrec + 1), nrec):
                ops.append(O("get", n=1, r=r))
                for i in range(len(first)):
                    ops.append(O("show", n=1, i=i + 1, g=1, l=1))
                for i in range(len(second)):
                    ops.append(O("show", n=1, i=i + 1, g=0, l=0))
            ops.append(O("close", n=1))
            hs.append(("random-two-lists", ops, ""))
    # (a2) text that does not end in a line end; blanks in front of fields and at the very end of the file
    for parts in (["one,  "], ["  lead", "x"], ["a,  b", " c"], ["   "], ["p, "], ["w", " "], ["k", ""], ["m,n", "  "]):
        for last_semi in (True, False):
            w = [O("open", n=1, name="A", mode="output")]
            for j, t in enumerate(parts):
                w.append(O("printsemi" if (last_semi and j == len(parts) - 1) else "print", n=1, text=S(t)))
            w.append(O("close", n=1))
            for reader in ("input", "lineinput", "mixed"):
                r = [O("open", n=2, name="A", mode="input"), O("eof", n=2)]
                for j in range(sum(len(t.split(",")) for t in parts) + 1):
                    kind = reader if reader != "mixed" else rng.choice(["lineinput", "input"])
                    r += [O(kind, n=2), O("eof", n=2)]
                hs.append(("readback-blanks", w + r, ""))
    # (a2b) every order of up to four PRINT # statements that end in a semicolon, have no items at all, or are ordinary, on
    # one file and alternating between two files: a pending line is ended by the next statement that ends a line, no earlier
    import itertools as _it
    kinds3 = ("print", "printsemi", "printnl")
    for n in (2, 3, 4):
        for seq in _it.product(kinds3, repeat=n):
            if "printsemi" not in seq and "printnl" not in seq:
                continue
            if n == 4 and rng.random() < 0.5:
                continue
            for two in (False, True):
                w = [O("open", n=1, name="A", mode="output")] + ([O("open", n=3, name="B", mode="output")] if two else [])
                for j, kd in enumerate(seq):
                    fn_ = 3 if (two and j % 2 == 1) else 1
                    w.append(O(kd, n=fn_, text=S("t%d" % j)) if kd != "printnl" else O("printnl", n=fn_))
                w += [O("close", n=1)] + ([O("close", n=3)] if two else [])
                r = []
                for nm_ in (("A", "B") if two else ("A",)):
                    r += [O("open", n=2, name=nm_, mode="input"), O("eof", n=2)]
                    for j in range(n + 1):
                        r += [O("lineinput", n=2), O("eof", n=2)]
                    r.append(O("close", n=2))
                hs.append(("print-pending", w + r, ""))
    # (a3) line ends that PRINT # does not write itself: bare LF, bare CR, mixtures, empty lines of each kind
    eols = {"lf": [10], "cr": [13], "crlf": [13, 10]}
    bodies = []
    for e1 in eols:
        for e2 in eols:
            bodies.append(("%s-%s" % (e1, e2), S("alpha") + eols[e1] + eols[e2] + S("beta") + eols[e1]))
            bodies.append(("f-%s-%s" % (e1, e2), S("x,y") + eols[e1] + eols[e2] + S("z")))
    for name, body in bodies:
        w = [O("given", name="A", text=body)]
        for reader in ("lineinput", "input"):
            r = [O("open", n=2, name="A", mode="input"), O("eof", n=2)]
            for j in range(5):
                r += [O(reader, n=2), O("eof", n=2)]
            hs.append(("foreign-eol", w + r, ""))
        data = "".join(chr(c) for c in body)
        hs.append(("console-foreign-eol", [O("clineinput") for _ in range(3)], data))
        hs.append(("console-foreign-eol", [O("cinput") for _ in range(4)], data))
    # (e) the console forms split exactly as the file forms do
    for data in ("one,  ", "  lead\r\nx", "a,  b\r\n c\r\n", "p, "):
        nf = sum(len(t.split(",")) for t in data.replace("\r\n", "\n").split("\n") if t or True)
        hs.append(("console-blanks", [O("cinput") for _ in range(nf)], data))
    for texts in itertools.product(TEXTS[:6], repeat=2):
        data = "\r\n".join(texts) + "\r\n"
        nf = sum(len(t.split(",")) for t in texts)
        hs.append(("console-line", [O("clineinput") for _ in range(2)], data))
        hs.append(("console-field", [O("cinput") for _ in range(nf)], data))
        hs.append(("console-mixed", [O(rng.choice(["cinput", "clineinput"])) for _ in range(2)], data))
    return hs


def run(tier, replay):
    rep = Reporter("C18", tier, "model_checking")
    pool = Pool()
    rng = random.Random(seed())
    d = out_dir("C18")
    res = run_tlc("MC_Files.tla", "MC_Files_%s.cfg" % tier, os.path.join(d, "tlc_mc"), timeout=3000)
    if res.timed_out or not res.ok:
        raise ToolError("Files.tla violates its own invariants:\n%s" % res.violation)
    states, trans = res.distinct, res.generated
    if replay:
        with open(replay) as f:
            r = json.load(f)
        hs = [("replay", r["ops"], r.get("stdin", ""))]
    else:
        hs = gen(tier, rng)
    fsroot = os.path.join(d, "fs")
    shutil.rmtree(fsroot, ignore_errors=True)
    reqs = [{"op": "run", "text": render_h(fam, ops), "stdin": stdin, "budget": 200000, "dir": os.path.join(fsroot, "c%d" % i),
             "files": {fname(o["name"]): "".join(chr(c) for c in o["text"]) for o in ops if o["op"] == "given"}}
            for i, (fam, ops, stdin) in enumerate(hs)]
    resps = pool.map(reqs, timeout=60)
    shutil.rmtree(fsroot, ignore_errors=True)
    recs, texts, fams = [], {}, {}
    for i, ((fam, ops, stdin), req, resp) in enumerate(zip(hs, reqs, resps)):
        rid = i + 1
        texts[rid] = req["text"]
        fams[rid] = fam
        if not resp or resp.get("stage") != "run" or "panic" in resp:
            rep.violation({"family": fam, "rendered_text": req["text"], "ops": ops, "stdin": stdin, "observed": resp,
                           "expected": "a BASIC-level outcome (misuse is reported, not a crash)"},
                          {"fam:" + fam, "panic" if resp and "panic" in resp else "stage:" + str((resp or {}).get("stage")),
                           "panic_at:" + str((resp or {}).get("panic", {}).get("loc", "")).replace("/repo/", "")}, name="crash")
            continue
        oc = resp["outcome"]
        if oc.get("k") == "budget":
            continue
        so = resp.get("stdout")
        # characters above 127 leave the interpreter as UTF-8 (console and files alike): one code per character again
        out = [ord(c) for c in so] if isinstance(so, str) else so.get("bytes", [])
        files = [{"name": n, "bytes": decode_utf8(b)} for n, b in sorted(resp.get("files_after", {}).items())]
        if fam.startswith("random"):
            # the pad character of LSET / of records beyond the end is not fixed by the property: NUL counts as blank
            out = [32 if c == 0 else c for c in out]
            files = [{"name": x["name"], "bytes": [32 if c == 0 else c for c in x["bytes"]]} for x in files]
        obs = {"out": out, "files": files, "status": "run" if oc["k"] == "ok" else "err",
               "code": oc.get("code") if oc.get("code") is not None else -1}
        recs.append({"id": rid, "ops": spec_ops(ops), "stdin": [ord(c) for c in stdin], "obs": obs})
    byid = {r["id"]: r for r in recs}
    nag = nskip = 0
    cmd = ""
    chunk = 10000
    for start in range(0, len(recs), chunk):
        path = os.path.join(d, "files_%d.ndjson" % start)
        with open(path, "w") as f:
            for r in recs[start:start + chunk]:
                f.write(dumps(r) + "\n")
        res2 = run_tlc("Trace_Files.tla", "Trace_Files.cfg", os.path.join(d, "tlc_tr"), env={"TRACE": path}, timeout=3000)
        cmd = res2.cmd
        if res2.timed_out or not res2.ok:
            raise ToolError("TLC failed on Trace_Files:\n%s" % res2.violation)
        states += res2.distinct
        trans += res2.generated
        for ln in res2.printed:
            p = ln.split(" ", 2)
            if p[0] == "AGREE":
                nag += 1
            elif p[0] == "SKIP":
                nskip += 1
            elif p[0] == "MISMATCH":
                r = byid[int(p[1])]
                exp = json.loads(p[2])
                if not isinstance(exp.get("files"), dict):
                    exp["files"] = {}
                o = r["obs"]
                feats = {"fam:" + fams[r["id"]]} | {"op:" + x["op"] for x in r["ops"]}
                rep.violation({"family": fams[r["id"]], "rendered_text": texts[r["id"]], "ops": r["ops"], "stdin": bytes(r["stdin"]).decode("latin1"),
                               "expected": {"out": bytes(exp["out"]).decode("latin1"), "status": exp["status"], "code": exp["code"],
                                            "files": {k: bytes(v).decode("latin1") for k, v in exp["files"].items()}},
                               "observed": {"out": bytes(o["out"]).decode("latin1"), "status": o["status"], "code": o["code"],
                                            "files": {x["name"]: bytes(x["bytes"]).decode("latin1") for x in o["files"]}}},
                              feats, name=fams[r["id"]])
        os.remove(path)
    byfam = {}
    for f in fams.values():
        byfam[f] = byfam.get(f, 0) + 1
    coverage = {
        "states": states, "transitions": trans, "traces_validated_against_impl": nag + (len(recs) - nag - nskip),
        "samples": [{"program": texts[r["id"]], "stdout": bytes(r["obs"]["out"]).decode("latin1"), "status": r["obs"]["status"], "code": r["obs"]["code"]}
                    for r in recs[:: max(1, len(recs) // 3)][:3]],
        "evaluations": len(hs), "distinct_nontrivial": len({texts[r["id"]] for r in recs}),
        "rule": "write / close / read back with every mix of LINE INPUT # and INPUT # and EOF after each read incl. one read past "
                "the end; OUTPUT vs APPEND on new and existing files; protocol: ALL histories of 1 and 2 operations and seeded "
                "histories of 3-8 operations over an alphabet of 31 operations (OPEN in 3 modes on 2 handles x 2 names, PRINT #, "
                "LINE INPUT #, INPUT #, EOF, CLOSE, CLOSE all, KILL, NAME) after a fixed prefix that creates one file; RANDOM "
                "files with 1-3 fields, PUT/GET of records 1-6 in random order; the same field / line texts through console "
                "INPUT / LINE INPUT; distinct by program text",
        "histories_by_family": byfam, "agree": nag, "not_judged": nskip,
        "design_check": {"module": "MC_Files", "distinct_states": res.distinct,
                         "invariants": ["TableOK", "ErrorChangesNothing", "OpenModes", "PrintAppends", "CloseFrees", "EofExact"]},
        "checker_cmd": cmd, "exhaustive": False,
    }
    assumptions = ["host file system in a private scratch directory per history",
                   "a handle that is closed or open in the wrong mode must give some file error (code 50..76); 55, 53, 62 exact",
                   "not fixed by the property, hence not judged: the same file open on two handles, re-opening an existing file FOR RANDOM, "
                   "KILL / NAME of an open file, NAME onto an existing file, FIELD lists that do not cover the record"]
    return rep.finish(coverage, assumptions)
