"""C12 check: (D) TLC shows the kinding rules of Types.tla sound w.r.t. Values.tla (accept =>
never Type mismatch); (V) expressions of every kind at every syntactic position: the real
checker's verdict (and, when it accepts, the real run's outcome) is validated by TLC against
Types.tla - an ill-kinded expression must be rejected as a type error in that statement, an
accepted one must never end in error 13 or a wrong-kind panic; single ill-forming edits of
accepted programs must be rejected with the matching family in the edited statement;
consistent renaming must not change the verdict (implementation against itself)."""
import os, random, itertools, json, copy
from common import out_dir, dumps, seed, ToolError
from pool import Pool
from report import Reporter
from tlc import run_tlc
import render, mast
from mast import lit, var, bin_, un, par, idx

PRE = ['TYPE RT', '  S AS STRING * 3', '  X AS INTEGER', 'END TYPE', 'TYPE RU', '  S AS STRING * 3', '  X AS INTEGER', 'END TYPE',
       'TYPE RO', '  IN AS RT', '  Y AS INTEGER', 'END TYPE', 'DIM RB(3) AS RO',
       'A% = 2', 'B! = 3', 'S$ = "ab"', 'DIM AR%(5)', 'DIM AS$(3)',
       'DIM FX AS STRING * 4', 'DIM REC AS RT', 'DIM RE2 AS RU', 'DIM RE3 AS RT', 'DIM RA(3) AS RT', 'FX = "fx"', 'REC.S = "r"', 'REC.X = 4']
POST = ['FUNCTION FN%(X%)', '  FN% = X% + 1', 'END FUNCTION', 'FUNCTION FS$(X$)', '  FS$ = X$ + "!"', 'END FUNCTION',
        'FUNCTION FD#(X#)', '  FD# = X# * 2', 'END FUNCTION', 'SUB SN(X#)', 'END SUB', 'SUB SR(P AS RT)', 'END SUB']


BUILTIN_SIGS = [("LEN", "s"), ("UCASE$", "s"), ("LCASE$", "s"), ("LTRIM$", "s"), ("RTRIM$", "s"), ("LEFT$", "sn"), ("RIGHT$", "sn"), ("MID$", "sn"),
                ("MID$", "snn"), ("INSTR", "ss"), ("INSTR", "nss"), ("STR$", "n"), ("VAL", "s"), ("CHR$", "n"), ("SPACE$", "n"), ("MKD$", "n"),
                ("CVD", "s"), ("ENVIRON$", "s")]


def bcall(n, *args):
    return {"k": "bcall", "n": n, "args": list(args)}


def ucall(name, ps, r, *args):
    return {"k": "ucall", "name": name, "ps": ps, "r": r, "args": list(args)}


def bare(n, t):
    v = var(n, t)
    v["bare"] = True
    return v


class IdSet:
    """membership by identity (expression nodes are dicts)"""
    def __init__(self, items):
        self.ids = {id(x) for x in items}

    def __contains__(self, x):
        return id(x) in self.ids


CORE_LEAVES = []


def rec(n, ty):
    v = var(n, "U")
    v["bare"] = True
    v["ty"] = ty
    return v


def leaves():
    # typed variables, literals, a fixed-length string variable and the two kinds of record member
    return [var("A", "I"), var("B", "S"), var("S", "$"), lit("I", 1), lit("$", "x"), lit("D", 2),
            bare("FX", "$"), bare("REC.S", "$"), bare("REC.X", "I"), rec("REC", "RT"), rec("RE2", "RU"),
            # whole arrays (a kind of their own that fits no position)
            rec("AR%()", "ARR-I"), rec("AS$()", "ARR-S"), rec("RA()", "ARR-RT"),
            # calls of functions that are not defined anywhere: a string / a number by their suffix
            ucall("UFS$", ["n"], "s", lit("I", 1)), ucall("UFN%", ["n"], "n", lit("I", 1))]


def exprs(tier, rng):
    L = leaves()
    del CORE_LEAVES[:]
    CORE_LEAVES.extend([L[0], L[2]])
    ops = ["+", "-", "*", "/", "mod", "and", "or", "=", "<", "<>"]
    d1 = list(L)
    for op in ops:
        for a in L:
            for b in L:
                d1.append(bin_(op, a, b))
    for u in ("neg", "not"):
        for a in L:
            d1.append(un(u, a))
    for a in L:
        d1.append(par(a))
        for n in ("LEN", "UCASE$", "STR$", "VAL", "CHR$", "LTRIM$", "SPACE$"):
            if n == "LEN" and a.get("t") != "$":
                continue      # LEN of a numeric variable is legal (its size in bytes): not a kind question
            d1.append(bcall(n, a))
        for b in L[:4]:
            d1.append(bcall("LEFT$", a, b))
            d1.append(bcall("INSTR", a, b))
        d1.append(bcall("MID$", a, lit("I", 1), lit("I", 1)))
        d1.append(idx("AR", "I", [a]))
    # every leaf at every parameter position of every built-in (the other positions hold a well-kinded argument)
    nat = {"s": var("S", "$"), "n": var("A", "I")}
    for (name, ps) in BUILTIN_SIGS:
        if name == "LEN":
            continue          # LEN of a numeric VARIABLE is legal (its size in bytes): not a kind question
        for pos in range(len(ps)):
            for a in L:
                args = [a if j == pos else nat[ps[j]] for j in range(len(ps))]
                d1.append(bcall(name, *args))
    d2 = []
    n2 = 6000 if tier == "thorough" else 700
    for _ in range(n2):
        k = rng.random()
        x, y = rng.choice(d1), rng.choice(d1)
        if k < 0.5:
            d2.append(bin_(rng.choice(ops), par(x) if rng.random() < 0.7 else x, par(y) if rng.random() < 0.7 else y))
        elif k < 0.65:
            d2.append(un(rng.choice(["neg", "not"]), par(x)))
        elif k < 0.85:
            d2.append(bcall(rng.choice(["LCASE$", "UCASE$", "STR$", "VAL", "LTRIM$"]), x))
        else:
            d2.append(bcall("LEFT$", x, y))
    return d1, d2


WRAPS = [(["DO"], ["LOOP UNTIL 1 = 1"]), (["FOR W9% = 1 TO 1"], ["NEXT"]), (["WHILE W9% = 0", "W9% = 1"], ["WEND"]),
         (["IF 1 = 1 THEN"], ["END IF"]), (["IF 1 = 0 THEN", "PRINT 0", "ELSE"], ["END IF"]),
         (["SELECT CASE 1", "CASE 1"], ["END SELECT"]), (["SELECT CASE 1", "CASE 2", "PRINT 0", "CASE ELSE"], ["END SELECT"]),
         (["DO WHILE W8% = 0", "W8% = 1"], ["LOOP"]), (["IF 1 = 0 THEN", "PRINT 0", "ELSEIF 1 = 1 THEN"], ["END IF"])]


def positions(e):
    """(position name, statement lines with {E} already substituted, spec statement)"""
    t = render.expr(e)
    out = []
    out.append(("assign-num", ["X! = " + t], {"k": "need", "e": e, "kind": "n"}))
    out.append(("assign-str", ["X$ = " + t], {"k": "need", "e": e, "kind": "s"}))
    out.append(("paren", ["PRINT (" + t + ")"], {"k": "need", "e": par(e), "kind": "any"}))
    out.append(("print-list", ['PRINT 1; ' + t + '; "z"'], {"k": "need", "e": e, "kind": "any"}))
    out.append(("user-arg-num", ["PRINT FD#((" + t + "))"], {"k": "need", "e": ucall("FD#", ["n"], "n", par(e)), "kind": "any"}))
    out.append(("user-arg-str", ["PRINT FS$((" + t + "))"], {"k": "need", "e": ucall("FS$", ["s"], "s", par(e)), "kind": "any"}))
    out.append(("subscript", ["PRINT AR%(" + t + ")"], {"k": "need", "e": idx("AR", "I", [e]), "kind": "any"}))
    out.append(("case-num", ["SELECT CASE A%", "CASE " + t, "PRINT 1", "END SELECT"], {"k": "caseof", "subj": var("A", "I"), "test": e}))
    out.append(("case-str", ["SELECT CASE S$", "CASE " + t, "PRINT 1", "END SELECT"], {"k": "caseof", "subj": var("S", "$"), "test": e}))
    out.append(("unary", ["PRINT -(" + t + ")"], {"k": "need", "e": un("neg", par(e)), "kind": "any"}))
    out.append(("binary-num", ["PRINT (" + t + ") + 1"], {"k": "need", "e": bin_("+", par(e), lit("I", 1)), "kind": "any"}))
    out.append(("binary-str", ['PRINT "a" + (' + t + ")"], {"k": "need", "e": bin_("+", lit("$", "a"), par(e)), "kind": "any"}))
    out.append(("builtin-str", ["PRINT LTRIM$(" + t + ")"], {"k": "need", "e": bcall("LTRIM$", e), "kind": "any"}))
    out.append(("builtin-str2", ["PRINT UCASE$((" + t + "))"], {"k": "need", "e": bcall("UCASE$", par(e)), "kind": "any"}))
    out.append(("builtin-num", ['PRINT LEFT$("abc", ' + t + ")"], {"k": "need", "e": bcall("LEFT$", lit("$", "abc"), e), "kind": "any"}))
    out.append(("if-cond", ["IF " + t + " THEN", "PRINT 1", "END IF"], {"k": "need", "e": e, "kind": "n"}))
    out.append(("for-bound", ["FOR I% = 1 TO " + t, "NEXT"], {"k": "need", "e": e, "kind": "n"}))
    out.append(("lhs-subscript", ["AR%(" + t + ") = 1"], {"k": "need", "e": idx("AR", "I", [e]), "kind": "any"}))
    out.append(("lhs-subscript-str", ["AS$(" + t + ') = "q"'], {"k": "need", "e": idx("AS", "$", [e]), "kind": "any"}))
    out.append(("dim-bound", ["DIM DQ%(0 TO " + t + ")"], {"k": "need", "e": e, "kind": "n"}))
    out.append(("while-cond", ["WHILE " + t, "A% = 0: S$ = \"\": B! = 0", "WEND"], {"k": "need", "e": e, "kind": "n"}))
    out.append(("elseif-cond", ["IF A% = 99 THEN", "PRINT 1", "ELSEIF " + t + " THEN", "PRINT 2", "END IF"], {"k": "need", "e": e, "kind": "n"}))
    out.append(("for-step", ["FOR I% = 1 TO 2 STEP (" + t + ") * 0 + 1", "NEXT"],
                {"k": "need", "e": bin_("+", bin_("*", par(e), lit("I", 0)), lit("I", 1)), "kind": "n"}))
    out.append(("for-lower", ["FOR I% = " + t + " TO 0", "NEXT"], {"k": "need", "e": e, "kind": "n"}))
    out.append(("dim-lower", ["DIM DL%(" + t + " TO 9)"], {"k": "need", "e": e, "kind": "n"}))
    out.append(("redim-bound", ["REDIM DV%(1 TO " + t + ")"], {"k": "need", "e": e, "kind": "n"}))
    out.append(("for-step-bare", ["FOR I% = 1 TO 2 STEP " + t, "NEXT"], {"k": "need", "e": e, "kind": "n"}))
    # whole records: assignment and by-reference passing need a record of the same TYPE
    out.append(("assign-rec", ["RE3 = " + t], {"k": "need", "e": e, "kind": "u:RT"}))
    out.append(("sub-arg-rec", ["SR " + t], {"k": "need", "e": e, "kind": "u:RT"}))
    # a user FUNCTION call that takes the expression as its argument, standing where the checker's deep walkers must look
    fnn = ucall("FN%", ["n"], "n", par(e))
    fns = ucall("FS$", ["s"], "s", par(e))
    tn, ts = "FN%((" + t + "))", "FS$((" + t + "))"
    out.append(("subscript-ucall", ["PRINT AR%(" + tn + ")"], {"k": "need", "e": idx("AR", "I", [fnn]), "kind": "any"}))
    out.append(("subscript-ucall-str", ["PRINT AS$(LEN(" + ts + "))"], {"k": "need", "e": idx("AS", "$", [bcall("LEN", fns)]), "kind": "any"}))
    out.append(("lhs-subscript-ucall", ["AR%(" + tn + ") = 1"], {"k": "need", "e": idx("AR", "I", [fnn]), "kind": "any"}))
    out.append(("member-subscript-ucall", ["PRINT RA(" + tn + ").X"], {"k": "need", "e": idx("AR", "I", [fnn]), "kind": "any"}))
    out.append(("lhs-member-subscript-ucall", ["RA(" + tn + ").X = 1"], {"k": "need", "e": idx("AR", "I", [fnn]), "kind": "any"}))
    # an element of an array of records with two and more member names behind it
    out.append(("member2-subscript-ucall", ["PRINT RB(" + tn + ").IN.X"], {"k": "need", "e": idx("AR", "I", [fnn]), "kind": "any"}))
    out.append(("lhs-member2-subscript-ucall", ["RB(" + tn + ").IN.X = 1"], {"k": "need", "e": idx("AR", "I", [fnn]), "kind": "any"}))
    out.append(("member2-subscript-builtin", ["PRINT RB(LEN(UCASE$((" + t + ")))).IN.S"],
                {"k": "need", "e": idx("AR", "I", [bcall("LEN", bcall("UCASE$", par(e)))]), "kind": "any"}))
    out.append(("case-ucall", ["SELECT CASE A%", "CASE 1 TO " + tn, "PRINT 1", "END SELECT"], {"k": "caseof", "subj": var("A", "I"), "test": fnn}))
    out.append(("for-step-ucall", ["FOR I% = 1 TO 2 STEP " + tn, "NEXT"], {"k": "need", "e": fnn, "kind": "n"}))
    out.append(("dim-bound-ucall", ["DIM DR%(" + tn + ")"], {"k": "need", "e": fnn, "kind": "n"}))
    out.append(("print-using-ucall", ['PRINT USING "#"; ' + tn], {"k": "need", "e": fnn, "kind": "any"}))
    out.append(("builtin-arg-ucall", ["PRINT LEFT$(" + ts + ", " + tn + ")"], {"k": "need", "e": bcall("LEFT$", fns, fnn), "kind": "any"}))
    out.append(("select-subject", ["SELECT CASE " + t, "CASE ELSE", "PRINT 1", "END SELECT"], {"k": "need", "e": e, "kind": "top"}))
    # a CASE compares the subject with its own value: the subject must be a number or a string (a record compared with itself)
    out.append(("select-subject-case", ["SELECT CASE " + t, "CASE " + t, "PRINT 1", "CASE ELSE", "PRINT 2", "END SELECT"], {"k": "caseof", "subj": e, "test": e}))
    out.append(("select-subject-is", ["SELECT CASE " + t, "CASE IS > " + t, "PRINT 1", "END SELECT"], {"k": "caseof", "subj": e, "test": e}))
    if e["k"] == "var" and "." not in t:
        # the counter of a FOR loop is a numeric variable (a plain one: a member of a record is refused as "variable required")
        out.append(("for-counter", ["FOR " + t + " = 1 TO 2", "NEXT"], {"k": "need", "e": e, "kind": "n", "lvalue": True}))
        out.append(("for-counter-next", ["FOR " + t + " = 1 TO 2", "NEXT " + t], {"k": "need", "e": e, "kind": "n", "lvalue": True}))
    out.append(("sub-arg-num", ["SN (" + t + ")"], {"k": "need", "e": ucall("FD#", ["n"], "n", par(e)), "kind": "any"}))
    # the argument lists of built-in STATEMENTS, directly and inside built-in functions nested there
    out.append(("stmt-locate", ["LOCATE 1, " + t], {"k": "need", "e": e, "kind": "n"}))
    out.append(("stmt-locate-nested", ["LOCATE 1, LEN(UCASE$((" + t + "))) + 1"],
                {"k": "need", "e": bin_("+", bcall("LEN", bcall("UCASE$", par(e))), lit("I", 1)), "kind": "n"}))
    out.append(("stmt-color-nested", ['COLOR INSTR("abc", (' + t + "))"], {"k": "need", "e": bcall("INSTR", lit("$", "abc"), par(e)), "kind": "n"}))
    out.append(("stmt-kill-nested", ['KILL "zz" + LEFT$("abc", (' + t + "))"],
                {"k": "need", "e": bin_("+", lit("$", "zz"), bcall("LEFT$", lit("$", "abc"), par(e))), "kind": "s"}))
    out.append(("stmt-poke-nested", ["POKE VARPTR(A%), LEN(LTRIM$((" + t + ")))"], {"k": "need", "e": bcall("LEN", bcall("LTRIM$", par(e))), "kind": "n"}))
    # operands far beyond the whole-number range under the whole-number operators: an Overflow, never a Type mismatch
    huge = "B! = 10000000000000000000000.0"
    out.append(("mod-huge-left", [huge, "PRINT (" + t + ") MOD 2"], {"k": "need", "e": bin_("mod", par(e), lit("I", 2)), "kind": "any"}))
    out.append(("mod-huge-right", [huge, "PRINT 7 MOD (" + t + ")"], {"k": "need", "e": bin_("mod", lit("I", 7), par(e)), "kind": "any"}))
    out.append(("and-huge", [huge, "PRINT (" + t + ") AND 1"], {"k": "need", "e": bin_("and", par(e), lit("I", 1)), "kind": "any"}))
    out.append(("not-huge", [huge, "PRINT NOT (" + t + ")"], {"k": "need", "e": un("not", par(e)), "kind": "any"}))
    out.append(("nested-arg", ["PRINT FN%(LEN(UCASE$((" + t + "))))"],
                {"k": "need", "e": ucall("FN%", ["n"], "n", bcall("LEN", bcall("UCASE$", par(e)))), "kind": "any"}))
    return out


def classify(resp, row_lo, row_hi):
    """-> obs for a kind record"""
    if resp is None or resp.get("timeout") or resp.get("abort"):
        return {"verdict": "accept", "family": "", "rowok": False, "run": "panic"}
    if "panic" in resp and resp.get("stage") in ("parse", "lint", "igen"):
        return {"verdict": "accept", "family": "", "rowok": False, "run": "panic", "stage": resp.get("stage")}
    if resp.get("stage") in ("parse", "lint"):
        err = resp.get("error") or {}
        dbg = str(err.get("dbg"))
        fam = dbg.split("(")[-1].rstrip(")") if dbg.startswith("ParserError") else dbg.split("(")[0]
        pos = err.get("pos") or [0, 0]
        return {"verdict": "reject", "family": fam, "rowok": row_lo <= pos[0] <= row_hi, "run": "none", "dbg": dbg, "pos": pos}
    if "panic" in resp:
        return {"verdict": "accept", "family": "", "rowok": False, "run": "panic", "panic": resp["panic"]}
    oc = resp.get("outcome", {})
    if oc.get("k") == "err":
        return {"verdict": "accept", "family": "", "rowok": False, "run": "err13" if oc.get("code") == 13 else "err", "code": oc.get("code")}
    return {"verdict": "accept", "family": "", "rowok": False, "run": "ok"}


# ---------------------------------------------------------------- edits
def base_programs(tier, rng):
    import c01, c03, c05
    progs = []
    for c in c03.cases("quick", 1):
        if c["fam"].startswith(("args:", "args2:", "function:", "nested:", "locals:")):
            progs.append(c["prog"])
    for c in c05.cases("quick", 1):
        if c["fam"].startswith(("goto:", "gosub:", "trap:div")):
            progs.append(c["prog"])
    for c in c01.cases("quick", 1):
        if c["fam"].startswith(("nest:", "for:", "expr2", "random")):
            progs.append(c["prog"])
    rng.shuffle(progs)
    return progs[: (6000 if tier == "thorough" else 900)]


def stmts_with_index(p):
    return list(mast.all_stmts(p))


def apply_edit(p, kind, rng):
    """returns (edited program, id of the edited statement) or None"""
    p = copy.deepcopy(p)
    sts = stmts_with_index(p)
    if kind == "strop":
        cands = []
        for s in sts:
            if s["k"] == "let" and s["e"].get("k") == "bin" and s["e"]["op"] in ("-", "*", "/", "mod", "and", "or") and s["lhs"]["t"] != "$":
                cands.append(s)
        if not cands:
            return None
        s = rng.choice(cands)
        s["e"] = dict(s["e"], r=lit("$", "oops"))      # a fresh node: expression objects may be shared between statements
        return p, s["id"]
    if kind == "foreignlabel":
        # the label exists - inside another procedure (or, seen from a procedure, in the main module): labels are local
        main_j = [x for x in mast.walk_stmts(p["main"]) if x["k"] in ("goto", "gosub")]
        sub_j = [(sb, x) for sb in p.get("subs", []) for x in mast.walk_stmts(sb["body"]) if x["k"] in ("goto", "gosub")]
        ids = mast.Ids() if hasattr(mast, "Ids") else None
        fresh = max([x["id"] for x in sts] + [0]) + 1
        lab = {"k": "label", "id": fresh, "l": "FOREIGNL"}
        if main_j and p.get("subs"):
            s = rng.choice(main_j)
            p["subs"][-1]["body"].append(lab)
            s["l"] = "FOREIGNL"
            return p, s["id"]
        if sub_j:
            sb, s = rng.choice(sub_j)
            others = [x for x in p["subs"] if x is not sb]
            if others and rng.random() < 0.5:
                others[0]["body"].append(lab)
            else:
                # before END would make it unreachable code only if main ends with END; a label line is harmless anywhere
                p["main"].insert(0, lab)
            s["l"] = "FOREIGNL"
            return p, s["id"]
        return None
    if kind == "missinglabel":
        cands = [s for s in sts if s["k"] in ("goto", "gosub")]
        if not cands:
            return None
        s = rng.choice(cands)
        s["l"] = "NOSUCHLABEL"
        return p, s["id"]
    if kind == "argcount":
        cands = [s for s in sts if s["k"] == "call"]
        if not cands:
            return None
        s = rng.choice(cands)
        if s["args"] and rng.random() < 0.5:
            s["args"] = s["args"][:-1]
        else:
            s["args"] = s["args"] + [lit("I", 1)]
        return p, s["id"]
    if kind == "byreftype":
        cands = [s for s in sts if s["k"] == "call" and any(a.get("k") == "var" for a in s["args"])]
        if not cands:
            return None
        s = rng.choice(cands)
        newargs = []
        done = False
        for a in s["args"]:
            if a.get("k") == "var" and not done:
                variant = rng.choice(["kind", "numtype", "numtype-elem"]) if a["t"] in ("I", "L", "S", "D") else "kind"
                other = rng.choice([t for t in ("I", "L", "S", "D") if t != a["t"]]) if variant != "kind" else None
                if variant == "kind":
                    newargs.append({"k": "var", "n": "QZ", "t": "$" if a["t"] != "$" else "I"})
                elif variant == "numtype":
                    # by reference the type must be the parameter's own: another numeric type is a mismatch too
                    newargs.append({"k": "var", "n": "QZ", "t": other})
                else:
                    newargs.append(idx("QZA", other, [lit("I", 1)]))
                    p["main"] = [{"k": "dim", "id": 90010, "n": "QZA", "t": other, "dims": [{"lo": lit("I", 0), "hi": lit("I", 2), "nolo": True}],
                                  "shared": False, "fix": 0, "extended": False, "ty": ""}] + p["main"]
                done = True
            else:
                newargs.append(a)
        s["args"] = newargs
        return p, s["id"]
    if kind == "duplicate":
        labels = [s for s in p["main"] if s["k"] == "label"]
        if labels and rng.random() < 0.6:
            s = copy.deepcopy(rng.choice(labels))
            s["id"] = 90001
            p["main"].append(s)
            return p, s["id"]
        s = {"k": "dim", "id": 90002, "n": "DUPV", "t": "I", "dims": [], "shared": False, "fix": 0, "extended": True, "ty": ""}
        s2 = dict(s, id=90003)
        p["main"] = [s, s2] + p["main"]
        return p, 90003
    if kind == "nextcounter":
        cands = [s for s in sts if s["k"] == "for"]
        if not cands:
            return None
        s = rng.choice(cands)
        s["nextvar"] = True
        s["nextname"] = "WRONGCOUNTER" + render.SUFFIX[s["v"]["t"]]
        return p, s["id"]
    return None


RENAME = {"A": "QUX", "B": "Zed", "C": "mIx", "S": "Sx", "X": "Xray", "Y": "yy", "Z": "ZZTOP", "I": "Idx", "G": "Glob", "M": "Mm",
          "T": "Tt", "K": "kk", "L": "Ll", "N": "Nn", "Q": "Qq", "R": "Rr", "H": "Hh", "W": "Ww"}


def rename_prog(p):
    p = copy.deepcopy(p)

    def rn(name):
        base = name.rstrip("0123456789")
        return RENAME.get(base, base) + name[len(base):]

    def ex(e):
        if not isinstance(e, dict):
            return
        if e.get("k") in ("var", "idx"):
            e["n"] = rn(e["n"])
        for k, v in e.items():
            if isinstance(v, dict):
                ex(v)
            elif isinstance(v, list):
                for x in v:
                    ex(x)
    for s in mast.all_stmts(p):
        for k, v in s.items():
            if k in ("body", "arms", "cases", "els"):
                if k in ("arms",):
                    for a in v:
                        ex(a["c"])
                if k == "cases":
                    for c in v:
                        for t in c["tests"]:
                            ex(t)
                continue
            if isinstance(v, dict):
                ex(v)
            elif isinstance(v, list):
                for x in v:
                    ex(x)
        if s["k"] == "dim":
            s["n"] = rn(s["n"])
    for sp in p.get("subs", []):
        for prm in sp["params"]:
            prm["n"] = rn(prm["n"])
    return p


def verdict_class(resp):
    if resp is None:
        return "lost"
    if "panic" in resp:
        return "panic:" + str(resp.get("stage"))
    if resp.get("stage") in ("parse", "lint"):
        return resp["stage"] + ":" + str((resp.get("error") or {}).get("dbg")).split("(")[0]
    return "accept"


def run(tier, replay):
    rep = Reporter("C12", tier, "model_checking")
    pool = Pool()
    rng = random.Random(seed())
    d = out_dir("C12")
    res = run_tlc("MC_Types.tla", "MC_Types.cfg", os.path.join(d, "tlc_mc"), timeout=900)
    if res.timed_out or not res.ok:
        raise ToolError("Types.tla is not sound w.r.t. Values.tla:\n%s" % res.violation)
    states, trans = res.distinct, res.generated
    recs, meta = [], {}
    # ---- (a) kinds at positions
    d1, d2 = exprs(tier, rng)
    d2_ids = IdSet(d2)
    # binary expressions that keep all positions in quick: one operand is the INTEGER variable or the string variable
    full_ids = {id(e) for e in d1 if e.get("k") == "bin" and (e["l"] in CORE_LEAVES or e["r"] in CORE_LEAVES) and rng.random() < 0.25}
    cases = []
    for e in d1 + d2:
        try:
            ps = positions(e)
        except render.RenderError:
            continue
        if tier == "thorough" and e in d2_ids:
            ps = rng.sample(ps, 10)       # the random deep expressions: ten positions each
        if tier == "quick":
            # quick: every position for the simple expressions (a leaf, one operator over leaves with a leaf of each kind,
            # every built-in signature); twelve positions drawn per remaining binary pair, five per random deep expression
            if e in d2_ids:
                ps = rng.sample(ps, 5)
            elif e.get("k") == "bin" and id(e) not in full_ids:
                ps = rng.sample(ps, 12)
        for pi_, (name, lines, stmt) in enumerate(ps):
            text = "\r\n".join(PRE + lines + ["PRINT \"end\""] + POST) + "\r\n"
            cases.append((name, text, stmt, len(PRE) + 1, len(PRE) + len(lines)))
            # the same statement inside a block of each kind (the checker's passes walk into every kind of block): for the
            # plain leaves every position gets one of the seven wrappers, in rotation
            if e.get("k") in ("var", "lit", "idx") or tier == "thorough":
                head, foot = WRAPS[(pi_ + len(cases)) % len(WRAPS)]
                text = "\r\n".join(PRE + head + lines + foot + ["PRINT \"end\""] + POST) + "\r\n"
                cases.append((name + "@" + head[0].split()[0].lower(), text, stmt, len(PRE) + len(head) + 1, len(PRE) + len(head) + len(lines)))
    resps = pool.map([{"op": "run", "text": c[1], "budget": 50000} for c in cases], timeout=60)
    rid = 0
    for (name, text, stmt, lo, hi), resp in zip(cases, resps):
        rid += 1
        obs = classify(resp, lo, hi)
        recs.append({"id": rid, "k": "kind", "s": stmt, "obs": {k: obs[k] for k in ("verdict", "family", "rowok", "run")}})
        meta[rid] = ("kind:" + name, text, obs)
    nkind = rid
    # ---- (c) edits
    bases = base_programs(tier, rng)
    ecases = []
    for p in bases:
        for kind in ("strop", "missinglabel", "foreignlabel", "argcount", "byreftype", "duplicate", "nextcounter"):
            r = apply_edit(p, kind, rng)
            if r is None:
                continue
            p2, sid = r
            try:
                text, rows, spans, endrows = render.program(p2)
            except render.RenderError:
                continue
            row = rows.get(sid)
            if row is None:
                continue
            lo, hi = row, row
            if kind == "nextcounter":
                hi = endrows.get(sid, row)
            ecases.append((kind, text, lo, hi))
    # a SUB / FUNCTION defined a second time (the same text again, or with one more parameter): a duplicate definition, reported
    # in the second definition
    import re as _re
    ndup = 0
    for p in bases:
        if not p.get("subs") or ndup >= (2000 if tier == "thorough" else 150):
            continue
        try:
            text = render.program(p)[0]
        except render.RenderError:
            continue
        lines = text.split("\r\n")
        heads = [i for i, ln in enumerate(lines) if _re.match(r"(SUB|FUNCTION) ", ln)]
        if not heads:
            continue
        h = rng.choice(heads)
        e = next(i for i in range(h, len(lines)) if _re.match(r"END (SUB|FUNCTION)", lines[i]))
        block = lines[h:e + 1]
        for variant in ("same", "more-params", "other-kind"):
            blk = list(block)
            if variant == "other-kind":
                # the same name as a procedure of the other kind (a SUB where there is a FUNCTION, and the other way round)
                m = _re.match(r"(SUB|FUNCTION) ([A-Za-z0-9.]+)[%&!#$]?", blk[0])
                if m.group(1) == "SUB":
                    blk = ["FUNCTION %s%%" % m.group(2), "  %s%% = 1" % m.group(2), "END FUNCTION"]
                else:
                    blk = ["SUB %s" % m.group(2), "END SUB"]
            if variant == "more-params":
                m = _re.match(r"((?:SUB|FUNCTION) [A-Za-z0-9.]+[%&!#$]?)(\((.*)\))?(.*)$", blk[0])
                blk[0] = m.group(1) + "(" + ((m.group(3) + ", ") if m.group(3) else "") + "ZZ9%)" + m.group(4)
            body = [ln for ln in lines if ln != ""]
            t2 = "\r\n".join(body + blk) + "\r\n"
            lo = len(body) + 1
            ecases.append(("duplicate", t2, lo, lo + len(blk) - 1))
            ndup += 1
    eresps = pool.map([{"op": "run", "text": c[1], "norun": True} for c in ecases], timeout=60)
    for (kind, text, lo, hi), resp in zip(ecases, eresps):
        rid += 1
        obs = classify(resp, lo, hi)
        recs.append({"id": rid, "k": "edit", "edit": kind, "obs": {k: obs[k] for k in ("verdict", "family", "rowok")}})
        meta[rid] = ("edit:" + kind, text, obs)
    # ---- TLC
    path = os.path.join(d, "types.ndjson")
    printed = []
    res2 = None
    tdist = tgen = 0
    CH = 40000            # the records are validated in portions: one TLC run per portion
    for c0 in range(0, len(recs), CH):
        with open(path, "w") as f:
            for r in recs[c0:c0 + CH]:
                f.write(dumps(r) + "\n")
        res2 = run_tlc("Trace_Types.tla", "Trace_Types.cfg", os.path.join(d, "tlc_tr"), env={"TRACE": path}, timeout=3000)
        if res2.timed_out or not res2.ok:
            raise ToolError("TLC failed on Trace_Types (%s):\n%s" % ("timed out" if res2.timed_out else "error", res2.violation))
        printed += res2.printed
        tdist += res2.distinct
        tgen += res2.generated
    res2.distinct, res2.generated = tdist, tgen
    counts = {"AGREE": 0, "MISMATCH": 0, "NOCLAIM": 0}
    for ln in printed:
        tag, sid = ln.split(" ")
        counts[tag] = counts.get(tag, 0) + 1
        if tag == "MISMATCH":
            fam, text, obs = meta[int(sid)]
            feats = {fam, "observed:" + obs["verdict"], "run:" + str(obs.get("run")), "family:" + str(obs.get("family"))}
            if obs.get("panic"):
                feats.add("panic_at:" + str(obs["panic"].get("loc", "")).replace("/repo/", ""))
            rep.violation({"family": fam, "rendered_text": text, "observed": obs,
                           "expected": "Types.tla: " + ("ill-kinded => rejected as a type error in that statement; accepted => no error 13 / panic at run time"
                                                        if fam.startswith("kind") else "the edit is rejected with the matching family in the edited statement")},
                          feats, name=fam.replace(":", "_"))
    os.remove(path)
    # ---- (b) renaming: the implementation against itself
    rtexts = []
    for p in bases[: (3000 if tier == "thorough" else 500)]:
        try:
            t1 = render.program(p)[0]
            t2 = render.program(rename_prog(p))[0]
        except render.RenderError:
            continue
        if t1 != t2:
            rtexts.append((t1, t2))
    # rejected programs too: the ill-kinded ones of (a), renamed textually through their variables
    for name, text, stmt, lo, hi in cases[:: 40]:
        t2 = text.replace("A%", "QUX%").replace("B!", "Zed!").replace("S$", "Sx$").replace("X!", "Xray!").replace("X$", "Xray$")
        rtexts.append((text, t2))
    # names whose type comes from a DEFtype range: every first letter inside the range is the same program up to renaming
    for df, lo, hi in (("DEFSTR", "A", "Z"), ("DEFINT", "A", "Z"), ("DEFSTR", "A", "M"), ("DEFDBL", "N", "Z"), ("DEFLNG", "B", "Y"), ("DEFSTR", "K", "L"), ("DEFSNG", "Q", "Q")):
        for body in ('%s = "x"\r\nPRINT %s\r\n', '%s = 5\r\nPRINT %s + 1\r\n', 'DIM %s(3)\r\n%s(1) = "y"\r\n', 'P %s\r\nSUB P (V$)\r\nEND SUB\r\n'):
            head = "%s %s-%s\r\n" % (df, lo, hi) if lo != hi else "%s %s\r\n" % (df, lo)
            first = head + body.replace("%s", lo.lower() + "lpha")
            for o in range(ord(lo), ord(hi) + 1):
                nm = (chr(o) if o % 2 else chr(o).lower()) + "ulu"
                rtexts.append((first, head + body.replace("%s", nm)))
    ra = pool.map([{"op": "run", "text": a, "norun": True} for a, b in rtexts], timeout=60)
    rb = pool.map([{"op": "run", "text": b, "norun": True} for a, b in rtexts], timeout=60)
    nren = 0
    for (a, b), x, y in zip(rtexts, ra, rb):
        nren += 1
        if verdict_class(x) != verdict_class(y):
            rep.violation({"family": "rename", "text_a": a, "text_b": b, "observed_a": verdict_class(x), "observed_b": verdict_class(y),
                           "expected": "the same verdict class"}, {"rename"}, name="rename")
    coverage = {
        "states": states + res2.distinct, "transitions": trans + res2.generated,
        "traces_validated_against_impl": counts["AGREE"] + counts["MISMATCH"],
        "samples": [{"family": meta[i][0], "program": meta[i][1], "observed": meta[i][2]} for i in (1, nkind // 2, rid)],
        "evaluations": len(recs) + nren, "distinct_nontrivial": len({m[1] for m in meta.values()}),
        "rule": "kinds: every expression of depth 1 over 6 typed leaves (10 binary, 2 unary operators, parentheses, 10 built-ins, "
                "subscripts) and seeded depth-2 compositions, each at 18 syntactic positions (assignment, parentheses, PRINT list, "
                "user function argument, subscript, CASE list, unary / binary operand, built-in argument, IF condition, FOR bound, "
                "nested call arguments); edits: 6 kinds of single ill-forming edit applied to accepted programs of the C01/C03/C05 "
                "families; renaming of accepted and rejected programs; distinct by program text",
        "tlc_verdicts": counts, "kind_records": nkind, "edit_records": rid - nkind, "rename_pairs": nren,
        "design_check": {"module": "MC_Types", "distinct_states": states, "invariants": ["Sound", "ResultKind"]},
        "checker_cmd": res2.cmd, "exhaustive": False,
    }
    assumptions = ["kinds (number / string), not the four numeric types, are what error 13 is about",
                   "a well-kinded statement that the checker nevertheless rejects is not a violation (the property constrains acceptance)",
                   "renaming is checked on the implementation against itself"]
    return rep.finish(coverage, assumptions)
