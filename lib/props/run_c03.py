"""C03 check: call programs (argument shapes, fresh locals, recursion, FUNCTION results,
STATIC histories, SHARED/CONST, nested calls, errors inside callees) validated against Core.tla."""
from corerun import run_property
import c03
import mast


def nontrivial(c):
    return any(s["k"] == "call" for s in mast.all_stmts(c["prog"])) or bool(c["prog"]["subs"])


def run(tier, replay):
    return run_property(
        "C03", c03.cases, tier, replay,
        rule="args: 5 parameter types x 8 argument shapes, all pairs of types x by-ref/by-val shapes for two parameters, "
             "non-fitting by-value conversions; locals: fresh per activation incl. recursion depth 1-4, recursive FUNCTION; "
             "function: result assigned 0/1/2 times x 5 use sites; static: ALL call histories of length <= 4 (5 thorough) "
             "over {direct, via another SUB, unrelated SUB, STATIC FUNCTION}; shared/const; calls nested in argument lists "
             "in all 6 orders; run-time errors at call depth 1-3; non-trivial = has a subprogram; distinct by text",
        assumptions=[
            "by-reference is modelled as copy-in/copy-out written back left to right; aliasing (same variable passed "
            "twice, SHARED variable also passed) is not generated because the property leaves it open",
            "the CALL keyword is not part of this dialect and is not generated",
        ], nontrivial=nontrivial)
