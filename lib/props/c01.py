"""C01 — running a core-language program yields exactly the prescribed output and outcome.

Families of programs (mini-ASTs) whose every member is run on the real interpreter
and validated by TLC against the reference semantics Core.tla."""
import random, itertools
from mast import *   # noqa

NUMT = ["I", "L", "S", "D"]
BLOCKS = ["if", "ifelse", "elseif", "select", "selectelse", "for+", "for-", "forvar", "forexpr",
          "while", "dotopwhile", "dotopuntil", "dobotwhile", "dobotuntil"]


def wrap(b, kind, body, d, ct="I"):
    """a statement list that runs `body` under construct `kind`, using counter C<d>"""
    c = var("C%d" % d, ct)
    w = var("W%d" % d, "I")
    one, two, zero = lit("I", 1), lit("I", 2), lit("I", 0)
    if kind == "if":
        return [b.let(c, lit(ct if ct != "L" else "I", 5)), b.if_([(bin_("=", c, lit("I", 5)), body)])]
    if kind == "ifelse":
        return [b.let(c, lit("I", 6)), b.if_([(bin_("=", c, lit("I", 5)), [b.print(lit("$", "no"))])], body)]
    if kind == "elseif":
        return [b.let(c, lit("I", 7)),
                b.if_([(bin_("=", c, lit("I", 5)), [b.print(lit("$", "no"))]),
                       (bin_(">", c, lit("I", 6)), body)], [b.print(lit("$", "no2"))])]
    if kind == "select":
        return [b.let(c, lit("I", 3)),
                b.select(c, [([eqt(lit("I", 1))], [b.print(lit("$", "no"))]),
                             ([rtest(lit("I", 2), lit("I", 4))], body)], [b.print(lit("$", "no2"))])]
    if kind == "selectlast":
        # the body is the LAST block of a SELECT CASE that has no CASE ELSE
        return [b.let(c, lit("I", 3)),
                b.select(c, [([eqt(lit("I", 1))], [b.print(lit("$", "no"))]),
                             ([rtest(lit("I", 2), lit("I", 4))], body)], None)]
    if kind == "selectelse":
        return [b.let(c, lit("I", 9)),
                b.select(c, [([eqt(lit("I", 1)), ist("<", lit("I", 0))], [b.print(lit("$", "no"))])], body)]
    if kind == "for+":
        return [b.for_(c, one, two, None, body)]
    if kind == "for-":
        return [b.for_(c, two, one, lit("I", -1), body)]
    if kind == "forvar":
        return [b.let(w, lit("I", -1)), b.for_(c, two, one, w, body)]
    if kind == "forexpr":
        return [b.let(w, lit("I", 3)), b.for_(c, one, lit("I", 3), bin_("-", w, one), body)]
    if kind == "while":
        return [b.let(c, zero), b.while_(bin_("<", c, two), [b.let(c, bin_("+", c, one))] + body)]
    if kind == "dotopwhile":
        return [b.let(c, zero), b.do("top", "while", bin_("<", c, two), [b.let(c, bin_("+", c, one))] + body)]
    if kind == "dotopuntil":
        return [b.let(c, zero), b.do("top", "until", bin_(">=", c, two), [b.let(c, bin_("+", c, one))] + body)]
    if kind == "dobotwhile":
        return [b.let(c, zero), b.do("bottom", "while", bin_("<", c, two), [b.let(c, bin_("+", c, one))] + body)]
    if kind == "dobotuntil":
        return [b.let(c, zero), b.do("bottom", "until", bin_(">=", c, two), [b.let(c, bin_("+", c, one))] + body)]
    raise ValueError(kind)


def fam_nest(tier, rng):
    out = []
    depth3 = BLOCKS if tier == "thorough" else ["ifelse", "for-", "select", "dobotuntil", "forvar"]
    for k1 in BLOCKS:
        for k2 in BLOCKS:
            for ct in (["I"] if tier == "quick" else ["I", "S", "L", "D"]):
                b = B()
                inner = [b.print(var("C1", ct), var("C2", ct))]
                body2 = wrap(b, k2, inner, 2, ct)
                main = wrap(b, k1, [b.print(lit("$", "a"))] + body2 + [b.print(lit("$", "z"))], 1, ct)
                main.append(b.print(var("C1", ct), var("C2", ct)))
                out.append({"fam": "nest:%s/%s/%s" % (k1, k2, ct), "prog": prog(main)})
    for k1 in depth3:
        for k2 in BLOCKS:
            for k3 in depth3:
                b = B()
                inner = [b.print(var("C1", "I"), var("C2", "I"), var("C3", "I"))]
                body3 = wrap(b, k3, inner, 3)
                body2 = wrap(b, k2, body3, 2)
                main = wrap(b, k1, body2, 1)
                main.append(b.print(var("C1", "I"), var("C2", "I"), var("C3", "I")))
                out.append({"fam": "nest3:%s/%s/%s" % (k1, k2, k3), "prog": prog(main)})
    return out


BOUND = [0, 1, -1, 2, 3, -3, 7, 100, 255, 32767, -32768, 32768, -32769, 65535, 65536, 100000,
         2147483647, -2147483647, 46341, -46341, 16777216]
SMALLV = [0, 1, -1, 2, 3, -3, 7]
OPS = ["+", "-", "*", "/", "mod", "=", "<>", "<", "<=", ">", ">=", "and", "or"]


def fits(t, v):
    if t == "I":
        return -32768 <= v <= 32767
    if t == "S":
        return abs(v) <= 16777216
    return -2147483648 <= v <= 2147483647


def set_var(b, name, t, v):
    """assign value v to typed variable; literals carry the narrowest type"""
    return b.let(var(name, t), num(v))


def fam_expr(tier, rng):
    out = []
    vals = BOUND if tier == "thorough" else [0, 1, -1, 3, 7, 32767, -32768, 32768, 100000, 46341, 2147483647]
    pairs = [(a, c) for a in vals for c in vals]
    for op in OPS:
        for ta in NUMT:
            for tb in NUMT:
                ps = [(x, y) for (x, y) in pairs if fits(ta, x) and fits(tb, y)]
                if tier == "quick":
                    rng.shuffle(ps)
                    ps = ps[:10]
                for x, y in ps:
                    b = B()
                    main = [set_var(b, "A", ta, x), set_var(b, "B", tb, y),
                            b.print(bin_(op, var("A", ta), var("B", tb))),
                            b.print(lit("$", "end"))]
                    out.append({"fam": "expr:%s/%s%s" % (op, ta, tb), "prog": prog(main)})
    # results stored into a variable of every type (conversion on assignment, Overflow at the right statement)
    import c06
    for c in c06.fam_arith(tier, rng):
        out.append({"fam": "exprstore:" + c["fam"].split(":", 1)[1], "prog": c["prog"]})
    # literal operands (types as the language assigns them), unary operators, strings
    for op in OPS:
        for x in SMALLV + [32767, 32768, 40000]:
            for y in SMALLV + [32767, 32768]:
                b = B()
                out.append({"fam": "exprlit:" + op, "prog": prog([b.print(bin_(op, num(x), num(y)))])})
    for uop in ["neg", "not"]:
        for t in NUMT:
            for x in vals:
                if fits(t, x):
                    b = B()
                    out.append({"fam": "unary:%s/%s" % (uop, t),
                                "prog": prog([set_var(b, "A", t, x), b.print(un(uop, var("A", t)))])})
    strs = ["", "a", "ab", "b", "A", "abc"]
    for op in ["+", "=", "<>", "<", "<=", ">", ">="]:
        for x in strs:
            for y in strs:
                b = B()
                out.append({"fam": "str:" + op, "prog": prog([
                    b.let(var("A", "$"), lit("$", x)), b.let(var("B", "$"), lit("$", y)),
                    b.print(bin_(op, var("A", "$"), var("B", "$")))])})
    # depth 2 with explicit parentheses, mixed types
    small = [1, -2, 3, 7]
    n2 = 3000 if tier == "thorough" else 300
    for _ in range(n2):
        op1, op2 = rng.choice(OPS), rng.choice(OPS)
        ts = [rng.choice(NUMT) for _ in range(3)]
        vs = [rng.choice(small + [100, 32767, 30000]) for _ in range(3)]
        b = B()
        A, Bv, C = var("A", ts[0]), var("B", ts[1]), var("C", ts[2])
        e1 = bin_(op2, par(bin_(op1, A, Bv)), C)
        e2 = bin_(op1, A, par(bin_(op2, Bv, C)))
        main = [set_var(b, "A", ts[0], vs[0]), set_var(b, "B", ts[1], vs[1]), set_var(b, "C", ts[2], vs[2]),
                b.print(e1), b.print(e2), b.let(var("R", rng.choice(NUMT)), e1), b.print(var("R", "I"))]
        main[-2]["lhs"] = var("R", rng.choice(NUMT))
        main[-1] = b.print(main[-2]["lhs"])
        out.append({"fam": "expr2", "prog": prog(main)})
    return out


def fam_for(tier, rng):
    out = []
    R = range(-2, 4)
    cts = NUMT if tier == "thorough" else ["I", "S"]
    for ct in cts:
        for lo in R:
            for hi in R:
                for st in R:
                    for form in (["lit", "var", "expr", "none"] if tier == "thorough" else ["lit", "var"]):
                        if form == "none" and st != 1:
                            continue
                        for mod in ([False, True] if tier == "thorough" else [False]):
                            b = B()
                            c = var("I", ct)
                            pre = []
                            if form == "lit":
                                step = num(st)
                            elif form == "var":
                                pre = [b.let(var("S", ct), num(st))]
                                step = var("S", ct)
                            elif form == "expr":
                                pre = [b.let(var("S", "I"), num(st + 1))]
                                step = bin_("-", var("S", "I"), lit("I", 1))
                            else:
                                step = None
                            body = [b.print(c)]
                            if mod:
                                body.append(b.let(c, bin_("+", c, lit("I", 1))))
                            main = pre + [b.for_(c, num(lo), num(hi), step, body), b.print(lit("$", "after"), c)]
                            out.append({"fam": "for:%s/%s%s" % (ct, form, "/mod" if mod else ""), "prog": prog(main)})
    # start, limit and step are evaluated in that order: when two of them fail, the error is that of the first
    for ct in ("I", "L"):
        for which in ("lo-hi", "lo-step", "hi-step", "all"):
            b = B()
            c = var("K", ct)
            z = var("ZZ", "I")
            bad_lo = bin_("/", lit("I", 1), z)                      # division by zero (11)
            bad_hi = bin_("*", lit("I", 30000), lit("I", 30000)) if ct == "L" else lit("L", 70000)    # overflow (6)
            bad_st = idx("AR", "I", [lit("I", 9)])                  # subscript out of range (9)
            lo = bad_lo if which in ("lo-hi", "lo-step", "all") else lit("I", 1)
            hi = bad_hi if which in ("lo-hi", "hi-step", "all") else lit("I", 3)
            st = bad_st if which in ("lo-step", "hi-step", "all") else lit("I", 1)
            main = [b.dim("AR", "I", [{"lo": lit("I", 0), "hi": lit("I", 2), "nolo": False}]), b.for_(c, lo, hi, st, [b.print(c)]), b.print(lit("$", "after"))]
            out.append({"fam": "for:error-order/%s/%s" % (ct, which), "prog": prog(main)})
    # limit and step evaluated once; limit variable changed in the body
    for ct in NUMT:
        b = B()
        c, n, s = var("I", ct), var("N", ct), var("S", ct)
        main = [b.let(n, lit("I", 3)), b.let(s, lit("I", 1)),
                b.for_(c, lit("I", 1), n, s, [b.print(c), b.let(n, lit("I", 10)), b.let(s, lit("I", 5))]),
                b.print(c, n, s)]
        out.append({"fam": "for:once/" + ct, "prog": prog(main)})
    return out


def fam_select(tier, rng):
    out = []
    subjects = [("I", v) for v in range(-1, 6)] + [("S", 2), ("D", 3), ("L", 4)]
    forms = [
        lambda: [eqt(lit("I", 2))],
        lambda: [ist("<", lit("I", 1))],
        lambda: [ist(">=", lit("I", 4))],
        lambda: [rng_(1, 3)],
        lambda: [eqt(lit("I", 0)), rng_(4, 5)],
        lambda: [ist("<>", lit("I", 2))],
        lambda: [rng_(3, 1)],
    ]
    for (t, v) in subjects:
        for f1 in range(len(forms)):
            for f2 in range(len(forms)):
                for els in (True, False):
                    b = B()
                    cases = [(forms[f1](), [b.print(lit("$", "one"))]), (forms[f2](), [b.print(lit("$", "two"))])]
                    main = [set_var(b, "X", t, v),
                            b.select(var("X", t), cases, [b.print(lit("$", "else"))] if els else None),
                            b.print(lit("$", "end"))]
                    out.append({"fam": "select:%s" % t, "prog": prog(main)})
    # every test form at, just below and just above its boundary values, for every subject type
    tests = [("eq", lambda: [eqt(lit("I", 3))]), ("range", lambda: [rng_(3, 5)]), ("list", lambda: [eqt(lit("I", 1)), rng_(3, 5), ist(">", lit("I", 8))])]
    tests += [("is" + op, (lambda op=op: [ist(op, lit("I", 3))])) for op in ("=", "<>", "<", "<=", ">", ">=")]
    for name, f in tests:
        for t in ("I", "L", "S", "D"):
            for v in (0, 1, 2, 3, 4, 5, 6, 8, 9):
                b = B()
                main = [set_var(b, "X", t, v),
                        b.select(var("X", t), [(f(), [b.print(lit("$", "hit"))])], [b.print(lit("$", "else"))]),
                        b.print(lit("$", "end"))]
                out.append({"fam": "select-edge:%s/%s" % (name, t), "prog": prog(main)})
    for s in ["a", "b", "c", ""]:
        b = B()
        cases = [([eqt(lit("$", "a"))], [b.print(lit("$", "A"))]),
                 ([rtest(lit("$", "b"), lit("$", "bz"))], [b.print(lit("$", "B"))])]
        out.append({"fam": "select:$", "prog": prog([b.let(var("X", "$"), lit("$", s)),
                    b.select(var("X", "$"), cases, [b.print(lit("$", "else"))])])})
    return out


def rng_(a, c):
    return rtest(lit("I", a), lit("I", c))


def fam_data(tier, rng):
    out = []
    datas = [[("I", 1), ("I", 2), ("I", 3)], [("I", 40000), ("I", 2)], [("$", "x"), ("$", "yz")], [("I", -7)], []]
    for dv in datas:
        for nread in range(0, 4):
            for tt in NUMT + ["$"]:
                for place in ("before", "after", "split"):
                    b = B()
                    items = [dlit(v) for t, v in dv]
                    if dv and dv[0][0] == "$" and tt != "$":
                        continue
                    if dv and dv[0][0] != "$" and tt == "$":
                        continue
                    reads = []
                    for i in range(nread):
                        reads.append(b.read(var("R%d" % i, tt)))
                        reads.append(b.print(var("R%d" % i, tt)))
                    if not items:
                        main = reads
                    elif place == "before":
                        main = [b.data(*items)] + reads
                    elif place == "after":
                        main = reads + [b.data(*items)]
                    else:
                        main = [b.data(*items[:1])] + reads + ([b.data(*items[1:])] if items[1:] else [])
                    main.append(b.print(lit("$", "end")))
                    out.append({"fam": "data:%s" % tt, "prog": prog(main)})
    return out


FAILS = {
    "div0": lambda b: b.let(var("Z", "I"), bin_("/", lit("I", 1), var("Q", "I"))),
    "ovf": lambda b: b.let(var("Z", "I"), num(40000)),
    "mod0": lambda b: b.print(bin_("mod", lit("I", 5), var("Q", "I"))),
    "zerostep": lambda b: b.for_(var("K", "I"), lit("I", 1), lit("I", 2), var("Q", "I"), [b.print(lit("$", "x"))]),
    "nodata": lambda b: b.read(var("Z", "I")),
    "ovfadd": lambda b: b.let(var("Z", "I"), bin_("+", var("M", "I"), var("M", "I"))),
}


def fam_err(tier, rng):
    out = []
    blocks = ["main"] + BLOCKS
    for fk, mk in FAILS.items():
        for blk in blocks:
            for where in ("only", "first", "middle", "last"):
                b = B()
                pre = [b.let(var("M", "I"), lit("I", 32767))]
                f = mk(b)
                p1, p2 = b.print(lit("$", "p1")), b.print(lit("$", "p2"))
                body = {"only": [f], "first": [f, p1], "middle": [p1, f, p2], "last": [p1, f]}[where]
                if blk == "main":
                    main = pre + body
                else:
                    main = pre + wrap(b, blk, body, 1)
                main.append(b.print(lit("$", "end")))
                out.append({"fam": "err:%s/%s/%s" % (fk, blk, where), "prog": prog(main)})
    return out


# ------------------------------------------------------------------ random programs
class RandGen:
    def __init__(self, rng, maxdepth=4, maxstmts=40):
        self.rng = rng
        self.maxdepth = maxdepth
        self.budget = maxstmts
        self.b = B()
        self.nvars = {t: ["A", "B", "C"] for t in NUMT}
        self.loopn = 0

    def nexpr(self, d=0):
        r = self.rng
        c = r.random()
        if d >= 2 or c < 0.3:
            if r.random() < 0.5:
                return num(r.choice([0, 1, 2, 3, 5, -1, -4, 10, 100, 1000, 30000]))
            t = r.choice(NUMT)
            return var(r.choice(self.nvars[t]), t)
        if c < 0.4:
            return un(r.choice(["neg", "not"]), par(self.nexpr(d + 1)))
        op = r.choice(["+", "-", "*", "+", "-", "mod", "and", "or", "=", "<", ">", "<=", ">=", "<>", "/"])
        return bin_(op, par(self.nexpr(d + 1)), par(self.nexpr(d + 1)))

    def cond(self):
        r = self.rng
        return bin_(r.choice(["=", "<", ">", "<=", ">=", "<>"]), self.nexpr(1), self.nexpr(1))

    def block(self, depth):
        n = self.rng.randint(1, 3)
        out = []
        for _ in range(n):
            out.extend(self.stmt(depth))
        return out

    def stmt(self, depth):
        r = self.rng
        b = self.b
        self.budget -= 1
        if self.budget <= 0 or depth >= self.maxdepth:
            return [b.print(self.nexpr(1))]
        c = r.random()
        if c < 0.25:
            t = r.choice(NUMT)
            return [b.let(var(r.choice(self.nvars[t]), t), self.nexpr())]
        if c < 0.4:
            return [b.print(self.nexpr(), self.nexpr(1))]
        if c < 0.55:
            arms = [(self.cond(), self.block(depth + 1))]
            if r.random() < 0.4:
                arms.append((self.cond(), self.block(depth + 1)))
            return [b.if_(arms, self.block(depth + 1) if r.random() < 0.5 else None)]
        if c < 0.7:
            self.loopn += 1
            ct = r.choice(NUMT)
            cv = var("I%d" % self.loopn, ct)
            lo, hi = r.randint(-2, 3), r.randint(-2, 3)
            st = r.choice([1, 1, -1, 2, -2, None])
            body = [b.print(cv)] + self.block(depth + 1)
            return [b.for_(cv, num(lo), num(hi), num(st) if st is not None else None, body)]
        if c < 0.8:
            self.loopn += 1
            cv = var("W%d" % self.loopn, "I")
            body = [b.let(cv, bin_("+", cv, lit("I", 1)))] + self.block(depth + 1)
            kind = r.choice(["while", "dtw", "dtu", "dbw", "dbu"])
            lt, ge = bin_("<", cv, lit("I", 2)), bin_(">=", cv, lit("I", 2))
            pre = [b.let(cv, lit("I", 0))]
            if kind == "while":
                return pre + [b.while_(lt, body)]
            if kind == "dtw":
                return pre + [b.do("top", "while", lt, body)]
            if kind == "dtu":
                return pre + [b.do("top", "until", ge, body)]
            if kind == "dbw":
                return pre + [b.do("bottom", "while", lt, body)]
            return pre + [b.do("bottom", "until", ge, body)]
        if c < 0.9:
            cases = []
            for _ in range(r.randint(1, 3)):
                tests = []
                for _ in range(r.randint(1, 2)):
                    k = r.random()
                    if k < 0.4:
                        tests.append(eqt(num(r.randint(-1, 3))))
                    elif k < 0.7:
                        tests.append(ist(r.choice(["<", ">", "<=", ">=", "<>"]), num(r.randint(-1, 3))))
                    else:
                        tests.append(rtest(num(r.randint(-2, 1)), num(r.randint(0, 4))))
                cases.append((tests, self.block(depth + 1)))
            return [b.select(self.nexpr(1), cases, self.block(depth + 1) if r.random() < 0.5 else None)]
        return [b.read(var(r.choice(["A", "B"]), r.choice(NUMT)))]

    def program(self):
        main = []
        nd = self.rng.randint(0, 2)
        for _ in range(self.rng.randint(2, 6)):
            main.extend(self.stmt(0))
        for _ in range(nd):
            main.insert(self.rng.randint(0, len(main)),
                        self.b.data(*[dlit(self.rng.choice([1, 2, -3, 40000, 7])) for _ in range(self.rng.randint(1, 3))]))
        main.append(self.b.print(var("A", "I"), var("B", "L"), var("C", "S"), var("A", "D")))
        return prog(main)


def fam_random(tier, rng):
    n = 4000 if tier == "thorough" else 300
    return [{"fam": "random", "prog": RandGen(rng).program()} for _ in range(n)]


def fam_elseif(tier, rng):
    """IF with one to three ELSEIF arms and an optional ELSE: exactly the first arm whose condition holds runs"""
    out = []
    for n in (1, 2, 3):
        for els in (True, False):
            for x in range(0, n + 3):
                b = B()
                v = var("X", "I")
                arms = [(bin_("=", v, lit("I", j)), [b.print(lit("$", "arm"), lit("I", j))]) for j in range(1, n + 2)]
                main = [b.let(v, lit("I", x)), b.if_(arms, [b.print(lit("$", "else"))] if els else None), b.print(lit("$", "end"))]
                out.append({"fam": "elseif:%d/%s" % (n, els), "prog": prog(main)})
    return out


def fam_forconv(tier, rng):
    """the bounds and the step of a FOR are converted to the type of the counter when the loop starts: a value that
    does not fit raises Overflow at the FOR statement, before any iteration"""
    out = []
    for ct, big in (("I", 40000), ("I", -40000), ("I", 32768)):       # inside the exactly representable domain of the spec
        for which in ("lo", "hi", "step"):
            for bt in ("L", "D", "S"):
                if big > 2147483647 and bt == "L":
                    continue
                if bt == "S" and abs(big) > 16777216:
                    continue
                b = B()
                c = var("K", ct)
                bv = var("BV", bt)
                lo, hi, st = lit("I", 1), lit("I", 3), lit("I", 1)
                if which == "lo":
                    lo = bv
                elif which == "hi":
                    hi = bv
                else:
                    st = bv
                main = [b.let(bv, num(big)), b.print(lit("$", "start")), b.for_(c, lo, hi, st, [b.print(c)]), b.print(lit("$", "after"))]
                out.append({"fam": "forconv:%s/%s/%s" % (ct, which, bt), "prog": prog(main)})
    return out


def fam_truth(tier, rng):
    """a condition is true when it is not zero: 1, 2, -2, 5 count like -1 in IF, WHILE, DO WHILE / UNTIL and LOOP WHILE / UNTIL"""
    out = []
    for t in ("I", "L", "S", "D"):
        for v in (0, 1, 2, -1, -2, 5):
            for host in ("if", "while", "dowhile", "dountil", "loopwhile", "loopuntil"):
                b = B()
                c, n = var("C", t), var("N", "I")
                inc = b.let(n, bin_("+", n, lit("I", 1)))
                if host == "if":
                    main = [b.let(c, num(v)), b.if_([(c, [b.print(lit("$", "t"))])], [b.print(lit("$", "f"))])]
                elif host in ("while", "dowhile"):
                    body = [inc, b.let(c, lit("I", 0))]
                    main = [b.let(c, num(v)), b.while_(c, body) if host == "while" else b.do("top", "while", c, body)]
                elif host == "dountil":
                    main = [b.let(c, num(v)), b.do("top", "until", c, [inc, b.let(c, lit("I", 7))])]
                elif host == "loopwhile":
                    body = [inc, b.if_([(bin_("=", n, lit("I", 1)), [b.let(c, num(v))])], [b.let(c, lit("I", 0))])]
                    main = [b.do("bot", "while", c, body)]
                else:
                    body = [inc, b.if_([(bin_("=", n, lit("I", 1)), [b.let(c, num(v))])], [b.let(c, lit("I", 7))])]
                    main = [b.do("bot", "until", c, body)]
                main.append(b.print(lit("$", "n"), n, c))
                out.append({"fam": "truth:%s/%s" % (host, t), "prog": prog(main)})
    return out


def fam_condfrac(tier, rng):
    """a condition that is a number strictly between -1 and 1 (or any other non-zero fraction) is TRUE"""
    out = []
    for ft in ("S", "D"):
        for (w, f) in ((0, 1), (0, 2), (0, 4), (0, 6), (0, 9), (3, 2)):
            for neg in (False, True):
                for host in ("if", "ifelse-line", "dountil", "dowhile-once", "elseif"):
                    b = B()
                    c = flit(ft, w, f, neg)
                    if host == "if":
                        main = [b.if_([(c, [b.print(lit("$", "t"))])], [b.print(lit("$", "f"))])]
                    elif host == "ifelse-line":
                        st = b.if_([(c, [b.print(lit("$", "t"))])], [b.print(lit("$", "f"))])
                        st["oneline"] = True
                        main = [st]
                    elif host == "dountil":
                        main = [b.do("bot", "until", c, [b.print(lit("$", "body"))])]
                    elif host == "dowhile-once":
                        main = [b.do("top", "until", c, [b.print(lit("$", "never"))])]
                    else:
                        main = [b.if_([(lit("I", 0), [b.print(lit("$", "zero"))]), (c, [b.print(lit("$", "t"))])], [b.print(lit("$", "f"))])]
                    main.append(b.print(lit("$", "end")))
                    out.append({"fam": "condfrac:%s/%s" % (host, ft), "prog": prog(main)})
    return out


def fam_empty(tier, rng):
    """blocks without statements: an empty block that is selected does nothing - in particular it does not fall into
    the next block; loops with empty bodies still count and end"""
    out = []
    say = lambda b, t: [b.print(lit("$", t))]
    for v in (0, 1, 2, 3):
        for empties in ((1,), (2,), (1, 2), (3,), (1, 3), (2, 3), ()):
            for els in ("else", "emptyelse", "none"):
                # SELECT CASE with CASE 1 / CASE 2 / CASE 1 TO 3 blocks
                b = B()
                blocks = [([eqt(lit("I", 1))], [] if 1 in empties else say(b, "one")),
                          ([eqt(lit("I", 2)), eqt(lit("I", 7))], [] if 2 in empties else say(b, "two")),
                          ([rng_(1, 3)], [] if 3 in empties else say(b, "range"))]
                e = say(b, "else") if els == "else" else ([] if els == "emptyelse" else None)
                main = [b.let(var("X", "I"), lit("I", v)), b.select(var("X", "I"), blocks, e), b.print(lit("$", "end"))]
                out.append({"fam": "empty:select/%s/%s" % ("".join(map(str, empties)) or "-", els), "prog": prog(main)})
                # the same decision as IF / ELSEIF / ELSE
                b = B()
                x = var("X", "I")
                arms = [(bin_("=", x, lit("I", 1)), [] if 1 in empties else say(b, "one")),
                        (bin_("=", x, lit("I", 2)), [] if 2 in empties else say(b, "two")),
                        (bin_("<=", x, lit("I", 3)), [] if 3 in empties else say(b, "range"))]
                main = [b.let(x, lit("I", v)), b.if_(arms, e), b.print(lit("$", "end"))]
                out.append({"fam": "empty:if/%s/%s" % ("".join(map(str, empties)) or "-", els), "prog": prog(main)})
    for t in ("I", "S"):
        b = B()
        c = var("C", t)
        main = [b.for_(c, lit("I", 1), lit("I", 3), None, [], hasstep=False), b.print(lit("$", "for"), c),
                b.for_(c, lit("I", 3), lit("I", 1), None, [], hasstep=False), b.print(lit("$", "for0"), c),
                b.while_(bin_("<", c, lit("I", 0)), []), b.print(lit("$", "while")),
                b.do("bot", "until", bin_(">", c, lit("I", 0)), []), b.print(lit("$", "do")),
                b.do("top", "while", bin_("<", c, lit("I", 0)), []), b.print(lit("$", "dotop"))]
        out.append({"fam": "empty:loops/" + t, "prog": prog(main)})
    return out


FAMILIES = [fam_empty, fam_condfrac, fam_truth, fam_elseif, fam_forconv, fam_nest, fam_expr, fam_for, fam_select, fam_data, fam_err, fam_random]


def fam_roundstore(tier, rng):
    """fractional constants stored into INTEGER / LONG variables at and around the ends of their ranges (the `round` and
    `narrow` families of C06, every third case in quick): the value is rounded first, then checked against the range"""
    import c06
    out = []
    cs = c06.fam_round(tier, rng) + c06.fam_narrow(tier, rng)
    for c in (cs if tier == "thorough" else cs[::3]):
        out.append({"fam": "roundstore:" + c["fam"].split(":")[0], "prog": c["prog"]})
    return out


FAMILIES.append(fam_roundstore)


def cases(tier, seed):
    rng = random.Random(seed)
    out = []
    for f in FAMILIES:
        out.extend(f(tier, rng))
    # the same loop nests written on ONE line with colons: several blocks of one kind begin on the same row (what the machine
    # makes of a block must not depend on the row alone)
    import copy
    from run_c15 import mark_colon_prog
    extra = []
    for c in out:
        if c["fam"].startswith(("nest", "for:", "empty")) and len(extra) < (3000 if tier == "thorough" else 300):
            p = copy.deepcopy(c["prog"])
            if mark_colon_prog(p):
                extra.append({"fam": "colon:" + c["fam"], "prog": p})
    out += extra
    for i, c in enumerate(out):
        c["id"] = i + 1
    return out
