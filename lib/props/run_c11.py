"""C11 check: every diagnostic names the right place in the source.

Diag.tla is the space of cases (an accepted skeleton x one injected fault x nesting depth x call depth x
layout); TLC enumerates a configuration of it exhaustively (BFS) and samples deep histories (-simulate).
c11.py renders each case and records the CHARACTER offsets of the offending statement and of the call
sites.  The real parser / checker / VM reports a diagnostic; Trace_Diag.tla derives rows and columns from
the characters with the position machine of Text.tla (checked against the declarative definition in
MC_Text) and judges stage, family, row, column and call-site rows."""
import os, json, random
from common import out_dir, dumps, seed, ToolError
from pool import Pool
from report import Reporter
from tlc import run_tlc
import c11


def compress(text):
    rt = []
    for ch in text:
        if ch == "\r":
            rt.append(0)
        elif ch == "\n":
            rt.append(-1)
        elif rt and rt[-1] > 0:
            rt[-1] += 1
        else:
            rt.append(1)
    return rt


def eof_programs():
    """blocks that are never closed (alone, after other statements, nested, inside a procedure)"""
    openers = {"for": ["FOR I% = 1 TO 3", "  PRINT I%"], "while": ["WHILE X% < 3", "  X% = X% + 1"], "do": ["DO", "  X% = X% + 1"],
               "if": ["IF X% = 0 THEN", "  PRINT 1"], "ifelse": ["IF X% = 0 THEN", "  PRINT 1", "ELSE", "  PRINT 2"],
               "select": ["SELECT CASE X%", "CASE 1", "  PRINT 1"], "selectelse": ["SELECT CASE X%", "CASE ELSE", "  PRINT 1"],
               "sub": ["SUB P", "  PRINT 1"], "function": ["FUNCTION F%", "  F% = 1"], "type": ["TYPE T", "  A AS INTEGER"],
               "sub-for": ["SUB P", "  FOR I% = 1 TO 2", "    PRINT I%"], "for-while": ["FOR I% = 1 TO 2", "  WHILE X% < 1", "    X% = 1"]}
    out = []
    for name, lines in openers.items():
        out.append((name, lines))
        out.append((name + "/after", ["X% = 0", "' a comment", ""] + lines))
        out.append((name + "/comment-last", lines + ["  ' the end"]))
        out.append((name + "/blank-last", lines + [""]))
    return out


def enumerate_cases(tier, d):
    cases = []
    states = trans = 0
    # two exhaustive configurations: wide (every fault incl. host x expression, shallow) and deep (named faults, nested)
    for cfg in (("Diag_quick.cfg", "Diag_quick_deep.cfg") if tier == "quick" else ("Diag_thorough.cfg", "Diag_thorough_deep.cfg", "Diag_thorough_mods.cfg")):
        res = run_tlc("Diag.tla", cfg, os.path.join(d, "tlc_diag"), timeout=3000)
        if res.timed_out or not res.ok:
            raise ToolError("TLC failed enumerating Diag.tla (%s):\n%s" % (cfg, res.violation))
        cases += [json.loads(ln[5:]) for ln in res.printed if ln.startswith("CASE ")]
        states += res.distinct
        trans += res.generated
    if len(cases) > 200000:
        # the exhaustive configurations of the thorough tier are sampled down when the product grows beyond what can be run
        rnd = random.Random(seed())
        rnd.shuffle(cases)
        cases = cases[:200000]
    num = 1500 if tier == "quick" else 40000
    sim = run_tlc("Diag.tla", "Diag_sim.cfg", os.path.join(d, "tlc_diag_sim"), timeout=3000, workers=4,
                  simulate="num=%d" % num, extra=["-depth", "8", "-seed", str(seed())])
    if sim.timed_out:
        raise ToolError("TLC simulation of Diag.tla timed out")
    seen = set()
    simcases = []
    for ln in sim.printed:
        if ln.startswith("CASE ") and ln not in seen:
            seen.add(ln)
            simcases.append(json.loads(ln[5:]))
    return cases, simcases, states, trans, res.cmd, sim.cmd


def fix_case(c):
    """ToJson renders an empty sequence as [] and sets as arrays; normalise"""
    c = dict(c)
    c["chain"] = list(c.get("chain") or [])
    c["mods"] = list(c.get("mods") or [])
    c["nest"] = list(c.get("nest") or [])
    c["fams"] = sorted(c["fams"])
    return c


def observed(resp):
    if resp is None or resp.get("timeout") or resp.get("abort"):
        return {"stage": "lost", "fam": "", "pos": []}
    if "panic" in resp:
        return {"stage": "panic", "fam": "", "pos": []}
    if resp.get("stage") in ("parse", "lint"):
        e = resp.get("error") or {}
        return {"stage": resp["stage"], "fam": str(e.get("dbg")).split("(")[0], "pos": [list(e.get("pos") or [0, 0])]}
    oc = resp.get("outcome") or {}
    if oc.get("k") == "err":
        return {"stage": "run", "fam": str(oc.get("dbg")).split("(")[0], "pos": [list(p) for p in oc.get("pos") or []]}
    return {"stage": "run-" + str(oc.get("k")), "fam": "", "pos": []}


def file_pass(rep, d, tier, items):
    """The shipped program reads its text from a FILE (another loader than the one the serve harness uses): for a sample of
    the cases, under every line-end convention, it must report the stage and the positions the harness reported."""
    import subprocess, concurrent.futures, re, shutil
    from common import HARNESS
    exe = os.path.join(HARNESS, "target", "debug", "rusty_basic_shipped")
    if not os.path.exists(exe):
        raise ToolError("the shipped binary was not built: " + exe)
    root = os.path.join(d, "filefs")
    shutil.rmtree(root, ignore_errors=True)
    os.makedirs(root, exist_ok=True)
    posre = re.compile(r"Position \{ row: (\d+), col: (\d+) \}")

    def one(i):
        text = items[i][1]
        wd = os.path.join(root, "f%d" % i)
        os.makedirs(wd, exist_ok=True)
        with open(os.path.join(wd, "P.BAS"), "wb") as f:
            f.write(text.encode("utf-8"))
        env = {k: v for k, v in os.environ.items() if k not in ("SERVER_NAME", "PATH_TRANSLATED")}
        env["RUST_BACKTRACE"] = "0"
        try:
            p = subprocess.run([exe, "P.BAS"], cwd=wd, input=b"", stdout=subprocess.PIPE, stderr=subprocess.PIPE, timeout=10, env=env)
        except subprocess.TimeoutExpired:
            return None
        err = p.stderr.decode("utf-8", "replace")
        stage = "parse" if "Could not parse" in err else "lint" if "Could not lint" in err else "run" if "Runtime error" in err else \
                "panic" if "panicked at" in err else "none"
        return {"stage": stage, "pos": [[int(a), int(b)] for a, b in posre.findall(err)]}

    with concurrent.futures.ThreadPoolExecutor(8) as ex:
        results = list(ex.map(one, range(len(items))))
    shutil.rmtree(root, ignore_errors=True)
    n = {"compared": 0, "same": 0, "skipped": 0}
    for (feats, text, obs), got in zip(items, results):
        if got is None or obs["stage"] not in ("parse", "lint", "run"):
            n["skipped"] += 1       # a loop cut by the wall clock, or the harness run was not a located error
            continue
        n["compared"] += 1
        if got["stage"] == obs["stage"] and got["pos"] == obs["pos"]:
            n["same"] += 1
            continue
        rep.violation({"case": "the same text read from a file by the shipped program", "rendered_text": text, "observed_from_file": got,
                       "observed_from_text": obs, "expected": "the same stage and the same positions: the text is the same"},
                      set(feats) | {"what:file-differs"}, name="file")
    return n


def run(tier, replay):
    rep = Reporter("C11", tier, "model_checking")
    pool = Pool()
    d = out_dir("C11")
    # 0. the position machine against its definition (D-level)
    mc = run_tlc("MC_Text.tla", "MC_Text.cfg", os.path.join(d, "tlc_text"), timeout=1200)
    if mc.timed_out or not mc.ok:
        if mc.violation and "violated" in mc.violation:
            rep.violation({"case": "MC_Text", "detail": mc.violation[:2000]}, {"design"}, name="design")
            return rep.finish({"evaluations": 0, "distinct_nontrivial": 0, "rule": "design check failed", "samples": []}, [])
        raise ToolError("TLC failed on MC_Text:\n%s" % mc.violation)
    states, trans = mc.distinct, mc.generated
    if replay:
        with open(replay) as f:
            rp = json.load(f)
        if not isinstance(rp.get("case"), dict) or "fault" not in rp["case"]:
            # a violation of the file pass (or of the end-of-input family): the text itself is replayed through both loaders
            resp = pool.map([{"op": "run", "text": rp["rendered_text"], "budget": 200000}], timeout=40)[0]
            n = file_pass(rep, d, tier, [({"replay"}, rp["rendered_text"], observed(resp))])
            print("replay: from text", observed(resp), "file pass", n)
            return rep.finish({"evaluations": 1, "distinct_nontrivial": 1, "rule": "replay of one text through both loaders", "samples": [],
                               "states": states, "transitions": trans, "traces_validated_against_impl": 1}, [])
        cases, simcases = [fix_case(rp["case"])], []
        cmd1 = cmd2 = ""
    else:
        cases, simcases, s1, t1, cmd1, cmd2 = enumerate_cases(tier, d)
        states += s1
        trans += t1
        cases = [fix_case(c) for c in cases]
        simcases = [fix_case(c) for c in simcases]
        if os.environ.get("VERIF_C11_ONLY_EOF"):      # development switch: only the end-of-input family
            cases, simcases = cases[:50], []
    allcases = [("bfs", c) for c in cases] + [("sim", c) for c in simcases]
    built = [c11.build(c) for _, c in allcases]
    reqs = [{"op": "run", "text": b["text"], "budget": 200000} for b in built]
    resps = pool.map(reqs, timeout=40)
    recs = []
    for i, ((src, c), b, resp) in enumerate(zip(allcases, built, resps)):
        recs.append({"id": i + 1, "rt": compress(b["text"]), "len": len(b["text"]), "stmt": b["stmt"], "term": b["term"],
                     "sites": b["sites"], "stage": c["stage"], "fams": c["fams"], "obs": observed(resp)})
    # faults that only the end of the input reveals: the same text under every line-end convention
    eof_cases = eof_programs()
    eof_texts = []
    for name, lines in eof_cases:
        for final in (True, False):
            for eol in ("\r\n", "\n", "\r"):
                eof_texts.append((name, final, eol.join(lines) + (eol if final else "")))
    eof_resps = pool.map([{"op": "run", "text": t, "budget": 20000} for _, _, t in eof_texts], timeout=40)
    eof_recs = []
    for k in range(0, len(eof_texts), 3):
        grp = eof_texts[k:k + 3]
        eof_recs.append({"id": len(recs) + len(eof_recs) + 1, "kind": "eof", "rts": [compress(t) for _, _, t in grp], "lens": [len(t) for _, _, t in grp],
                         "obs": [observed(r) for r in eof_resps[k:k + 3]], "name": grp[0][0], "final": grp[0][1], "text": grp[0][2]})
    eof_by_id = {r["id"]: r for r in eof_recs}
    nmain = len(recs)
    recs = recs + [{k: v for k, v in r.items() if k not in ("name", "final", "text")} for r in eof_recs]
    verdicts = {}
    chunk = 20000
    cmd3 = ""
    for start in range(0, len(recs), chunk):
        path = os.path.join(d, "diag_%d.ndjson" % start)
        with open(path, "w") as f:
            for r in recs[start:start + chunk]:
                f.write(dumps(r) + "\n")
        res = run_tlc("Trace_Diag.tla", "Trace_Diag.cfg", os.path.join(d, "tlc_trace"), env={"TRACE": path}, timeout=3000)
        cmd3 = res.cmd
        if res.timed_out or not res.ok:
            raise ToolError("TLC failed on Trace_Diag (%s):\n%s" % (path, res.violation))
        states += res.distinct
        trans += res.generated
        for ln in res.printed:
            w = ln.split(" ", 2)
            if w[0] in ("AGREE", "MISMATCH"):
                verdicts[int(w[1])] = (w[0], w[2] if len(w) > 2 else "")
        os.remove(path)
    missing = [r["id"] for r in recs if r["id"] not in verdicts]
    if missing:
        raise ToolError("Trace_Diag gave no verdict for %d records (first id %d)" % (len(missing), missing[0]))
    bystage, byfault, bywhat = {}, {}, {}
    for rid_, er in sorted(eof_by_id.items()):
        v, what = verdicts[rid_]
        if v == "AGREE":
            continue
        bywhat[what] = bywhat.get(what, 0) + 1
        rep.violation({"case": {"eof-fault": er["name"], "line_end_after_last_line": er["final"]}, "rendered_text": er["text"],
                       "observed_crlf_lf_cr": er["obs"], "judgement": what,
                       "expected": "a static error with one position, the same under CR LF / LF / CR, on a row of the text"},
                      {"what:" + what, "eof-fault:" + er["name"]}, name="eof")
    for i, ((src, c), b, resp) in enumerate(zip(allcases, built, resps)):
        v, what = verdicts[i + 1]
        bystage[c["stage"]] = bystage.get(c["stage"], 0) + 1
        fk = c["fault"].split("|")[0]
        byfault[fk] = byfault.get(fk, 0) + 1
        if v == "AGREE":
            continue
        if what.startswith("SPECBUG"):
            raise ToolError("renderer marks are inconsistent for case %s" % dumps(c))
        bywhat[what] = bywhat.get(what, 0) + 1
        feats = {"what:" + what, "fault:" + c["fault"], "stage:" + c["stage"], "eol:" + c["eol"], "calls:%d" % len(c["chain"]),
                 "nestdepth:%d" % len(c["nest"]), "src:" + src}
        feats |= {"nest:" + k for k in c["nest"]}
        if c.get("prior"):
            feats.add("prior-handled-error")
        if resp and "panic" in resp:
            feats.add("panic")
        rep.violation({"case": c, "rendered_text": b["text"], "marks": {k: b[k] for k in ("stmt", "term", "sites")},
                       "observed": recs[i]["obs"], "judgement": what, "panic": (resp or {}).get("panic"),
                       "expected": "stage %s, family in %s, row of the statement, column inside it, call-site rows innermost first"
                                   % (c["stage"], c["fams"])}, feats, name=what.split()[0])
    fstats = {}
    if not replay:
        # a sample for the file pass: every k-th case, so that every line-end convention, stage and fault kind is in it
        k = max(1, len(built) // (1500 if tier == "thorough" else 400))
        items = [({"eol:" + c["eol"], "stage:" + c["stage"], "fault:" + c["fault"]}, b["text"], recs[i]["obs"])
                 for i, ((src, c), b) in enumerate(zip(allcases, built)) if i % k == 0]
        items += [({"eof-fault:" + name}, t, observed(r)) for (name, final, t), r in zip(eof_texts, eof_resps)]
        # texts in which a character of several bytes lies across the 8192nd / 16384th byte of the file, with the fault
        # further right on the SAME line (a loader that reads the file block by block must not cut a character in two)
        strad = []
        for ch in ("\u00e9", "\u20ac", "\U0001F600"):
            w = len(ch.encode("utf-8"))
            for boundary in (8192, 16384, 65536):
                for fault_name, fault_txt in (("div0", ": X = 1 / 0"), ("syntax", ": X = = 1"), ("lint", ': X% = "s"')):
                    for off in range(1, w):
                        # the prefix is as long as it takes for one character to start `off` bytes before the boundary
                        head = 'A$ = "'
                        pad = (boundary - off - len(head)) % w
                        nch = (boundary - off - len(head) - pad) // w + 3
                        strad.append(({"straddle:%d/%d" % (boundary, w), "fault:" + fault_name},
                                      "PRINT 1\r\n" [:0] + head + "x" * pad + ch * nch + '"' + fault_txt + "\r\nPRINT 2\r\n"))
        sresp = pool.map([{"op": "run", "text": t, "budget": 20000} for _, t in strad], timeout=40)
        items += [(f, t, observed(r)) for (f, t), r in zip(strad, sresp)]
        fstats = file_pass(rep, d, tier, items)
        fstats["straddling_texts"] = len(strad)
        # positions far down and far right: the same text behind N more lines (N around and beyond 65536) reports every row N
        # further down, the same text with every line K blanks further right reports every column K further right (Text.tla:
        # the position machine adds a row per line end and a column per character, MC_Text RowsMonotone)
        far = []
        step = max(1, len(built) // (36 if tier == "thorough" else 12))
        for i in range(0, len(built), step):
            o = recs[i]["obs"]
            if o["stage"] not in ("parse", "lint", "run") or not o["pos"]:
                continue
            text = built[i]["text"]
            eol = {"crlf": "\r\n", "lf": "\n", "cr": "\r"}.get(allcases[i][1]["eol"], "\r\n")
            nth = len(far)
            N = (65530, 65535, 65536, 70000)[nth % 4]
            far.append(("rows+%d" % N, i, ("'" + eol if nth % 2 else eol) * N + text, N, 0))
            if nth % 6 == 0 and len(text) < 1500 and "\"" not in text and "DATA" not in text.upper():
                K = (65530, 65536)[(nth // 6) % 2]
                lines = [ln for ln in text.replace("\r\n", "\n").replace("\r", "\n").split("\n")]
                far.append(("cols+%d" % K, i, eol.join((" " * K + ln) if ln.strip() else ln for ln in lines), 0, K))
        fresp = pool.map([{"op": "run", "text": t, "budget": 200000} for _, _, t, _, _ in far], timeout=120)
        nfar = 0
        for (what, i, t, N, K), r in zip(far, fresp):
            o, g = recs[i]["obs"], observed(r)
            want = [[p[0] + N, p[1] + K] for p in o["pos"]]
            nfar += 1
            # the column of a call site is not judged (the property speaks of rows there): compare rows, and the column of the fault
            same = g["stage"] == o["stage"] and g["fam"] == o["fam"] and [p[0] for p in g["pos"]] == [p[0] for p in want] and \
                (not want or g["pos"][0][1] == want[0][1])
            if not same:
                rep.violation({"case": "the same text " + what, "rendered_text_base": built[i]["text"], "observed_base": o, "observed_shifted": g,
                               "expected": {"stage": o["stage"], "fam": o["fam"], "pos": want}},
                              {"what:far-position", "shift:" + what.split("+")[0]}, name="far")
        fstats["far_positions_compared"] = nfar
    coverage = {
        "file_pass": fstats,
        "evaluations": len(recs), "distinct_nontrivial": len({b["text"] for b in built}),
        "rule": "TLC enumerates Diag.tla: %d cases exhaustively (wide: all %d faults = %d named + %d host statements x %d fault "
                "expressions, call depth <= 1; deep: named faults x call depth x innermost block kind; both x joined/plain x 4 "
                "line-ending conventions) and %d sampled deep histories (call depth <= 3, nesting <= 3, all layout dimensions, "
                "already-returned helper calls, prior handled error); non-trivial = every case carries a fault the real code must "
                "report; distinct by text"
                % (len(cases), len(c11.FAULTS) + len(c11.HOSTS) * len(c11.EXPRS), len(c11.FAULTS), len(c11.HOSTS), len(c11.EXPRS), len(simcases)),
        "samples": [{"case": allcases[i][1], "observed": recs[i]["obs"]} for i in range(0, nmain, max(1, nmain // 3))][:3],
        "states": states, "transitions": trans, "traces_validated_against_impl": len(recs),
        "by_stage": bystage, "by_fault": byfault, "mismatch_kinds": bywhat, "end_of_input_faults_x_line_ends": len(eof_recs),
        "design_check": {"module": "MC_Text", "invariants": ["MachineIsDefinition", "RowsMonotone", "RunMachineIsMachine"]},
        "checker_cmd": "; ".join(x for x in (mc.cmd, cmd1, cmd2, cmd3) if x), "exhaustive": False,
    }
    assumptions = ["the renderer's character offsets of the offending statement and of the call sites are trusted (Trace_Diag rejects "
                   "marks that do not lie on one row)",
                   "a syntax error may point at the character that ends the statement",
                   "only the rows of call sites are judged, as the property states"]
    return rep.finish(coverage, assumptions)
