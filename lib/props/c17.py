"""C17 — the string functions inside whole programs: loops that take strings apart and put them together again, nested
calls, function errors under handlers, arguments left as they were.  Judged end to end by Core.tla, whose built-in
functions are the definitions of Strings.tla."""
import random
from mast import *   # noqa

WORDS = ["", "a", "ab", "Hello", "a b  c", "  pad  ", "xyzxyz", "AbCd", "banana"]
NEEDLES = ["a", "an", "xyz", " ", "b"]


def S(s):
    return lit("$", s)


def N(n):
    return lit("I", n)


def show(b, e):
    return b.print(S("["), e, S("]"))


def fam_algorithms(tier, rng):
    out = []
    s, r, t = var("S", "$"), var("R", "$"), var("T", "$")
    i, c, p, n = var("I", "I"), var("C", "I"), var("P", "I"), var("N", "I")
    for w in WORDS:
        # reverse a string with MID$ in a FOR loop
        b = B()
        main = [b.let(s, S(w)), b.let(r, S("")),
                b.for_(i, N(1), bcall("LEN", s), None, [b.let(r, bin_("+", bcall("MID$", s, i, N(1)), r))], hasstep=False),
                show(b, r), show(b, s)]
        out.append({"fam": "alg:reverse", "prog": prog(main)})
        # the same from the right end with RIGHT$ / LEFT$
        b = B()
        main = [b.let(s, S(w)), b.let(r, S("")),
                b.while_(bin_(">", bcall("LEN", s), N(0)), [b.let(r, bin_("+", r, bcall("RIGHT$", s, N(1)))),
                                                               b.let(s, bcall("LEFT$", s, bin_("-", bcall("LEN", s), N(1))))]),
                show(b, r), show(b, s)]
        out.append({"fam": "alg:reverse-right", "prog": prog(main)})
        # count the occurrences of a needle with INSTR(start, s, t)
        for nd in NEEDLES:
            b = B()
            main = [b.let(s, S(w)), b.let(t, S(nd)), b.let(c, N(0)), b.let(p, bcall("INSTR", s, t)),
                    b.while_(bin_(">", p, N(0)), [b.let(c, bin_("+", c, N(1))), b.print(p),
                                                   b.let(p, bcall("INSTR", bin_("+", p, N(1)), s, t))]),
                    b.print(S("count"), c), show(b, s), show(b, t)]
            out.append({"fam": "alg:count", "prog": prog(main)})
        # split at blanks: LEFT$ / MID$ without a count / LTRIM$
        b = B()
        main = [b.let(s, bcall("LTRIM$", bcall("RTRIM$", S(w)))), b.let(p, bcall("INSTR", s, S(" "))),
                b.while_(bin_(">", p, N(0)), [show(b, bcall("LEFT$", s, bin_("-", p, N(1)))),
                                               b.let(s, bcall("LTRIM$", bcall("MID$", s, bin_("+", p, N(1))))),
                                               b.let(p, bcall("INSTR", s, S(" ")))]),
                show(b, s)]
        out.append({"fam": "alg:split", "prog": prog(main)})
        # pad to a width with SPACE$ / STRING$: too long a word is an illegal function call
        for width in (4, 8):
            b = B()
            main = [b.let(s, S(w)), show(b, bin_("+", s, bcall("SPACE$", bin_("-", N(width), bcall("LEN", s))))),
                    show(b, bin_("+", bcall("STRING$", bin_("-", N(width), bcall("LEN", s)), N(42)), s)),
                    show(b, bin_("+", bcall("STRING$", bin_("-", N(width), bcall("LEN", s)), S("-+")), s)), b.print(S("end"))]
            out.append({"fam": "alg:pad", "prog": prog(main)})
        # shift every letter by one through an alphabet looked up with INSTR; upper and lower case; CHR$ of a computed code
        b = B()
        abc = S("abcdefghijklmnopqrstuvwxyza")
        ch = var("CH", "$")
        main = [b.let(s, S(w)), b.let(r, S("")),
                b.for_(i, N(1), bcall("LEN", s), None,
                       [b.let(ch, bcall("LCASE$", bcall("MID$", s, i, N(1)))), b.let(p, bcall("INSTR", abc, ch)),
                        b.if_([(bin_("=", p, N(0)), [b.let(r, bin_("+", r, bcall("CHR$", bin_("+", N(94), bcall("LEN", r)))))])],
                              [b.let(r, bin_("+", r, bcall("MID$", abc, bin_("+", p, N(1)), N(1))))])], hasstep=False),
                show(b, r), show(b, bcall("UCASE$", r)), show(b, bcall("LCASE$", s)), show(b, s)]
        out.append({"fam": "alg:shift", "prog": prog(main)})
    # digits: STR$ and VAL there and back, the sign column, sums of digits
    for k in (0, 7, -7, 120, 32767, -32768, 99999, -100000):
        b = B()
        kk = num(k)
        main = [b.let(s, bcall("STR$", kk)), show(b, s), b.print(bcall("LEN", s)), b.let(var("D", "D"), bcall("VAL", s)), b.print(var("D", "D")),
                b.let(t, bcall("LTRIM$", s)), b.let(n, N(0)),
                b.for_(i, N(1), bcall("LEN", t), None,
                       [b.if_([(bin_("<>", bcall("MID$", t, i, N(1)), S("-")),
                                [b.let(n, bin_("+", n, bcall("VAL", bcall("MID$", t, i, N(1)))))])])], hasstep=False),
                b.print(S("digits"), n)]
        out.append({"fam": "alg:digits", "prog": prog(main)})
    return out


def gen_str(rng, d, leaves):
    if d == 0 or rng.random() < 0.25:
        return rng.choice(leaves)
    f = rng.choice(["LEFT$", "RIGHT$", "MID3", "MID2", "UCASE$", "LCASE$", "LTRIM$", "RTRIM$", "SPACE$", "STRINGN", "STRINGS", "CHR$", "STR$", "+"])
    x = gen_str(rng, d - 1, leaves)
    if f in ("LEFT$", "RIGHT$"):
        return bcall(f, x, gen_int(rng, d - 1, leaves))
    if f == "MID3":
        return bcall("MID$", x, gen_int(rng, d - 1, leaves), gen_int(rng, d - 1, leaves))
    if f == "MID2":
        return bcall("MID$", x, gen_int(rng, d - 1, leaves))
    if f in ("UCASE$", "LCASE$", "LTRIM$", "RTRIM$"):
        return bcall(f, x)
    if f == "SPACE$":
        return bcall(f, gen_int(rng, d - 1, leaves))
    if f == "STRINGN":
        return bcall("STRING$", gen_int(rng, d - 1, leaves), N(rng.choice([33, 65, 122])))
    if f == "STRINGS":
        return bcall("STRING$", gen_int(rng, d - 1, leaves), x)
    if f == "CHR$":
        return bcall("CHR$", bin_("+", N(64), gen_int(rng, d - 1, leaves)))
    if f == "STR$":
        return bcall("STR$", gen_int(rng, d - 1, leaves))
    return bin_("+", x, gen_str(rng, d - 1, leaves))


def gen_int(rng, d, leaves):
    if d <= 0 or rng.random() < 0.4:
        return rng.choice([N(0), N(1), N(2), N(3), N(5), N(-1), var("K", "I")])
    f = rng.choice(["LEN", "INSTR2", "INSTR3", "-", "+"])
    if f == "LEN":
        return bcall("LEN", gen_str(rng, d - 1, leaves))
    if f == "INSTR2":
        return bcall("INSTR", gen_str(rng, d - 1, leaves), rng.choice([S("a"), S("b"), S("ab"), S(" ")]))
    if f == "INSTR3":
        return bcall("INSTR", gen_int(rng, d - 1, leaves), gen_str(rng, d - 1, leaves), rng.choice([S("a"), S("b"), S("l")]))
    return bin_(f, gen_int(rng, d - 1, leaves), gen_int(rng, d - 1, leaves))


def fam_compose(tier, rng):
    """random nests of the functions over a few variables; each program prints a handful of them, under a handler that
    reports the error and goes on with the next statement, and shows the variables afterwards"""
    out = []
    n = 1200 if tier == "thorough" else 250
    leaves = [S(""), S("a"), S("ab c"), S("  Hello "), var("A", "$"), var("B", "$")]
    for _ in range(n):
        b = B()
        main = [b.onerror("goto", "H"), b.let(var("A", "$"), S(rng.choice(WORDS))), b.let(var("B", "$"), S(rng.choice(WORDS))),
                b.let(var("K", "I"), N(rng.choice([0, 1, 2, 4, -2])))]
        for _j in range(4):
            if rng.random() < 0.7:
                main.append(show(b, gen_str(rng, 3, leaves)))
            else:
                main.append(b.print(gen_int(rng, 3, leaves)))
        main += [show(b, var("A", "$")), show(b, var("B", "$")), b.print(var("K", "I")), b.end(),
                 b.label("H"), b.print(S("err"), {"k": "err"}), b.resume("next")]
        out.append({"fam": "compose", "prog": prog(main)})
    return out


def fam_calls(tier, rng):
    """results of the functions as arguments of subprograms (passed by value: the variables named inside stay as they were),
    as results of FUNCTIONs, and a failing function in an argument list"""
    out = []
    for w in WORDS:
        for f in ("UCASE$", "LTRIM$", "LEFT2", "MID2", "RIGHT9", "LEFTNEG"):
            b = B()
            s = var("S", "$")
            arg = {"UCASE$": bcall("UCASE$", s), "LTRIM$": bcall("LTRIM$", s), "LEFT2": bcall("LEFT$", s, N(2)),
                   "MID2": bcall("MID$", s, N(2)), "RIGHT9": bcall("RIGHT$", s, N(9)), "LEFTNEG": bcall("LEFT$", s, N(-1))}[f]
            x = var("X", "$")
            pbody = [show(b, x), b.let(x, bin_("+", x, S("!"))), show(b, x)]
            fc = fcall("F", "$", [arg], 0)
            fbody = [b.let(var("F", "$"), bin_("+", bcall("LCASE$", var("Y", "$")), bcall("STR$", bcall("LEN", var("Y", "$")))))]
            st = show(b, fc)
            fc["sid"] = st["id"]
            main = [b.let(s, S(w)), b.call("P", [arg]), show(b, s), st, show(b, s)]
            out.append({"fam": "calls:" + f, "prog": prog(main, [sub("P", [("X", "$")], pbody), fun("F", "$", [("Y", "$")], fbody)])})
    return out


def fam_element_args(tier, rng):
    """the functions applied to array elements whose subscript is computed by another function (directly, inside an
    arithmetic expression, nested): the element the subscript names, and the array unchanged afterwards"""
    out = []
    words = ["zero", "first", "second", "third", "fourth"]
    t = var("T", "$")
    for fn in ("LEFT$", "RIGHT$", "MID2", "MID3", "UCASE$", "LEN", "INSTR", "LTRIM$"):
        for sub_form in ("call", "call+1", "1+call", "nested", "call*call", "par"):
            b = B()
            main = [b.dim("W", "$", [{"lo": lit("I", 0), "hi": lit("I", 4), "nolo": False}])]
            main += [b.let(idx("W", "$", [lit("I", k)]), S(w)) for k, w in enumerate(words)]
            main.append(b.let(t, S("ab")))
            ln = bcall("LEN", t)
            sub = {"call": ln, "call+1": bin_("+", ln, N(1)), "1+call": bin_("+", N(1), ln), "nested": bcall("LEN", bcall("LEFT$", t, bcall("LEN", S("x")))),
                   "call*call": bin_("*", ln, bcall("INSTR", t, S("b"))), "par": par(bin_("-", ln, N(1)))}[sub_form]
            el = idx("W", "$", [sub])
            e = {"LEFT$": bcall("LEFT$", el, N(2)), "RIGHT$": bcall("RIGHT$", el, N(2)), "MID2": bcall("MID$", el, N(2)), "MID3": bcall("MID$", el, N(2), N(2)),
                 "UCASE$": bcall("UCASE$", el), "LEN": bcall("LEN", el), "INSTR": bcall("INSTR", el, S("r")), "LTRIM$": bcall("LTRIM$", el)}[fn]
            main.append(show(b, e) if fn not in ("LEN", "INSTR") else b.print(e))
            main.append(b.print(*[idx("W", "$", [lit("I", k)]) for k in range(5)]))
            out.append({"fam": "element-args:%s/%s" % (fn, sub_form), "prog": prog(main)})
    return out


FAMILIES = [fam_algorithms, fam_compose, fam_calls, fam_element_args]


def cases(tier, seed):
    rng = random.Random(seed)
    out = []
    for f in FAMILIES:
        out.extend(f(tier, rng))
    for i, c in enumerate(out):
        c["id"] = i + 1
    return out
