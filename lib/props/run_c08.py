"""C08 check: TLC enumerates the space of built-in calls (every function and statement x every
tuple of statically admissible argument classes x expression wrapper x program position,
Calls.tla); the driver renders each case, the REAL checker decides acceptance, accepted
programs are compiled and run on several console inputs, and TLC (Outcome.tla) validates each
outcome: normal end, BASIC run-time error with a known code and a position inside the text,
or budget - never a panic, an abort or a hang.  Accepted programs of the other families and
of the repository's tests run through the same monitor."""
import os, random, json, shutil
from common import out_dir, dumps, seed, ToolError, SPEC
from pool import Pool
from report import Reporter
from tlc import run_tlc
import outcome, corpus, render

NTEXT = {"0": "0", "1": "1", "-1": "-1", "2": "2", "255": "255", "256": "256", "32767": "32767", "32768": "32768", "-32769": "-32769",
         "65535": "65535", "65536": "65536", "big": "3000000000", "half": "2.5", "var%": "NI%", "var&": "NL&", "var!": "NS!",
         "var#": "ND#", "expr": "(NI% + 1)", "elem": "AR%(1)"}
STEXT = {"empty": '""', "a": '"a"', "abc": '"abc"', "hi200": "CHR$(200)", "long": 'STRING$(300, "x")', "var$": "SV$", "fixed": "FX",
         "concat": 'SV$ + "q"', "num-text": '"12"', "eightbytes": "MKD$(1)"}
HTEXT = {"1": "1", "2": "2", "0": "0", "256": "256", "-1": "-1", "var%": "NI%"}
VTEXT = {"var%": "NI%", "var&": "NL&", "var!": "NS!", "var#": "ND#", "elem": "AR%(1)", "field": "REC.F"}
VSTEXT = {"var$": "SV$", "fixed": "FX", "elems": "SA$(1)"}
ATEXT = {"arr1": "AR%", "arr2": "A2!"}
KINDTEXT = {"n": NTEXT, "s": STEXT, "h": HTEXT, "v": VTEXT, "vs": VSTEXT, "a": ATEXT}

PRE = ["DIM AR%(3)", "DIM A2!(1 TO 2, 0 TO 1)", "DIM SA$(2)", "DIM FX AS STRING * 4", "DIM REC AS RT",
       "NI% = 7", "NL& = 100000", "NS! = 1.5", "ND# = 2", 'SV$ = "hello"', "AR%(1) = 3",
       'OPEN "IN.TXT" FOR INPUT AS #1', 'OPEN "R.DAT" FOR RANDOM AS #2 LEN = 8', "FIELD #2, 8 AS RF$"]
TYPEDEF = ["TYPE RT", "  F AS INTEGER", "END TYPE"]

FUNSIG = {}
SUBSIG = {}


def load_sigs():
    """parameter kinds per (name, arity) are recovered from the CASE line itself via the spec's table"""
    import re
    src = open(os.path.join(SPEC, "Calls.tla")).read()
    for blk, table in (("Funs == {", FUNSIG), ("Subs == {", SUBSIG)):
        i = src.index(blk)
        j = src.index("}", src.index("\n\n", i) - 2) if False else src.index("\n\n", i)
        for m in re.finditer(r'\[n \|-> "([^"]+)", ps \|-> <<([^>]*)>>\]', src[i:j]):
            ps = [x.strip().strip('"') for x in m.group(2).split(",") if x.strip()]
            table.setdefault(m.group(1), []).append(ps)


def kinds_for(table, name, nargs, args):
    for ps in table[name]:
        if len(ps) == nargs and all(a in KINDTEXT[k] for a, k in zip(args, ps)):
            return ps
    return None


def stmt_for(what, name, args, wrap):
    table = FUNSIG if what == "fun" else SUBSIG
    if args and all(":" in a for a in args):
        # a mis-kinded call: every argument names its own kind
        t = [KINDTEXT[a.split(":")[0]][a.split(":")[1]] for a in args]
    else:
        ps = kinds_for(table, name, len(args), args)
        if ps is None:
            return None
        t = [KINDTEXT[k][a] for a, k in zip(args, ps)]
    if what == "fun":
        call = name + ("(" + ", ".join(t) + ")" if t else "")
        is_str = name.endswith("$")
        if wrap == "plain":
            return [("R$ = " if is_str else "R# = ") + call]
        if wrap == "paren":
            return ["PRINT (" + call + ")"]
        return ['PRINT "a" + (' + call + ")"] if is_str else ["PRINT -(" + call + ") + 1"]
    if name in ("BEEP", "CLS", "DEF SEG"):
        return [name]
    if name == "CLOSE":
        return ["CLOSE" + (" #" + t[0] if t else "")]
    if name in ("COLOR", "LOCATE", "POKE", "WIDTH"):
        return [name + " " + ", ".join(t)]
    if name == "DEF SEG =":
        return ["DEF SEG = " + t[0]]
    if name in ("ENVIRON", "KILL"):
        return [name + " " + t[0]]
    if name == "NAME":
        return ["NAME " + t[0] + " AS " + t[1]]
    if name == "VIEW PRINT":
        return ["VIEW PRINT" + (" " + t[0] + " TO " + t[1] if t else "")]
    if name in ("INPUT", "LINE INPUT", "READ"):
        return [name + " " + t[0], "PRINT " + t[0]]
    if name == "OPEN":
        return ["OPEN " + t[0] + " FOR OUTPUT AS #" + t[1]]
    if name in ("GET", "PUT"):
        return [name + " #" + t[0] + ", " + t[1]]
    if name == "FIELD":
        return ["FIELD #" + t[0] + ", " + t[1] + " AS ZF$"]
    if name == "LSET":
        return ["LSET " + t[0] + " = " + t[1]]
    if name in ("INPUT #", "LINE INPUT #"):
        return [name + t[0] + ", " + t[1], "PRINT " + t[1]]
    if name == "PRINT #":
        return ["PRINT #" + t[0] + ", " + t[1]]
    return None


def program(lines, place):
    body = PRE + lines + ['PRINT "end"', "DATA 1, 2, \"x\""]
    if place == "main":
        return "\r\n".join(TYPEDEF + body) + "\r\n"
    if place == "sub":
        inner = [l for l in body if not l.startswith("DATA")]
        return "\r\n".join(TYPEDEF + ["T", "DATA 1, 2, \"x\"", "SUB T"] + ["  " + l for l in inner] + ["END SUB"]) + "\r\n"
    return "\r\n".join(TYPEDEF + ["ON ERROR GOTO H"] + body + ["END", "H:", 'PRINT "E"; ERR', "RESUME NEXT"]) + "\r\n"


STDINS = ["", "1\r\n", "abc\r\n", ",,\r\n", "x" * 400 + "\r\n", [200, 201, 13, 10], "1,2,3\r\n4\r\n", "  7  \r\n"]
FILES = {"IN.TXT": "12,abc\r\nline two\r\n"}


DEVICE_STMTS = ['LPRINT "x"', 'LPRINT 1; 2,', "LPRINT", 'LPRINT USING "##"; 1', "CLS", "LOCATE 1, 1", "LOCATE 30, 90", "COLOR 1, 2", "COLOR 99",
                "WIDTH 80, 25", "WIDTH 1, 1", "VIEW PRINT 1 TO 10", "VIEW PRINT", "BEEP", "PRINT INKEY$", "INPUT A", 'INPUT "p"; A$, B',
                "LINE INPUT A$", 'PRINT ENVIRON$("PATH")', 'ENVIRON "A=B"', "DEF SEG = 0: POKE 1047, 0: PRINT PEEK(1047)", "DEF SEG",
                'PRINT TAB(5); 1', "PRINT SPC(3); 1", 'OPEN "LPT1:" FOR OUTPUT AS #1: PRINT #1, "x"', 'OPEN "X.TXT" FOR OUTPUT AS #1: PRINT #1, 1: CLOSE',
                'OPEN "NOPE.TXT" FOR INPUT AS #1', "PRINT VARPTR(A)", "PRINT 1 / 0", "PRINT CHR$(7); CHR$(0); CHR$(255)", 'PRINT STRING$(3000, "x")',
                "WHILE INKEY$ = \"\": N = N + 1: IF N > 50 THEN END\r\nWEND", "KILL \"NOPE\"", 'NAME "A" AS "B"']


def shipped_binary_pass(rep, d, tier, rng):
    """The same question asked of the shipped command-line program (the default interpreter with the real console,
    printer and screen devices behind it, which the serve harness replaces by buffers): it must end every accepted
    program without a panic."""
    import subprocess, concurrent.futures
    from common import HARNESS
    exe = os.path.join(HARNESS, "target", "debug", "rusty_basic_shipped")
    if not os.path.exists(exe):
        raise ToolError("the shipped binary was not built: " + exe)
    import tour
    progs = [("device:%d" % i, t.replace("\\r\\n", "\r\n") + "\r\n") for i, t in enumerate(DEVICE_STMTS)]
    progs += [("device-handled:%d" % i, "ON ERROR GOTO H\r\n" + t + '\r\nPRINT "after"\r\nEND\r\nH:\r\nPRINT "E"; ERR\r\nRESUME NEXT\r\n')
              for i, t in enumerate(DEVICE_STMTS)]
    progs += [("tour:%d" % i, t) for i, t in enumerate(tour.TOUR + tour.ODD)]
    # source FILES that are not valid UTF-8 (old sources in a DOS code page): bytes, not text
    progs += [("bytes:%d" % i, t) for i, t in enumerate([b'PRINT "\xff"\r\nPRINT "ok"\r\n', b'\xfe\xff', b'REM \x80\x81\r\nPRINT 1\r\n',
                                                         b'A$ = "caf\xe9"\r\nPRINT LEN(A$)\r\n', b'PRINT 1 \xc3\r\n', b'\xef\xbb\xbfPRINT 2\r\n'])]
    cp = [("corpus:" + c["src"], c["text"]) for c in corpus.programs()]
    rng.shuffle(cp)
    progs += cp[: (len(cp) if tier == "thorough" else 150)]
    root = os.path.join(d, "binfs")
    shutil.rmtree(root, ignore_errors=True)

    def one(i):
        fam, text = progs[i]
        wd = os.path.join(root, "b%d" % i)
        os.makedirs(wd, exist_ok=True)
        with open(os.path.join(wd, "IN.TXT"), "w") as f:
            f.write(FILES["IN.TXT"])
        if isinstance(text, bytes):
            with open(os.path.join(wd, "P.BAS"), "wb") as f:
                f.write(text)
        else:
            with open(os.path.join(wd, "P.BAS"), "w", newline="") as f:
                f.write(text)
        env = {k: v for k, v in os.environ.items() if k not in ("SERVER_NAME", "PATH_TRANSLATED")}
        env["RUST_BACKTRACE"] = "0"
        try:
            p = subprocess.run([exe, "P.BAS"], cwd=wd, input=b"1\r\nabc, 2\r\n", stdout=subprocess.PIPE, stderr=subprocess.PIPE, timeout=8, env=env)
            return p.returncode, p.stderr.decode("utf-8", "replace")[-600:]
        except subprocess.TimeoutExpired:
            return None, "timeout"

    with concurrent.futures.ThreadPoolExecutor(8) as ex:
        results = list(ex.map(one, range(len(progs))))
    shutil.rmtree(root, ignore_errors=True)
    stats = {"programs": len(progs), "ended": 0, "run_time_error": 0, "rejected": 0, "cut_by_wall_clock": 0, "panic": 0}
    for (fam, text), (rc, err) in zip(progs, results):
        if rc is None:
            stats["cut_by_wall_clock"] += 1       # no instruction budget in the shipped program: a loop is not judged
        elif rc == 101 or "panicked at" in err or rc < 0:
            stats["panic"] += 1
            loc = err.split("panicked at ", 1)[1].split(":\n")[0].split("\n")[0] if "panicked at " in err else "signal"
            rep.violation({"case": fam, "rendered_text": text if isinstance(text, str) else repr(text), "stdin": "1\r\nabc, 2\r\n", "observed": {"exit": rc, "stderr": err},
                           "expected": "the shipped program ends every accepted program normally or with 'Runtime error.' - never a panic"},
                          {"fam:shipped", "panic", "panic_at:" + loc.replace("/repo/", "").split(":")[0]}, name="shipped")
        elif "Runtime error" in err:
            stats["run_time_error"] += 1
        elif "Could not" in err:
            stats["rejected"] += 1
        else:
            stats["ended"] += 1
    return stats


def run(tier, replay):
    rep = Reporter("C08", tier, "exploration")
    pool = Pool()
    rng = random.Random(seed())
    d = out_dir("C08")
    load_sigs()
    # 1. TLC enumerates the call space
    res = run_tlc("Calls.tla", "Calls.cfg", os.path.join(d, "tlc_calls"), timeout=1200)
    if res.timed_out or not res.ok:
        raise ToolError("TLC failed enumerating Calls.tla:\n%s" % res.violation)
    states, trans = res.distinct, res.generated
    cases = [ln[5:].split("|") for ln in res.printed if ln.startswith("CASE ")]
    if replay:
        with open(replay) as f:
            rp = json.load(f)
        texts = [(rp.get("case", "replay"), rp["rendered_text"], rp.get("stdin", ""))]
    else:
        if tier == "quick":
            rng.shuffle(cases)
            mis = [c for c in cases if ":" in c[2]]
            cases = mis + [c for c in cases if ":" not in c[2]][:9000]
        texts = []
        unrendered = 0
        for what, name, argstr, wrap, place in cases:
            args = argstr.split(",") if argstr else []
            lines = stmt_for(what, name, args, wrap)
            if lines is None:
                unrendered += 1
                continue
            stdins = STDINS if tier == "thorough" else [rng.choice(STDINS), rng.choice(STDINS[:4])]
            if name not in ("INPUT", "LINE INPUT", "INKEY$"):
                stdins = stdins[:1] if tier == "quick" else stdins[:2]
            for si in stdins:
                texts.append(("|".join([what, name, argstr, wrap, place]), program(lines, place), si))
        # 1b. grammar-aware space: statement templates x slot fillers (Slots.tla); what the checker accepts must run
        import slots
        sl, s3, t3, cmd3 = slots.enumerate_slots(os.path.join(d, "tlc_slots"))
        states += s3
        trans += t3
        for (tn, fa, fb) in slots.stratified(sl, rng, 250000 if tier == "thorough" else 6000):
            texts.append(("slot:" + tn, slots.program(tn, fa, fb), "7\r\nabc, 2\r\n"))
            if "input" in tn and fa in slots.NATURAL.get(tn, (fa, fb)):
                texts.append(("slot:" + tn, slots.program(tn, fa, fb), "ab\u00e9\u20acd, x\r\n\u00e9\u00e9\u00e9\u00e9\r\n"))
        # 2. accepted programs of the other families and of the repository, on several inputs
        import c01, c03, c04, c05
        extra = []
        for mod in (c03, c04, c05, c01):
            cs = mod.cases("quick", seed())
            rng.shuffle(cs)
            for c in cs[: (3000 if tier == "thorough" else 250)]:
                try:
                    extra.append((mod.__name__ + ":" + c["fam"], render.program(c["prog"])[0]))
                except render.RenderError:
                    pass
        for c in corpus.programs():
            extra.append(("corpus:" + c["src"], c["text"]))
        import tour
        for i, t in enumerate(tour.TOUR + tour.ODD):
            extra.append(("tour:%d" % i, t))
        for fam, t in extra:
            for si in (STDINS if (tier == "thorough" or "INPUT" in t.upper()) else STDINS[:2]):
                texts.append((fam, t, si))
    fsroot = os.path.join(d, "fs")
    shutil.rmtree(fsroot, ignore_errors=True)
    reqs = [{"op": "run", "text": t, "stdin": si, "budget": 30000, "dir": os.path.join(fsroot, "c%d" % i), "files": FILES}
            for i, (fam, t, si) in enumerate(texts)]
    resps = pool.map(reqs, timeout=40)
    shutil.rmtree(fsroot, ignore_errors=True)
    recs, meta = [], {}
    rejected = 0
    for i, ((fam, t, si), resp) in enumerate(zip(texts, resps)):
        if resp and resp.get("stage") in ("parse", "lint") and "panic" not in resp:
            rejected += 1          # this property starts from the checker's own verdict
            continue
        rid = i + 1
        recs.append(outcome.record(rid, t, resp))
        meta[rid] = (fam, t, si, resp)
    bad, s2, t2, cmd = outcome.validate("C08", recs)
    kinds = {}
    for r in recs:
        k = r["stage"] + "/" + r["kind"] + ("/%d" % r["code"] if r["kind"] == "error" and r["stage"] == "run" else "")
        kinds[k] = kinds.get(k, 0) + 1
    for rid in sorted(bad):
        fam, t, si, resp = meta[rid]
        feats = {"fam:" + fam.split("|")[0].split(":")[0]}
        if fam.count("|") == 4:
            w, n, a, wr, pl = fam.split("|")
            feats |= {"builtin:" + n, "place:" + pl, "wrap:" + wr}
        if resp and "panic" in resp:
            feats.add("panic_at:" + str(resp["panic"].get("loc", "")).replace("/repo/", ""))
            feats.add("panic")
        if isinstance(si, list):
            feats.add("stdin:non-utf8")
        rec = [r for r in recs if r["id"] == rid][0]
        rep.violation({"case": fam, "rendered_text": t, "stdin": si, "observed": {k: rec[k] for k in ("stage", "kind", "code", "row", "col")},
                       "panic": (resp or {}).get("panic"), "outcome": (resp or {}).get("outcome"),
                       "expected": "Outcome.tla: ok, a BASIC run-time error with a known code and a position inside the text, or budget"},
                      feats, name=(resp or {}).get("stage") or "lost")
    shipped = shipped_binary_pass(rep, d, tier, rng) if not replay else {}
    coverage = {
        "shipped_binary": shipped,
        "evaluations": len(texts), "distinct_nontrivial": len({(m[1], str(m[2])) for m in meta.values()}),
        "rule": "TLC enumerates every built-in function / statement x argument class tuple x wrapper x position (%d states; sampled "
                "in quick); each accepted program runs on console inputs (empty, a number, text, commas, a long line, non-UTF-8 bytes); "
                "accepted programs of the C01/C03/C04/C05 families and of the repository's tests and fixtures run too; non-trivial = "
                "the checker accepted the program; distinct by (text, input)" % len(cases),
        "samples": [{"case": meta[r["id"]][0], "program": meta[r["id"]][1][-300:], "stdin": meta[r["id"]][2], "outcome": r["stage"] + "/" + r["kind"]}
                    for r in recs[:: max(1, len(recs) // 3)][:3]],
        "states": states + s2, "transitions": trans + t2, "traces_validated_against_impl": len(recs),
        "call_space_states": len(cases), "rejected_by_checker_and_dropped": rejected, "outcomes": kinds,
        "checker_cmd": cmd, "exhaustive": False,
    }
    assumptions = ["the real checker decides acceptance; programs it rejects are dropped",
                   "hangs are cut by the instruction budget (admissible) and by a wall-clock watchdog (inadmissible)",
                   "the oracle is thin: only the class of the outcome is judged"]
    return rep.finish(coverage, assumptions)
