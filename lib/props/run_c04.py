"""C04 check: (D) TLC model-checks the index map of Store.tla over all boxes of the bounded
family; (V) call records of the real VArray are validated against Store.tla; (R/V) programs
over arrays, records and fixed-length strings are validated against Core.tla."""
import os
from common import out_dir, dumps, ToolError
from corerun import run_property
from tlc import run_tlc
import c04


def extra(rep, pool, tier):
    d = out_dir("C04")
    # D: the design itself
    res = run_tlc("MC_Store.tla", "MC_Store_%s.cfg" % tier, os.path.join(d, "tlc_mc"), timeout=1500)
    if res.timed_out:
        raise ToolError("TLC timed out on MC_Store")
    if not res.ok:
        raise ToolError("Store.tla violates its own invariants (the oracle is wrong):\n%s" % res.violation)
    states, trans = res.distinct, res.generated
    # V: call records of the real VArray
    recs = c04.call_records(tier, int(os.environ.get("VERIF_SEED", "1")))
    absr = [r for r in recs if r["k"] == "abs"]
    rwr = [r for r in recs if r["k"] == "rw"]
    reqs = []
    B = 500
    for i in range(0, len(absr), B):
        reqs.append({"op": "call", "fn": "abs_index", "batch": [{"dims": r["dims"], "idx": r["idx"]} for r in absr[i:i + B]]})
    nabs = len(reqs)
    for i in range(0, len(rwr), B):
        reqs.append({"op": "call", "fn": "array_rw", "batch": [{"dims": r["dims"], "writes": r["writes"]} for r in rwr[i:i + B]]})
    resps = pool.map(reqs, timeout=120)
    flat_abs, flat_rw = [], []
    for j, resp in enumerate(resps):
        if not resp or "results" not in resp:
            raise ToolError("harness call failed: %s" % str(resp)[:200])
        (flat_abs if j < nabs else flat_rw).extend(resp["results"])
    path = os.path.join(d, "store.ndjson")
    panics = 0
    with open(path, "w") as f:
        for r, x in zip(absr, flat_abs):
            if isinstance(x, dict) and "panic" in x:
                panics += 1
                rep.violation({"api_call": "VArray::abs_index", "args": r, "observed": x}, {"panic"}, name="absindex")
                continue
            f.write(dumps(dict(r, res=x["ok"] if "ok" in x else -1, len=x["len"])) + "\n")
        for r, x in zip(rwr, flat_rw):
            if isinstance(x, dict) and "panic" in x:
                panics += 1
                rep.violation({"api_call": "VArray::get_element_mut", "args": r, "observed": x}, {"panic"}, name="arrayrw")
                continue
            f.write(dumps(dict(r, wres=[1 if w == "ok" else 0 for w in x["writes"]], cells=x["cells"])) + "\n")
    res2 = run_tlc("Trace_Store.tla", "Trace_Store.cfg", os.path.join(d, "tlc_tr"), env={"TRACE": path}, timeout=1500)
    if res2.timed_out or not res2.ok:
        raise ToolError("TLC failed validating the VArray call records:\n%s" % res2.violation)
    byid = {r["id"]: r for r in recs}
    bad = 0
    for ln in res2.printed:
        if ln.startswith("MISMATCH "):
            bad += 1
            r = byid[int(ln.split()[1])]
            rep.violation({"api_call": "VArray (abs_index / get_element_mut)", "record": r,
                           "expected": "Store.tla RefIndex / Fold"}, {"varray-record"}, name="varray")
    os.remove(path)
    return {"states": states + res2.distinct, "transitions": trans + res2.generated, "validated": len(recs) - panics,
            "info": {"design_check": {"module": "MC_Store", "cfg": "MC_Store_%s.cfg" % tier, "distinct_states": states,
                                      "invariants": ["Agrees", "InRange", "Bijection", "FrameCondition"]},
                     "varray_call_records": len(recs), "varray_mismatches": bad}}


def nontrivial(c):
    return True


def run(tier, replay):
    return run_property(
        "C04", c04.cases, tier, replay,
        rule="D: all boxes with 1-3 dimensions, lower bounds -2..1(2), extents 1..3(4), all index tuples within one "
             "step of every face (TLC, exhaustive within these bounds); V: the same tuples through the real VArray plus "
             "write/read-back sequences; programs: 10 shapes x 7 element types (incl. STRING*3 and a nested record) "
             "written in two orders and read back, LBOUND/UBOUND, one out-of-range access per face, record fields, "
             "whole-record copy, by-reference records/fields, fixed strings through 6 routes; distinct by text",
        assumptions=[
            "subscripts beyond the INTEGER range are not generated (they fail with Overflow before any bounds test)",
            "renderer AST->text is trusted",
        ], nontrivial=nontrivial, extra=extra)
