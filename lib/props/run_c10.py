"""C10 check: (D) TLC shows that the parser's repair-by-rotation equals precedence climbing for
all operator chains (Expr.tla); (V) the parse trees the REAL parser builds for chains (with
unary operators and parentheses) and the literal nodes it builds for decimal / &H / &O /
fractional literals are validated by TLC against Expr.tla."""
import os, random, itertools, json
from common import out_dir, dumps, seed, ToolError
from pool import Pool
from report import Reporter
from tlc import run_tlc

OPTEXT = {"Multiply": "*", "Divide": "/", "Modulo": "MOD", "Plus": "+", "Minus": "-", "Less": "<", "LessOrEqual": "<=",
          "Equal": "=", "GreaterOrEqual": ">=", "Greater": ">", "NotEqual": "<>", "And": "AND", "Or": "OR"}
OPS = list(OPTEXT)
CLASSES = ["Multiply", "Modulo", "Plus", "Less", "And", "Or", "Divide", "Minus", "Equal"]
NAMES = "ABCDEFGHIJ"


def tok_text(toks):
    out = []
    for t in toks:
        k = t["k"]
        if k == "v":
            out.append(t["n"])
        elif k == "op":
            out.append(OPTEXT[t["op"]])
        elif k == "un":
            out.append("-" if t["op"] == "neg" else "NOT")
        else:
            out.append(k)
    s = " ".join(out)
    return s.replace("( ", "(").replace(" )", ")").replace("- ", "-")


def tok_text_tight(toks):
    s = tok_text(toks)
    for kw in ("NOT", "AND", "OR", "MOD"):
        s = s.replace(kw + " (", kw + "(")
    return s


def chain(ops, uns=None, paren=None):
    """tokens of operand (op operand)*; uns[i] in '', 'neg', 'not'; paren=(i,j) wraps operands i..j"""
    toks = []
    n = len(ops) + 1
    for i in range(n):
        if paren and paren[0] == i:
            toks.append({"k": "("})
        if uns and uns[i]:
            toks.append({"k": "un", "op": uns[i]})
        toks.append({"k": "v", "n": NAMES[i]})
        if paren and paren[1] == i:
            toks.append({"k": ")"})
        if i < len(ops):
            toks.append({"k": "op", "op": ops[i]})
    return toks


def gen_chains(tier, rng):
    out = []
    # a unary operator in front of a parenthesised group, followed by more operators
    for u in ("neg", "not"):
        for o1 in OPS:
            for o2 in OPS:
                out.append([{"k": "un", "op": u}, {"k": "("}, {"k": "v", "n": "A"}, {"k": "op", "op": o1}, {"k": "v", "n": "B"}, {"k": ")"},
                            {"k": "op", "op": o2}, {"k": "v", "n": "C"}])
                out.append([{"k": "v", "n": "A"}, {"k": "op", "op": o1}, {"k": "un", "op": u}, {"k": "("}, {"k": "v", "n": "B"}, {"k": ")"},
                            {"k": "op", "op": o2}, {"k": "v", "n": "C"}])
    for n in (1, 2, 3):
        for ops in itertools.product(OPS, repeat=n):
            out.append(chain(list(ops)))
    for n in (1, 2):
        for ops in itertools.product(OPS, repeat=n):
            for uns in itertools.product(["", "neg", "not"], repeat=n + 1):
                if any(uns):
                    out.append(chain(list(ops), list(uns)))
    # parentheses around every proper span of 3-operator chains over the operator classes
    for ops in itertools.product(CLASSES[:6], repeat=3):
        for i in range(4):
            for j in range(i + 1, 4):
                if (i, j) != (0, 3):
                    out.append(chain(list(ops), None, (i, j)))
    top = 5 if tier == "thorough" else 4
    for n in range(4, top + 1):
        for ops in itertools.product(CLASSES[:6], repeat=n):
            out.append(chain(list(ops)))
    nr = 30000 if tier == "thorough" else 3000
    for _ in range(nr):
        n = rng.randint(2, 8)
        ops = [rng.choice(OPS) for _ in range(n)]
        uns = [rng.choice(["", "", "", "neg", "not"]) for _ in range(n + 1)]
        par = None
        if rng.random() < 0.5:
            i = rng.randint(0, n - 1)
            j = rng.randint(i + 1, n)
            if (i, j) != (0, n):
                par = (i, j)
        out.append(chain(ops, uns, par))
    return out


def conv_tree(t):
    """harness tree -> spec tree (operands as [k: v, n])"""
    k = t["k"]
    if k == "v":
        return {"k": "v", "n": t["n"]}
    if k == "par":
        return {"k": "par", "e": conv_tree(t["e"])}
    if k == "un":
        return {"k": "un", "op": t["op"], "e": conv_tree(t["e"])}
    if k == "bin":
        return {"k": "bin", "op": t["op"], "l": conv_tree(t["l"]), "r": conv_tree(t["r"])}
    return {"k": "v", "n": "?" + json.dumps(t)[:40]}


def gen_literals(tier, rng):
    """(kind, text, record fields)"""
    out = []
    vals16 = range(0, 65536) if tier == "thorough" else list(range(0, 300)) + list(range(32700, 32800)) + list(range(65500, 65536)) + [rng.randint(0, 65535) for _ in range(1500)]
    for v in vals16:
        for lead in ((0,) if tier == "quick" and v % 7 else (0, 1, 2)):
            ds = [0] * lead + [int(c) for c in str(v)]
            for neg in (False, True):
                out.append(("dec", ("-" if neg else "") + "".join(map(str, ds)), {"ds": ds, "neg": neg}))
    big = [65536, 99999, 2147483646, 2147483647, 2147483648, 2147483649, 4294967295, 4294967296, 99999999999, 123456789012345]
    big += [rng.randint(65536, 2147483647) for _ in range(10000 if tier == "thorough" else 600)]
    for v in big:
        ds = [int(c) for c in str(v)]
        for neg in (False, True):
            out.append(("dec", ("-" if neg else "") + str(v), {"ds": ds, "neg": neg}))
    # many leading zeros: the written value decides, not the number of digits
    for v in [0, 7, 32767, 32768, 65535, 65536, 100000, 2147483647, 2147483648] + [rng.randint(0, 2147483647) for _ in range(60)]:
        for lead in (5, 8, 12, 20):
            ds = [0] * lead + [int(c) for c in str(v)]
            for neg in (False, True):
                out.append(("dec", ("-" if neg else "") + "".join(map(str, ds)), {"ds": ds, "neg": neg}))
    # hex / octal
    def bits_of(text, base):
        b = []
        for ch in text:
            d = int(ch, 16)
            w = 4 if base == 16 else 3
            b += [(d >> (w - 1 - i)) & 1 for i in range(w)]
        return b
    hv = range(0, 65536) if tier == "thorough" else list(range(0, 64)) + [rng.randint(0, 65535) for _ in range(1200)] + [32767, 32768, 65535]
    for v in hv:
        for fmt, base, pre in (("%X", 16, "&H"), ("%x", 16, "&H"), ("%o", 8, "&O")):
            body = fmt % v
            for lead in ("", "0", "00"):
                out.append(("radix", pre + lead + body, {"bits": bits_of(lead + body, base)}))
    h32 = [65536, 0x7fffffff, 0x80000000, 0xffffffff, 0x12345678, 0xfffffffe, 0x100000000, 0xfffffffff] + [rng.randint(65536, 0xffffffff) for _ in range(5000 if tier == "thorough" else 500)]
    for v in h32:
        out.append(("radix", "&H%X" % v, {"bits": bits_of("%X" % v, 16)}))
        out.append(("radix", "&O%o" % v, {"bits": bits_of("%o" % v, 8)}))
    # many leading zeros in hex / octal literals, 16- and 32-bit values: the written value decides, not the number of digits
    for v in [0, 7, 0x7fff, 0x8000, 0xffff, 0x10000, 0x7fffffff, 0x80000000, 0xffffffff] + [rng.randint(0, 0xffffffff) for _ in range(30)]:
        for lead in (3, 6, 9, 12, 20):
            out.append(("radix", "&H" + "0" * lead + "%X" % v, {"bits": bits_of("0" * lead + "%X" % v, 16)}))
            out.append(("radix", "&O" + "0" * lead + "%o" % v, {"bits": bits_of("0" * lead + "%o" % v, 8)}))
    # a unary minus directly in front of a hex / octal literal (type minima widen, the value is exact)
    nv = [0, 1, 0x7fff, 0x8000, 0x8001, 0xffff, 0x10000, 0x7fffffff, 0x80000000, 0x80000001, 0xffff0000, 0xffffffff, 0xfffffffe, 0xffff8000, 0xffff7fff]
    nv += [rng.randint(0, 65535) for _ in range(300)] + [rng.randint(65536, 0xffffffff) for _ in range(300)]
    for v in nv:
        out.append(("nradix", "-&H%X" % v, {"bits": bits_of("%X" % v, 16)}))
        out.append(("nradix", "-&O%o" % v, {"bits": bits_of("%o" % v, 8)}))
    # fractional literals: SINGLE, or DOUBLE with #
    for w in (0, 1, 7, 32767, 32768, 100000):
        for fr, digits in ((0.5, "5"), (0.25, "25"), (0.125, "125"), (0.0, "0"), (0.75, "75")):
            for dbl in (False, True):
                for neg in (False, True):
                    text = ("-" if neg else "") + "%d.%s%s" % (w, digits, "#" if dbl else "")
                    val = (w + fr) * (-1 if neg else 1)
                    out.append(("frac", text, {"t": "D" if dbl else "S", "val": val}))
    return out


def run(tier, replay):
    rep = Reporter("C10", tier, "model_checking")
    pool = Pool()
    rng = random.Random(seed())
    d = out_dir("C10")
    states = trans = 0
    for cfg in (["MC_Expr_quick.cfg", "MC_Expr_unary.cfg"] + (["MC_Expr_thorough.cfg"] if tier == "thorough" else [])):
        res = run_tlc("MC_Expr.tla", cfg, os.path.join(d, "tlc_mc"), timeout=3000)
        if res.timed_out or not res.ok:
            # the transcription of the parser's repair differs from precedence climbing: a design-level counterexample
            raise ToolError("Expr.tla: Flip and Prec disagree (%s):\n%s" % (cfg, res.violation))
        states += res.distinct
        trans += res.generated
    chains = gen_chains(tier, rng)
    # the same chains with no blank between a keyword operator (NOT, AND, OR, MOD) and an opening parenthesis:
    # the parenthesis only STARTS the operand, the grouping is the same
    tight = [c for c in chains if any(t["k"] == "(" for t in c)]
    chains = chains + tight
    ntight = len(tight)
    lits = gen_literals(tier, rng)
    texts = [tok_text(c) for c in chains[:len(chains) - ntight]] + [tok_text_tight(c) for c in tight] + [l[1] for l in lits]
    B = 1000
    resps = pool.map([{"op": "shape", "exprs": texts[i:i + B]} for i in range(0, len(texts), B)], timeout=120)
    results = []
    for r in resps:
        if not r or "results" not in r:
            raise ToolError("shape request failed: %s" % str(r)[:200])
        results.extend(r["results"])
    recs = []
    rid = 0
    info = {}
    nfrac = 0
    for toks, text, res in zip(chains, texts, results[:len(chains)]):
        rid += 1
        info[rid] = (text, res)
        if "k" not in res:
            rep.violation({"expression": text, "observed": res, "expected": "the expression parses"},
                          {"parse-failure", "panic" if "panic" in res else "error"}, name="chain")
            continue
        recs.append({"id": rid, "k": "chain", "toks": toks, "tree": conv_tree(res)})
    for (kind, text, f), res in zip(lits, results[len(chains):]):
        rid += 1
        info[rid] = (text, res)
        if kind == "radix" and len([b for b in f["bits"]]) and "error" in res:
            # more than 32 significant bits must be rejected (Overflow); anything else must parse
            sig = f["bits"][f["bits"].index(1):] if 1 in f["bits"] else []
            if len(sig) > 32 and res.get("error") == "Overflow":
                continue
        if res.get("k") != "lit":
            rep.violation({"literal": text, "observed": res, "expected": "a literal node"}, {"literal-not-a-literal", "kind:" + kind}, name="literal")
            continue
        if kind == "frac":
            nfrac += 1
            ok = res["t"] == f["t"] and float(res["d"]) == f["val"]
            if not ok:
                rep.violation({"literal": text, "observed": res, "expected": f}, {"kind:frac"}, name="frac")
            continue
        try:
            v = int(res["d"]) if res["t"] in ("I", "L") else -1
        except ValueError:
            v = -2
        if res["t"] == "D" and kind == "dec":
            # beyond LONG: the written digits must be preserved (compare as integers)
            want = int("".join(map(str, f["ds"]))) * (-1 if f["neg"] else 1)
            try:
                if int(float(res["d"])) != want and abs(want) < 2 ** 53:
                    rep.violation({"literal": text, "observed": res, "expected": want}, {"kind:dec-double"}, name="literal")
                    continue
            except ValueError:
                pass
        recs.append(dict({"id": rid, "k": kind, "t": res["t"], "v": v}, **f))
    # TLC validates the records in portions (one run over several hundred thousand records does not end in an hour)
    path = os.path.join(d, "expr.ndjson")

    class _Acc:
        printed, distinct, generated, cmd = [], 0, 0, ""
    res2 = _Acc()
    PORTION = 50000
    for start in range(0, len(recs), PORTION):
        with open(path, "w") as f:
            for r in recs[start:start + PORTION]:
                f.write(dumps(r) + "\n")
        part = run_tlc("Trace_Expr.tla", "Trace_Expr.cfg", os.path.join(d, "tlc_tr"), env={"TRACE": path}, timeout=3000)
        if part.timed_out or not part.ok:
            raise ToolError("TLC failed validating parse trees / literals (records %d..):\n%s" % (start, part.violation))
        res2.printed = res2.printed + part.printed
        res2.distinct += part.distinct
        res2.generated += part.generated
        res2.cmd = part.cmd
    byid = {r["id"]: r for r in recs}
    for ln in res2.printed:
        if ln.startswith("MISMATCH "):
            r = byid[int(ln.split()[1])]
            text, obs = info[r["id"]]
            feats = {"kind:" + r["k"]}
            if r["k"] == "chain":
                feats |= {"op:" + t["op"] for t in r["toks"] if t["k"] in ("op", "un")}
            else:
                feats.add("lit:" + text)
                if r["k"] == "dec":
                    # the written VALUE (leading zeros do not make another literal)
                    import re as _re
                    feats.add("value:" + _re.sub(r"^(-?)0+(?=\d)", r"\1", text))
            rep.violation({"expression": text, "observed": obs, "expected": "Expr.tla " + ("Prec(tokens)" if r["k"] == "chain" else "literal type/value")},
                          feats, name=r["k"])
    os.remove(path)
    kinds = {}
    for r in recs:
        kinds[r["k"]] = kinds.get(r["k"], 0) + 1
    coverage = {
        "states": states + res2.distinct, "transitions": trans + res2.generated,
        "traces_validated_against_impl": len(recs) + nfrac,
        "samples": [{"expression": texts[i], "real_tree": results[i]} for i in (5, 2000, len(chains) - 1)] + [{"literal": lits[0][1]}],
        "evaluations": len(texts), "distinct_nontrivial": len(set(texts)),
        "rule": "chains: ALL sequences of 1-3 of the 13 binary operators, all chains of 1-2 operators with a unary operator "
                "(-, NOT, none) in front of every operand, every parenthesised span of 3-operator chains over the 6 "
                "precedence classes, all chains of 4 (5) operators over the classes, seeded random chains up to 8 operators "
                "with unary operators and parentheses; literals: 16-bit values in decimal / &H / &h / &O with 0-2 leading "
                "zeros and sign (all of them in thorough), sampled 32-bit values, values beyond LONG, fractional literals "
                "with and without #; distinct by text",
        "records_by_kind": kinds, "fractional_literals_checked_directly": nfrac,
        "design_check": {"module": "MC_Expr", "invariants": ["FlipIsPrec", "OperandsKept"], "distinct_states": states},
        "checker_cmd": res2.cmd, "exhaustive": False,
    }
    assumptions = ["trees are compared up to the placement of a unary minus over * / MOD (same value)",
                   "the value of fractional literals is compared in Python (TLA+ has no fractions); their type by the record"]
    return rep.finish(coverage, assumptions)
