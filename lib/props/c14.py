"""C14 — a CONST has the value and type its expression would have at run time."""
import random, itertools
from mast import *   # noqa

INTS = [0, 1, -1, 2, 7, -3, 100, 32767, -32768, 32768, 40000, 2147483647]
STRS = ["", "a", "ab", "B"]
OPS = ["+", "-", "*", "/", "mod", "and", "or", "=", "<>", "<", "<=", ">", ">="]


def leaves(rng):
    ls = [num(v) for v in INTS] + [lit("S", 2), lit("D", 3), lit("S", 40000)]
    return ls


def gen_exprs(tier, rng):
    """constant expressions of depth <= 2 (thorough 3) over literals"""
    out = []
    L = leaves(rng)
    for x in L:
        out.append(x)
        out.append(un("neg", x))
        out.append(un("not", x))
        out.append(par(x))
    for op in OPS:
        for x in L:
            for y in L:
                out.append(bin_(op, x, y))
    # depth 2/3: sampled
    n = 6000 if tier == "thorough" else 500
    d1 = out[:]
    for _ in range(n):
        op = rng.choice(OPS)
        x, y = rng.choice(d1), rng.choice(L + d1[:50])
        out.append(bin_(op, par(x) if x["k"] in ("bin", "un") else x, par(y) if y["k"] in ("bin", "un") else y))
    if tier == "quick":
        head = out[:len(L) * 4]
        rest = out[len(L) * 4:]
        rng.shuffle(rest)
        out = head + rest[:1500]
    sexprs = []
    for x in STRS:
        sexprs.append(lit("$", x))
        for y in STRS:
            sexprs.append(bin_("+", lit("$", x), lit("$", y)))
            for op in ("=", "<", ">=", "<>"):
                sexprs.append(bin_(op, lit("$", x), lit("$", y)))
    return out + sexprs


def fam_const(tier, rng):
    out = []
    exprs = gen_exprs(tier, rng)
    for e in exprs:
        # P1: CONST C = e : PRINT C   (also used twice, so its type shows in arithmetic)
        b = B()
        main = [b.const("C", "", e), b.print(cref("C")), b.print(lit("$", "t"), bin_("+", cref("C"), cref("C")))]
        out.append({"fam": "const:global", "prog": prog(main)})
        # P2: the expression itself at run time
        b = B()
        out.append({"fam": "const:runtime", "prog": prog([b.print(par(e)), b.print(lit("$", "t"), bin_("+", par(e), par(e)))])})
    # subprogram level, and a module-level constant seen from a subprogram
    sub_exprs = exprs[:: max(1, len(exprs) // (400 if tier == "quick" else 3000))]
    for e in sub_exprs:
        b = B()
        body = [b.const("C", "", e), b.print(cref("C"))]
        out.append({"fam": "const:sub", "prog": prog([b.call("P", []), b.print(lit("$", "m"))], [sub("P", [], body)])})
        b = B()
        c = fcall("F", "I", [], 0)
        st = b.print(c)
        c["sid"] = st["id"]
        out.append({"fam": "const:seen-from-sub",
                    "prog": prog([b.const("C", "", e), b.call("P", []), st],
                                 [sub("P", [], [b.print(cref("C"))]),
                                  fun("F", "I", [], [b.print(cref("C")), b.let(var("F", "I"), lit("I", 1))])])})
    return out


def fam_suffix(tier, rng):
    """CONST with a suffix converts; referencing with the right / wrong suffix"""
    out = []
    vals = [0, 7, -3, 32767, 32768, 40000, -32769]
    for t in ("I", "L", "S", "D"):
        for v in vals:
            for ref in ("", "I", "L", "S", "D"):
                b = B()
                main = [b.const("C", t, num(v)), b.print(cref("C", ref))]
                out.append({"fam": "const-suffix:%s/%s" % (t, ref or "bare"), "prog": prog(main)})
                # the same reference inside the expression of a later constant
                b = B()
                main = [b.const("C", t, num(v)), b.const("K", "", bin_("+", cref("C", ref), num(1)), suffixed=False), b.print(cref("K"))]
                out.append({"fam": "const-suffix-in-const:%s/%s" % (t, ref or "bare"), "prog": prog(main)})
    # unsuffixed constants referenced with a suffix: only the type of the expression is accepted
    for v, t in [(7, "I"), (40000, "L")]:
        for ref in ("I", "L", "S", "D"):
            b = B()
            out.append({"fam": "const-typeprobe", "prog": prog([b.const("C", "", num(v)), b.print(cref("C", ref))])})
            b = B()
            out.append({"fam": "const-typeprobe-in-const", "prog": prog([b.const("C", "", num(v)), b.const("K", "", bin_("*", cref("C", ref), num(2)), suffixed=False),
                                                                          b.print(cref("K"))])})
    for e, t in [(lit("S", 2), "S"), (lit("D", 2), "D"), (bin_("/", lit("I", 6), lit("I", 2)), "S"), (lit("$", "x"), "$")]:
        for ref in ("I", "L", "S", "D", "$"):
            b = B()
            out.append({"fam": "const-typeprobe", "prog": prog([b.const("C", "", e), b.print(cref("C", ref))])})
    return out


def fam_chain(tier, rng):
    """constants defined from earlier constants; replacing a use by (expression)"""
    out = []
    n = 1500 if tier == "thorough" else 200
    L = [num(v) for v in [1, 2, 7, 100, 30000, -3, 40000, 32768]]
    for _ in range(n):
        e1 = bin_(rng.choice(OPS), rng.choice(L), rng.choice(L))
        op2 = rng.choice(OPS)
        other = rng.choice(L)
        # a use under a sign, inside arithmetic in which the TYPE of the constant shows (a LONG of small magnitude times 400)
        uop = rng.choice(["neg", "neg", "not"])
        k = lit("I", rng.choice([7, 400, 3000]))
        # with constants
        b = B()
        main = [b.const("A", "", e1), b.const("B", "", bin_(op2, cref("A"), other)),
                b.print(cref("A"), cref("B")), b.let(var("X", "D"), bin_("+", cref("B"), cref("A"))), b.print(var("X", "D")),
                b.print(lit("$", "u"), bin_("*", un(uop, cref("A")), k)), b.print(lit("$", "v"), bin_("*", un(uop, cref("B")), k))]
        out.append({"fam": "chain:const", "prog": prog(main)})
        # the same with every use replaced by its defining expression in parentheses
        b = B()
        eb = bin_(op2, par(e1), other)
        main = [b.print(par(e1), par(eb)), b.let(var("X", "D"), bin_("+", par(eb), par(e1))), b.print(var("X", "D")),
                b.print(lit("$", "u"), bin_("*", un(uop, par(e1)), k)), b.print(lit("$", "v"), bin_("*", un(uop, par(eb)), k))]
        out.append({"fam": "chain:inlined", "prog": prog(main)})
    return out


def fam_mixed(tier, rng):
    """constants of every numeric type (through their suffix) holding equal / different values, combined by every operator:
    the folded constant equals the expression over VARIABLES of the same types evaluated at run time"""
    out = []
    vals = [(7, 7), (7, 8), (-3, -3), (0, 0), (1, -1)]
    ops = ["=", "<>", "<", "<=", ">", ">=", "+", "-", "*", "and", "or"]
    for t1 in ("I", "L", "S", "D"):
        for t2 in ("I", "L", "S", "D"):
            if t1 == t2 and tier == "quick" and t1 != "I":
                continue
            for (v1, v2) in vals:
                for op in ops:
                    if tier == "quick" and op in ("<", ">=", "-", "*") and (v1, v2) not in ((7, 7), (7, 8)):
                        continue
                    b = B()
                    main = [b.const("A", t1, num(v1)), b.const("B", t2, num(v2)), b.const("R", "", bin_(op, cref("A"), cref("B")), suffixed=False),
                            b.print(cref("R")), b.print(lit("$", "t"), bin_("/", cref("R"), lit("I", 3)))]
                    out.append({"fam": "mixed:const/%s%s" % (t1, t2), "prog": prog(main)})
                    b = B()
                    va, vb = var("VA", t1), var("VB", t2)
                    e = bin_(op, va, vb)
                    main = [b.let(va, num(v1)), b.let(vb, num(v2)), b.print(par(e)), b.print(lit("$", "t"), bin_("/", par(e), lit("I", 3)))]
                    out.append({"fam": "mixed:runtime/%s%s" % (t1, t2), "prog": prog(main)})
    return out


def fam_length(tier, rng):
    """a constant as the length of a fixed-length string (DIM .. AS STRING * N, a TYPE member): the length is the value
    PRINT N shows - also when N was computed from a constant that its suffix converted"""
    out = []
    # (suffix of A, text value of A in tenths, value A has, expression of N built from A, value of N)
    cases = []
    # (only INTEGER constants are admitted as lengths by the checker; no ties - the property does not fix their rounding)
    for sfx, tenths, aval in (("I", 26, 3), ("I", 34, 3), ("", 30, 3), ("I", 74, 7), ("I", 16, 2), ("I", 31, 3)):
        for form, nval in (("eq3", None), ("plus", None), ("twice", None)):
            cases.append((sfx, tenths, aval, form))
    for sfx, tenths, aval, form in cases:
        b = B()
        a_e = flit("S", tenths // 10, tenths % 10) if tenths % 10 else lit("I", tenths // 10)
        if form == "eq3":
            n_e = bin_("+", lit("I", 5), par(bin_("=", cref("A"), lit("I", 3))))
            nval = 5 + (-1 if aval == 3 else 0)
        elif form == "plus":
            n_e = bin_("+", cref("A"), lit("I", 1))
            nval = aval + 1
        else:
            n_e = bin_("*", cref("A"), lit("I", 2))
            nval = aval * 2
        td = typedef("LT", [("S", "$", "", nval), ("K", "I")])
        td["fields"][0]["fixtext"] = "N"
        d1 = b.dim("F", "$", fix=nval)
        d1["fixtext"] = "N"
        main = [b.const("A", sfx, a_e, suffixed=bool(sfx)), b.const("N", "", n_e, suffixed=False),
                b.dim("R", "U", ty="LT"), d1,
                b.let(fld(var("R", "U"), "S", "$", nval), lit("$", "abcdefghijkl")), b.let(var("F", "$"), lit("$", "abcdefghijkl")),
                b.print(cref("A"), cref("N"), fld(var("R", "U"), "S", "$", nval), lit("$", "|"), var("F", "$"), lit("$", "|"))]
        p = prog(main, types=[td])
        p["types_after"] = 2
        out.append({"fam": "length:%s/%d/%s" % (sfx or "bare", tenths, form), "prog": p})
        # the same constants seen from a SUB: DIM .. AS STRING * N inside it, and a local constant as length
        b = B()
        d2 = b.dim("G", "$", fix=nval)
        d2["fixtext"] = "N"
        d3 = b.dim("H", "$", fix=nval + 1)
        d3["fixtext"] = "M"
        body = [d2, b.const("M", "", bin_("+", cref("N"), lit("I", 1)), suffixed=False), d3,
                b.let(var("G", "$"), lit("$", "abcdefghijkl")), b.let(var("H", "$"), lit("$", "abcdefghijkl")),
                b.print(cref("N"), cref("M"), var("G", "$"), lit("$", "|"), var("H", "$"), lit("$", "|"))]
        main2 = [b.const("A", sfx, a_e, suffixed=bool(sfx)), b.const("N", "", n_e, suffixed=False), b.call("P", [])]
        out.append({"fam": "length-sub:%s/%d/%s" % (sfx or "bare", tenths, form), "prog": prog(main2, [sub("P", [], body)])})
    return out


def fam_shadow(tier, rng):
    """a subprogram redefines a module-level constant and then defines another constant from it: inside the
    subprogram the name means the local constant everywhere, also inside constant expressions"""
    out = []
    vals = [(10, 3), (3, 10), (-2, 7), (100, 30000)]
    for g, l in vals:
        for op in ("*", "+", "-"):
            for kind in ("sub", "fun"):
                for order in ("shadow-first", "use-global-first"):
                    b = B()
                    body = []
                    if order == "use-global-first":
                        body.append(b.const("G2", "", bin_(op, cref("S"), num(1))))       # still the module-level S
                        body.append(b.print(cref("G2")))
                        out_of = []
                    body += [b.const("S", "", num(l)) if order == "shadow-first" else b.const("T", "", num(l))]
                    name = "S" if order == "shadow-first" else "T"
                    body += [b.const("AREA", "", bin_(op, cref(name), cref(name))), b.print(cref("AREA"), cref(name), cref("S")),
                             b.print(par(bin_(op, cref(name), cref(name))))]
                    main = [b.const("S", "", num(g))]
                    if kind == "sub":
                        main += [b.call("P", [])]
                        subs = [sub("P", [], body)]
                    else:
                        fc = fcall("F", "I", [], 0)
                        st = b.print(fc)
                        fc["sid"] = st["id"]
                        main += [st]
                        subs = [fun("F", "I", [], body + [b.let(var("F", "I"), lit("I", 1))])]
                    main += [b.print(cref("S"))]
                    out.append({"fam": "const-shadow:%s/%s/%s" % (kind, op, order), "prog": prog(main, subs)})
    return out


def fam_constarg(tier, rng):
    """a constant as an ARGUMENT of a call (user SUB, user FUNCTION) - at module level and inside a subprogram,
    for module-level and local constants: the callee sees the constant's value (by value: constants are not variables)"""
    out = []
    for t, v in (("I", 10), ("L", 70000), ("D", 3)):
        for where in ("main", "sub"):
            for scope in ("module", "local"):
                if where == "main" and scope == "local":
                    continue
                b = B()
                show = sub("SHOW", [("X", t)], [b.print(lit("$", "show"), var("X", t)), b.let(var("X", t), bin_("+", var("X", t), lit("I", 1)))])
                tw = fun("TW", t, [("Y", t)], [b.let(var("TW", t), bin_("+", var("Y", t), var("Y", t)))])
                fc = fcall("TW", t, [cref("K")], 0)
                pst = b.print(lit("$", "tw"), fc)
                fc["sid"] = pst["id"]
                uses = [b.call("SHOW", [cref("K")]), pst, b.print(lit("$", "k"), cref("K")), b.print(par(bin_("+", cref("K"), lit("I", 1))))]
                decl = b.const("K", "", num(v))
                if where == "main":
                    main = [decl] + uses
                    subs = [show, tw]
                else:
                    body = ([decl] if scope == "local" else []) + uses
                    main = ([decl] if scope == "module" else []) + [b.call("W", []), b.print(lit("$", "end"))]
                    subs = [show, tw, sub("W", [], body)]
                out.append({"fam": "const-arg:%s/%s/%s" % (t, where, scope), "prog": prog(main, subs)})
    return out


FAMILIES = [fam_const, fam_suffix, fam_chain, fam_shadow, fam_constarg, fam_length, fam_mixed]


def fam_dotted(tier, rng):
    """constant names containing dots, bare and with a suffix, used in later constant expressions and in statements"""
    out = []
    L = [num(v) for v in [1, 2, 7, 100, 30000, -3]]
    for nm in ("A.B", "A.B.C", "X.Y2"):
        for sfx in ("", "I", "L", "D", "$"):
            for k in range(3):
                b = B()
                if sfx == "$":
                    e1 = bin_("+", lit("$", "ab"), lit("$", "c%d" % k))
                    e2 = bin_("+", cref(nm, sfx), lit("$", "z"))
                    e3 = bin_("+", par(cref(nm, sfx)), cref(nm))
                else:
                    e1 = bin_(rng.choice(OPS), rng.choice(L), rng.choice(L))
                    e2 = bin_(rng.choice(OPS), cref(nm, sfx), rng.choice(L))
                    e3 = bin_("+", par(cref(nm, sfx)), cref(nm))
                main = [b.const(nm, sfx, e1, suffixed=bool(sfx)), b.const("K2", "", e2), b.const("K3", "", e3),
                        b.print(cref(nm), cref(nm, sfx), cref("K2"), cref("K3"))]
                out.append({"fam": "dotted:%s/%s" % (nm, sfx), "prog": prog(main)})
    return out


FAMILIES.append(fam_dotted)


def fam_bothfail(tier, rng):
    """both operands of an operator fail, with different errors: the constant is rejected for the error that evaluating the
    expression at run time raises - the one of the LEFT operand (also one level down, and as the run-time expression itself)"""
    out = []
    fails = {"div0": lambda: bin_("/", num(1), num(0)), "ovf": lambda: bin_("+", num(32767), num(1)), "mod0": lambda: bin_("mod", num(7), num(0)),
             "mul": lambda: bin_("*", num(300), num(300)), "neg": lambda: bin_("-", num(-32768), num(1))}
    for ka, fa in fails.items():
        for kb, fb in fails.items():
            if ka == kb:
                continue
            for op in ("+", "*", "-", "<", "and", "/"):
                for deep in (False, True):
                    l = par(bin_("+", num(1), par(fa()))) if deep else par(fa())
                    e = bin_(op, l, par(fb()))
                    b = B()
                    out.append({"fam": "bothfail:const/%s/%s" % (ka, kb), "prog": prog([b.print(lit("$", "a")), b.const("C", "", e), b.print(cref("C"))])})
                    b = B()
                    out.append({"fam": "bothfail:runtime/%s/%s" % (ka, kb), "prog": prog([b.print(lit("$", "a")), b.print(par(e))])})
    return out


FAMILIES.append(fam_bothfail)


def cases(tier, seed):
    rng = random.Random(seed)
    out = []
    for f in FAMILIES:
        out.extend(f(tier, rng))
    for i, c in enumerate(out):
        c["id"] = i + 1
    return out
