"""C16 check: (D) TLC checks the column machine of Print.tla over all histories of two PRINT
statements across devices; (V) recorded histories of the real interpreter - the bytes that
arrived on the screen, the printer and two files - are validated by TLC against Print.tla."""
import os, random, itertools, json, shutil
from common import out_dir, dumps, seed, ToolError
from pool import Pool
from report import Reporter
from tlc import run_tlc

DEVS = ["scr", "lpt", "f1", "f2"]


def S(t):
    return [ord(c) for c in t]


def num_item(v, ty="I"):
    return {"k": "num", "v": v, "ty": ty}


def str_item(codes):
    return {"k": "str", "v": codes}


SEMI = {"k": "sep", "s": ";"}
COMMA = {"k": "sep", "s": ","}

ITEMS = [num_item(5), num_item(-12), num_item(0), num_item(40000, "L"), num_item(-70000, "L"), num_item(2, "S"), num_item(-3, "S"),
         num_item(7, "D"), num_item(-8, "D"), str_item([]), str_item(S("a")), str_item(S("hello world")),
         str_item(S("x" * 13)), str_item(S("y" * 14)), str_item(S("z" * 15)), str_item(S("w" * 29)),
         str_item(S("a") + [13] + S("b")), str_item(S("ab") + [10] + S("cde")), str_item([13]), str_item(S("q") + [10]),
         dict(num_item(0, "S"), neg0=True), dict(num_item(0, "D"), neg0=True)]


def lists(rng, tier):
    out = [[]]
    for a in ITEMS:
        out.append([a])
        for s in (SEMI, COMMA):
            out.append([a, s])
            out.append([s, a])
            for b in ITEMS[:: 3]:
                out.append([a, s, b])
                out.append([a, s, b, s])
    out += [[SEMI], [COMMA], [COMMA, COMMA], [SEMI, COMMA], [COMMA, COMMA, ITEMS[0]], [ITEMS[10], COMMA, COMMA, ITEMS[1]]]
    # every run of two and three separators: alone, leading, between two items, trailing
    import itertools as _it
    for n in (2, 3):
        for seq in _it.product((SEMI, COMMA), repeat=n):
            seq = list(seq)
            out.append(seq)
            for a, b in ((ITEMS[10], ITEMS[1]), (ITEMS[0], ITEMS[10])):
                out += [[a] + seq, seq + [a], [a] + seq + [b], [a] + seq + [b, SEMI]]
    return out


def expr_of(it):
    if it["k"] == "num":
        v, ty = it["v"], it.get("ty", "I")
        if "c" in it:
            c = it["c"]
            return ("-" if c < 0 else "") + "%d.%02d" % (abs(c) // 100, abs(c) % 100) + ("#" if ty == "D" else "")
        if it.get("neg0"):
            return "-ZS!" if ty == "S" else "-ZD#"       # a negative zero (the variables are never assigned): prints as 0
        if ty in ("I", "L"):
            return str(v)
        return ("%d.0" % v) + ("#" if ty == "D" else "")
    parts, cur = [], ""
    for c in it["v"]:
        if 32 <= c < 127 and c != 34:
            cur += chr(c)
        else:
            if cur:
                parts.append('"%s"' % cur)
                cur = ""
            parts.append("CHR$(%d)" % c)
    if cur:
        parts.append('"%s"' % cur)
    return " + ".join(parts) if parts else '""'


def stmt_text(s):
    dev = s["dev"]
    head = {"scr": "PRINT", "lpt": "LPRINT", "f1": "PRINT #1,", "f2": "PRINT #2,"}[dev]
    if "using" in s:
        fmt = "".join(chr(c) for c in s["using"])
        t = head + ' USING "%s"; ' % fmt + "; ".join(expr_of(v) for v in s["vals"])
        return t + (";" if s["semi"] else "")
    t = head
    prev_item = False
    for it in s["items"]:
        if it["k"] == "sep":
            t += it["s"]
            prev_item = False
        else:
            t += " " + expr_of(it)
            prev_item = True
    return t


def program(hist):
    lines = ['OPEN "F1.TXT" FOR OUTPUT AS #1', 'OPEN "F2.TXT" FOR OUTPUT AS #2']
    tail = []
    for j, s in enumerate(hist):
        if s.get("infn"):
            # this statement runs inside a FUNCTION that an item of the statement before it calls (another device:
            # the two statements do not see each other)
            prev = lines.pop()
            cands = hist[j - 1]["vals"] if "using" in hist[j - 1] else hist[j - 1]["items"]
            it = [i for i in cands if i["k"] == "num" and i.get("ty", "I") == "I" and "c" not in i and not i.get("neg0")][0]
            e = expr_of(it)
            k = prev.rindex(" " + e) + 1 if s.get("lastitem") else prev.index(" " + e, prev.index('";') if "using" in hist[j - 1] else 0) + 1
            lines.append(prev[:k] + "NF%%(%s)" % e + prev[k + len(e):])
            tail = ["FUNCTION NF% (V%)" + (" STATIC" if s.get("static") else ""), stmt_text(s), "NF% = V%", "END FUNCTION"]
        else:
            lines.append(stmt_text(s))
    lines += ["CLOSE"] + tail
    return "\r\n".join(lines) + "\r\n"


def spec_hist(hist):
    out = []
    for s in hist:
        if "using" in s:
            out.append({"dev": s["dev"], "using": s["using"],
                        "vals": [dict({"k": v["k"], "v": v["v"]}, **({"c": v["c"]} if "c" in v else {})) for v in s["vals"]], "semi": s["semi"]})
        else:
            out.append({"dev": s["dev"], "items": [({"k": "sep", "s": i["s"]} if i["k"] == "sep" else {"k": i["k"], "v": i["v"]}) for i in s["items"]]})
    return out


def norm(b):
    """real bytes -> tokens: every CR LF, lone CR or lone LF is the break token 10"""
    out = []
    i = 0
    while i < len(b):
        c = b[i]
        if c == 13 and i + 1 < len(b) and b[i + 1] == 10:
            out.append(10)
            i += 2
        elif c in (10, 13):
            out.append(10)
            i += 1
        else:
            out.append(c)
            i += 1
    return out


def gen_histories(tier, rng):
    L = lists(rng, tier)
    hs = []
    # every list on every device, alone and after a pending (separator-ended) statement on the same / another device
    for l in L:
        for d in DEVS:
            hs.append([{"dev": d, "items": l}])
    pend = [[ITEMS[10], SEMI], [ITEMS[0], COMMA], [ITEMS[12], COMMA], [SEMI], [ITEMS[16], SEMI]]
    must = [[], [SEMI], [COMMA], [ITEMS[10]], [ITEMS[0], SEMI], [ITEMS[18]], [ITEMS[19], SEMI], [ITEMS[10], COMMA, SEMI], [ITEMS[10], SEMI, COMMA, ITEMS[1]]]
    sample = L if tier == "thorough" else must + rng.sample(L, 120)
    for p in pend:
        for l in sample:
            for d1, d2 in (("scr", "scr"), ("scr", "lpt"), ("f1", "f1"), ("f1", "f2"), ("lpt", "scr"), ("lpt", "lpt")):
                hs.append([{"dev": d1, "items": p}, {"dev": d2, "items": l}, {"dev": d1, "items": [ITEMS[1]]}])
    n = 6000 if tier == "thorough" else 600
    for _ in range(n):
        k = rng.randint(3, 9)
        hs.append([{"dev": rng.choice(DEVS), "items": rng.choice(L)} for _ in range(k)])
    # LONG lines: seven to eleven items separated by commas, long strings in front of a comma, columns built up over several
    # statements that end in a separator - the zones go on every 14 columns however far right the line has got
    for d in DEVS:
        for n in (7, 8, 9, 11):
            row = []
            for i in range(n):
                row += [num_item(11 * (i + 1)), COMMA]
            hs.append([{"dev": d, "items": row + [str_item(S("end"))]}])
            hs.append([{"dev": d, "items": [num_item(i + 1), COMMA]} for i in range(n)] + [{"dev": d, "items": [str_item(S("end"))]}])
        for ln in (69, 70, 83, 84, 85, 90, 97, 98, 99, 111, 112, 140):
            hs.append([{"dev": d, "items": [str_item(S("-" * ln)), COMMA, str_item(S("x")), COMMA, num_item(5)]}])
            hs.append([{"dev": d, "items": [str_item(S("-" * ln)), SEMI]}, {"dev": d, "items": [COMMA, str_item(S("x"))]}])
    # a statement that runs in the middle of another one, on another device (inside a FUNCTION called from one of its items):
    # each of the two comes out whole on its own device, pending lines included
    withint = [l for l in L if any(i["k"] == "num" and i.get("ty", "I") == "I" and "c" not in i and not i.get("neg0") for i in l)]
    for outer in (withint if tier == "thorough" else rng.sample(withint, min(len(withint), 30))):
        for inner in must + rng.sample(L, 4):
            for d1, d2 in (("f1", "scr"), ("scr", "f1"), ("f1", "f2"), ("lpt", "scr"), ("scr", "lpt"), ("f2", "lpt")):
                for p in (([], pend[0], pend[1]) if tier == "thorough" else ([], pend[0])):
                    for static in (False, True):
                        h = ([{"dev": d2, "items": p}] if p else []) + [{"dev": d1, "items": outer}, {"dev": d2, "items": inner, "infn": True, "static": static},
                                                                         {"dev": d1, "items": [ITEMS[1]]}, {"dev": d2, "items": [ITEMS[1]]}]
                        hs.append(h)
    return hs


FMT_ALPHA = [35, 44, 46, 92, 32, 33, 120]


def gen_using(tier, rng):
    hs = []
    nums = [num_item(0), num_item(5), num_item(-7), num_item(42), num_item(123), num_item(1234, "I"), num_item(12345, "I"),
            num_item(1234567, "L"), num_item(-1234, "I"), num_item(3, "S"), num_item(99, "D")]
    # values with a fraction, in hundredths (no ties at 0 or 1 decimals: the hundredths digit is never 5 and never 50)
    def scaled(c, ty):
        return dict(num_item(0, ty), c=c)
    nums += [scaled(250 + 1, "D"), scaled(6190, "D"), scaled(-775 - 1, "D"), scaled(199, "D"), scaled(123456, "D"), scaled(-4027, "D"),
             scaled(275 + 1, "S"), scaled(6190, "S"), scaled(-1224, "S"), scaled(112, "S")]
    # between -1 and 1: the whole part is 0, the sign is still the number's
    nums += [scaled(-26, "D"), scaled(-37, "S"), scaled(26, "D"), scaled(-91, "D"), scaled(-63, "S")]
    strs = [str_item(S("a")), str_item(S("hello")), str_item(S("xy")), str_item([])]
    fmts = []
    for n in range(1, 6):
        fmts += [list(p) for p in itertools.product(FMT_ALPHA, repeat=n)]
    hand = ["##", "###", "#####", "##.##", "#,###", "##,###.##", "x##y", "!", "\\\\", "\\ \\", "\\  \\", "a!b", "##x##", "x", "#.#", ".##", "!!", "\\ \\!",
            "Total: ###", "## and ##", "#######,", "##,", "####.", "#,###,###"]
    fmts += [S(h) for h in hand]
    if tier == "quick":
        keep = [f for f in fmts if len(f) <= 3] + [S(h) for h in hand]
        rest = [f for f in fmts if len(f) > 3]
        fmts = keep + rng.sample(rest, 1500)
    for f in fmts:
        nfields_num = sum(1 for c in f if c == 35)
        has_str = any(c in (33, 92) for c in f)
        for _ in range(2):
            nv = rng.randint(1, 3)
            vals = []
            for j in range(nv):
                if has_str and (not nfields_num or rng.random() < 0.5):
                    vals.append(rng.choice(strs))
                else:
                    vals.append(rng.choice(nums))
            hs.append([{"dev": rng.choice(DEVS), "using": f, "vals": vals, "semi": rng.random() < 0.3},
                       {"dev": "scr", "items": [ITEMS[10]]}])
    # every number of the alphabet through every comma / decimal field that is wide enough, one at a time
    wide = [S(h) for h in ("###,###", "#,###,###", "##,###.##", "########", "####.#", "#,###", "-###,###", "[##,###]")]
    for f in wide:
        for v in nums + [num_item(-123), num_item(-123456, "L"), num_item(-1000), num_item(999), num_item(-99)]:
            hs.append([{"dev": "scr", "using": f, "vals": [v], "semi": False}])
    # sequences of PRINT USING statements: every statement starts at the beginning of ITS format, whatever the
    # previous one left (fewer values than fields, formats of different lengths, other devices in between)
    multi = [S(h) for h in ("A: # B: #", "###", "##.##", "Total: ####", "<\\  \\>", "## and ## and ##", "!x!", "#,### #", "x## y##")]
    for _ in range(3000 if tier == "thorough" else 500):
        k = rng.randint(2, 4)
        h = []
        for _ in range(k):
            f = rng.choice(multi)
            nfields = max(1, sum(1 for i, c in enumerate(f) if c in (35, 33, 92) and (i == 0 or f[i - 1] != c)))
            nv = rng.randint(1, 3)
            has_str = any(c in (33, 92) for c in f)
            vals = [rng.choice(strs) if has_str else rng.choice(nums) for _ in range(nv)]
            h.append({"dev": rng.choice(DEVS), "using": f, "vals": vals, "semi": rng.random() < 0.2})
            if rng.random() < 0.3:
                h.append({"dev": rng.choice(DEVS), "items": [ITEMS[10]]})
        hs.append(h)
    # a PRINT USING statement that runs inside a FUNCTION (STATIC or not) called from a value of another PRINT USING statement,
    # on another device: each is rendered through ITS format
    ints = [num_item(5), num_item(-7), num_item(42), num_item(123)]
    for fo in multi:
        if any(c in (33, 92) for c in fo):
            continue
        for fi in multi:
            for d1, d2 in (("f1", "scr"), ("scr", "f1"), ("lpt", "f2")):
                for static in (False, True):
                    vi = [rng.choice(strs) if any(c in (33, 92) for c in fi) else rng.choice(nums) for _ in range(rng.randint(1, 2))]
                    vo = [rng.choice(ints) for _ in range(rng.randint(1, 3))]
                    hs.append([{"dev": d1, "using": fo, "vals": vo, "semi": False},
                               {"dev": d2, "using": fi, "vals": vi, "semi": False, "infn": True, "static": static, "lastitem": rng.random() < 0.5},
                               {"dev": d1, "using": fi, "vals": vi, "semi": False}, {"dev": d2, "using": fo, "vals": vo, "semi": False}])
    return hs


def run(tier, replay):
    rep = Reporter("C16", tier, "model_checking")
    pool = Pool()
    rng = random.Random(seed())
    d = out_dir("C16")
    res = run_tlc("MC_Print.tla", "MC_Print_%s.cfg" % tier, os.path.join(d, "tlc_mc"), timeout=3000)
    if res.timed_out or not res.ok:
        raise ToolError("Print.tla violates its own invariants:\n%s" % res.violation)
    states, trans = res.distinct, res.generated
    if replay:
        with open(replay) as f:
            hists = [json.load(f)["hist"]]
    else:
        hists = gen_histories(tier, rng) + gen_using(tier, rng)
    fsroot = os.path.join(d, "fs")
    shutil.rmtree(fsroot, ignore_errors=True)
    reqs = []
    for i, h in enumerate(hists):
        reqs.append({"op": "run", "text": program(h), "budget": 200000, "dir": os.path.join(fsroot, "c%d" % i)})
    resps = pool.map(reqs, timeout=60)
    shutil.rmtree(fsroot, ignore_errors=True)
    recs = []
    texts = {}
    for i, (h, req, resp) in enumerate(zip(hists, reqs, resps)):
        rid = i + 1
        texts[rid] = req["text"]
        using = any("using" in s for s in h)
        ok = resp and resp.get("stage") == "run" and "panic" not in resp and resp.get("outcome", {}).get("k") == "ok"
        if not ok:
            if using and resp and resp.get("stage") == "run" and resp.get("outcome", {}).get("k") == "err":
                # a format outside the fixed part of the language may be an error; TLC says whether it had to work
                recs.append({"id": rid, "hist": spec_hist(h), "obs": {dv: [0] for dv in DEVS}, "failed": resp["outcome"]})
                continue
            rep.violation({"rendered_text": req["text"], "hist": h, "observed": resp, "expected": "the program runs"},
                          {"run-failure", "panic" if resp and "panic" in resp else "error"}, name="run")
            continue
        files = resp.get("files_after", {})
        so = resp.get("stdout")
        lp = resp.get("lpt1")
        obs = {"scr": norm(list(so.encode("utf-8")) if isinstance(so, str) else so.get("bytes", [])),
               "lpt": norm(list(lp.encode("utf-8")) if isinstance(lp, str) else lp.get("bytes", [])),
               "f1": norm(files.get("F1.TXT", [])), "f2": norm(files.get("F2.TXT", []))}
        recs.append({"id": rid, "hist": spec_hist(h), "obs": obs})
    byid = {r["id"]: r for r in recs}
    nag = nskip = 0
    chunk = 8000
    cmd = ""
    for start in range(0, len(recs), chunk):
        path = os.path.join(d, "print_%d.ndjson" % start)
        with open(path, "w") as f:
            for r in recs[start:start + chunk]:
                f.write(dumps({"id": r["id"], "hist": r["hist"], "obs": r["obs"]}) + "\n")
        res2 = run_tlc("Trace_Print.tla", "Trace_Print.cfg", os.path.join(d, "tlc_tr"), env={"TRACE": path}, timeout=3000)
        cmd = res2.cmd
        if res2.timed_out or not res2.ok:
            raise ToolError("TLC failed on Trace_Print:\n%s" % res2.violation)
        states += res2.distinct
        trans += res2.generated
        for ln in res2.printed:
            p = ln.split(" ", 2)
            if p[0] == "AGREE":
                nag += 1
            elif p[0] == "SKIP":
                nskip += 1
            elif p[0] == "MISMATCH":
                r = byid[int(p[1])]
                exp = json.loads(p[2])
                feats = set()
                for s in r["hist"]:
                    feats.add("dev:" + s["dev"])
                    feats.add("using" if "using" in s else "plain")
                rep.violation({"rendered_text": texts[r["id"]], "hist": r["hist"],
                               "expected": {k: bytes(v).decode("latin1") for k, v in exp.items()},
                               "observed": r.get("failed") or {k: bytes(v).decode("latin1") for k, v in r["obs"].items()}},
                              feats, name="using" if "using" in feats else "print")
        os.remove(path)
    coverage = {
        "states": states, "transitions": trans,
        "traces_validated_against_impl": nag + (len(recs) - nag - nskip),
        "samples": [{"program": texts[r["id"]], "observed": {k: bytes(v).decode("latin1") for k, v in r["obs"].items()}} for r in recs[:: max(1, len(recs) // 3)][:3]],
        "evaluations": len(hists), "distinct_nontrivial": len({texts[r["id"]] for r in recs}),
        "rule": "item lists: every item of the alphabet (numbers of each type and sign, empty / short / 13-14-15-29 character "
                "strings, strings with embedded CR / LF) alone, before and after each separator, leading / trailing / "
                "consecutive separators; each list on each of 4 devices; pending (separator-ended) statements followed by "
                "every list on the same and on another device; seeded random histories of 3-9 statements; PRINT USING with "
                "all formats up to length 3 (5 in thorough) over {# , . \\ blank ! x} plus hand-written ones, 1-3 values; "
                "distinct by program text",
        "agree": nag, "not_judged_using_outside_fixed_language": nskip,
        "design_check": {"module": "MC_Print", "distinct_states": res.distinct,
                         "invariants": ["ColumnOK", "OtherDevicesUntouched", "CommaLandsOnZone", "LineEnds"]},
        "checker_cmd": cmd, "exhaustive": False,
    }
    assumptions = ["every CR LF, lone CR or lone LF in the real output is one line-break token (the property fixes the column, not the bytes, of an embedded break)",
                   "PRINT USING is judged only inside the part of the format language fixed in Print.tla (whole numbers that fit their field, ! and \\ \\ fields, literal text)",
                   "rendering of non-whole numbers is not covered"]
    return rep.finish(coverage, assumptions)
