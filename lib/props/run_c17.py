"""C17 check: (D) TLC checks the defining equations on Strings.tla for all strings up to
length 3 (5) over {a, B, blank, CHR$(200)} and all counts in -1..7; (V) the same argument
space through real BASIC programs in three renderings (literals, variables, nested calls),
each result or error recorded and validated by TLC against the definitions."""
import os, random, itertools, json
from common import out_dir, dumps, seed, ToolError
from pool import Pool
from report import Reporter
from tlc import run_tlc

ALPHA = [97, 66, 32, 200]


def strs(maxlen):
    out = [()]
    for n in range(1, maxlen + 1):
        out.extend(itertools.product(ALPHA, repeat=n))
    return [list(s) for s in out]


def slit(s):
    """BASIC expression denoting the string (codes); CHR$ for non-ASCII"""
    if not s:
        return '""'
    parts, cur = [], ""
    for c in s:
        if 32 <= c < 127 and c != 34:
            cur += chr(c)
        else:
            if cur:
                parts.append('"%s"' % cur)
                cur = ""
            parts.append("CHR$(%d)" % c)
    if cur:
        parts.append('"%s"' % cur)
    return " + ".join(parts)


AFTER = {}


def call_text(fn, a, mode, k):
    """returns (setup lines, expression text, is_string_result); AFTER[k] = statements to run after the call"""
    setup = []
    after = AFTER.setdefault(k, [])
    del after[:]

    def S(name, s):
        if mode == "lit":
            return "(" + slit(s) + ")" if "+" in slit(s) else slit(s)
        if mode == "var":
            setup.append("%s%d$ = %s" % (name, k, slit(s)))
            # a function leaves its arguments as they were: checked after the call
            after.append('IF %s%d$ <> %s THEN PRINT "!ARG"' % (name, k, slit(s)))
            return "%s%d$" % (name, k)
        return 'MID$("x" + %s, 2)' % slit(s)

    def N(name, n):
        if mode == "lit":
            return str(n)
        if mode == "var":
            sfx = "%" if -32768 <= n <= 32767 else "&"
            setup.append("%s%d%s = %d" % (name, k, sfx, n))
            return "%s%d%s" % (name, k, sfx)
        return "(%d + LEN(\"\"))" % n

    if fn in ("LEFT$", "RIGHT$"):
        return setup, "%s(%s, %s)" % (fn, S("S", a["s"]), N("N", a["n"])), True
    if fn == "MID$":
        if a["has"]:
            return setup, "MID$(%s, %s, %s)" % (S("S", a["s"]), N("N", a["n"]), N("M", a["m"])), True
        return setup, "MID$(%s, %s)" % (S("S", a["s"]), N("N", a["n"])), True
    if fn == "INSTR":
        if a["has"]:
            return setup, "INSTR(%s, %s, %s)" % (N("N", a["n"]), S("S", a["s"]), S("T", a["t"])), False
        return setup, "INSTR(%s, %s)" % (S("S", a["s"]), S("T", a["t"])), False
    if fn == "LEN":
        return setup, "LEN(%s)" % S("S", a["s"]), False
    if fn == "LENCAT":
        return setup, "LEN(%s + %s)" % (S("S", a["s"]), S("T", a["t"])), False
    if fn in ("UCASE$", "LCASE$", "LTRIM$", "RTRIM$"):
        return setup, "%s(%s)" % (fn, S("S", a["s"])), True
    if fn == "SPACE$":
        return setup, "SPACE$(%s)" % N("N", a["n"]), True
    if fn == "STRING$":
        return setup, "STRING$(%s, %s)" % (N("N", a["n"]), N("M", a["m"])), True
    if fn == "STRINGS$":
        return setup, "STRING$(%s, %s)" % (N("N", a["n"]), S("S", a["s"])), True
    if fn == "STR$":
        return setup, "STR$(%s)" % N("N", a["n"]), True
    if fn == "VALSTR":
        return setup, "VAL(STR$(%s))" % N("N", a["n"]), False
    if fn == "VAL":
        return setup, "VAL(%s)" % S("S", a["s"]), False
    raise ValueError(fn)


def expected_ok(fn, a):
    """does the definition make this call an error? (only used to isolate failing calls in
    their own program; the verdict itself is TLC's)"""
    n, m = a.get("n", 0), a.get("m", 0)
    if fn in ("LEFT$", "RIGHT$", "SPACE$"):
        return n >= 0
    if fn == "MID$":
        return n >= 1 and (not a["has"] or m >= 0)
    if fn == "INSTR":
        return n >= 1
    if fn == "STRING$":
        return n >= 0 and 0 <= m <= 255
    if fn == "STRINGS$":
        return n >= 0 and len(a["s"]) > 0
    return True


def gen_calls(tier, rng):
    ml = 5 if tier == "thorough" else 3
    SS = strs(ml)
    TT = [s for s in strs(2) if s]
    NN = list(range(-1, 8))
    calls = []
    for s in SS:
        for n in NN:
            calls.append(("LEFT$", {"s": s, "n": n}))
            calls.append(("RIGHT$", {"s": s, "n": n}))
            calls.append(("MID$", {"s": s, "n": n, "m": 0, "has": False}))
            for m in NN:
                calls.append(("MID$", {"s": s, "n": n, "m": m, "has": True}))
        for fn in ("LEN", "UCASE$", "LCASE$", "LTRIM$", "RTRIM$", "VAL"):
            calls.append((fn, {"s": s}))
    s_for_instr = SS if tier == "thorough" else strs(3)
    for s in s_for_instr:
        for t in TT:
            calls.append(("INSTR", {"s": s, "t": t, "n": 1, "has": False}))
            calls.append(("LENCAT", {"s": s, "t": t}))
            for n in NN:
                calls.append(("INSTR", {"s": s, "t": t, "n": n, "has": True}))
    # INSTR where the text searched for overlaps itself and a longer run of its beginning stands before the real occurrence
    # ("aaB" in "aaaB"): every haystack over {a, B} up to length 5 (6) x every needle of length 2 - 3 (4), with and without start
    import itertools
    hl, nl = (6, 4) if tier == "thorough" else (5, 3)
    hay = [list(p) for k in range(2, hl + 1) for p in itertools.product((97, 66), repeat=k)]
    ned = [list(p) for k in range(2, nl + 1) for p in itertools.product((97, 66), repeat=k)]
    overlap_calls = []
    for hs in hay:
        for nd in ned:
            if len(nd) <= len(hs):
                overlap_calls.append(("INSTR", {"s": hs, "t": nd, "n": 1, "has": False}))
                overlap_calls.append(("INSTR", {"s": hs, "t": nd, "n": rng.randint(1, len(hs)), "has": True}))
    for n in NN + [40, 255]:
        calls.append(("SPACE$", {"n": n}))
        for m in (-1, 0, 32, 65, 200, 255, 256):
            calls.append(("STRING$", {"n": n, "m": m}))
        for s in strs(2):
            calls.append(("STRINGS$", {"n": n, "s": s}))
    for k in [0, 1, -1, 9, 10, 99, 100, 255, -255, 32767, -32768, 65536, 100000, 2147483647, -2147483647] + [rng.randint(-10 ** 6, 10 ** 6) for _ in range(200)]:
        calls.append(("STR$", {"n": k}))
        calls.append(("VALSTR", {"n": k}))
    for t in ["12", " 12", "12 ", "-5", "+7", "  -  3", "12abc", "abc", "1 2", "007"]:
        calls.append(("VAL", {"s": [ord(c) for c in t]}))
    # white space that is not the blank, at both ends and mixed with blanks: the trims take blanks only
    for w in (9, 11, 12, 133, 160):
        for core in ([97], [32, 97, 32], []):
            for pat in ([w], [32, w], [w, 32], [32, w, 32]):
                st = pat + core + list(reversed(pat))
                for fn in ("LTRIM$", "RTRIM$", "LEN", "UCASE$"):
                    calls.append((fn, {"s": st}))
    # random longer printable-ASCII strings
    nr = 4000 if tier == "thorough" else 400
    for _ in range(nr):
        L = rng.randint(6, 40)
        s = [rng.choice([32, 32, 65, 66, 97, 98, 99, 120, 90, 122, 48, 57, 46]) for _ in range(L)]
        n, m = rng.randint(-1, L + 2), rng.randint(-1, L + 2)
        t = s[rng.randint(0, L - 1):][:rng.randint(1, 3)] if rng.random() < 0.7 else [rng.choice([65, 120, 33])]
        fn = rng.choice(["LEFT$", "RIGHT$", "MID$", "MID$", "INSTR", "UCASE$", "LCASE$", "LTRIM$", "RTRIM$", "LEN", "LENCAT"])
        a = {"s": s, "t": t, "n": n, "m": m, "has": rng.random() < 0.6}
        if fn == "INSTR" and not a["has"]:
            a["n"] = 1
        calls.append((fn, a))
    if tier == "quick":
        # the exhaustive part stays complete for strings up to length 2; length 3 is sampled
        keep, rest = [], []
        for c in calls:
            (keep if len(c[1].get("s", [])) <= 2 else rest).append(c)
        rng.shuffle(rest)
        calls = keep + rest[:12000]
    return calls + overlap_calls


def decode_out(line):
    """stdout line -> codes (CHR$(200) arrives as U+00C8)"""
    return [ord(ch) for ch in line]


def run(tier, replay):
    rep = Reporter("C17", tier, "model_checking")
    pool = Pool()
    rng = random.Random(seed())
    d = out_dir("C17")
    res = run_tlc("MC_Strings.tla", "MC_Strings_%s.cfg" % tier, os.path.join(d, "tlc_mc"), timeout=2400)
    if res.timed_out or not res.ok:
        raise ToolError("Strings.tla violates the defining equations (the oracle is wrong):\n%s" % res.violation)
    states, trans = res.distinct, res.generated
    calls = gen_calls(tier, rng)
    modes = ["lit", "var", "nest"]
    # programs: up to 25 non-failing calls per program; a call the definition rejects runs alone
    programs = []   # (text, [(rid, fn, a, is_str)])
    recs = {}
    rid = 0
    batch_lines, batch_meta = [], []

    def flush():
        nonlocal batch_lines, batch_meta
        if batch_meta:
            programs.append(("\r\n".join(batch_lines) + "\r\n", batch_meta))
        batch_lines, batch_meta = [], []

    for i, (fn, a) in enumerate(calls):
        mode = modes[i % 3]
        rid += 1
        setup, ex, is_str = call_text(fn, a, mode, len(batch_meta))
        line = ('PRINT "[" + %s + "]"' % ex) if is_str else ("PRINT %s" % ex)
        recs[rid] = {"id": rid, "fn": fn, "s": a.get("s", []), "t": a.get("t", []), "n": a.get("n", 0), "m": a.get("m", 0),
                     "has": bool(a.get("has", False)), "mode": mode}
        post = list(AFTER.get(len(batch_meta), []))
        if expected_ok(fn, a):
            batch_lines.extend(setup + [line] + post)
            batch_meta.append((rid, fn, is_str))
            if len(batch_meta) >= 25:
                flush()
        else:
            programs.append(("\r\n".join(setup + [line] + post) + "\r\n", [(rid, fn, is_str)]))
    flush()
    import shutil
    shutil.rmtree(os.path.join(d, "replay"), ignore_errors=True)
    resps = pool.map([{"op": "run", "text": t, "budget": 200000} for t, _ in programs], timeout=60)
    # a batch that stopped early (one call failed): the calls after the failing one run again, each alone
    extra_programs = []
    for (text, meta), resp in zip(programs, resps):
        if resp and resp.get("stage") == "run" and "panic" not in resp and len(meta) > 1:
            out = resp.get("stdout") if isinstance(resp.get("stdout"), str) else ""
            nlines = len(out.split("\r\n")) - 1
            if resp["outcome"].get("k") != "ok" and nlines < len(meta):
                lines = text.split("\r\n")
                for j in range(nlines + 1, len(meta)):
                    r_id, fn, is_str = meta[j]
                    rr = recs[r_id]
                    a = {"s": rr["s"], "t": rr["t"], "n": rr["n"], "m": rr["m"], "has": rr["has"]}
                    setup, ex, _ = call_text(fn, a, rr["mode"], 0)
                    line = ('PRINT "[" + %s + "]"' % ex) if is_str else ("PRINT %s" % ex)
                    extra_programs.append(("\r\n".join(setup + [line] + list(AFTER.get(0, []))) + "\r\n", [meta[j]]))
                del meta[nlines + 1:]
    if extra_programs:
        programs = programs + extra_programs
        resps = resps + pool.map([{"op": "run", "text": t, "budget": 200000} for t, _ in extra_programs], timeout=60)
    final = []
    for (text, meta), resp in zip(programs, resps):
        if not resp or resp.get("stage") != "run" or "panic" in resp:
            rep.violation({"rendered_text": text, "observed": resp, "expected": "the program runs to a BASIC-level outcome"},
                          {"stage:" + str((resp or {}).get("stage")), "panic" if resp and "panic" in resp else "noresp"}, name="run")
            continue
        out = resp.get("stdout")
        if not isinstance(out, str):
            out = bytes(out.get("bytes", [])).decode("utf-8", errors="replace")
        raw_lines = out.split("\r\n")
        lines = []
        for ln in raw_lines:
            if ln == "!ARG" and lines:
                lines[-1] = "\x00ARG"      # the call before changed one of its arguments: the record cannot agree
            else:
                lines.append(ln)
        oc = resp["outcome"]
        for j, (r_id, fn, is_str) in enumerate(meta):
            r = recs[r_id]
            if j < len(lines) - 1 or (j < len(lines) and lines[j] != ""):
                ln = lines[j]
                if is_str:
                    if len(ln) >= 2 and ln[0] == "[" and ln[-1] == "]":
                        r.update(ok=True, v=decode_out(ln[1:-1]))
                    else:
                        r.update(ok=True, v=[-1])
                else:
                    try:
                        r.update(ok=True, v=int(ln.strip()))
                    except ValueError:
                        r.update(ok=True, v=-999999)
            elif oc.get("k") == "err":
                r.update(ok=False, c=oc.get("code") if oc.get("code") is not None else -1)
            else:
                r.update(ok=True, v=[-2] if is_str else -999998)
            r["text"] = text
            final.append(r)
    path = os.path.join(d, "strings.ndjson")
    with open(path, "w") as f:
        for r in final:
            f.write(dumps({k: v for k, v in r.items() if k not in ("text", "mode")}) + "\n")
    res2 = run_tlc("Trace_Strings.tla", "Trace_Strings.cfg", os.path.join(d, "tlc_tr"), env={"TRACE": path}, timeout=2400)
    if res2.timed_out or not res2.ok:
        raise ToolError("TLC failed validating the string call records:\n%s" % res2.violation)
    byid = {r["id"]: r for r in final}
    for ln in res2.printed:
        if ln.startswith("MISMATCH "):
            r = byid[int(ln.split()[1])]
            feats = {"fn:" + r["fn"], "mode:" + r["mode"]}
            if any(c >= 128 for c in r["s"] + r["t"]):
                feats.add("non-ascii")
            if r["fn"] in ("STRING$",) and r["m"] >= 128:
                feats.add("non-ascii")
            rep.violation({"call": r["fn"], "args": {k: r[k] for k in ("s", "t", "n", "m", "has")}, "rendering": r["mode"],
                           "observed": {k: r.get(k) for k in ("ok", "v", "c")}, "rendered_text": r["text"],
                           "expected": "Strings.tla definition of " + r["fn"]}, feats, name=r["fn"].replace("$", ""))
    os.remove(path)
    # whole programs built from the functions (loops, nests, handlers, calls): judged end to end by Core.tla
    import c17, features
    from corecheck import CoreRun, describe
    pcases = c17.cases(tier, seed())
    cr = CoreRun("C17", pool, budget=200000)
    cr.execute(pcases, None)
    cr.validate(pcases)
    pv = {"agree": 0, "mismatch": 0, "skip": 0}
    pf = {}
    for c in pcases:
        pv[c["verdict"]] += 1
        fam = c["fam"].split(":")[0] + ":" + c["fam"].split(":")[-1] if ":" in c["fam"] else c["fam"]
        pf[fam] = pf.get(fam, 0) + 1
        if c["verdict"] == "mismatch":
            rep.violation(describe(c), features.of_case(c), name="prog-" + c["fam"].split(":")[-1].replace("$", ""))
    kinds = {}
    for r in final:
        kinds[r["fn"]] = kinds.get(r["fn"], 0) + 1
    coverage = {
        "states": states + res2.distinct + cr.states, "transitions": trans + res2.generated + cr.transitions,
        "traces_validated_against_impl": len(final) + pv["agree"] + pv["mismatch"],
        "whole_programs": {"verdicts": pv, "families": pf, "judge": "Core.tla (built-in functions = Strings.tla) via Trace_Core.tla"},
        "samples": [{k: v for k, v in r.items() if k != "text"} for r in final[:: max(1, len(final) // 3)][:3]] + [{"program": programs[0][0]}],
        "evaluations": len(final), "distinct_nontrivial": len(final),
        "rule": "all strings up to length 2 (thorough 5) over {a, B, blank, CHR$(200)} x all counts/positions in -1..7 for "
                "LEFT$/RIGHT$/MID$/INSTR/LEN/UCASE$/LCASE$/LTRIM$/RTRIM$, length 3 sampled in quick, SPACE$/STRING$ counts and "
                "codes, STR$/VAL round trips, seeded random printable strings up to length 40; arguments rendered as literals, "
                "variables and nested calls in rotation; each call is a distinct record",
        "records_by_function": kinds, "programs": len(programs),
        "design_check": {"module": "MC_Strings", "cfg": "MC_Strings_%s.cfg" % tier, "distinct_states": states},
        "checker_cmd": res2.cmd, "exhaustive": False,
    }
    assumptions = ["results are read from stdout: string results between [ ], CHR$(200) as U+00C8",
                   "INSTR with an empty search string is not generated (the property speaks of non-empty t)"]
    return rep.finish(coverage, assumptions)
