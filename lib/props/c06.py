"""C06 — a numeric variable only ever holds a value of its own type and range.

Boundary values through every storing route; expectation (stored value or Overflow at that
statement) from Core.tla; additionally every value found in a numeric variable during the
runs is checked by the monitor TypeMon.tla."""
import random, itertools
from mast import *   # noqa

NUMT = ["I", "L", "S", "D"]
MAXI, MINI, MAXL, MINL = 32767, -32768, 2147483647, -2147483648
BOUND = [MINI - 1, MINI, MINI + 1, -1, 0, 1, MAXI - 1, MAXI, MAXI + 1, MINL, MINL + 1, MAXL - 1, MAXL,
         16777216, -16777216, 65535, 65536]
ROUTES = ["assign", "byval", "forinit", "forlimit", "read", "element", "field", "funcresult", "byref-expr", "static"]

TYPES = [typedef("NT", [("FI", "I"), ("FL", "L"), ("FS", "S"), ("FD", "D")])]
FNAME = {"I": "FI", "L": "FL", "S": "FS", "D": "FD"}


def fits(t, v):
    if t == "I":
        return MINI <= v <= MAXI
    if t == "S":
        return abs(v) <= 16777216
    return MINL <= v <= MAXL


def src_expr(b, pre, ts, v, form):
    """an expression of static type ts with value v"""
    if form == "lit":
        return num(v)
    if form == "var":
        pre.append(b.let(var("SRC", ts), num(v)))
        return var("SRC", ts)
    if form == "sum":
        # v = (v - 1) + 1 computed in type ts (may itself overflow for whole-number types)
        pre.append(b.let(var("SRC", ts), num(v - 1 if v > MINL else v)))
        return bin_("+", var("SRC", ts), lit("I", 1 if v > MINL else 0))
    raise ValueError(form)


def route_prog(route, tt, src_fn):
    b = B()
    pre = []
    subs = []
    types = []
    src = src_fn(b, pre)
    tgt = var("T", tt)
    if route == "assign":
        main = [b.let(tgt, src), b.print(tgt)]
    elif route == "byval":
        subs = [sub("P", [("X", tt)], [b.print(var("X", tt)), b.let(var("X", tt), lit("I", 1))])]
        main = [b.call("P", [par(src) if src["k"] in ("var",) else src]), b.print(lit("$", "ok"))]
    elif route == "forinit":
        main = [b.for_(tgt, src, src, None, [b.print(tgt)]), b.print(tgt)]
    elif route == "forlimit":
        main = [b.for_(tgt, lit("I", 0), src, lit("L", 1000000000), [b.print(tgt)]), b.print(lit("$", "x"))]
    elif route == "read":
        return None
    elif route == "element":
        e = idx("AR", tt, [lit("I", 1)])
        main = [b.dim("AR", tt, [dimspec(0, 1)]), b.let(e, src), b.print(e, idx("AR", tt, [lit("I", 0)]))]
    elif route == "field":
        f = fld(var("R", "U"), FNAME[tt], tt)
        types = TYPES
        main = [b.dim("R", "U", ty="NT"), b.let(f, src), b.print(f)]
    elif route == "funcresult":
        return None
    elif route == "byref-expr":
        subs = [sub("P", [("X", tt)], [b.let(var("X", tt), var("G", "D"))])]
        main = [b.dim("G", "D", shared=True), b.let(var("G", "D"), src), b.call("P", [tgt]), b.print(tgt)]
    elif route == "static":
        subs = [sub("P", [("X", "D")], [b.let(var("ACC", tt), var("X", "D")), b.print(var("ACC", tt))], static=True)]
        main = [b.call("P", [par(src) if src["k"] == "var" else src]), b.print(lit("$", "ok"))]
    else:
        raise ValueError(route)
    return prog(pre + main, subs, types=types)


def fam_routes(tier, rng):
    out = []
    forms = ["lit", "var", "sum"]
    for tt in NUMT:
        for v in BOUND:
            for route in ROUTES:
                for form in forms:
                    for ts in NUMT:
                        if form == "lit" and ts != "I":
                            continue
                        if form != "lit" and not fits(ts, v):
                            continue
                        if form == "sum" and not fits(ts, v - 1):
                            continue
                        if tier == "quick" and form == "sum" and ts in ("S",):
                            continue
                        p = route_prog(route, tt, lambda b, pre: src_expr(b, pre, ts, v, form))
                        if p is None:
                            continue
                        out.append({"fam": "route:%s/%s/%s/%s" % (route, tt, form, ts), "prog": p})
    # READ route
    for tt in NUMT:
        for v in BOUND:
            b = B()
            out.append({"fam": "route:read/%s" % tt, "prog": prog([b.data(dlit(v)), b.read(var("T", tt)), b.print(var("T", tt))])})
    # FUNCTION result route
    for tt in NUMT:
        for v in BOUND:
            b = B()
            c = fcall("F", tt, [], 0)
            s = b.print(c)
            c["sid"] = s["id"]
            out.append({"fam": "route:funcresult/%s" % tt, "prog": prog([s], [fun("F", tt, [], [b.let(var("F", tt), num(v))])])})
    return out


def fam_arith(tier, rng):
    """arithmetic at and around the type boundaries, result stored into every type; operand pairs are
    stratified by where the exact result lies (inside INTEGER, inside LONG only, beyond LONG) so that every
    (operator, operand types, target type) meets each class"""
    out = []
    vals = [MINI, MINI + 1, -1, 0, 1, 2, 200, 30000, MAXI - 1, MAXI, MINL, MINL + 1, MAXL - 1, MAXL, 46340, 46341, 65536]
    ops = {"+": lambda x, y: x + y, "-": lambda x, y: x - y, "*": lambda x, y: x * y}

    def klass(r):
        return 0 if fits("I", r) else (1 if fits("L", r) else 2)
    for op, f in ops.items():
        for ta in NUMT:
            for tb in NUMT:
                whole = ta in ("I", "L") and tb in ("I", "L")
                if tier == "quick" and not whole and rng.random() < 0.6:
                    continue
                ps = [(x, y) for x in vals for y in vals if fits(ta, x) and fits(tb, y)]
                if not whole:
                    # stay inside the exactly representable domain of the floating types
                    ps = [(x, y) for x, y in ps if abs(f(x, y)) <= (16777216 if "S" in (ta, tb) else MAXL)]
                byk = {0: [], 1: [], 2: []}
                for x, y in ps:
                    byk[klass(f(x, y))].append((x, y))
                for tt in ["I", "L", "D"]:
                    for k in (0, 1, 2):
                        cand = byk[k]
                        if tier == "quick":
                            cand = rng.sample(cand, min(len(cand), 3 if whole else 2))
                        for x, y in cand:
                            b = B()
                            main = [b.let(var("A", ta), num(x)), b.let(var("B", tb), num(y)),
                                    b.let(var("T", tt), bin_(op, var("A", ta), var("B", tb))), b.print(var("T", tt))]
                            out.append({"fam": "arith:%s/%s%s>%s" % (op, ta, tb, tt), "prog": prog(main)})
    # unary minus at the minima, division results stored into whole-number variables
    for t, v in [("I", MINI), ("L", MINL), ("I", MAXI), ("L", MAXL)]:
        b = B()
        out.append({"fam": "negmin:" + t, "prog": prog([b.let(var("A", t), num(v)), b.let(var("T", t), un("neg", var("A", t))), b.print(var("T", t))])})
    for x, y in [(6, 2), (6, 3), (-6, 3), (40000, 1), (100000, 2), (7, 1)]:
        for tt in NUMT:
            b = B()
            out.append({"fam": "div-store:" + tt, "prog": prog([b.let(var("A", "L"), num(x)), b.let(var("T", tt), bin_("/", var("A", "L"), num(y))), b.print(var("T", tt))])})
    # quotients that are not whole numbers, stored into every type from every pair of operand types: a whole-number
    # variable must end up with a whole number (the spec does not predict which one: judged by the monitor)
    for x, y in [(1, 3), (2, 3), (7, 3), (-7, 3), (100000, 3), (1, 7)]:
        for ta in ("I", "L", "S", "D"):
            for tb in ("I", "L"):
                if not (fits(ta, x) and fits(tb, y)):
                    continue
                for tt in NUMT:
                    b = B()
                    out.append({"fam": "div-frac:%s%s>%s" % (ta, tb, tt),
                                "prog": prog([b.let(var("A", ta), num(x)), b.let(var("B", tb), num(y)),
                                              b.let(var("T", tt), bin_("/", var("A", ta), var("B", tb))), b.print(lit("$", "ok"))])})
    return out


def fam_for(tier, rng):
    """FOR counters running over the edge of their type"""
    out = []
    for ct, lo, hi, st in [("I", MAXI - 2, MAXI, 1), ("I", MINI + 2, MINI, -1), ("I", MAXI - 3, MAXI, 2),
                           ("L", MAXL - 2, MAXL, 1), ("L", MINL + 2, MINL, -1), ("I", 0, 3, 1), ("I", 32000, 32767, 500)]:
        b = B()
        c = var("I", ct)
        main = [b.for_(c, num(lo), num(hi), num(st), [b.print(c)]), b.print(lit("$", "after"), c)]
        out.append({"fam": "for-edge:%s/%d" % (ct, st), "prog": prog(main)})
    # every counter type x every static type of the bounds and of the step: the counter keeps its own type
    for ct in NUMT:
        for st_t in NUMT:
            for bt in NUMT:
                for stv in (1, 2, -1):
                    if tier == "quick" and bt != st_t and stv != 1:
                        continue
                    b = B()
                    c = var("I", ct)
                    lo, hi = (1, 4) if stv > 0 else (4, 1)
                    main = [b.let(var("ST", st_t), num(stv)), b.let(var("LO", bt), num(lo)), b.let(var("HI", bt), num(hi)),
                            b.for_(c, var("LO", bt), var("HI", bt), var("ST", st_t), [b.print(c), b.let(var("W", ct), c)]),
                            b.print(lit("$", "after"), c)]
                    out.append({"fam": "for-types:%s/%s/%s/%d" % (ct, bt, st_t, stv), "prog": prog(main)})
    return out


def fam_round(tier, rng):
    """fractional constants converted to whole-number types: rounding to nearest (ties excluded)"""
    out = []
    ws = [0, 1, 2, 7, MAXI - 1, MAXI, MAXI + 1, 99999]
    for tt in ("I", "L"):
        for w in ws:
            for f in (1, 4, 6, 9):
                for neg in (False, True):
                    for ft in ("S", "D"):
                        if ft == "S" and w > 30000 and tier == "quick":
                            pass
                        for route in ("assign", "byval", "read", "element", "forinit"):
                            b = B()
                            src = flit(ft, w, f, neg)
                            tgt = var("T", tt)
                            subs = []
                            if route == "assign":
                                main = [b.let(tgt, src), b.print(tgt)]
                            elif route == "byval":
                                subs = [sub("P", [("X", tt)], [b.print(var("X", tt))])]
                                main = [b.call("P", [src]), b.print(lit("$", "ok"))]
                            elif route == "read":
                                if ft == "D":
                                    continue
                                main = [b.data(src), b.read(tgt), b.print(tgt)]
                            elif route == "element":
                                e = idx("AR", tt, [lit("I", 1)])
                                main = [b.dim("AR", tt, [dimspec(0, 1)]), b.let(e, src), b.print(e)]
                            else:
                                main = [b.for_(tgt, src, src, None, [b.print(tgt)]), b.print(tgt)]
                            out.append({"fam": "round:%s/%s/%s" % (tt, ft, route), "prog": prog(main, subs)})
    return out


def fam_narrow(tier, rng):
    """DOUBLE values that are not SINGLE values, stored into SINGLE variables through every route (the stored
    value must be the SINGLE nearest to it, never the DOUBLE itself); judged by the monitor only"""
    out = []
    for (w, f) in ((0, 1), (2, 3), (1000, 7)):
        for route in ROUTES:
            def src_fn(b, pre, w=w, f=f):
                pre.append(b.let(var("SRC", "D"), flit("D", w, f)))
                return var("SRC", "D")
            p = route_prog(route, "S", src_fn)
            if p is not None:
                out.append({"fam": "narrow:%s/%d.%d" % (route, w, f), "prog": p})
        # FOR with a SINGLE counter and a DOUBLE step / bounds
        b = B()
        c = var("I", "S")
        main = [b.let(var("ST", "D"), flit("D", w, f)), b.for_(c, lit("I", 0), num(3 * (w + 1)), var("ST", "D"), [b.let(var("W", "S"), c)]),
                b.print(lit("$", "after"))]
        out.append({"fam": "narrow:for-step/%d.%d" % (w, f), "prog": prog(main)})
        b = B()
        main = [b.let(var("LO", "D"), flit("D", w, f)), b.for_(c, var("LO", "D"), bin_("+", var("LO", "D"), lit("I", 2)), None, [b.let(var("W", "S"), c)]),
                b.print(lit("$", "after"))]
        out.append({"fam": "narrow:for-init/%d.%d" % (w, f), "prog": prog(main)})
        b = B()
        out.append({"fam": "narrow:read/%d.%d" % (w, f), "prog": prog([b.data(flit("D", w, f)), b.read(var("T", "S")), b.print(lit("$", "ok"))])})
        b = B()
        fc = fcall("F", "S", [], 0)
        st = b.let(var("T", "S"), fc)
        fc["sid"] = st["id"]
        out.append({"fam": "narrow:funcresult/%d.%d" % (w, f),
                    "prog": prog([st, b.print(lit("$", "ok"))], [fun("F", "S", [], [b.let(var("Q", "D"), flit("D", w, f)), b.let(var("F", "S"), var("Q", "D"))])])})
    return out


FAMILIES = [fam_routes, fam_arith, fam_for, fam_round, fam_narrow]


def fam_logic(tier, rng):
    """AND / OR / NOT / MOD with operands of every numeric type, inside and beyond the INTEGER range, the result stored into
    every type and fed into further arithmetic: whatever the operators do with an operand that does not fit (the oracle is
    silent there), a variable never ends up with a value outside its type - the monitor judges every store"""
    out = []
    vals = [0, 1, -1, 255, 32767, -32768, 32768, 40000, 65535, 70000, 305441741, -40000, MAXL]
    for op in ("and", "or", "mod"):
        for ta in NUMT:
            for tb in ("I", "L", "S"):
                ps = [(x, y) for x in vals for y in vals if fits(ta, x) and fits(tb, y) and (abs(x) > 32767 or abs(y) > 32767 or rng.random() < 0.15)
                      and abs(x) <= (16777216 if ta == "S" else MAXL) and abs(y) <= (16777216 if tb == "S" else MAXL) and not (op == "mod" and y == 0)]
                if tier == "quick":
                    ps = rng.sample(ps, min(len(ps), 6))
                for x, y in ps:
                    for tt in ("I", "L", "D"):
                        b = B()
                        e = bin_(op, var("A", ta), var("B", tb))
                        main = [b.onerror("next"), b.let(var("A", ta), num(x)), b.let(var("B", tb), num(y)),
                                b.let(var("T", tt), e), b.print(var("T", tt)),
                                b.let(var("U", "I"), bin_("*", par(bin_(op, var("A", ta), lit("I", 255))), lit("I", 200))), b.print(var("U", "I")),
                                b.let(var("W", tt), bin_(op, num(y), num(x))), b.print(var("W", tt))]
                        out.append({"fam": "logic:%s/%s%s>%s" % (op, ta, tb, tt), "prog": prog(main)})
    for ta in NUMT:
        for x in vals:
            if not fits(ta, x) or abs(x) > (16777216 if ta == "S" else MAXL):
                continue
            for tt in ("I", "L"):
                b = B()
                main = [b.onerror("next"), b.let(var("A", ta), num(x)), b.let(var("T", tt), un("not", var("A", ta))), b.print(var("T", tt))]
                out.append({"fam": "logic:not/%s>%s" % (ta, tt), "prog": prog(main)})
    return out


FAMILIES.append(fam_logic)


def fam_huge_literals(tier, rng):
    """literals beyond the range of a SINGLE (39 / 40 digits, with and without a fraction, with and without #), beyond every
    whole-number type, and beyond a DOUBLE (310 digits), through every route into a variable of every type: whatever becomes
    of them - an Overflow, a rejection - no variable ends up with a value that is not a finite number of its type"""
    out = []
    texts = ["4" + "0" * 38, "4" + "0" * 38 + ".0", "4" + "0" * 38 + ".5", "4" + "0" * 38 + "#", "4" + "0" * 38 + ".5#", "1" + "0" * 39 + ".0",
             "7" + "0" * 39, "9" * 310, "9" * 310 + ".5", "9" * 310 + ".5#", "3" + "0" * 38, "3" + "0" * 38 + ".0"]
    for i, tx in enumerate(texts):
        for neg in (False, True):
            for tt in ("S", "D", "I", "L"):
                for route in ROUTES:
                    if tier == "quick" and tt in ("I", "L") and route not in ("assign", "byval", "element"):
                        continue

                    def src_fn(b, pre, tx=tx, neg=neg):
                        e = {"k": "big", "text": tx, "t": "D"}
                        return un("neg", e) if neg else e
                    p = route_prog(route, tt, src_fn)
                    if p is not None:
                        p["main"] = [B().onerror("next")] + p["main"] if False else p["main"]
                        out.append({"fam": "huge-literal:%s/%d%s>%s" % (route, i, "-" if neg else "", tt), "prog": p})
                b = B()
                out.append({"fam": "huge-literal:const/%d%s>%s" % (i, "-" if neg else "", tt),
                            "prog": prog([b.const("HUGE", "D", {"k": "big", "text": tx, "t": "D"}), b.let(var("T", tt), lit("I", 1)),
                                          b.let(var("T", tt), un("neg", cref("HUGE")) if neg else cref("HUGE")), b.print(lit("$", "ok"))])})
    return out


FAMILIES.append(fam_huge_literals)


def fam_single_edge(tier, rng):
    """whole numbers that a SINGLE cannot hold exactly and that round UP across the end of a whole-number type when they are
    put into one (2147483647 -> 2147483648!, 2147483600, their negatives, 16777217): from the SINGLE (and from a DOUBLE holding
    the same value) through every route into LONG and INTEGER - an Overflow, never a LONG holding 2147483648"""
    out = []
    for v in (2147483647, 2147483600, 2147483583, -2147483647, 16777217, 32767, 2147483520):
        for st in ("S", "D"):
            for tt in ("L", "I"):
                for route in ROUTES:
                    def src_fn(b, pre, v=v, st=st):
                        pre.append(b.let(var("SRC", "S"), num(v)))
                        if st == "D":
                            pre.append(b.let(var("SRD", "D"), var("SRC", "S")))
                            return var("SRD", "D")
                        return var("SRC", "S")
                    p = route_prog(route, tt, src_fn)
                    if p is not None:
                        out.append({"fam": "single-edge:%s/%d/%s>%s" % (route, v, st, tt), "prog": p})
    return out


FAMILIES.append(fam_single_edge)


def cases(tier, seed):
    rng = random.Random(seed)
    out = []
    for f in FAMILIES:
        out.extend(f(tier, rng))
    for i, c in enumerate(out):
        c["id"] = i + 1
    return out
