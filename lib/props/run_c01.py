"""C01 check: families of core-language programs, run on the real interpreter, each
recorded execution validated by TLC against Core.tla."""
import json
from common import seed, text_of, ToolError
from pool import Pool
from corecheck import CoreRun, describe
from report import Reporter
import c01
import features

PID = "C01"


def run(tier, replay):
    rep = Reporter(PID, tier, "model_checking")
    pool = Pool()
    if replay:
        with open(replay) as f:
            d = json.load(f)
        cases = [{"id": 1, "fam": d.get("family"), "prog": d["prog"], "stdin": d.get("stdin", "")}]
    else:
        cases = c01.cases(tier, seed())
    cr = CoreRun(PID, pool)
    cr.execute(cases)
    cr.validate(cases)
    n = {"agree": 0, "mismatch": 0, "skip": 0}
    fams = {}
    nontrivial = set()
    for c in cases:
        n[c["verdict"]] += 1
        fam = c["fam"].split(":")[0]
        fams[fam] = fams.get(fam, 0) + 1
        if c["verdict"] == "agree" and (len(c["obs"]["out"]) > 0 or c["obs"]["status"] == "err"):
            nontrivial.add(c["text"])
        if c["verdict"] == "mismatch":
            rep.violation(describe(c), features.of_case(c), name=fam)
    samples = []
    for c in cases[:: max(1, len(cases) // 5)][:5]:
        samples.append({"family": c["fam"], "text": c["text"], "observed_out": text_of(c["obs"]["out"]),
                        "observed_status": c["obs"]["status"], "verdict": c["verdict"]})
    coverage = {
        "states": cr.states, "transitions": cr.transitions,
        "traces_validated_against_impl": n["agree"] + n["mismatch"],
        "samples": samples,
        "evaluations": len(cases), "distinct_nontrivial": len(nontrivial),
        "rule": "families nest/expr/for/select/data/err enumerated completely within their stated bounds plus "
                "seeded random programs; a case is non-trivial when the run printed something or ended in a "
                "run-time error and TLC accepted it; distinct by rendered text",
        "verdicts": n, "families": fams,
        "skipped_outside_exact_domain_or_fuel": n["skip"],
        "spec_action_coverage": {k: v[1] for k, v in cr.coverage.items()},
        "checker_cmd": cr.cmds[0] if cr.cmds else "",
        "exhaustive": False,
    }
    assumptions = [
        "renderer AST->text is trusted (a wrong rendering shows up as a mismatch, not as a miss)",
        "numeric domain restricted to exactly representable whole numbers; cases leaving it are skipped by the spec",
        "PRINT formatting of a number: blank or minus, digits, blank",
    ]
    return rep.finish(coverage, assumptions)
