"""C01 check: families of core-language programs, run on the real interpreter, each
recorded execution validated by TLC against Core.tla."""
from corerun import run_property
import c01


def run(tier, replay):
    return run_property(
        "C01", c01.cases, tier, replay,
        rule="families nest/expr/for/select/data/err enumerated completely within their stated bounds plus "
             "seeded random programs; a case is non-trivial when the run printed something or ended in a "
             "run-time error and TLC accepted it; distinct by rendered text",
        assumptions=[
            "renderer AST->text is trusted (a wrong rendering shows up as a mismatch, not as a miss)",
            "numeric domain restricted to exactly representable whole numbers; cases leaving it are skipped by the spec",
            "PRINT formatting of a number: blank or minus, digits, blank",
        ])
