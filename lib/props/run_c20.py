"""C20 check: the real parser combinators, built from abstract terms by the harness, are run on
all inputs over {a,b,c} up to a length; TLC (Trace_PC.tla) evaluates the denotational model
PC.tla on the same terms and inputs, compares class / value / error code / position, and
checks the contract clauses (soft failure keeps the position, success never moves backwards)
on the model itself."""
import os, random, itertools, json
from common import out_dir, dumps, seed, ToolError
from pool import Pool
from report import Reporter
from tlc import run_tlc

LEAVES = ["read", "peekp", "one", "oneof", "sup", "softfail", "fatalfail", "many_ctx0", "many_ctx1", "many_ctx0_fatal"]
UNARY = ["map", "lazy", "to_fatal", "with_soft_err", "or_fail", "map_fatal_err", "and_then_ok", "and_then_soft",
         "and_then_fatal", "and_then_err", "filter", "filter_map", "peek", "to_option", "or_default", "many1", "many0", "then_with", "then_dep"]
BINARY = ["and", "and_left", "and_right", "or", "orbox", "seq2", "delimited", "delimited_opt"]
TERNARY = ["surround_opt", "surround_mand"]


def leaf(op):
    return {"op": op}


def un(op, p):
    return {"op": op, "p": p}


def bi(op, l, r):
    return {"op": op, "l": l, "r": r}


def ter(op, l, p, r):
    return {"op": op, "l": l, "p": p, "r": r}


def may_succeed_without_consuming(t):
    """conservative: could this parser succeed and leave the position unchanged?"""
    op = t["op"]
    if op in ("read", "one", "oneof"):
        return False
    if op in ("peekp", "sup", "peek", "to_option", "or_default", "many0", "and_then_err", "many_ctx0", "many_ctx0_fatal"):
        return True
    if op in ("many_ctx1", "then_dep"):
        return False          # then_dep always consumes the character its right side reads
    if op in ("softfail", "fatalfail"):
        return False
    if op in ("map", "lazy", "to_fatal", "with_soft_err", "or_fail", "map_fatal_err", "and_then_ok", "and_then_soft",
              "and_then_fatal", "filter", "filter_map", "many1", "then_with"):
        return may_succeed_without_consuming(t["p"])
    if op in ("and", "and_left", "and_right", "seq2"):
        return may_succeed_without_consuming(t["l"]) and may_succeed_without_consuming(t["r"])
    if op in ("or", "orbox"):
        return may_succeed_without_consuming(t["l"]) or may_succeed_without_consuming(t["r"])
    if op in ("surround_opt", "surround_mand"):
        return may_succeed_without_consuming(t["p"])
    if op in ("delimited", "delimited_opt"):
        return may_succeed_without_consuming(t["l"])
    return True


def loops_forever(t):
    """repetition over a parser that can succeed without consuming never ends in the library"""
    op = t["op"]
    if op in ("many1", "many0"):
        if may_succeed_without_consuming(t["p"]):
            return True
    if op in ("delimited", "delimited_opt"):
        # element and delimiter both able to succeed without consuming
        if may_succeed_without_consuming(t["r"]) and (may_succeed_without_consuming(t["l"]) or op == "delimited_opt"):
            return True
        if may_succeed_without_consuming(t["r"]):
            return True
    for k in ("p", "l", "r"):
        if k in t and loops_forever(t[k]):
            return True
    return False


def depth1():
    L = [leaf(x) for x in LEAVES]
    out = []
    for op in UNARY:
        out += [un(op, p) for p in L]
    for op in BINARY:
        out += [bi(op, l, r) for l in L for r in L]
    for op in TERNARY:
        out += [ter(op, l, p, r) for l in L for p in L for r in L]
    return out


def terms(tier, rng):
    L = [leaf(x) for x in LEAVES]
    d1 = depth1()
    out = list(L) + d1
    d2 = []
    for op in UNARY:
        d2 += [un(op, p) for p in d1]
    for op in BINARY:
        for x in d1:
            for y in L:
                d2.append(bi(op, x, y))
                d2.append(bi(op, y, x))
    for op in TERNARY:
        for x in d1[:: 3]:
            for y in (leaf("one"), leaf("softfail"), leaf("oneof")):
                d2.append(ter(op, y, x, y))
                d2.append(ter(op, x, y, leaf("read")))
    if tier == "quick":
        # every combinator over every combinator over every leaf is always there; the rest is a seeded sample
        keep = [t for t in d2 if "p" in t and "l" not in t and "p" in t["p"] and "l" not in t["p"] and not any(k in t["p"]["p"] for k in ("p", "l", "r"))]
        ids = {id(t) for t in keep}
        rest = [t for t in d2 if id(t) not in ids]
        rng.shuffle(rest)
        d2 = keep + rest[:max(0, 10000 - len(keep))]
    out += d2
    # depth 3/4: seeded samples
    n34 = 40000 if tier == "thorough" else 3000
    pool = d1 + d2[:20000]
    for _ in range(n34):
        k = rng.random()
        if k < 0.4:
            t = un(rng.choice(UNARY), rng.choice(pool))
        elif k < 0.85:
            t = bi(rng.choice(BINARY), rng.choice(pool), rng.choice(pool if rng.random() < 0.5 else d1))
        else:
            t = ter(rng.choice(TERNARY), rng.choice(d1), rng.choice(pool), rng.choice(d1))
        if rng.random() < 0.3:
            t = un(rng.choice(UNARY), t)
        out.append(t)
    return [t for t in out if not loops_forever(t)]


def inputs(maxlen):
    out = [""]
    for n in range(1, maxlen + 1):
        out += ["".join(p) for p in itertools.product("abc", repeat=n)]
    return out


def tdepth(t):
    return 1 + max([tdepth(t[k]) for k in ("p", "l", "r") if k in t] or [0])


def tstr(t):
    ks = [tstr(t[k]) for k in ("l", "p", "r") if k in t]
    return t["op"] + ("(" + ",".join(ks) + ")" if ks else "")


def ops_in(t):
    s = {t["op"]}
    for k in ("p", "l", "r"):
        if k in t:
            s |= ops_in(t[k])
    return s


def run(tier, replay):
    rep = Reporter("C20", tier, "model_checking")
    pool = Pool()
    rng = random.Random(seed())
    d = out_dir("C20")
    maxlen = 4
    ins = inputs(maxlen)
    if replay:
        with open(replay) as f:
            r = json.load(f)
        ts = [r["term"]]
    else:
        ts = terms(tier, rng)
    B = 200
    reqs = [{"op": "pc", "terms": ts[i:i + B], "inputs": ins} for i in range(0, len(ts), B)]
    resps = pool.map(reqs, timeout=120)
    recs = []
    rid = 0
    for req, resp in zip(reqs, resps):
        if not resp or "results" not in resp:
            # a whole batch lost: a term hung or killed the worker; find it one by one
            singles = pool.map([{"op": "pc", "terms": [t], "inputs": ins} for t in req["terms"]], timeout=30)
            results = []
            for t, s in zip(req["terms"], singles):
                results.append(s["results"][0] if s and "results" in s else {"hang_or_abort": s})
        else:
            results = resp["results"]
        for t, row in zip(req["terms"], results):
            rid += 1
            if isinstance(row, dict):
                rep.violation({"term": t, "term_text": tstr(t), "observed": row,
                               "expected": "a result (ok / soft / fatal) and a position for every input"},
                              {"op:" + o for o in ops_in(t)} | {"panic-or-hang"}, name="term")
                continue
            recs.append({"id": rid, "term": t, "res": [[c[0], [ord(ch) for ch in c[1]], c[2], c[3]] for c in row]})
    ipath = os.path.join(d, "inputs.ndjson")
    with open(ipath, "w") as f:
        f.write(dumps({"inputs": [[ord(ch) for ch in s] for s in ins]}) + "\n")
    byid = {r["id"]: r for r in recs}
    states = trans = 0
    nbad = 0
    chunk = 6000
    cmd = ""
    for start in range(0, len(recs), chunk):
        path = os.path.join(d, "pc_%d.ndjson" % start)
        with open(path, "w") as f:
            for r in recs[start:start + chunk]:
                f.write(dumps(r) + "\n")
        res = run_tlc("Trace_PC.tla", "Trace_PC.cfg", os.path.join(d, "tlc"), env={"TRACE": path, "INPUTS": ipath}, timeout=3000)
        cmd = res.cmd
        if res.timed_out or not res.ok:
            raise ToolError("TLC failed on Trace_PC:\n%s" % res.violation)
        states += res.distinct
        trans += res.generated
        for ln in res.printed:
            if ln.startswith("SPECBUG"):
                raise ToolError("PC.tla breaks its own contract clause for term %s" % tstr(byid[int(ln.split()[1])]["term"]))
            if ln.startswith("MISMATCH "):
                _, sid, sidx, ej = ln.split(" ", 3)
                r = byid[int(sid)]
                i = int(sidx) - 1
                nbad += 1
                o = r["res"][i]
                exp = json.loads(ej)
                feats = {"op:" + x for x in ops_in(r["term"])}
                feats.add("top:" + r["term"]["op"])
                rep.violation({"term": r["term"], "term_text": tstr(r["term"]), "input": ins[i],
                               "expected": exp, "observed": {"c": o[0], "v": o[1], "e": o[2], "pos": o[3]},
                               "api_call": "rusty_pc combinator built by harness/src/pcterm.rs"}, feats, name=r["term"]["op"])
        os.remove(path)
    bydepth = {}
    for r in recs:
        k = tdepth(r["term"])
        bydepth[k] = bydepth.get(k, 0) + 1
    coverage = {
        "states": states, "transitions": trans,
        "traces_validated_against_impl": len(recs) * len(ins),
        "samples": [{"term": tstr(r["term"]), "input": ins[5], "observed": r["res"][5]} for r in recs[:: max(1, len(recs) // 4)][:4]],
        "evaluations": len(recs) * len(ins), "distinct_nontrivial": len(recs),
        "rule": "terms: all leaves (7), every combinator over leaves (depth 1, complete), depth 2 = every unary over a "
                "depth-1 term and every binary over (depth-1, leaf) in both orders (complete in thorough, sampled in quick), "
                "seeded depth 3-4 samples; terms whose repetition can succeed without consuming are excluded (the library "
                "never terminates on them); inputs: all %d strings over {a,b,c} up to length %d; each (term) counted once "
                "as non-trivial" % (len(ins), maxlen),
        "terms_by_depth": bydepth, "inputs": len(ins), "mismatching_terms": nbad,
        "checker_cmd": cmd, "exhaustive": False,
    }
    assumptions = ["outputs are flattened to strings (pair = concatenation, none = empty)",
                   "the closure table (predicates, mappers, error codes) is the one documented at the top of PC.tla"]
    return rep.finish(coverage, assumptions)
