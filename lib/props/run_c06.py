"""C06 check: (D) TLC checks Values.Cast/Arith over the boundary set; (R/V) boundary values
through every storing route validated against Core.tla; (M) every value found in a numeric
variable during those runs is checked by the monitor TypeMon.tla."""
import os
from common import out_dir, ToolError
from corerun import run_property
from tlc import run_tlc
import c06, typemon

STATS = {}


SFX = {"I": "%", "L": "&", "S": "!", "D": "#"}
TEXTNUM = ["0", "5", "-7", "32767", "32768", "-32768", "-32769", "70000", "2147483647", "2147483648", "-2147483648", "-2147483649",
           "", "abc", "-", "&H", "16777217", "1.23456789012", "0.1", "-0.3", "123456789.125", "99999999999999999999", "1e39", "-1e39", "1e309", "1d300"]


def external_cases(pool):
    """numbers that arrive as text (VAL, INPUT, READ) stored into every numeric type: judged by the monitor only"""
    texts = []
    for tt, sf in SFX.items():
        for n in TEXTNUM:
            texts.append(("ext:val/" + tt, 'T%s = VAL("%s")\r\nPRINT "ok"\r\n' % (sf, n), ""))
            texts.append(("ext:val-elem/" + tt, 'DIM A%s(1)\r\nA%s(1) = VAL("%s")\r\nPRINT "ok"\r\n' % (sf, sf, n), ""))
            texts.append(("ext:input/" + tt, 'INPUT T%s\r\nPRINT "ok"\r\n' % sf, n + "\r\n"))
            texts.append(("ext:input-elem/" + tt, 'DIM A%s(1)\r\nINPUT A%s(1)\r\nPRINT "ok"\r\n' % (sf, sf), n + "\r\n"))
            if "e" not in n and "d" not in n:
                texts.append(("ext:read/" + tt, 'DATA %s\r\nREAD T%s\r\nPRINT "ok"\r\n' % (n, sf), ""))
            # into a field of a record and of an element of an array of records (fresh: never assigned before)
            fn = "F" + tt
            typ = "TYPE NUMS\r\n  FI AS INTEGER\r\n  FL AS LONG\r\n  FS AS SINGLE\r\n  FD AS DOUBLE\r\nEND TYPE\r\n"
            texts.append(("ext:val-field/" + tt, typ + 'DIM R AS NUMS\r\nR.%s = VAL("%s")\r\nPRINT "ok"\r\n' % (fn, n), ""))
            texts.append(("ext:input-field/" + tt, typ + 'DIM R AS NUMS\r\nINPUT R.%s\r\nPRINT "ok"\r\n' % fn, n + "\r\n"))
            texts.append(("ext:input-elem-field/" + tt, typ + 'DIM RA(2) AS NUMS\r\nINPUT RA(1).%s\r\nPRINT "ok"\r\n' % fn, n + "\r\n"))
            if "e" not in n and "d" not in n:
                texts.append(("ext:read-field/" + tt, typ + 'DATA %s\r\nDIM R AS NUMS\r\nREAD R.%s\r\nPRINT "ok"\r\n' % (n, fn), ""))
                texts.append(("ext:read-elem/" + tt, 'DATA %s\r\nDIM A%s(2)\r\nREAD A%s(1)\r\nPRINT "ok"\r\n' % (n, sf, sf), ""))
            texts.append(("ext:val-byval/" + tt, 'P VAL("%s")\r\nPRINT "ok"\r\nSUB P(X%s)\r\nY%s = X%s\r\nEND SUB\r\n' % (n, sf, sf, sf), ""))
    # texts with more digits than a SINGLE / a DOUBLE can hold, read by VAL: an Overflow, never an infinity in a variable
    for tt, sf in SFX.items():
        for e in ('VAL(STRING$(39, "9"))', 'VAL(STRING$(309, "9"))', 'VAL(STRING$(400, "9"))', 'VAL("-" + STRING$(400, "9"))', 'VAL(STRING$(400, "9") + ".5")',
                  '0 - VAL(STRING$(310, "9"))', 'VAL("0." + STRING$(400, "9"))'):
            texts.append(("ext:val-huge/" + tt, 'T%s = 1\r\nT%s = %s\r\nPRINT "ok"\r\n' % (sf, sf, e), ""))
            texts.append(("ext:val-huge-elem/" + tt, 'DIM A%s(1)\r\nA%s(1) = %s\r\nPRINT "ok"\r\n' % (sf, sf, e), ""))
    # floating point results beyond the range of their type (built by repeated multiplication: no exponent literals)
    for sf, n in (("!", 45), ("#", 320)):
        grow = 'A%s = 10\r\nFOR I%% = 1 TO %d\r\n  A%s = A%s * 10\r\nNEXT\r\n' % (sf, n, sf, sf)
        big = 'A%s = 10\r\nFOR I%% = 1 TO %d\r\n  A%s = A%s * 10\r\nNEXT\r\n' % (sf, n - 8, sf, sf)
        texts.append(("ext:float-overflow/mul" + sf, grow + 'PRINT "ok"\r\n', ""))
        for op in ("B%s = A%s + A%s", "B%s = A%s * A%s", "B%s = 0 - A%s - A%s", "B%s = A%s / .0000001 + 0 * A%s", "B%s = A%s / .0000001",
                   "C%s = .0000001\r\nB%s = A%s / C%s", "B%s = -A%s / .0000001", "B%s = A%s * 100000000"):
            texts.append(("ext:float-overflow/op" + sf, big + (op % ((sf,) * op.count("%s"))) + '\r\nPRINT "ok"\r\n', ""))
    # a function that is not defined anywhere, of every type, as an operand: the result is of the type the checker gave it
    for tt, sf in SFX.items():
        for e in ("UNDEF%s(1) + 32767", "UNDEF%s(1) * 2 + 40000", "1 + UNDEF%s(2)", "UNDEF%s(1)"):
            texts.append(("ext:undefined-function/" + tt, ("T%s = " % sf) + (e % sf) + '\r\nPRINT "ok"\r\n', ""))
    # MOD (and /) of values at the type boundaries stored into every type: what is stored is judged by the monitor alone
    big = ["2000000&", "1500000&", "40000&", "32767", "-32768", "70000.5", "3", "-2147483647&"]
    for tt, sf in SFX.items():
        for a in big:
            for b_ in big:
                for op in ("MOD", "/"):
                    aa = a.replace("&", "")
                    bb = b_.replace("&", "")
                    texts.append(("ext:mod-div/" + tt, "A# = %s\r\nB# = %s\r\nLA& = A#\r\nLB& = B#\r\nT%s = LA& %s LB&\r\nPRINT \"ok\"\r\n" % (aa, bb, sf, op), ""))
    texts.append(("ext:float-overflow/mixed", 'A# = 10\r\nFOR I% = 1 TO 60\r\n  A# = A# * 10\r\nNEXT\r\nB! = A#\r\nC! = 1\r\nC! = C! * A#\r\nPRINT "ok"\r\n', ""))
    # DOUBLE values beyond the SINGLE range (both signs, and the largest that fits) through every storing route into a SINGLE
    grow = 'D# = 10\r\nFOR I% = 1 TO 40\r\n  D# = D# * 10\r\nNEXT\r\n'
    fits = 'D# = 340282346638528859811704183484516925440#\r\n'
    typ = 'TYPE NUMS\r\n  FS AS SINGLE\r\nEND TYPE\r\n'
    for nm, mk in (("big", grow), ("fits", fits)):
        for sg in ("", "-"):
            for route, body in (("let", "S! = %sD#"), ("elem", "DIM A!(2)\r\nA!(1) = %sD#"), ("field", "DIM R AS NUMS\r\nR.FS = %sD#"),
                                ("byval", "P (%sD#)"), ("result", "E# = %sD#\r\nS! = F!(E#)"), ("for", "FOR S! = %sD# TO 1\r\nNEXT"),
                                ("expr", "S! = 1\r\nS! = S! + %sD#"), ("swapless", "E# = %sD#\r\nS! = E# * 1"), ("lset", "S! = CSNG(%sD#)")):
                t = (typ if route == "field" else "") + mk + (body % sg) + '\r\nPRINT "ok"\r\n'
                if route == "byval":
                    t += 'SUB P(X!)\r\nY! = X!\r\nEND SUB\r\n'
                if route == "result":
                    t += 'FUNCTION F!(X#)\r\nF! = X#\r\nEND FUNCTION\r\n'
                texts.append(("ext:double-to-single/%s%s/%s" % (sg, nm, route), t, ""))
    # unary operators on operands of every type stored into targets of every type (NOT keeps / converts like the other logical
    # operators; what is stored must be a value of the target's own type)
    for tt, sf in SFX.items():
        for st_, ssf in SFX.items():
            for v in ("7", "70000", "-3", "32767", "-32768", "40000.4"):
                if ssf == "%" and v in ("70000", "40000.4"):
                    continue
                for op in ("NOT ", "-", "NOT -", "- NOT "):
                    body = "ON ERROR RESUME NEXT\r\nA%s = %s\r\nT%s = %sA%s\r\nDIM E%s(1)\r\nE%s(1) = %sA%s\r\nP %sA%s\r\nPRINT \"ok\"\r\nSUB P(X%s)\r\nY%s = X%s\r\nEND SUB\r\n" % (
                        ssf, v, sf, op, ssf, sf, sf, op, ssf, op, ssf, sf, sf, sf)
                    texts.append(("ext:unary/%s<-%s" % (tt, st_), body, ""))
    # a variable / function result / array element of every type that is never given a value: a zero of its own type
    for tt, sf in SFX.items():
        use = 'T%s = X%s\r\nDIM A%s(2)\r\nA%s(1) = X%s\r\nT%s = T%s + 32767\r\nT%s = T%s + 1\r\nPRINT "ok"\r\n' % ((sf,) * 9)
        texts.append(("ext:never-assigned/jumped-dim/" + tt, 'GOTO Later\r\nDIM X%s\r\nLater:\r\n' % sf + use, ""))
        texts.append(("ext:never-assigned/jumped-dim-as/" + tt, 'GOTO Later\r\nDIM X AS %s\r\nLater:\r\nT%s = X\r\nT%s = T%s + 32767\r\nT%s = T%s + 1\r\nPRINT "ok"\r\n'
                      % (({"I": "INTEGER", "L": "LONG", "S": "SINGLE", "D": "DOUBLE"}[tt],) + (sf,) * 5), ""))
        texts.append(("ext:never-assigned/plain/" + tt, use, ""))
        for early in ("", "EXIT FUNCTION\r\n", "IF N%% > 0 THEN EXIT FUNCTION\r\nNA%s = N%%\r\n" % sf):
            texts.append(("ext:never-assigned/function/" + tt, use.replace("X" + sf, "NA%s(5)" % sf) + 'FUNCTION NA%s(N%%)\r\n%sEND FUNCTION\r\n' % (sf, early), ""))
        texts.append(("ext:never-assigned/param-local/" + tt, 'P\r\nPRINT "ok"\r\nSUB P\r\nT%s = X%s\r\nT%s = T%s + 32767\r\nT%s = T%s + 1\r\nEND SUB\r\n' % ((sf,) * 6), ""))
        texts.append(("ext:never-assigned/static/" + tt, 'P\r\nP\r\nPRINT "ok"\r\nSUB P STATIC\r\nT%s = X%s\r\nT%s = T%s + 32767\r\nT%s = T%s + 1\r\nEND SUB\r\n' % ((sf,) * 6), ""))
    reqs = [{"op": "run", "text": t, "stdin": si, "budget": 100000, "dump_final": True, "dumps": True, "max_dumps": 20} for _, t, si in texts]
    resps = pool.map(reqs, timeout=30.0)
    out = []
    for (fam, t, si), resp in zip(texts, resps):
        out.append({"fam": fam, "text": t, "prog": None, "stdin": si, "resp": resp or {}})
        if resp and "panic" in resp:
            STATS.setdefault("ext_panics", []).append((fam, t, si, resp["panic"]))
    return out


def post(cases, rep, pool):
    ext = external_cases(pool)
    STATS["ext"] = len(ext)
    STATS["mon"] = typemon.check("C06", list(cases) + ext, rep)
    for fam, t, si, pn in STATS.get("ext_panics", []):
        rep.violation({"family": fam, "rendered_text": t, "stdin": si, "panic": pn,
                       "expected": "a value of the variable's type or a BASIC run-time error"}, {"panic", "ext"}, name="ext-panic")


def extra(rep, pool, tier):
    d = out_dir("C06")
    res = run_tlc("MC_Values.tla", "MC_Values.cfg", os.path.join(d, "tlc_mc"), timeout=900)
    if res.timed_out or not res.ok:
        raise ToolError("Values.tla violates its own invariants (the oracle is wrong):\n%s" % res.violation)
    mon = STATS.get("mon", {})
    return {"states": res.distinct + mon.get("states", 0), "transitions": res.generated + mon.get("transitions", 0),
            "validated": mon.get("distinct", 0),
            "info": {"design_check": {"module": "MC_Values", "distinct_states": res.distinct,
                                      "invariants": ["CastOK", "ArithOK", "ArithExact", "UnaryOK", "FracOK"]},
                     "typemon": mon, "external_text_number_programs": STATS.get("ext", 0)}}


def run(tier, replay):
    return run_property(
        "C06", c06.cases, tier, replay,
        rule="routes: 17 boundary values x 4 target types x 8 storing routes (assignment, by-value parameter, FOR start, "
             "FOR limit, array element, record field, by-ref copy-out, STATIC local) x source form (literal, typed "
             "variable, sum) x source type, plus READ and FUNCTION result; arith: + - * on INTEGER/LONG boundary pairs "
             "stored into each type; FOR counters running over the edge; fractional constants (ties excluded) rounded "
             "into INTEGER/LONG through 5 routes; DOUBLE values that are not SINGLE values into SINGLE targets through every "
             "route; numbers arriving as text (VAL, INPUT, READ; 22 texts incl. range ends, 1e39, 1e309) into every type; "
             "every value dumped from a numeric variable is checked by TypeMon; "
             "distinct by text",
        assumptions=[
            "values outside the exactly representable domain are skipped by the spec (never judged)",
            "rounding ties (x.5) are not generated: 'rounding to nearest' does not fix them",
            "TypeMon judges the value, not the variant tag (a whole number inside a SINGLE variable is fine; a DOUBLE "
            "that is not a SINGLE value inside a SINGLE variable is not)",
        ], post=post, extra=extra, extra_req={"dump_final": True, "dumps": True, "max_dumps": 40})
