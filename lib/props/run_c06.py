"""C06 check: (D) TLC checks Values.Cast/Arith over the boundary set; (R/V) boundary values
through every storing route validated against Core.tla; (M) every value found in a numeric
variable during those runs is checked by the monitor TypeMon.tla."""
import os
from common import out_dir, ToolError
from corerun import run_property
from tlc import run_tlc
import c06, typemon

STATS = {}


def post(cases, rep, pool):
    STATS["mon"] = typemon.check("C06", cases, rep)


def extra(rep, pool, tier):
    d = out_dir("C06")
    res = run_tlc("MC_Values.tla", "MC_Values.cfg", os.path.join(d, "tlc_mc"), timeout=900)
    if res.timed_out or not res.ok:
        raise ToolError("Values.tla violates its own invariants (the oracle is wrong):\n%s" % res.violation)
    mon = STATS.get("mon", {})
    return {"states": res.distinct + mon.get("states", 0), "transitions": res.generated + mon.get("transitions", 0),
            "validated": mon.get("distinct", 0),
            "info": {"design_check": {"module": "MC_Values", "distinct_states": res.distinct,
                                      "invariants": ["CastOK", "ArithOK", "ArithExact", "UnaryOK", "FracOK"]},
                     "typemon": mon}}


def run(tier, replay):
    return run_property(
        "C06", c06.cases, tier, replay,
        rule="routes: 17 boundary values x 4 target types x 8 storing routes (assignment, by-value parameter, FOR start, "
             "FOR limit, array element, record field, by-ref copy-out, STATIC local) x source form (literal, typed "
             "variable, sum) x source type, plus READ and FUNCTION result; arith: + - * on INTEGER/LONG boundary pairs "
             "stored into each type; FOR counters running over the edge; fractional constants (ties excluded) rounded "
             "into INTEGER/LONG through 5 routes; every value dumped from a numeric variable is checked by TypeMon; "
             "distinct by text",
        assumptions=[
            "values outside the exactly representable domain are skipped by the spec (never judged)",
            "rounding ties (x.5) are not generated: 'rounding to nearest' does not fix them",
            "TypeMon judges the value, not the variant tag (a whole number inside a SINGLE variable is fine)",
        ], post=post, extra=extra, extra_req={"dump_final": True, "dumps": True, "max_dumps": 40})
