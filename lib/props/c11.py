"""C11 case renderer.  A case (chosen by TLC, Diag.tla) is a record of dimensions:

  fault   : name of the injected fault (table FAULTS below; Diag.tla has the same names with stage/family)
  chain   : kinds of the procedures between the main module and the fault, e.g. ["sub", "fun"]  (call depth)
  nest    : block kinds around the fault statement, outermost first (nesting depth)
  csnest  : block kind around every call site ("none", "if", "for", "select", "oneline")
  csform  : 0 / 1, two spellings of a call site
  blank, cmt, before, after, trail, indent, eol, pre : layout of the fault line and of the lines before it
  prior   : 1, 2 = a handled run-time error happens (and is resumed) before the fault; 3 = it happens two procedures deep and
            the handler goes on in the module with RESUME label

The text is assembled from pieces, and the character offsets (1-based, inclusive) of the offending
statement, of its terminator and of every call-site statement are recorded while assembling - rows and
columns are NOT computed here: Trace_Diag.tla derives them from the characters with the position
machine of Text.tla.
"""

# name -> (setup statements, lines before, the offending statement, lines after)
FAULTS = {
    # syntax
    "s-missing-operand": ([], [], "V% = 1 +", []),
    "s-unbalanced": ([], [], "V% = (1 + 2", []),
    "s-missing-then": ([], [], "IF V% = 1 PRINT 2", []),
    "s-missing-to": ([], [], "FOR I9% = 1 5", ["NEXT"]),
    "s-illegal-char": ([], [], "V% = 1 @ 2", []),
    "s-two-operands": ([], [], "V% = 1 2", []),
    "s-dim-noname": ([], [], "DIM", []),
    "s-goto-nolabel": ([], [], "GOTO", []),
    "s-open-call": ([], [], "PRINT LEN(", []),
    "s-bad-assign": ([], [], "V% = = 1", []),
    # a string literal that is not closed ends with its line (the text of the following lines stays where it is)
    "s-open-quote": ([], [], 'PRINT "first', []),
    "s-open-quote-2": ([], [], 'S9$ = "a" + "b', []),
    "s-open-quote-if": ([], [], 'IF S9$ = "a THEN V% = 1', []),
    # static: type mismatch
    "t-assign-str": ([], [], 'V% = "x"', []),
    "t-assign-num": ([], [], "S9$ = 5", []),
    "t-binary": ([], [], 'PRINT 1 + "a"', []),
    "t-cond": ([], [], 'IF "a" THEN V% = 1', []),
    "t-argtype": ([], [], "V% = ZF9%(\"a\")", []),
    "t-while": ([], [], 'WHILE "a"', ["WEND"]),
    # static: undefined label
    "l-goto": ([], [], "GOTO Nowhere9", []),
    "l-gosub": ([], [], "GOSUB Nowhere9", []),
    "l-onerror": ([], [], "ON ERROR GOTO Nowhere9", []),
    "l-resume": ([], [], "RESUME Nowhere9", []),
    # static: wrong argument count
    "a-sub": ([], [], "ZS9 1, 2", []),
    "a-fun": ([], [], "V% = ZF9%(1, 2)", []),
    "a-builtin": ([], [], 'PRINT MID$("a")', []),
    # an argument is missing in FRONT of arguments of other types (the ones that are there stand under the wrong parameters)
    "a-sub-shift": ([], [], 'ZM9 "x"', []),
    "a-fun-shift": ([], [], 'V% = ZN9%("x", 2)', []),
    "a-sub-extra-front": ([], [], 'ZM9 "q", 1, "x"', []),
    "a-builtin2": ([], [], "PRINT CHR$(1, 2)", []),
    # run time: division by zero
    "r-div": ([], [], "V% = 1 / Z%", []),
    "r-mod": ([], [], "PRINT 5 MOD Z%", []),
    "r-div-if": ([], [], "IF 1 / Z% = 1 THEN", ["END IF"]),
    "r-div-for": ([], [], "FOR I9% = 1 TO 1 / Z%", ["NEXT"]),
    "r-div-while": ([], [], "WHILE 1 / Z% = 1", ["WEND"]),
    "r-div-select": ([], [], "SELECT CASE 1 / Z%", ["CASE 1", "END SELECT"]),
    "r-div-case": ([], ["SELECT CASE 1"], "CASE 1 / Z%", ["END SELECT"]),
    "r-div-elseif": ([], ["IF 1 = 0 THEN"], "ELSEIF 1 / Z% = 1 THEN", ["END IF"]),
    "r-div-until": ([], ["DO"], "LOOP UNTIL 1 / Z% = 1", []),
    "r-div-arg": ([], [], "ZS9 1 / Z%", []),
    "r-div-print": ([], [], 'PRINT "a"; 1 / Z%; "b"', []),
    # run time: subscript out of range
    "r-sub-write": (["DIM AR9%(1 TO 3)", "K9% = 4"], [], "AR9%(K9%) = 1", []),
    "r-sub-read": (["DIM AR9%(1 TO 3)"], [], "PRINT AR9%(0)", []),
    # run time: overflow
    "r-ovf-add": (["M9% = 32767"], [], "V% = M9% + 1", []),
    "r-ovf-mul": (["M9% = 32767"], [], "V% = M9% * 2", []),
    "r-ovf-assign": (["L9& = 40000"], [], "V% = L9&", []),
    # run time: other
    "r-ifc": (["N9% = -1"], [], "PRINT SPACE$(N9%)", []),
    "r-ifc-mid": (["N9% = 0"], [], 'PRINT MID$("abc", N9%)', []),
}

# host statements x fault expressions: the fault sits in an expression at every kind of syntactic position
# host -> (lines before, statement template, lines after)
HOSTS = {
    "h-assign": ([], "V% = {e}", []),
    "h-assign-nested": ([], "V% = 2 * (3 + {e})", []),
    "h-print": ([], 'PRINT "a"; {e}; "b"', []),
    "h-print-comma": ([], "PRINT 1, {e}", []),
    "h-subarg": ([], "ZS9 {e}", []),
    "h-funarg": ([], "V% = ZF9%({e})", []),
    "h-subscript-r": ([], "V% = AR8%({e})", []),
    "h-subscript-w": ([], "AR8%({e}) = 1", []),
    "h-builtin": ([], "V% = LEN(STR$({e}))", []),
    "h-unary": ([], "V% = -({e})", []),
    "h-not": ([], "V% = NOT ({e})", []),
    "h-ifline": ([], "IF {e} = 1 THEN V% = 1", []),
    "h-dim": ([], "DIM DA9%(1 TO {e})", []),
    "h-if": ([], "IF {e} = 1 THEN", ["END IF"]),
    "h-while": ([], "WHILE {e} = 1", ["WEND"]),
    "h-for-lo": ([], "FOR I9% = {e} TO 2", ["NEXT"]),
    "h-for-hi": ([], "FOR I9% = 1 TO {e}", ["NEXT"]),
    "h-for-step": ([], "FOR I9% = 1 TO 2 STEP {e}", ["NEXT"]),
    "h-select": ([], "SELECT CASE {e}", ["CASE 1", "END SELECT"]),
    "h-dowhile": ([], "DO WHILE {e} = 1", ["LOOP"]),
    "h-dountil": ([], "DO UNTIL {e} = 1", ["LOOP"]),
    "h-case": (["SELECT CASE 1"], "CASE {e}", ["END SELECT"]),
    "h-case-range": (["SELECT CASE 1"], "CASE {e} TO 9", ["END SELECT"]),
    "h-case-is": (["SELECT CASE 1"], "CASE IS > {e}", ["END SELECT"]),
    "h-elseif": (["IF 1 = 0 THEN"], "ELSEIF {e} = 1 THEN", ["END IF"]),
    "h-until": (["DO"], "LOOP UNTIL {e} = 1", []),
    "h-loopwhile": (["DO"], "LOOP WHILE {e} = 1", []),
}
HOST_SETUP = ["DIM AR8%(1 TO 3)"]
# expression -> (setup, text)
EXPRS = {
    "e-div": ([], "1 / Z%"),
    "e-mod": ([], "5 MOD Z%"),
    "e-ovf": (["M9% = 32767"], "M9% + 1"),
    "e-sub": (["DIM AR9%(1 TO 3)", "K9% = 4"], "AR9%(K9%)"),
    "e-ifc": (["N9% = -1"], "LEN(SPACE$(N9%))"),
    "e-str": ([], '(1 + "a")'),
    "e-argc": ([], "ZF9%(1, 2)"),
    "e-argc-b": ([], 'LEN("a", "b")'),
}


def fault_parts(name):
    """-> (setup, lines before, statement, lines after)"""
    if name in FAULTS:
        return FAULTS[name]
    h, e = name.split("|")
    before, tmpl, after = HOSTS[h]
    esetup, etext = EXPRS[e]
    return (HOST_SETUP + esetup, before, tmpl.replace("{e}", etext), after)

BLOCKS = {
    "if": (["IF 1 = 1 THEN"], ["END IF"]),
    "else": (["IF 1 = 0 THEN", "Q% = 1", "ELSE"], ["END IF"]),
    "elseif": (["IF 1 = 0 THEN", "Q% = 1", "ELSEIF 1 = 1 THEN"], ["END IF"]),
    "for": (["FOR I{d}% = 1 TO 1"], ["NEXT"]),
    "while": (["WHILE W{d}% = 0"], ["W{d}% = 1", "WEND"]),
    "do": (["DO"], ["LOOP UNTIL 1 = 1"]),
    "dowhile": (["DO WHILE D{d}% = 0"], ["D{d}% = 1", "LOOP"]),
    "select": (["SELECT CASE 1", "CASE 1"], ["END SELECT"]),
    "caseelse": (["SELECT CASE 2", "CASE 1", "Q% = 1", "CASE ELSE"], ["END SELECT"]),
}
INDENT = {"none": "", "two": "  ", "tab": "\t"}
EOLS = {"crlf": "\r\n", "lf": "\n", "cr": "\r"}


class Doc:
    """lines of (indent depth, [(statement text, tag)], trailing comment)"""

    def __init__(self):
        self.lines = []

    def add(self, depth, text, tag=None):
        self.lines.append((depth, [(text, tag)], None))

    def raw(self, text):
        self.lines.append((0, [(text, None)], None) if text is not None else None)


def wrap(doc, depth, kinds, body, dbase):
    """emit body (a function of (doc, depth)) inside the blocks `kinds`"""
    if not kinds:
        body(doc, depth)
        return
    k = kinds[0]
    op, cl = BLOCKS[k]
    d = dbase + depth
    for i, l in enumerate(op):
        inner = l == "Q% = 1"
        doc.add(depth + (1 if inner else 0), l.replace("{d}", str(d)))
    wrap(doc, depth + 1, kinds[1:], body, dbase)
    for l in cl:
        doc.add(depth + (0 if l.split()[0] in ("END", "NEXT", "WEND", "LOOP") else 1), l.replace("{d}", str(d)))


def build(case):
    """-> dict(text, stmt=[a, b], term=c, sites=[[a, b], ...] innermost first)"""
    fault = case["fault"]
    setup, before_lines, stmt, after_lines = fault_parts(fault)
    chain = case["chain"]
    nest = list(case["nest"])
    oneline = bool(nest) and nest[-1] == "oneline"
    if oneline:
        nest = nest[:-1]
    # the statement of a one-line IF stands right behind THEN, or behind another statement and a colon (with blanks after it)
    ol_prefix = "IF 1 = 1 THEN Q7% = 1 :  " if (case.get("before", 0) + case.get("after", 0) + len(case["chain"]) + case.get("blank", 0)) % 2 else "IF 1 = 1 THEN "
    doc = Doc()
    lay = case
    seedn = case.get("mix", 0)

    def noise(n):
        for i in range(n):
            if i % 2 == 0:
                # a comment may hold characters that LOOK like line breaks to some tools (form feed, vertical tab, NEL, U+2028,
                # U+2029): for BASIC they are characters of the comment - one column each, no new row
                odd = ["\x0c", "\x0b", "\u0085", "\u2028", "\u2029"][(i // 2 + len(case["chain"]) + case.get("blank", 0)) % 5]
                doc.lines.append((0, [("' note %d %s page" % (i, odd), None)], None))
            else:
                doc.lines.append(None)

    def fault_body(doc, depth):
        for l in before_lines:
            doc.add(depth, l)
            if l.startswith("IF "):
                doc.add(depth + 1, "Q% = 1")
        for i in range(lay["blank"]):
            doc.lines.append(None)
        for i in range(lay["cmt"]):
            doc.lines.append((depth, [("' about to fail", None)], None))
        segs = [("Q% = Q% + 1", None)] * lay["before"]
        text = (ol_prefix if oneline else "") + stmt
        segs = segs + [(text, "stmt")]
        segs = segs + [("Q% = Q% + 2", None)] * lay["after"]
        doc.lines.append((depth, segs, " ' trailing" if lay["trail"] else None))
        for l in after_lines:
            doc.add(depth + (0 if l.split()[0] in ("END", "NEXT", "WEND") else 0), l)

    def helper_calls(doc, depth):
        # calls that have returned by the time the fault happens: the call stack must not remember them
        n = case.get("helpers", 0)
        if n >= 1:
            doc.add(depth, "ZS9 1")
        if n >= 2:
            doc.add(depth, "Q8% = ZF9%(2)")
            doc.add(depth, 'Q8% = LEN("ab")')

    def scope_body(level, doc, depth):
        """body of the scope at `level` (0 = main ... len(chain) = the fault's scope)"""
        if level == len(chain):
            for s in setup:
                doc.add(depth, s)
            helper_calls(doc, depth)
            if case.get("prior") in (1, 2):
                doc.add(depth, "Q9% = 1 / Z9%" if case["prior"] == 1 else 'Q9$ = MID$("ab", Z9%)')
                doc.add(depth, "ON ERROR GOTO 0")
            wrap(doc, depth, nest, fault_body, 1)
            doc.add(depth, 'PRINT "not reached %d"' % level)
            return
        kind = chain[level]
        name = "P%d" % (level + 1)
        if kind == "sub":
            call = ("%s  %d" if case["csform"] else "%s %d") % (name, level + 1)    # CALL name(args) is not implemented
        else:
            call = ("PRINT %s%%(%d)" if case["csform"] else "R%% = %s%%(%d)") % (name, level + 1)
        cs = case["csnest"]

        def site(doc, depth):
            doc.lines.append((depth, [((ol_prefix if cs == "oneline" else "") + call, "site%d" % level)], None))
        doc.add(depth, 'PRINT "in %d"' % level)
        helper_calls(doc, depth)
        wrap(doc, depth, [] if cs in ("none", "oneline") else [cs], site, 5)
        doc.add(depth, 'PRINT "back %d"' % level)

    noise(lay["pre"])
    if case.get("prior"):
        doc.add(0, "ON ERROR GOTO H9")
    if case.get("prior") == 3:
        # the earlier error happens two procedures deep and the handler goes on in the MODULE (RESUME label): the procedures
        # that were running are abandoned - their call sites must not show up in what is reported later
        doc.add(0, "ZA9")
        doc.add(0, "L9:")
        doc.add(0, "ON ERROR GOTO 0")
    scope_body(0, doc, 0)
    doc.add(0, "END")
    if case.get("prior"):
        doc.add(0, "H9:")
        doc.add(0, "RESUME L9" if case["prior"] == 3 else "RESUME NEXT")
    mods = list(case.get("mods") or []) + ["plain"] * len(chain)
    for level, kind in enumerate(chain):
        noise(lay["pre"])
        name = "P%d" % (level + 1)
        doc.add(0, ("SUB %s (N%%)" if kind == "sub" else "FUNCTION %s%% (N%%)") % name + (" STATIC" if mods[level] == "static" else ""))
        if mods[level] == "rec":
            # two more activations through one call site before the body proper
            doc.add(1, "IF N% < 200 THEN")
            rcall = ("%s N%% + 100" % name) if kind == "sub" else ("R%% = %s%%(N%% + 100)" % name)
            doc.lines.append((2, [(rcall, "rsite%d" % level)], None))
            doc.add(2, "EXIT SUB" if kind == "sub" else "EXIT FUNCTION")
            doc.add(1, "END IF")
        if mods[level] == "recback":
            # the third activation returns through the one call site, the fault then happens in the second, which the first
            # entered through that same call site: the site is still active once
            doc.add(1, "IF N% < 200 THEN")
            rcall = ("%s N%% + 100" % name) if kind == "sub" else ("R%% = %s%%(N%% + 100)" % name)
            doc.lines.append((2, [(rcall, "rsite%d" % level)], None))
            doc.add(1, "END IF")
            doc.add(1, "IF N% > 199 THEN EXIT SUB" if kind == "sub" else "IF N% > 199 THEN EXIT FUNCTION")
        scope_body(level + 1, doc, 1)
        doc.add(0, "END SUB" if kind == "sub" else "END FUNCTION")
    if case.get("prior") == 3:
        doc.add(0, "SUB ZA9")
        doc.add(1, "ZB9")
        doc.add(0, "END SUB")
        doc.add(0, "SUB ZB9")
        doc.add(1, "Q9% = 1 / Z9%")
        doc.add(0, "END SUB")
    # helper procedures used by some faults
    doc.add(0, "SUB ZS9 (A%)")
    doc.add(0, "END SUB")
    doc.add(0, "FUNCTION ZF9% (A%)")
    doc.add(1, "ZF9% = A%")
    doc.add(0, "END FUNCTION")
    doc.add(0, "SUB ZM9 (A%, B$)")
    doc.add(0, "END SUB")
    doc.add(0, "FUNCTION ZN9% (A%, B$, C%)")
    doc.add(1, "ZN9% = A%")
    doc.add(0, "END FUNCTION")
    return emit(doc, case)


def emit(doc, case):
    ind = INDENT[case["indent"]]
    out = []
    pos = 0          # characters emitted so far
    marks = {}
    lineno = 0
    mix = case.get("mix", 0)
    for ln in doc.lines:
        lineno += 1
        if case["eol"] == "mixed":
            eol = ("\r\n", "\n", "\r")[(lineno * 7 + mix * 3 + (lineno // 3)) % 3]
        else:
            eol = EOLS[case["eol"]]
        if ln is None:
            out.append(eol)
            pos += len(eol)
            continue
        depth, segs, trail = ln
        s = ind * depth
        for i, (text, tag) in enumerate(segs):
            if i > 0:
                s += ": "
            if tag:
                skip = 0
                if text.startswith("IF 1 = 1 THEN ") and tag == "stmt" and case["nest"] and case["nest"][-1] == "oneline":
                    skip = len("IF 1 = 1 THEN Q7% = 1 :  ") if text.startswith("IF 1 = 1 THEN Q7% = 1 :  ") else len("IF 1 = 1 THEN ")
                a = pos + len(s) + 1 + skip
                b = pos + len(s) + len(text)
                marks[tag] = [a, b]
            s += text
            if tag == "stmt":
                # terminator: the first non-blank character after the statement (colon, apostrophe or line break)
                rest_is_sep = i + 1 < len(segs)
                marks["term"] = pos + len(s) + 1 if rest_is_sep else None
        if trail:
            if "term" in marks and marks["term"] is None and any(t == "stmt" for _, t in segs):
                marks["term"] = pos + len(s) + 2
            s += trail
        if "term" in marks and marks["term"] is None and any(t == "stmt" for _, t in segs):
            marks["term"] = pos + len(s) + 1
        out.append(s + eol)
        pos += len(s) + len(eol)
    text = "".join(out)
    mods = list(case.get("mods") or []) + ["plain"] * len(case["chain"])
    sites = []
    for l in reversed(range(len(case["chain"]))):
        if mods[l] == "rec":
            sites += [marks["rsite%d" % l], marks["rsite%d" % l]]
        if mods[l] == "recback":
            sites += [marks["rsite%d" % l]]
        sites.append(marks["site%d" % l])
    return {"text": text, "stmt": marks["stmt"], "term": marks["term"], "sites": sites}
