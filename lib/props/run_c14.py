"""C14 check: constant expressions as CONST, as run-time expressions and inlined at their use
sites; every program validated by TLC against Core.tla (whose CONST is evaluated by the same
Values operators as run-time expressions, so agreement of both with the spec is agreement
with each other)."""
from corerun import run_property
import c14
import mast


def nontrivial(c):
    return any(s["k"] == "const" for s in mast.all_stmts(c["prog"])) or c["fam"].endswith(("runtime", "inlined"))


def run(tier, replay):
    return run_property(
        "C14", c14.cases, tier, replay,
        rule="all constant expressions of depth 1 over 14 numeric literals (boundary values, all five types) x 13 binary "
             "and 2 unary operators, seeded depth 2-3 compositions, string expressions; each as CONST at module level "
             "(printed, and used twice in a sum so its type shows), as the run-time expression, at subprogram level and "
             "seen from a SUB/FUNCTION; CONST with each suffix x reference with each suffix (acceptance probe of the "
             "type); chains of constants vs the same program with every use replaced by (expression); rejection for "
             "overflow / division by zero must coincide with the run-time error; distinct by text",
        assumptions=[
            "expressions leaving the exactly representable domain are skipped",
            "a CONST whose expression fails is rejected statically with the same error kind at the CONST statement",
        ], nontrivial=nontrivial)
