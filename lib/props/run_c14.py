"""C14 check: constant expressions as CONST, as run-time expressions and inlined at their use
sites; every program validated by TLC against Core.tla (whose CONST is evaluated by the same
Values operators as run-time expressions, so agreement of both with the spec is agreement
with each other)."""
from corerun import run_property
import c14
import mast


def nontrivial(c):
    return any(s["k"] == "const" for s in mast.all_stmts(c["prog"])) or c["fam"].endswith(("runtime", "inlined"))


LEN_VALUES = [("0", 0), ("5 - 5", 0), ("-1", -1), ("2 - 3", -1), ("1", 1), ("3 - 2", 1), ("7", 7), ("32767", 32767), ("16383 * 2 + 1", 32767)]
LEN_CTX = {
    "dim": 'DIM S AS STRING * %s\r\nS = "abc"\r\nPRINT "["; S; "]"; LEN(S)\r\n',
    "dim-shared": 'DIM SHARED S AS STRING * %s\r\nS = "abc"\r\nPRINT "["; S; "]"; LEN(S)\r\n',
    "dim-array": 'DIM S(2) AS STRING * %s\r\nS(1) = "abc"\r\nPRINT "["; S(1); "]"; LEN(S(1))\r\n',
    "redim": 'REDIM S(2) AS STRING * %s\r\nS(1) = "abc"\r\nPRINT "["; S(1); "]"; LEN(S(1))\r\n',
    "type": 'TYPE T\r\n  F AS STRING * %s\r\n  K AS INTEGER\r\nEND TYPE\r\nDIM R AS T\r\nR.F = "abc"\r\nPRINT "["; R.F; "]"; LEN(R.F)\r\n',
    "sub": 'P\r\nSUB P\r\n  DIM S AS STRING * %s\r\n  S = "abc"\r\n  PRINT "["; S; "]"; LEN(S)\r\nEND SUB\r\n',
}


def _class(resp):
    if not resp or resp.get("timeout"):
        return ("none",)
    if "panic" in resp:
        return ("panic",)
    if resp.get("stage") in ("parse", "lint"):
        return ("reject",)
    out = resp.get("stdout")
    return ("run", out if isinstance(out, str) else str(out), str(resp.get("outcome", {}).get("k")), str(resp.get("outcome", {}).get("code")))


def post(cases, rep, pool):
    """a constant as the length of a fixed-length string against the same program with the value written out: the same
    verdict and the same output, for lengths at and beyond both ends of 1..32767, in every place a length can stand"""
    pairs = []
    for ctx, body in LEN_CTX.items():
        for e, v in LEN_VALUES:
            for cs in ("N", "N%", "MAX.N"):
                # the length is named bare and with the INTEGER suffix (the dotted name: bare)
                for use in (("N", "N%") if cs != "MAX.N" else ("MAX.N", "Max.n%")):
                    a = "CONST %s = %s\r\n" % (cs, e) + body.replace("%s", use)
                    b_ = body % str(v)
                    if ctx == "sub":
                        # the constant of the module seen from the SUB, and a constant of the SUB itself
                        pairs.append((ctx + "-local", body.replace("%s", use).replace("  DIM S", "  CONST %s = %s\r\n  DIM S" % (cs, e)), b_, e))
                    pairs.append((ctx, a, b_, e))
    ra = pool.map([{"op": "run", "text": a, "budget": 100000} for _, a, _, _ in pairs], timeout=60)
    rb = pool.map([{"op": "run", "text": b_, "budget": 100000} for _, _, b_, _ in pairs], timeout=60)
    for (ctx, a, b_, e), x, y in zip(pairs, ra, rb):
        if _class(x) != _class(y):
            rep.violation({"family": "length-value", "context": ctx, "text_const": a, "text_literal": b_, "observed_const": _class(x), "observed_literal": _class(y),
                           "expected": "the program with the constant behaves like the program with its value"},
                          {"length-value", "ctx:" + ctx, "len:" + e}, name="length-value")
    STATS["length_pairs"] = len(pairs)
    # the constant against its own expression where the oracle is silent (operands outside the exact domain, MOD / AND / OR
    # beyond the INTEGER range ...): CONST C = e : PRINT C and PRINT (e) are generated side by side - the constant is
    # refused with error x exactly when the expression fails with x at run time, and otherwise both print the same
    def sig(o, is_const):
        if o["status"] == "reject":
            return ("fails", o["code"]) if is_const and o["code"] else ("reject",)
        if o["status"] == "err":
            return ("fails", o["code"]) if not o["out"] else ("fails-later", o["code"], tuple(o["out"]))
        return (o["status"], tuple(o["out"]))
    npairs = 0
    for x, y in zip(cases, cases[1:]):
        fx, fy = x["fam"], y["fam"]
        if not ((fx == "const:global" and fy == "const:runtime") or (fx.startswith("mixed:const/") and fy == fx.replace("const", "runtime"))):
            continue
        if "skip" not in (x.get("verdict"), y.get("verdict")) or "obs" not in x or "obs" not in y:
            continue
        npairs += 1
        a, b_ = sig(x["obs"], True), sig(y["obs"], False)
        if a != b_:
            rep.violation({"family": "const-vs-expression", "text_const": x["text"], "text_expression": y["text"],
                           "observed_const": {k: x["obs"].get(k) for k in ("status", "code", "out")},
                           "observed_expression": {k: y["obs"].get(k) for k in ("status", "code", "out")},
                           "expected": "the constant is refused with the error its expression raises at run time, or both print the same"},
                          {"const-vs-expression", "fam:" + fx}, name="const-vs-expression")
    STATS["const_vs_expression_pairs_outside_the_oracle"] = npairs


STATS = {}


def run(tier, replay):
    if replay:
        import json
        from pool import Pool
        from report import Reporter
        d = json.load(open(replay))
        if d.get("family") == "length-value":
            # a pair of the length-value stage: both texts again
            pool = Pool()
            rep = Reporter("C14", tier, "model_checking")
            x, y = pool.map([{"op": "run", "text": d["text_const"], "budget": 100000}, {"op": "run", "text": d["text_literal"], "budget": 100000}], timeout=60)
            print("replay: with the constant", _class(x), "with its value", _class(y))
            if _class(x) != _class(y):
                rep.violation(d, {"length-value"}, name="length-value")
            return rep.finish({"evaluations": 1, "distinct_nontrivial": 1, "rule": "replay of one length-value pair", "samples": [],
                               "states": 0, "transitions": 0, "traces_validated_against_impl": 1}, [])
    return run_property(
        "C14", c14.cases, tier, replay,
        rule="all constant expressions of depth 1 over 14 numeric literals (boundary values, all five types) x 13 binary "
             "and 2 unary operators, seeded depth 2-3 compositions, string expressions; each as CONST at module level "
             "(printed, and used twice in a sum so its type shows), as the run-time expression, at subprogram level and "
             "seen from a SUB/FUNCTION; CONST with each suffix x reference with each suffix (acceptance probe of the "
             "type); chains of constants vs the same program with every use replaced by (expression); rejection for "
             "overflow / division by zero must coincide with the run-time error; distinct by text",
        assumptions=[
            "expressions leaving the exactly representable domain are skipped",
            "a CONST whose expression fails is rejected statically with the same error kind at the CONST statement",
        ], nontrivial=nontrivial, post=post, extra=lambda rep, pool, tier: {"info": {"length_value_pairs": STATS.get("length_pairs", 0),
                                                       "const_vs_expression_pairs_outside_the_oracle": STATS.get("const_vs_expression_pairs_outside_the_oracle", 0)}})
