"""A tour of the syntax: small programs, each exercising a group of statement forms.  Used as seeds for the
layout moves of C09, the token mutations of C07 and the instruction-list checks of C15."""

TOUR = [
    # statements separated by colons written tight (no blank before the colon): on a plain line, in both branches of a
    # one-line IF, after a label line, in a loop written on one line
    'X% = 2: Y% = 3: PRINT X%; Y%\r\nIF X% = 1 THEN PRINT "one": PRINT "still one" ELSE PRINT "two": PRINT "still two"\r\n'
    'IF Y% = 3 THEN X% = 5: PRINT "set"\r\nFOR I% = 1 TO 2: PRINT I%: NEXT\r\nWHILE X% > 3: X% = X% - 1: WEND\r\nPRINT X%: PRINT "end"\r\n',
    # parentheses and signs next to keywords: bounds, conditions, arguments
    'FOR I% = (1) TO (7) STEP (3)\r\nPRINT (I%); -(I%) + (2)\r\nNEXT\r\nIF (I%) > (5) THEN PRINT (1) ELSE PRINT (2)\r\n'
    'WHILE (I%) > (9)\r\nI% = (I%) - (1)\r\nWEND\r\nSELECT CASE (I%)\r\nCASE (9), (10) TO (12)\r\nPRINT "nine"\r\nCASE IS > (20)\r\nPRINT "big"\r\nEND SELECT\r\n'
    'DIM Q((2) TO (4))\r\nQ((3)) = (5)\r\nPRINT Q(3); LEN(STR$((7)))\r\n',
    # DEFtype letter ranges
    'DEFINT A-Z\r\nDEFSTR S\r\nDEFLNG L-M, P\r\nDEFSNG X\r\nDEFDBL D-E\r\nA = 3\r\nS = "x"\r\nL = 70000\r\nD = 2.5\r\nPRINT A; S; L; D\r\n',
    # parameterless SUB calls and statements that are a single word
    'Hello\r\nHello\r\nCLS\r\nBEEP\r\nPRINT "done"\r\nSUB Hello\r\n  PRINT "hi"\r\nEND SUB\r\n',
    # SUB / FUNCTION with parameters, DECLARE, STATIC, SHARED, EXIT
    'DECLARE SUB Show (N AS INTEGER, T$)\r\nDECLARE FUNCTION Twice% (N%)\r\nDIM SHARED Total AS LONG\r\nShow 2, "a"\r\nShow Twice%(4), "b"\r\nPRINT Total\r\n'
    'SUB Show (N AS INTEGER, T$) STATIC\r\n  Count% = Count% + 1\r\n  Total = Total + N\r\n  IF N > 100 THEN EXIT SUB\r\n  PRINT T$; N; Count%\r\nEND SUB\r\n'
    'FUNCTION Twice% (N%)\r\n  Twice% = N% * 2\r\n  EXIT FUNCTION\r\nEND FUNCTION\r\n',
    # TYPE, DIM forms, arrays, LBOUND / UBOUND
    'TYPE Card\r\n  Value AS INTEGER\r\n  Suit AS STRING * 5\r\n  Weight AS DOUBLE\r\nEND TYPE\r\nDIM C AS Card\r\nDIM Deck(1 TO 3) AS Card\r\nDIM A%(5), B$(2, 3)\r\nDIM N AS LONG, T AS STRING\r\n'
    'C.Value = 7\r\nC.Suit = "Hearts"\r\nDeck(2) = C\r\nDeck(3).Weight = 1.5\r\nA%(5) = 2\r\nB$(1, 1) = "q"\r\nPRINT Deck(2).Value; Deck(2).Suit; Deck(3).Weight; LBOUND(A%); UBOUND(B$, 2)\r\n',
    # CONST, numeric literal forms, operators
    'CONST Pi = 3.14\r\nCONST Big& = 100000\r\nCONST Name$ = "n"\r\nCONST H = &HFF\r\nPRINT Pi; Big&; Name$; H; &O17; 1.5#\r\nPRINT 7 MOD 3; 2 * 3 + 4 / 2 - 1; NOT 0; 1 AND 3; 1 OR 2; -5; 1 < 2; 2 >= 2; 3 <> 3\r\n',
    # IF forms
    'X = 2\r\nIF X = 1 THEN PRINT "one" ELSE PRINT "other"\r\nIF X = 2 THEN\r\n  PRINT "two"\r\nELSEIF X = 3 THEN\r\n  PRINT "three"\r\nELSE\r\n  PRINT "else"\r\nEND IF\r\nIF X THEN PRINT "t"\r\n',
    # SELECT CASE forms
    'X = 5\r\nSELECT CASE X\r\nCASE 1, 2\r\n  PRINT "a"\r\nCASE 3 TO 4\r\n  PRINT "b"\r\nCASE IS >= 5\r\n  PRINT "c"\r\nCASE ELSE\r\n  PRINT "d"\r\nEND SELECT\r\nS$ = "q"\r\nSELECT CASE S$\r\nCASE "p" TO "r"\r\n  PRINT "in"\r\nEND SELECT\r\n',
    # loops
    'FOR I = 1 TO 3\r\n  PRINT I\r\nNEXT\r\nFOR J% = 3 TO 1 STEP -1\r\n  PRINT J%\r\nNEXT J%\r\nW = 0\r\nWHILE W < 2\r\n  W = W + 1\r\nWEND\r\nDO\r\n  W = W + 1\r\nLOOP UNTIL W > 4\r\nDO WHILE W < 7\r\n  W = W + 1\r\nLOOP\r\nDO UNTIL W > 8\r\n  W = W + 1\r\nLOOP\r\nDO\r\n  W = W + 1\r\nLOOP WHILE W < 11\r\nPRINT W\r\n',
    # GOTO / GOSUB / RETURN / labels / ON ERROR / RESUME
    'ON ERROR GOTO Trap\r\nGOSUB Work\r\nPRINT "back"\r\nX = 1 / Z\r\nPRINT "resumed"\r\nON ERROR GOTO 0\r\nGOTO Done\r\nWork:\r\nPRINT "work"\r\nRETURN\r\nTrap:\r\nPRINT "err"; ERR\r\nRESUME NEXT\r\nDone:\r\nPRINT "end"\r\nEND\r\n',
    # DATA / READ, INPUT, LINE INPUT
    'DATA 1, 2.5, "three", "four"\r\nREAD A%, B!, C$, D$\r\nPRINT A%; B!; C$; D$\r\nINPUT N\r\nINPUT M, T$\r\nLINE INPUT L$\r\nPRINT N; M; T$; L$\r\n',
    # PRINT forms
    'PRINT\r\nPRINT 1, 2; 3\r\nPRINT "a";\r\nPRINT "b",\r\nPRINT\r\nPRINT USING "##.## \\ \\ !"; 3.14159; "abc"; "xyz"\r\nLPRINT "p"; 1\r\nLPRINT USING "###"; 5\r\n',
    # files: sequential
    'OPEN "T.TXT" FOR OUTPUT AS #1\r\nPRINT #1, "a"; 1\r\nPRINT #1, USING "##"; 5\r\nCLOSE #1\r\nOPEN "T.TXT" FOR APPEND AS #1\r\nPRINT #1, "b,c"\r\nCLOSE\r\nOPEN "T.TXT" FOR INPUT AS #2\r\nLINE INPUT #2, A$\r\nINPUT #2, N\r\n'
    'INPUT #2, B$, C$\r\nPRINT A$; N; B$; C$; EOF(2)\r\nCLOSE 2\r\nNAME "T.TXT" AS "U.TXT"\r\nKILL "U.TXT"\r\n',
    # files: random access
    'OPEN "R.DAT" FOR RANDOM AS #1 LEN = 10\r\nFIELD #1, 4 AS A$, 6 AS B$\r\nLSET A$ = "ab"\r\nLSET B$ = "cdefgh"\r\nPUT #1, 1\r\nGET #1, 1\r\nPRINT A$; "|"; B$\r\nCLOSE #1\r\nOPEN "R.DAT" FOR RANDOM AS 1 LEN = 10\r\nCLOSE 1\r\nKILL "R.DAT"\r\n',
    # string functions and conversions
    'S$ = " Hello "\r\nPRINT LEN(S$); LTRIM$(S$); RTRIM$(S$); UCASE$(S$); LCASE$(S$); LEFT$(S$, 2); RIGHT$(S$, 2); MID$(S$, 2, 3); MID$(S$, 3)\r\nPRINT INSTR(S$, "l"); INSTR(3, S$, "l"); STR$(5); VAL("7"); CHR$(65); SPACE$(2); STRING$(3, "x"); STRING$(2, 66)\r\nPRINT S$\r\nPRINT CVD(MKD$(1.5)); ENVIRON$("PATH") = ""\r\n',
    # screen / memory statements
    'CLS\r\nLOCATE 2, 3\r\nCOLOR 7, 0\r\nWIDTH 80, 25\r\nVIEW PRINT 1 TO 10\r\nVIEW PRINT\r\nDIM V%\r\nDEF SEG = VARSEG(V%)\r\nPOKE VARPTR(V%), 2\r\nPRINT PEEK(VARPTR(V%))\r\nDEF SEG\r\nPRINT VARPTR(V%) >= 0; VARSEG(V%) >= 0\r\nENVIRON "A=B"\r\n',
    # REDIM, nested calls, recursion
    'REDIM A(3)\r\nA(3) = 1\r\nREDIM A(5)\r\nPRINT A(3); Fact&(5)\r\nFUNCTION Fact& (N%)\r\n  IF N% <= 1 THEN\r\n    Fact& = 1\r\n  ELSE\r\n    Fact& = N% * Fact&(N% - 1)\r\n  END IF\r\nEND FUNCTION\r\n',
    # long string literals, hexadecimal and octal literals
    'PRINT "' + "abcdefghij" * 5 + '"\r\nA$ = "' + "x" * 60 + '"\r\nPRINT LEN(A$); &HFF; &HABCD; &H7FFFFFFF; &O777; &HFFFF\r\n',
    # names with dots, long names, suffixes
    'my.var = 1\r\nmy.var$ = "s"\r\nLongVariableName123% = 4\r\nx! = 1\r\nx# = 2\r\nx& = 3\r\nPRINT my.var; my.var$; LongVariableName123%; x!; x#; x&\r\n',
    # statements in their shortest form, the last thing on their line
    'ON ERROR GOTO H\r\nX = 1 / Z\r\nPRINT\r\nLPRINT\r\nCLOSE\r\nGOSUB W\r\nLeave\r\nDEF SEG\r\nVIEW PRINT\r\nEND\r\nW:\r\nRETURN\r\nH:\r\nZ = 1\r\nRESUME\r\n'
    'SUB Leave\r\n  FOR I = 1 TO 2\r\n    EXIT SUB\r\n  NEXT\r\nEND SUB\r\n',
    'ON ERROR RESUME NEXT\r\nX = 1 / Z\r\nPRINT ERR\r\nON ERROR GOTO 0\r\nDO\r\nLOOP UNTIL 1\r\nWHILE 0\r\nWEND\r\nFOR I = 1 TO 1\r\nNEXT I\r\nSELECT CASE 1\r\nEND SELECT\r\nSYSTEM\r\n',
    # comments and REM
    "' first\r\nPRINT 1 ' trailing\r\n' alone\r\nPRINT 2\r\nPRINT 3 ' another\r\n",
]

TOUR_STDIN = "4\r\n5, text\r\na whole line, with comma\r\n"

# Accepted programs with unusual control flow: whatever they do, it must be a BASIC-level outcome (C08)
def _jumped_over():
    """a declaration is jumped over (GOTO, a false one-line IF cannot do that, an error handler can) and the thing it declares
    is used afterwards in every way"""
    decls = {"array": ("DIM QA(5)", ["QA(1) = 2", "PRINT QA(1)", "PRINT LBOUND(QA); UBOUND(QA)", "ERASE QA", "TakeA QA(1)", "X = QA(2) + 1", "REDIM QA(3)"]),
             "strarray": ('DIM QS$(2)', ['QS$(1) = "a"', "PRINT QS$(0)", "PRINT LEN(QS$(1))"]),
             "record": ("DIM QR AS QT", ["QR.N = 2", "PRINT QR.N", 'QR.S = "abc"', "PRINT QR.S", "TakeA QR.N"]),
             "recarray": ("DIM QQ(2) AS QT", ["QQ(1).N = 2", "PRINT QQ(1).N", "TakeA QQ(1).N"]),
             "fixed": ("DIM QF AS STRING * 3", ['QF = "abcdef"', "PRINT QF; LEN(QF)"]),
             "shared": ("DIM SHARED QG(4)", ["QG(1) = 1", "UseG", "PRINT QG(1)"])}
    out = []
    for name, (decl, uses) in decls.items():
        for use in uses:
            for how in ("goto", "gosub", "handler"):
                pre = ["TYPE QT", "  N AS INTEGER", "  S AS STRING * 2", "END TYPE"]
                if how == "goto":
                    body = ["GOTO Skip", decl, "Skip:", use, 'PRINT "end"', "END"]
                elif how == "gosub":
                    body = ["GOSUB Later", 'PRINT "end"', "END", decl, "Later:", use, "RETURN"]
                else:
                    body = ["ON ERROR GOTO Skip", "X = 1 / 0", decl, 'PRINT "end"', "END", "Skip:", use, "RESUME NEXT"]
                post = ["SUB TakeA (V)", "  V = V + 1", "END SUB"]
                if name == "shared":
                    post += ["SUB UseG", "  QG(2) = QG(1) + 1", "  PRINT QG(2)", "END SUB"]
                out.append("\r\n".join(pre + body + post) + "\r\n")
    return out


ODD = _jumped_over() + [
    'GOTO Inside\r\nFOR I = 1 TO 2\r\nInside:\r\nPRINT I\r\nNEXT\r\n',
    'GOTO Inside\r\nWHILE X < 2\r\nInside:\r\nX = X + 1\r\nWEND\r\nPRINT X\r\n',
    'GOSUB Inside\r\nEND\r\nFOR I = 1 TO 2\r\nInside:\r\nPRINT I\r\nNEXT\r\nRETURN\r\n',
    'FOR I = 1 TO 2\r\nGOSUB R\r\nNEXT\r\nEND\r\nR:\r\nFOR J = 1 TO 2\r\nRETURN\r\nNEXT\r\n',
    'GOTO Inside\r\nSELECT CASE 1\r\nCASE 1\r\nInside:\r\nPRINT "in"\r\nEND SELECT\r\n',
    'GOTO Inside\r\nDO\r\nInside:\r\nX = X + 1\r\nLOOP UNTIL X > 2\r\nPRINT X\r\n',
    'P\r\nPRINT "m"\r\nSUB P\r\nGOTO Inside\r\nFOR I = 1 TO 2\r\nInside:\r\nNEXT\r\nEND SUB\r\n',
    'ON ERROR GOTO H\r\nFOR I = 1 TO 3\r\nX = 1 / 0\r\nNEXT\r\nEND\r\nH:\r\nRESUME Out1\r\nOut1:\r\nPRINT "out"\r\nFOR K = 1 TO 2\r\nNEXT\r\n',
    'RETURN\r\n', 'RESUME\r\n', 'RESUME NEXT\r\n', 'FOR I = 1 TO 2\r\nFOR I = 1 TO 2\r\nNEXT\r\nNEXT\r\n',
    'X = F%(3)\r\nPRINT X\r\nFUNCTION F%(N%)\r\nIF N% > 0 THEN F% = F%(N% - 1) + 1\r\nEND FUNCTION\r\n',
]
