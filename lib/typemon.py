"""Collects the typed variable dumps of runs and has TLC (TypeMon.tla) check each value."""
import os, re
from common import out_dir, dumps, ToolError
from tlc import run_tlc

NAME_RE = re.compile(r'CaseInsensitiveString\("(.*?)"\), opt_q: (?:Some\((\w+)\)|None)')
QMAP = {"PercentInteger": "I", "AmpersandLong": "L", "BangSingle": "S", "HashDouble": "D", "DollarString": "$"}


def num_record(q, val):
    t = val.get("t")
    if t not in ("I", "L", "S", "D"):
        return None
    whole = "v" in val
    if t in ("I", "L"):
        sx = abs(val.get("v", 0)) <= 16777216 if whole else False
    else:
        sx = bool(val.get("sx", True))
    return {"q": q, "tag": t, "whole": whole, "finite": val.get("finite", True) if not whole else True,
            "fits32": whole, "v": val.get("v", 0) if whole else 0, "f": val.get("f", ""), "sx": sx}


def records_of_case(c):
    """distinct (q, value) records found in the dumps of one run"""
    out = {}
    resp = c.get("resp") or {}
    for d in resp.get("dumps", []):
        for var in d["vars"]:
            m = NAME_RE.search(var["name"])
            if not m:
                continue
            q = QMAP.get(m.group(2) or "", None)
            val = var["val"]
            vals = val.get("elems", []) if val.get("t") == "A" else [val]
            # fields of records (and of elements of arrays of records) whose name tells their type: FI, FL, FS, FD
            more = []
            for x in vals:
                if x.get("t") == "U":
                    for fl in x.get("fields", []):
                        fq = {"FI": "I", "FL": "L", "FS": "S", "FD": "D"}.get(str(fl.get("name", "")).upper())
                        if fq:
                            more.append((fq, fl["value"]))
            for fq, fv in more:
                r = num_record(fq, fv)
                if r is not None:
                    key = (r["q"], r["tag"], r["whole"], r["finite"], r["v"], r["f"] if not r["whole"] else "", r["sx"])
                    out.setdefault(key, (r, m.group(1) + "." + fq))
            if q is None or q == "$":
                continue
            for x in vals:
                r = num_record(q, x)
                if r is None:
                    # a non-numeric value in a numeric variable
                    if x.get("t") in ("$", "U"):
                        r = {"q": q, "tag": x.get("t"), "whole": False, "finite": False, "fits32": False, "v": 0, "f": "non-numeric", "sx": False}
                    else:
                        continue
                key = (r["q"], r["tag"], r["whole"], r["finite"], r["v"], r["f"] if not r["whole"] else "", r["sx"])
                out.setdefault(key, (r, m.group(1)))
    return out


def check(pid, cases, rep):
    """returns stats; registers a violation for every value outside its variable's type"""
    allrecs = {}
    total = 0
    for c in cases:
        for key, (r, name) in records_of_case(c).items():
            total += 1
            if key not in allrecs:
                allrecs[key] = (r, name, c)
    d = out_dir(pid)
    path = os.path.join(d, "typemon.ndjson")
    ids = {}
    with open(path, "w") as f:
        for i, (key, (r, name, c)) in enumerate(allrecs.items()):
            ids[i + 1] = (r, name, c)
            f.write(dumps(dict(r, id=i + 1)) + "\n")
    if not ids:
        return {"states": 0, "transitions": 0, "records": 0, "distinct": 0, "bad": 0}
    res = run_tlc("TypeMon.tla", "TypeMon.cfg", os.path.join(d, "tlc_typemon"), env={"TRACE": path}, timeout=900)
    if res.timed_out or not res.ok:
        raise ToolError("TLC failed on TypeMon:\n%s" % res.violation)
    bad = 0
    for ln in res.printed:
        if ln.startswith("MISMATCH "):
            bad += 1
            r, name, c = ids[int(ln.split()[1])]
            rep.violation({"family": c.get("fam"), "rendered_text": c["text"], "prog": c["prog"],
                           "variable": name, "declared_type": r["q"], "found": r,
                           "expected": "a value of the variable's type (TypeMon.tla OfType)"},
                          {"typemon", "typemon:" + r["q"]}, name="typemon")
    os.remove(path)
    return {"states": res.distinct, "transitions": res.generated, "records": total, "distinct": len(ids), "bad": bad}
