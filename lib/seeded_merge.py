#!/usr/bin/env python3
"""Merges the verdict lines of sandbox run logs (`<name> <check> caught|missed|tool-error <n> violations <t> s`) into
seeded/<name>/meta.json; later lines override earlier ones.  usage: seeded_merge.py <log> ..."""
import json, os, re, sys

ROOT = os.path.dirname(os.path.dirname(os.path.abspath(__file__)))
pat = re.compile(r"^(C\d\d-\S+) (C\d\d) (caught|missed|tool-error) (\d+) violations ([\d.]+) s")
n = 0
for log in sys.argv[1:]:
    for line in open(log, errors="replace"):
        m = pat.match(line)
        if not m:
            continue
        name, chk, verdict, viol, wall = m.groups()
        mf = os.path.join(ROOT, "seeded", name, "meta.json")
        if not os.path.exists(mf):
            continue
        meta = json.load(open(mf))
        prev = meta.setdefault("checks", {}).get(chk)
        hist = meta.setdefault("history", [])
        if prev and prev.get("verdict") == "caught" and verdict != "caught":
            # logs are merged file by file, not line by line in time: checks only get stronger, so a change that was
            # caught once stays caught; the miss is kept as history
            if not any(h["check"] == chk and h["verdict"] == verdict for h in hist):
                hist.append({"check": chk, "verdict": verdict, "note": "before the check was strengthened"})
            json.dump(meta, open(mf, "w"), indent=1)
            continue
        if prev and prev.get("verdict") != verdict:
            hist.append({"check": chk, "verdict": prev.get("verdict"), "note": "before the check was strengthened"})
        meta["checks"][chk] = {"exit": {"caught": 1, "missed": 0}.get(verdict, 2), "violations": int(viol), "wall_s": float(wall), "verdict": verdict}
        json.dump(meta, open(mf, "w"), indent=1)
        n += 1
print("merged", n, "lines")
