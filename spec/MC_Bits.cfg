SPECIFICATION Spec
INVARIANT WordOK
INVARIANT PairOK
INVARIANT IeeeOK
CHECK_DEADLOCK FALSE
