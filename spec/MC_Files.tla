------------------------------ MODULE MC_Files ------------------------------
(* D-level: all operation histories up to MaxOps over two handles and two file   *)
(* names: handle table and store invariants, an error changes nothing but the      *)
(* status, OUTPUT truncates, APPEND extends, CLOSE makes a handle reusable.        *)
EXTENDS Files

CONSTANT MaxOps

Names == {"A", "B"}
Ops == {[op |-> "open", n |-> n, name |-> f, mode |-> m] : n \in 1..2, f \in Names, m \in {"input", "output", "append"}}
       \cup {[op |-> "print", n |-> n, text |-> <<120>>] : n \in 1..2}
       \cup {[op |-> "lineinput", n |-> n] : n \in 1..2}
       \cup {[op |-> "eof", n |-> n] : n \in 1..2}
       \cup {[op |-> "close", n |-> n] : n \in 1..2}
       \cup {[op |-> "closeall"]}
       \cup {[op |-> "kill", name |-> f] : f \in Names}

VARIABLES st, k, prev, lastop
vars == <<st, k, prev, lastop>>
Init == st = Init0(<<>>) /\ k = 0 /\ prev = Init0(<<>>) /\ lastop = [op |-> "closeall"]
Next == /\ k < MaxOps /\ st.status = "run" /\ ~st.skip
        /\ \E o \in Ops : st' = Step(st, o) /\ lastop' = o
        /\ prev' = st /\ k' = k + 1
Spec == Init /\ [][Next]_vars

TableOK == HandlesOK(st) /\ CursorOK(st)
\* a failing operation leaves files, handles and output as they were
ErrorChangesNothing ==
  st.status = "err" => st.store = prev.store /\ st.h = prev.h /\ st.out = prev.out
\* opening for output truncates, opening for append keeps the content
OpenModes ==
  (k > 0 /\ st.status = "run" /\ ~st.skip /\ lastop.op = "open") =>
     CASE lastop.mode = "output" -> st.store[lastop.name] = <<>>
       [] lastop.mode = "append" -> (lastop.name \in DOMAIN prev.store => st.store[lastop.name] = prev.store[lastop.name])
       [] OTHER -> st.store = prev.store
\* printing extends the file by exactly the text and a line end
PrintAppends ==
  (k > 0 /\ st.status = "run" /\ lastop.op = "print") =>
     LET name == prev.h[lastop.n].name IN st.store[name] = prev.store[name] \o lastop.text \o CRLF
\* a closed handle can be opened again
CloseFrees ==
  (k > 0 /\ lastop.op = "close" /\ st.status = "run") => st.h[lastop.n].m = "closed"
\* EOF is reported exactly when nothing is left
EofExact ==
  (k > 0 /\ st.status = "run" /\ ~st.skip /\ lastop.op = "eof") =>
     LET hh == prev.h[lastop.n] IN
     (st.out = prev.out \o NumText(0 - 1) \o CRLF) = (hh.cur > Len(prev.store[hh.name]))
=============================================================================
