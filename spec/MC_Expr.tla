------------------------------ MODULE MC_Expr ------------------------------
(* D-level: the repair by rotation produces exactly the precedence-climbing      *)
(* tree for every operator chain up to MaxOps operators over distinct operands,   *)
(* with optional unary operators in front of operands.                            *)
EXTENDS Expr, TLC

CONSTANTS MaxOps, Unaries

Names == <<"A", "B", "C", "D", "E", "F">>

\* a chain: ops[i] between operand i and i+1; un[i] \in {"", "neg", "not"} in front of operand i
VARIABLES ops, un
vars == <<ops, un>>

UnSet == IF Unaries THEN {"", "neg", "not"} ELSE {""}

Init == \E n \in 1..MaxOps :
          /\ ops \in [1..n -> BinOps]
          /\ un \in [1..(n + 1) -> UnSet]
Next == UNCHANGED vars
Spec == Init /\ [][Next]_vars

RECURSIVE Toks(_)
Toks(i) ==
  (IF un[i] = "" THEN <<>> ELSE <<[k |-> "un", op |-> un[i]]>>) \o <<V(Names[i])>> \o
  (IF i > Len(ops) THEN <<>> ELSE <<[k |-> "op", op |-> ops[i]]>> \o Toks(i + 1))

FlipIsPrec == Norm(Flip(Toks(1))) = Norm(Prec(Toks(1)))
OperandsKept == Leaves(Prec(Toks(1))) = [i \in 1..(Len(ops) + 1) |-> V(Names[i])]
=============================================================================
