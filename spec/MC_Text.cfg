SPECIFICATION Spec
CONSTANT MaxLen = 7
INVARIANT MachineIsDefinition
INVARIANT RowsMonotone
INVARIANT RunMachineIsMachine
CHECK_DEADLOCK FALSE
