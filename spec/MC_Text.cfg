SPECIFICATION Spec
CONSTANT MaxLen = 7
INVARIANT MachineIsDefinition
INVARIANT RowsMonotone
CHECK_DEADLOCK FALSE
