SPECIFICATION Spec
INVARIANT CoreIsPart
INVARIANT Emit
CHECK_DEADLOCK FALSE
