SPECIFICATION Spec
CONSTANTS NTok = 111 MaxLen = 3 NTokLong = 61
INVARIANT Emit
CHECK_DEADLOCK FALSE
