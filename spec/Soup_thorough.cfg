SPECIFICATION Spec
CONSTANTS NTok = 61 MaxLen = 3
INVARIANT Emit
CHECK_DEADLOCK FALSE
