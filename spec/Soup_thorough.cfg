SPECIFICATION Spec
CONSTANTS NTok = 111 MaxLen = 3
INVARIANT Emit
CHECK_DEADLOCK FALSE
