SPECIFICATION Spec
CONSTANTS NTok = 48 MaxLen = 3
INVARIANT Emit
CHECK_DEADLOCK FALSE
