-------------------------------- MODULE Bits --------------------------------
(***************************************************************************)
(* Bit-level definitions: 16-bit two's complement words, bitwise AND / OR /  *)
(* NOT on them, little-endian byte order, and the IEEE-754 binary64 layout   *)
(* as (sign, 11-bit exponent, 52-bit mantissa in 16-bit limbs).             *)
(***************************************************************************)
EXTENDS Integers, Sequences

\* unsigned 16-bit image of a signed word and back
ToU16(n) == IF n < 0 THEN n + 65536 ELSE n
FromU16(u) == IF u >= 32768 THEN u - 65536 ELSE u

\* bit sequence, least significant first, of an unsigned number (w bits)
RECURSIVE UBits(_, _)
UBits(u, w) == IF w = 0 THEN <<>> ELSE <<u % 2>> \o UBits(u \div 2, w - 1)

RECURSIVE FromUBits(_)
FromUBits(b) == IF b = <<>> THEN 0 ELSE Head(b) + 2 * FromUBits(Tail(b))

Twos16(n) == UBits(ToU16(n), 16)
FromTwos16(b) == FromU16(FromUBits(b))

AndBits(a, b) == [i \in 1..Len(a) |-> IF a[i] = 1 /\ b[i] = 1 THEN 1 ELSE 0]
OrBits(a, b) == [i \in 1..Len(a) |-> IF a[i] = 1 \/ b[i] = 1 THEN 1 ELSE 0]
NotBits(a) == [i \in 1..Len(a) |-> 1 - a[i]]

And16(x, y) == FromTwos16(AndBits(Twos16(x), Twos16(y)))
Or16(x, y) == FromTwos16(OrBits(Twos16(x), Twos16(y)))
Not16(x) == FromTwos16(NotBits(Twos16(x)))

\* the two bytes of an INTEGER, low byte first
BytesLE16(n) == <<ToU16(n) % 256, ToU16(n) \div 256>>
FromBytesLE16(b) == FromU16(b[1] + 256 * b[2])

(***************************************************************************)
(* IEEE-754 binary64.  A double is given by its fields                      *)
(*   <<sign, exponent, m3, m2, m1, m0>>                                     *)
(* where the 52-bit mantissa is m3 (4 bits) m2 m1 m0 (16 bits each), most   *)
(* significant first.  The eight bytes, least significant first:            *)
(***************************************************************************)
IeeeBytesLE(f) ==
  LET s == f[1]
      e == f[2]
      m3 == f[3]
      m2 == f[4]
      m1 == f[5]
      m0 == f[6]
  IN << m0 % 256, m0 \div 256,
        m1 % 256, m1 \div 256,
        m2 % 256, m2 \div 256,
        (e % 16) * 16 + m3,
        s * 128 + (e \div 16) >>

IeeeFromBytesLE(b) ==
  << b[8] \div 128,
     (b[8] % 128) * 16 + (b[7] \div 16),
     b[7] % 16,
     b[5] + 256 * b[6],
     b[3] + 256 * b[4],
     b[1] + 256 * b[2] >>

=============================================================================
