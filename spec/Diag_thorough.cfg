SPECIFICATION Spec
CONSTANT MaxCall = 2
CONSTANT MaxNest = 1
CONSTANT Rich = FALSE
CONSTANT FaultSel = "all"
INVARIANT TypeOK
INVARIANT WellFormed
INVARIANT Emit
CHECK_DEADLOCK FALSE
