--------------------------------- MODULE VM ---------------------------------
(***************************************************************************)
(* The register / stack machine at the level of VALUES (VMAbs.tla keeps only     *)
(* depths).  State:                                                              *)
(*   pc, a, b, c, d          program counter and the four registers                 *)
(*   vs                      value stack (operands saved across sub-expressions,     *)
(*                           SELECT CASE subjects)                                  *)
(*   rs                      register stack (frames <<a, b, c, d>> of FOR bodies)    *)
(*   vp                      variable-path stack (names being addressed)             *)
(*   vars                    scalar variables of the module, by name                 *)
(* An instruction is a record [op, ...] decoded from the real instruction list:     *)
(*   LoadIntoA [v], Cast / AllocateBuiltIn [q], VarPathName [n], Jump /             *)
(*   JumpIfFalse [t], the operators, the register copies, the stack pushes / pops.   *)
(* Values are those of Values.tla; Opaque stands for a value the trace did not      *)
(* expose or that lies outside the exactly representable domain - it propagates      *)
(* through every operation and is never compared.                                   *)
(*                                                                                 *)
(* Exec(i, st) is the effect of one instruction: a new state, or                     *)
(*   [halt], [err, c] (a BASIC error raised by the instruction), [unmodelled]        *)
(* (an opcode outside this model: calls, arrays, records, built-ins, files).         *)
(***************************************************************************)
EXTENDS Values, TLC

Opaque == [t |-> "?"]
IsOpaque(x) == x.t = "?"
Known2(x, y) == ~IsOpaque(x) /\ ~IsOpaque(y)

\* a result outside the exact domain is opaque, a BASIC error stays an error
Lift(r) == IF IsErr(r) /\ r.c = 0 THEN Opaque ELSE r

BinOp(op, x, y) == IF Known2(x, y) THEN Lift(Arith(op, x, y)) ELSE Opaque
RelOp(op, x, y) == IF Known2(x, y) THEN Lift(Arith(op, x, y)) ELSE Opaque

DefaultOfQ(q) == IF q = "$" THEN Val("$", <<>>) ELSE Val(q, 0)

OpSymbol(op) ==
  CASE op = "Plus" -> "+" [] op = "Minus" -> "-" [] op = "Multiply" -> "*" [] op = "Divide" -> "/"
    [] op = "Modulo" -> "mod" [] op = "And" -> "and" [] op = "Or" -> "or"
    [] op = "Less" -> "<" [] op = "LessOrEqual" -> "<=" [] op = "Equal" -> "="
    [] op = "GreaterOrEqual" -> ">=" [] op = "Greater" -> ">" [] op = "NotEqual" -> "<>"

Binary == {"Plus", "Minus", "Multiply", "Divide", "Modulo", "And", "Or",
           "Less", "LessOrEqual", "Equal", "GreaterOrEqual", "Greater", "NotEqual"}
Silent == {"Label", "PrintSetPrinterType", "PrintSetFileHandle", "PrintSetFormatStringFromA", "PrintSemicolon",
           "PrintComma", "PrintValueFromA", "PrintEnd", "OnErrorGoTo", "OnErrorResumeNext", "OnErrorGoToZero"}

Next1(st) == [st EXCEPT !.pc = @ + 1]
SetA(st, v) == IF IsErr(v) THEN [err |-> TRUE, c |-> v.c] ELSE [Next1(st) EXCEPT !.a = v]

VarOf(st, n) == IF n \in DOMAIN st.vars THEN st.vars[n] ELSE Opaque
SetVar(st, n, v) == [st EXCEPT !.vars = IF n \in DOMAIN @ THEN [@ EXCEPT ![n] = v] ELSE @ @@ (n :> v)]

Exec(i, st) ==
  CASE i.op \in Silent -> Next1(st)
    [] i.op = "Halt" -> [halt |-> TRUE]
    [] i.op = "LoadIntoA" -> SetA(st, i.v)
    [] i.op = "AllocateBuiltIn" -> SetA(st, DefaultOfQ(i.q))
    [] i.op = "CopyAToB" -> [Next1(st) EXCEPT !.b = st.a]
    [] i.op = "CopyAToC" -> [Next1(st) EXCEPT !.c = st.a]
    [] i.op = "CopyAToD" -> [Next1(st) EXCEPT !.d = st.a]
    [] i.op = "CopyCToB" -> [Next1(st) EXCEPT !.b = st.c]
    [] i.op = "CopyDToA" -> [Next1(st) EXCEPT !.a = st.d]
    [] i.op = "CopyDToB" -> [Next1(st) EXCEPT !.b = st.d]
    [] i.op \in Binary -> SetA(st, BinOp(OpSymbol(i.op), st.a, st.b))
    [] i.op = "NegateA" -> SetA(st, IF IsOpaque(st.a) THEN Opaque ELSE Lift(Neg(st.a)))
    [] i.op = "NotA" -> SetA(st, IF IsOpaque(st.a) THEN Opaque ELSE Lift(Not(st.a)))
    [] i.op = "Cast" -> SetA(st, IF IsOpaque(st.a) THEN Opaque ELSE Lift(Cast(i.q, st.a)))
    [] i.op = "PushAToValueStack" -> [Next1(st) EXCEPT !.vs = Append(@, st.a)]
    [] i.op = "PopValueStackIntoA" ->
         IF st.vs = <<>> THEN [unmodelled |-> TRUE]
         ELSE [Next1(st) EXCEPT !.a = st.vs[Len(st.vs)], !.vs = SubSeq(@, 1, Len(@) - 1)]
    \* a new frame starts with cleared registers
    [] i.op = "PushRegisters" -> [Next1(st) EXCEPT !.rs = Append(@, <<st.a, st.b, st.c, st.d>>),
                                                   !.a = Val("I", 0), !.b = Val("I", 0), !.c = Val("I", 0), !.d = Val("I", 0)]
    [] i.op = "PopRegisters" ->
         IF st.rs = <<>> THEN [unmodelled |-> TRUE]
         ELSE LET f == st.rs[Len(st.rs)] IN
              [Next1(st) EXCEPT !.a = f[1], !.b = f[2], !.c = f[3], !.d = f[4], !.rs = SubSeq(@, 1, Len(@) - 1)]
    [] i.op = "VarPathName" -> [Next1(st) EXCEPT !.vp = Append(@, i.n)]
    [] i.op = "PopVarPath" ->
         IF st.vp = <<>> THEN [unmodelled |-> TRUE] ELSE [Next1(st) EXCEPT !.vp = SubSeq(@, 1, Len(@) - 1)]
    [] i.op = "CopyVarPathToA" ->
         IF st.vp = <<>> THEN [unmodelled |-> TRUE] ELSE [Next1(st) EXCEPT !.a = VarOf(st, st.vp[Len(st.vp)])]
    [] i.op = "CopyAToVarPath" ->
         IF st.vp = <<>> THEN [unmodelled |-> TRUE]
         ELSE [SetVar(Next1(st), st.vp[Len(st.vp)], st.a) EXCEPT !.vp = SubSeq(@, 1, Len(@) - 1)]
    [] i.op = "Jump" -> [st EXCEPT !.pc = i.t]
    [] i.op = "JumpIfFalse" ->
         IF IsOpaque(st.a) THEN [opaquejump |-> TRUE]
         ELSE IF ~HasTruth(st.a) THEN [unmodelled |-> TRUE]
         ELSE IF Truth(st.a) THEN Next1(st) ELSE [st EXCEPT !.pc = i.t]
    [] OTHER -> [unmodelled |-> TRUE]

IsState(r) == "pc" \in DOMAIN r
Start == [pc |-> 0, a |-> Val("I", 0), b |-> Val("I", 0), c |-> Val("I", 0), d |-> Val("I", 0),
          vs |-> <<>>, rs |-> <<>>, vp |-> <<>>, vars |-> [x \in {} |-> Opaque]]
=============================================================================
