--------------------------------- MODULE VM ---------------------------------
(***************************************************************************)
(* The register / stack machine at the level of VALUES (VMAbs.tla keeps only     *)
(* depths).  State:                                                              *)
(*   pc, a, b, c, d   program counter and the four registers                       *)
(*   vs               value stack (operands saved across sub-expressions, SELECT    *)
(*                    CASE subjects, FOR bounds)                                   *)
(*   rs               register stack (frames <<a, b, c, d>> of FOR bodies)           *)
(*   vp               variable-path stack: [n, sh, deep] - root name, SHARED, and     *)
(*                    whether an index / member was appended (then the value is       *)
(*                    part of an array or record, which this model keeps opaque)      *)
(*   ctx              the context stack of the interpreter: one entry per activation   *)
(*                    and one per argument list being collected; an entry names a        *)
(*                    memory block (blk) - an argument-collecting entry and an error      *)
(*                    handler SHARE the block of the code they serve                      *)
(*   blocks           memory blocks by id: ordered names, values, "unk" (the block may     *)
(*                    hold names this model has not seen); block 0 is the module's          *)
(*   statics          the block kept by each STATIC procedure                              *)
(*   ret, gs, br      return addresses of calls, of GOSUBs, the queue of by-reference        *)
(*                    values on their way back to the caller                               *)
(*   fres             the function result on its way back                                   *)
(* An instruction is a record [op, ...] decoded from the real instruction list.            *)
(* Values are those of Values.tla; Opaque stands for a value the trace did not expose        *)
(* or that lies outside the exactly representable domain (and for every array and            *)
(* record) - it propagates through every operation and is never compared.                     *)
(*                                                                                         *)
(* Exec(i, st) is the effect of one instruction:                                             *)
(*   a new state; [halt]; [err, c] (a BASIC error raised by the instruction);                 *)
(*   [trust, st] (the new state up to its pc, which only the machine knows: RESUME, a           *)
(*   return address lost in a resynchronisation); [unmodelled].                                 *)
(***************************************************************************)
EXTENDS Values, TLC

Opaque == [t |-> "?"]
IsOpaque(x) == x.t = "?"
Known2(x, y) == ~IsOpaque(x) /\ ~IsOpaque(y)

\* a result outside the exact domain is opaque, a BASIC error stays an error
Lift(r) == IF IsErr(r) /\ r.c = 0 THEN Opaque ELSE r

BinOp(op, x, y) == IF Known2(x, y) THEN Lift(Arith(op, x, y)) ELSE Opaque

DefaultOfQ(q) == IF q = "$" THEN Val("$", <<>>) ELSE Val(q, 0)
\* the default value of a variable of qualifier q ("?": a record, an array, or unknown)
DefaultOfVar(q) == IF q = "?" THEN Opaque ELSE DefaultOfQ(q)

OpSymbol(op) ==
  CASE op = "Plus" -> "+" [] op = "Minus" -> "-" [] op = "Multiply" -> "*" [] op = "Divide" -> "/"
    [] op = "Modulo" -> "mod" [] op = "And" -> "and" [] op = "Or" -> "or"
    [] op = "Less" -> "<" [] op = "LessOrEqual" -> "<=" [] op = "Equal" -> "="
    [] op = "GreaterOrEqual" -> ">=" [] op = "Greater" -> ">" [] op = "NotEqual" -> "<>"

Binary == {"Plus", "Minus", "Multiply", "Divide", "Modulo", "And", "Or",
           "Less", "LessOrEqual", "Equal", "GreaterOrEqual", "Greater", "NotEqual"}
Silent == {"Label", "PrintSetPrinterType", "PrintSetFileHandle", "PrintSetFormatStringFromA", "PrintSemicolon",
           "PrintComma", "PrintValueFromA", "PrintEnd", "OnErrorGoTo", "OnErrorResumeNext", "OnErrorGoToZero"}

Empty == [x \in {} |-> Opaque]
Front(s) == SubSeq(s, 1, Len(s) - 1)
Last(s) == s[Len(s)]

Next1(st) == [st EXCEPT !.pc = @ + 1]
SetA(st, v) == IF IsErr(v) THEN [err |-> TRUE, c |-> v.c] ELSE [Next1(st) EXCEPT !.a = v]

\* ---- memory blocks
NewBlock(names, vals, unk) == [names |-> names, vals |-> vals, unk |-> unk]
UnknownBlock == NewBlock(<<>>, Empty, TRUE)
Cur(st) == Last(st.ctx).blk
BlockOf(st, p) == IF p.sh THEN 0 ELSE Cur(st)
Read(blk, n, q) == IF n \in DOMAIN blk.vals THEN blk.vals[n] ELSE IF blk.unk THEN Opaque ELSE DefaultOfVar(q)
Write(blk, n, v) ==
  IF n \in DOMAIN blk.vals THEN [blk EXCEPT !.vals[n] = v]
  ELSE [blk EXCEPT !.vals = @ @@ (n :> v), !.names = Append(@, n)]
\* a read creates the variable with its default value (get_or_create)
Touch(blk, n, q) == IF n \in DOMAIN blk.vals THEN blk ELSE Write(blk, n, Read(blk, n, q))
SetBlock(st, id, blk) == [st EXCEPT !.blocks = IF id \in DOMAIN @ THEN [@ EXCEPT ![id] = blk] ELSE @ @@ (id :> blk)]
Havoc(blk) == [blk EXCEPT !.vals = [n \in DOMAIN @ |-> Opaque], !.unk = TRUE]

\* ---- argument lists
ArgName(args, k) == IF args[k].n = "" THEN "#" \o ToString(k) ELSE args[k].n
BlockFromArgs(args) ==
  NewBlock([k \in 1..Len(args) |-> ArgName(args, k)],
           [n \in {ArgName(args, k) : k \in 1..Len(args)} |->
              (LET k == CHOOSE j \in 1..Len(args) : ArgName(args, j) = n /\ \A i \in (j + 1)..Len(args) : ArgName(args, i) # n
               IN args[k].v)],
           \E k \in 1..Len(args) : args[k].unk)
RECURSIVE ApplyArgs(_, _, _)
ApplyArgs(blk, args, k) ==
  IF k > Len(args) THEN blk
  ELSE ApplyArgs([Write(blk, ArgName(args, k), args[k].v) EXCEPT !.unk = @ \/ args[k].unk], args, k + 1)
PushArg(st, n, unk) ==
  LET top == Last(st.ctx) IN
  IF ~top.coll THEN [unmodelled |-> TRUE]
  ELSE [Next1(st) EXCEPT !.ctx = Append(Front(@), [top EXCEPT !.args = Append(@, [n |-> n, v |-> st.a, unk |-> unk])])]

Exec(i, st) ==
  CASE i.op \in Silent -> Next1(st)
    [] i.op = "Halt" -> [halt |-> TRUE]
    [] i.op = "LoadIntoA" -> SetA(st, i.v)
    [] i.op = "AllocateBuiltIn" -> SetA(st, DefaultOfQ(i.q))
    [] i.op \in {"AllocateFixedLengthString", "AllocateUserDefined", "FixLength"} -> SetA(st, Opaque)
    [] i.op = "CopyAToB" -> [Next1(st) EXCEPT !.b = st.a]
    [] i.op = "CopyAToC" -> [Next1(st) EXCEPT !.c = st.a]
    [] i.op = "CopyAToD" -> [Next1(st) EXCEPT !.d = st.a]
    [] i.op = "CopyCToB" -> [Next1(st) EXCEPT !.b = st.c]
    [] i.op = "CopyDToA" -> [Next1(st) EXCEPT !.a = st.d]
    [] i.op = "CopyDToB" -> [Next1(st) EXCEPT !.b = st.d]
    [] i.op \in Binary -> SetA(st, BinOp(OpSymbol(i.op), st.a, st.b))
    [] i.op = "NegateA" -> SetA(st, IF IsOpaque(st.a) THEN Opaque ELSE Lift(Neg(st.a)))
    [] i.op = "NotA" -> SetA(st, IF IsOpaque(st.a) THEN Opaque ELSE Lift(Not(st.a)))
    [] i.op = "Cast" -> SetA(st, IF IsOpaque(st.a) THEN Opaque ELSE Lift(Cast(i.q, st.a)))
    [] i.op = "PushAToValueStack" -> [Next1(st) EXCEPT !.vs = Append(@, st.a)]
    [] i.op = "PopValueStackIntoA" ->
         IF st.vs = <<>> THEN [unmodelled |-> TRUE] ELSE [Next1(st) EXCEPT !.a = Last(st.vs), !.vs = Front(@)]
    \* a new frame starts with cleared registers
    [] i.op = "PushRegisters" -> [Next1(st) EXCEPT !.rs = Append(@, <<st.a, st.b, st.c, st.d>>),
                                                   !.a = Val("I", 0), !.b = Val("I", 0), !.c = Val("I", 0), !.d = Val("I", 0)]
    [] i.op = "PopRegisters" ->
         IF st.rs = <<>> THEN [unmodelled |-> TRUE]
         ELSE LET f == Last(st.rs) IN
              [Next1(st) EXCEPT !.a = f[1], !.b = f[2], !.c = f[3], !.d = f[4], !.rs = Front(@)]
    \* ---- variables
    [] i.op = "VarPathName" -> [Next1(st) EXCEPT !.vp = Append(@, [n |-> i.n, q |-> i.q, sh |-> i.sh, deep |-> FALSE])]
    [] i.op \in {"VarPathIndex", "VarPathProperty"} ->
         IF st.vp = <<>> THEN [unmodelled |-> TRUE] ELSE [Next1(st) EXCEPT !.vp = Append(Front(@), [Last(@) EXCEPT !.deep = TRUE])]
    [] i.op = "PopVarPath" -> IF st.vp = <<>> THEN [unmodelled |-> TRUE] ELSE [Next1(st) EXCEPT !.vp = Front(@)]
    [] i.op = "CopyVarPathToA" ->
         IF st.vp = <<>> THEN [unmodelled |-> TRUE]
         ELSE LET p == Last(st.vp)
                  id == BlockOf(st, p)
              IN IF p.deep THEN [Next1(st) EXCEPT !.a = Opaque]
                 ELSE [SetBlock(Next1(st), id, Touch(st.blocks[id], p.n, p.q)) EXCEPT !.a = Read(st.blocks[id], p.n, p.q)]
    [] i.op = "CopyAToVarPath" ->
         IF st.vp = <<>> THEN [unmodelled |-> TRUE]
         ELSE LET p == Last(st.vp)
                  id == BlockOf(st, p)
              IN [SetBlock(Next1(st), id, Write(st.blocks[id], p.n, IF p.deep THEN Opaque ELSE st.a)) EXCEPT !.vp = Front(@)]
    [] i.op = "IsVariableDefined" ->
         LET blk == st.blocks[Cur(st)] IN
         [Next1(st) EXCEPT !.a = IF i.n \in DOMAIN blk.vals THEN Val("I", -1) ELSE IF blk.unk THEN Opaque ELSE Val("I", 0)]
    \* ---- jumps
    [] i.op = "Jump" -> [st EXCEPT !.pc = i.t]
    [] i.op = "JumpIfFalse" ->
         IF IsOpaque(st.a) THEN [trust |-> st]
         ELSE IF ~HasTruth(st.a) THEN [unmodelled |-> TRUE]
         ELSE IF Truth(st.a) THEN Next1(st) ELSE [st EXCEPT !.pc = i.t]
    \* a pending GOSUB: where it stands, the call depth (a RETURN only takes a GOSUB of its own activation) and the depths of
    \* the register and value stacks (RETURN cuts them back: it leaves the FOR / SELECT CASE blocks of the routine); pc < 0:
    \* an entry the trace did not expose
    [] i.op = "GoSub" -> [st EXCEPT !.gs = Append(@, [pc |-> st.pc, d |-> Len(st.ret), nr |-> Len(st.rs), nv |-> Len(st.vs)]), !.pc = i.t]
    [] i.op = "Return" ->
         IF st.gs = <<>> THEN [err |-> TRUE, c |-> 3]
         ELSE LET g == Last(st.gs)
                  cut == [st EXCEPT !.gs = Front(@),
                                    !.rs = IF Len(@) > g.nr THEN SubSeq(@, 1, g.nr) ELSE @,
                                    !.vs = IF Len(@) > g.nv THEN SubSeq(@, 1, g.nv) ELSE @]
              IN IF g.pc < 0 THEN [trust |-> [st EXCEPT !.gs = Front(@)]]
                 ELSE IF g.d # Len(st.ret) THEN [err |-> TRUE, c |-> 3]
                 ELSE IF i.t >= 0 THEN [cut EXCEPT !.pc = i.t]
                 ELSE [cut EXCEPT !.pc = g.pc + 1]
    [] i.op = "PushRet" -> [Next1(st) EXCEPT !.ret = Append(@, i.t)]
    [] i.op = "PopRet" ->
         IF st.ret = <<>> THEN [unmodelled |-> TRUE]
         \* the GOSUBs of the procedure that ends are gone with it
         ELSE LET keep == SelectSeq(st.gs, LAMBDA g : g.pc < 0 \/ g.d < Len(st.ret)) IN
              IF Last(st.ret) < 0 THEN [trust |-> [st EXCEPT !.ret = Front(@), !.gs = keep]]
              ELSE [st EXCEPT !.ret = Front(@), !.pc = Last(st.ret), !.gs = keep]
    \* RESUME leaves the handler's context; where it continues is computed from the statement table
    [] i.op \in {"Resume", "ResumeNext", "ResumeLabel"} ->
         IF Len(st.ctx) < 2 THEN [unmodelled |-> TRUE] ELSE [trust |-> [st EXCEPT !.ctx = Front(@)]]
    [] i.op = "Throw" -> [err |-> TRUE, c |-> 0]
    \* ---- calls
    [] i.op = "BeginCollectArguments" ->
         [Next1(st) EXCEPT !.ctx = Append(@, [blk |-> Cur(st), coll |-> TRUE, args |-> <<>>])]
    [] i.op = "PushNamed" -> PushArg(st, i.n, i.unk)
    [] i.op = "PushUnnamedByVal" -> PushArg(st, "", FALSE)
    [] i.op = "PushUnnamedByRef" ->
         IF st.vp = <<>> THEN [unmodelled |-> TRUE] ELSE PushArg([st EXCEPT !.vp = Front(@)], "", FALSE)
    [] i.op = "PushStack" ->
         LET top == Last(st.ctx) IN
         IF ~top.coll THEN [unmodelled |-> TRUE]
         ELSE [SetBlock(Next1(st), st.nb, BlockFromArgs(top.args))
                 EXCEPT !.ctx = Append(Front(@), [blk |-> st.nb, coll |-> FALSE, args |-> <<>>]), !.nb = @ + 1]
    [] i.op = "PushStaticStack" ->
         LET top == Last(st.ctx) IN
         IF ~top.coll THEN [unmodelled |-> TRUE]
         ELSE IF i.n \in DOMAIN st.statics THEN
              LET id == st.statics[i.n] IN
              [SetBlock(Next1(st), id, ApplyArgs(st.blocks[id], top.args, 1))
                 EXCEPT !.ctx = Append(Front(@), [blk |-> id, coll |-> FALSE, args |-> <<>>])]
         ELSE [SetBlock(Next1(st), st.nb, BlockFromArgs(top.args))
                 EXCEPT !.ctx = Append(Front(@), [blk |-> st.nb, coll |-> FALSE, args |-> <<>>]), !.nb = @ + 1,
                        !.statics = @ @@ (i.n :> st.nb)]
    [] i.op = "PopStack" ->
         IF Len(st.ctx) < 2 \/ Last(st.ctx).coll THEN [unmodelled |-> TRUE] ELSE [Next1(st) EXCEPT !.ctx = Front(@)]
    \* array bounds were collected like arguments
    [] i.op = "AllocateArrayIntoA" ->
         IF Len(st.ctx) < 2 \/ ~Last(st.ctx).coll THEN [unmodelled |-> TRUE]
         ELSE [Next1(st) EXCEPT !.ctx = Front(@), !.a = Opaque]
    [] i.op = "EnqueueToReturnStack" ->
         LET blk == st.blocks[Cur(st)] IN
         [Next1(st) EXCEPT !.br = Append(@, IF i.t + 1 <= Len(blk.names) THEN Read(blk, blk.names[i.t + 1], "?") ELSE Opaque)]
    [] i.op = "DequeueFromReturnStack" ->
         IF st.br = <<>> THEN [unmodelled |-> TRUE] ELSE [Next1(st) EXCEPT !.a = Last(st.br), !.br = Front(@)]
    [] i.op = "StashFunctionReturnValue" ->
         LET id == Cur(st) IN [SetBlock(Next1(st), id, Touch(st.blocks[id], i.n, i.q)) EXCEPT !.fres = Read(st.blocks[id], i.n, i.q)]
    [] i.op = "UnStashFunctionReturnValue" -> [Next1(st) EXCEPT !.a = st.fres]
    \* a built-in works on the block of its arguments: what it leaves there (results, by-reference arguments) is not
    \* modelled here (Strings.tla, Files.tla, Print.tla specify the built-ins themselves); POKE may touch anything
    [] i.op \in {"BuiltInFunction", "BuiltInSub"} ->
         IF i.n = "Poke" THEN [Next1(st) EXCEPT !.blocks = [id \in DOMAIN @ |-> Havoc(@[id])]]
         ELSE SetBlock(Next1(st), Cur(st), Havoc(st.blocks[Cur(st)]))
    [] OTHER -> [unmodelled |-> TRUE]

IsState(r) == "pc" \in DOMAIN r
Start == [pc |-> 0, a |-> Val("I", 0), b |-> Val("I", 0), c |-> Val("I", 0), d |-> Val("I", 0),
          vs |-> <<>>, rs |-> <<>>, vp |-> <<>>, ret |-> <<>>, gs |-> <<>>, br |-> <<>>, fres |-> Opaque,
          ctx |-> <<[blk |-> 0, coll |-> FALSE, args |-> <<>>]>>, blocks |-> (0 :> NewBlock(<<>>, Empty, FALSE)),
          statics |-> [x \in {} |-> 0], nb |-> 1]
=============================================================================
