SPECIFICATION Spec
CONSTANTS MaxDims = 3 MaxExtent = 3 LoNeg = 2 LoMax = 1
INVARIANT Agrees
INVARIANT InRange
INVARIANT Bijection
INVARIANT FrameCondition
CHECK_DEADLOCK FALSE
