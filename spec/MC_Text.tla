------------------------------ MODULE MC_Text ------------------------------
(* D-level: the position machine agrees with the declarative definition of rows   *)
(* and columns on every text over {x, CR, LF} up to MaxLen, at every offset.        *)
EXTENDS Text

CONSTANT MaxLen
Texts == UNION {[1..n -> {120, CR, LF}] : n \in 0..MaxLen}

VARIABLES t, n
Init == t \in Texts /\ n \in 0..Len(t)
Next == UNCHANGED <<t, n>>
Spec == Init /\ [][Next]_<<t, n>>

\* a position "inside" a CR LF pair (between the CR and the LF) is not a character position of the text as the
\* user sees it; everywhere else the machine equals the definition
MachineIsDefinition ==
  ~(n >= 1 /\ n < Len(t) /\ t[n] = CR /\ t[n + 1] = LF) =>
     (After(t, n).row = RowOf(t, n) /\ After(t, n).col = ColOf(t, n))
RunMachineIsMachine == LenR(Compress(t)) = Len(t) /\ AfterR(Compress(t), n) = After(t, n)
RowsMonotone == n >= 1 => After(t, n).row >= After(t, n - 1).row
=============================================================================
