------------------------------ MODULE VMEffects ------------------------------
(* The effect of every opcode on the depths of the VM's stacks                    *)
(* [val, reg, vp, byref, arg, frames], read off interpreter/main.rs and its        *)
(* handlers.  Control flow is handled by VMAbs.                                    *)
EXTENDS Integers, Sequences

Neutral == {"LoadIntoA", "CopyAToB", "CopyAToC", "CopyAToD", "CopyCToB", "CopyDToA", "CopyDToB", "Label",
            "PrintSetPrinterType", "PrintSetFileHandle", "PrintSetFormatStringFromA", "PrintSemicolon", "PrintComma",
            "PrintValueFromA", "PrintEnd", "OnErrorGoTo", "OnErrorResumeNext", "OnErrorGoToZero",
            "Plus", "Minus", "Multiply", "Divide", "Modulo", "Less", "LessOrEqual", "Equal", "GreaterOrEqual", "Greater",
            "NotEqual", "NegateA", "NotA", "And", "Or", "Cast", "FixLength", "BuiltInSub", "BuiltInFunction",
            "CopyVarPathToA", "VarPathIndex", "VarPathProperty", "PushNamed", "PushUnnamedByVal",
            "StashFunctionReturnValue", "UnStashFunctionReturnValue", "AllocateBuiltIn", "AllocateFixedLengthString",
            "AllocateUserDefined", "IsVariableDefined", "Jump", "JumpIfFalse", "GoSub", "Return", "PushRet", "PopRet",
            "Halt", "Throw"}

\* [val, reg, vp, byref, arg, frames]: effect of an opcode on the depths; "x" marks control flow handled apart
Delta(op) ==
  CASE op \in {"PushAToValueStack"} -> [val |-> 1, reg |-> 0, vp |-> 0, byref |-> 0, arg |-> 0, frames |-> 0]
    [] op = "PopValueStackIntoA" -> [val |-> 0 - 1, reg |-> 0, vp |-> 0, byref |-> 0, arg |-> 0, frames |-> 0]
    [] op = "PushRegisters" -> [val |-> 0, reg |-> 1, vp |-> 0, byref |-> 0, arg |-> 0, frames |-> 0]
    [] op = "PopRegisters" -> [val |-> 0, reg |-> 0 - 1, vp |-> 0, byref |-> 0, arg |-> 0, frames |-> 0]
    [] op = "VarPathName" -> [val |-> 0, reg |-> 0, vp |-> 1, byref |-> 0, arg |-> 0, frames |-> 0]
    [] op \in {"CopyAToVarPath", "PopVarPath", "PushUnnamedByRef"} ->
         [val |-> 0, reg |-> 0, vp |-> 0 - 1, byref |-> 0, arg |-> 0, frames |-> 0]
    [] op = "BeginCollectArguments" -> [val |-> 0, reg |-> 0, vp |-> 0, byref |-> 0, arg |-> 1, frames |-> 0]
    [] op \in {"PushStack", "PushStaticStack"} -> [val |-> 0, reg |-> 0, vp |-> 0, byref |-> 0, arg |-> 0 - 1, frames |-> 1]
    [] op = "PopStack" -> [val |-> 0, reg |-> 0, vp |-> 0, byref |-> 0, arg |-> 0, frames |-> 0 - 1]
    [] op = "AllocateArrayIntoA" -> [val |-> 0, reg |-> 0, vp |-> 0, byref |-> 0, arg |-> 0 - 1, frames |-> 0]
    [] op = "EnqueueToReturnStack" -> [val |-> 0, reg |-> 0, vp |-> 0, byref |-> 1, arg |-> 0, frames |-> 0]
    [] op = "DequeueFromReturnStack" -> [val |-> 0, reg |-> 0, vp |-> 0, byref |-> 0 - 1, arg |-> 0, frames |-> 0]
    [] op \in {"Resume", "ResumeNext", "ResumeLabel"} -> [val |-> 0, reg |-> 0, vp |-> 0, byref |-> 0, arg |-> 0, frames |-> 0 - 1]
    [] op \in Neutral -> [val |-> 0, reg |-> 0, vp |-> 0, byref |-> 0, arg |-> 0, frames |-> 0]

Known == Neutral \cup {"PushAToValueStack", "PopValueStackIntoA", "PushRegisters", "PopRegisters", "VarPathName",
                       "CopyAToVarPath", "PopVarPath", "PushUnnamedByRef", "BeginCollectArguments", "PushStack",
                       "PushStaticStack", "PopStack", "AllocateArrayIntoA", "EnqueueToReturnStack",
                       "DequeueFromReturnStack", "Resume", "ResumeNext", "ResumeLabel"}

=============================================================================
