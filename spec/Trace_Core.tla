----------------------------- MODULE Trace_Core -----------------------------
(***************************************************************************)
(* Validation of recorded executions of the real interpreter against the     *)
(* reference semantics Core.  Every record                                  *)
(*   [id, prog, obs |-> [status, out, code, estmt, stack]]                  *)
(* is an initial state; the spec's own actions run the recorded program to   *)
(* completion and the verdict compares the spec's observables with the       *)
(* recorded ones.  Records without the field "obs" are answered with the    *)
(* spec's expectation (replay direction).                                   *)
(***************************************************************************)
EXTENDS Core, Json, IOUtils

Recs == ndJsonDeserialize(IOEnv.TRACE)
Fuel == 4000

VARIABLES idx, st
vars == <<idx, st>>

Init == idx \in 1..Len(Recs) /\ st = Start(Recs[idx].prog, Fuel)

\* one disjunct per kind of step, so that -coverage reports how often each ran
StepOf(kinds) == NextKind(st) \in kinds /\ st' = Step(st) /\ UNCHANGED idx
Assign == StepOf({"let", "const", "dim"})
PrintStmt == StepOf({"print"})
Branch == StepOf({"if", "select"})
LoopEnter == StepOf({"for", "while", "do"})
LoopBack == StepOf({"next", "loop"})
BlockEnd == StepOf({"blockend"})
Data == StepOf({"read", "data", "label", "rem"})
Jump == StepOf({"goto", "gosub", "return"})
Handler == StepOf({"onerror", "resume"})
CallRet == StepOf({"call", "ret", "exit"})
Halt == StepOf({"end", "halt"})
Next == Assign \/ PrintStmt \/ Branch \/ LoopEnter \/ LoopBack \/ BlockEnd \/ Data \/ Jump
        \/ Handler \/ CallRet \/ Halt

Spec == Init /\ [][Next]_vars

Agree(o, r) ==
  /\ o.status = r.status
  /\ o.out = r.out
  /\ (o.status = "err" => o.code = r.code /\ o.estmt = r.estmt /\ o.stack = r.stack)
  /\ (o.status = "reject" /\ o.code # 0 => o.code = r.code /\ o.estmt = r.estmt)

Line(tag, extra) == PrintT(tag \o " " \o ToString(Recs[idx].id) \o " " \o extra)

Verdict ==
  Done(st) =>
    IF st.status \in {"skip", "fuel"} THEN Line("SKIP", st.status)
    ELSE IF ~("obs" \in DOMAIN Recs[idx]) THEN Line("EXPECT", ToJson(Obs(st)))
    ELSE IF Agree(Obs(st), Recs[idx].obs) THEN Line("AGREE", ToString(Fuel - st.fuel))
    ELSE Line("MISMATCH", ToJson(Obs(st)))

\* invariants of the oracle, evaluated in every state of every recorded run
OracleOK == TypeOK(st) /\ FixOK(st) /\ ColOK(st)
=============================================================================
