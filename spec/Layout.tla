------------------------------- MODULE Layout -------------------------------
(***************************************************************************)
(* Layout transformations (C09).  A program is a sequence of tokens           *)
(*   [k |-> kind, id |-> identity of the token's text up to letter case]       *)
(* kinds: "word" (keyword / identifier), "blank" (a run of blanks where one     *)
(* is allowed), "eol" (line end), "colon" (statement separator), "other".       *)
(* A SITE is a token position where a move applies:                             *)
(*   word  : case (upper / lower / mixed)                                        *)
(*   blank : width (two blanks / a tab)                                          *)
(*   eol   : a blank line after it / a trailing comment or a blank before it /    *)
(*           (when flagged joinable) replaced by a colon                         *)
(*   colon : (when flagged splittable) replaced by a line end                    *)
(*   other : (when flagged) a blank inserted before / after / around a comma,     *)
(*           semicolon or operator sign where the source has none                 *)
(* plus the line-ending convention of the whole file.  Moves only change the     *)
(* attributes case, width, extra; Canon forgets exactly those, so every move      *)
(* preserves Canon - the moves are meaning-preserving by the spec's own           *)
(* definition of the token structure (checked by TLC as an invariant).            *)
(*                                                                             *)
(* The seeds (token kinds and flags per position) come from IOEnv.SEEDS; TLC      *)
(* enumerates every subset of up to MaxSites sites with every move, and the       *)
(* all-at-once variants; the driver materialises the texts.                        *)
(***************************************************************************)
EXTENDS Integers, Sequences, FiniteSets, TLC, Json, IOUtils

CONSTANT MaxSites
Seeds == ndJsonDeserialize(IOEnv.SEEDS)

MovesAt(tk) ==
  CASE tk.k = "word" -> {"upper", "lower", "mixed"}
    [] tk.k = "blank" -> {"two", "tab"} \cup (IF tk.drop THEN {"none"} ELSE {})    \* none: the blank is left out
    \* commentline: a comment on a line of its own follows; commentblank / commentlineblank: a trailing comment / a
    \* comment line, and then a blank line; jointight / joinleft: the colon without blanks / with a blank only before it
    [] tk.k = "eol" -> {"blankline", "comment", "trailblank", "commentline", "commentblank", "commentlineblank"}
                       \cup (IF tk.join THEN {"join", "joinleft"} ELSE {}) \cup (IF tk.join /\ tk.tight THEN {"jointight"} ELSE {})
    [] tk.k = "colon" -> (IF tk.pad THEN {"pad", "padleft"} ELSE {}) \cup (IF tk.split THEN {"split"} ELSE {})
    \* a blank where the source has none but one is allowed: before / after / around a comma, a semicolon, an operator sign
    [] tk.k = "other" -> (IF tk.ins THEN {"insl", "insr", "insboth"} ELSE {})
    [] OTHER -> {}

\* the token after a move: only layout attributes change
Apply(tk, mv) ==
  CASE mv \in {"upper", "lower", "mixed"} -> [tk EXCEPT !.case = mv]
    [] mv \in {"two", "tab", "none"} -> [tk EXCEPT !.width = mv]
    [] mv \in {"blankline", "comment", "trailblank", "commentline", "commentblank", "commentlineblank"} -> [tk EXCEPT !.extra = mv]
    [] mv \in {"pad", "padleft", "insl", "insr", "insboth"} -> [tk EXCEPT !.width = mv]
    [] mv \in {"join", "jointight", "joinleft"} -> [tk EXCEPT !.k = "colon"]
    [] mv = "split" -> [tk EXCEPT !.k = "eol"]

\* what a token means: its kind up to separator unification, and its text up to case
CanonTok(tk) == [k |-> IF tk.k \in {"eol", "colon"} THEN "sep" ELSE tk.k, id |-> tk.id]
Canon(toks) == [i \in 1..Len(toks) |-> CanonTok(toks[i])]

VARIABLES s, sites, eolkind, mode
vars == <<s, sites, eolkind, mode>>

SiteSet(q) == {i \in 1..Len(Seeds[q].toks) : MovesAt(Seeds[q].toks[i]) # {}}

Init ==
  /\ s \in 1..Len(Seeds)
  /\ eolkind \in {"crlf", "lf", "cr"}
  /\ \/ /\ mode = "subset"          \* one site, or (MaxSites = 2) an ordered pair of sites, with every move
        /\ \E i \in SiteSet(s) : \E mi \in MovesAt(Seeds[s].toks[i]) :
              \/ sites = (i :> mi)
              \/ /\ MaxSites >= 2 /\ Seeds[s].pairs       \* pairs of sites only for the seeds the driver marked (the short ones)
                 /\ \E j \in {x \in SiteSet(s) : x > i} : \E mj \in MovesAt(Seeds[s].toks[j]) :
                       sites = (i :> mi) @@ (j :> mj)
     \/ /\ mode = "all"          \* every site moved at once, one choice of move per kind
        /\ \E cw \in {"upper", "lower", "mixed"}, bw \in {"two", "tab"}, ew \in {"blankline", "comment", "trailblank", "commentline", "commentblank", "commentlineblank"} :
              sites = [i \in SiteSet(s) |->
                         LET tk == Seeds[s].toks[i] IN
                         IF tk.k = "word" THEN cw ELSE IF tk.k = "blank" THEN bw
                         ELSE IF tk.k = "eol" THEN ew ELSE IF tk.k = "other" THEN "insboth" ELSE IF tk.split THEN "split" ELSE "pad"]
     \/ /\ mode = "alljoin"      \* every line end that may become a colon does: whole constructs end up on one line
        /\ sites = [i \in {x \in SiteSet(s) : Seeds[s].toks[x].k = "eol" /\ Seeds[s].toks[x].join} |-> "join"]
        /\ DOMAIN sites # {}
     \/ /\ mode = "eolonly" /\ sites = [i \in {} |-> ""]
Next == UNCHANGED vars
Spec == Init /\ [][Next]_vars

Variant == [i \in 1..Len(Seeds[s].toks) |->
              IF i \in DOMAIN sites THEN Apply(Seeds[s].toks[i], sites[i]) ELSE Seeds[s].toks[i]]

CanonPreserved == Canon(Variant) = Canon(Seeds[s].toks)

RECURSIVE ShowSites(_)
ShowSites(S) ==
  IF S = {} THEN ""
  ELSE LET i == CHOOSE x \in S : \A y \in S : x <= y IN
       ToString(i) \o "=" \o sites[i] \o (IF S = {i} THEN "" ELSE ",") \o ShowSites(S \ {i})
Emit == PrintT("VARIANT " \o ToString(Seeds[s].id) \o " " \o eolkind \o " " \o mode \o " " \o ShowSites(DOMAIN sites))
=============================================================================
