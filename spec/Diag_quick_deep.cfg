SPECIFICATION Spec
CONSTANT MaxCall = 1
CONSTANT MaxNest = 1
CONSTANT Rich = FALSE
CONSTANT FaultSel = "base"
INVARIANT TypeOK
INVARIANT WellFormed
INVARIANT Emit
CHECK_DEADLOCK FALSE
