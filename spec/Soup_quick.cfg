SPECIFICATION Spec
CONSTANTS NTok = 48 MaxLen = 2
INVARIANT Emit
CHECK_DEADLOCK FALSE
