SPECIFICATION Spec
CONSTANTS NTok = 111 MaxLen = 2
INVARIANT Emit
CHECK_DEADLOCK FALSE
