--------------------------------- MODULE PC ---------------------------------
(***************************************************************************)
(* Denotational model of the parser combinator library, written from the     *)
(* documentation of each combinator and from the contract of property C20,    *)
(* not from the code.                                                        *)
(*                                                                           *)
(*   Eval(t, inp, pos) = [c |-> "ok" | "soft" | "fatal",                      *)
(*                        v |-> output (a sequence of characters) when ok,    *)
(*                        e |-> error code when not ok,                       *)
(*                        pos |-> input position afterwards]                  *)
(*                                                                           *)
(* Outputs are flattened to character sequences: a pair is the concatenation, *)
(* a list the concatenation of its elements, "no value" the empty sequence.   *)
(* Error codes: 0 default soft error; 1/9 the soft/fatal error suppliers;     *)
(* 2 with_soft_err; 8 or_fail; 7 map_fatal_err; 6 trailing delimiter;         *)
(* 3/5 soft/fatal errors returned by and_then mappers.                        *)
(***************************************************************************)
EXTENDS Integers, Sequences

A == 97
B == 98

Ok(v, pos) == [c |-> "ok", v |-> v, e |-> 0, pos |-> pos]
Soft(e, pos) == [c |-> "soft", v |-> <<>>, e |-> e, pos |-> pos]
Fatal(e, pos) == [c |-> "fatal", v |-> <<>>, e |-> e, pos |-> pos]
IsOk(r) == r.c = "ok"
IsSoft(r) == r.c = "soft"
IsFatal(r) == r.c = "fatal"
ToFatal(r) == IF IsSoft(r) THEN [r EXCEPT !.c = "fatal"] ELSE r
At(r, pos) == [r EXCEPT !.pos = pos]

\* the predicate used by filter / filter_map and by the failing and_then mapper
StartsWithA(v) == v # <<>> /\ v[1] = A
StartsWithB(v) == v # <<>> /\ v[1] = B

Eof(inp, pos) == pos >= Len(inp)        \* positions are 0-based offsets

RECURSIVE Eval(_, _, _), Many(_, _, _, _, _), Delim(_, _, _, _, _, _, _), ManyCtx(_, _, _, _, _)

\* repetition: the maximal run of successes of p starting at pos
\*   acc: output so far; n: number of successes so far
Many(p, inp, pos, acc, n) ==
  LET r == Eval(p, inp, pos) IN
  IF IsOk(r) THEN
    (IF r.pos = pos /\ n >= 8 THEN [c |-> "diverges", v |-> acc, e |-> 0, pos |-> pos]  \* non-consuming success
     ELSE Many(p, inp, r.pos, acc \o r.v, n + 1))
  ELSE IF IsFatal(r) THEN r
  ELSE [c |-> "end", v |-> acc, e |-> r.e, pos |-> pos, n |-> n]

\* context-carrying repetition over the dependent element (see the many_ctx terms)
ManyCtx(inp, pos, acc, n, fatalb) ==
  IF Eof(inp, pos) THEN [c |-> "end", v |-> acc, e |-> 0, pos |-> pos, n |-> n]
  ELSE LET x == inp[pos + 1] IN
       IF fatalb /\ x = B THEN Fatal(9, pos + 1)
       ELSE IF n > 0 /\ acc[Len(acc)] = x THEN [c |-> "end", v |-> acc, e |-> 0, pos |-> pos, n |-> n]
       ELSE ManyCtx(inp, pos + 1, Append(acc, x), n + 1, fatalb)

\* delimited list: elements p separated by d.  missing: elements may be absent
\*   last: "nothing" | "value" | "delim"
Delim(p, d, missing, inp, pos, acc, last) ==
  LET r == Eval(p, inp, pos) IN
  IF IsFatal(r) THEN r
  ELSE IF r.c = "diverges" THEN r
  ELSE
    LET gotvalue == IsOk(r)
        p1 == IF gotvalue THEN r.pos ELSE pos
        acc1 == IF gotvalue THEN acc \o r.v ELSE acc
        last1 == IF gotvalue THEN "value" ELSE last
        s == Eval(d, inp, p1)
    IN IF IsFatal(s) THEN s
       ELSE IF IsOk(s) THEN
         (IF ~gotvalue /\ ~missing THEN Fatal(6, s.pos)       \* a delimiter where an element must be
          ELSE IF s.pos = p1 /\ ~gotvalue THEN [c |-> "diverges", v |-> acc1, e |-> 0, pos |-> p1]
          ELSE IF s.pos = p1 /\ r.pos = pos THEN [c |-> "diverges", v |-> acc1, e |-> 0, pos |-> p1]
          ELSE Delim(p, d, missing, inp, s.pos, acc1, "delim"))
       ELSE \* no further delimiter: the list ends here
         (IF last1 = "nothing" THEN Soft(0, pos)
          ELSE IF last1 = "value" THEN Ok(acc1, p1)
          ELSE Fatal(6, p1))                                 \* trailing delimiter

Eval(t, inp, pos) ==
  CASE t.op = "read" -> IF Eof(inp, pos) THEN Soft(0, pos) ELSE Ok(<<inp[pos + 1]>>, pos + 1)
    [] t.op = "peekp" -> IF Eof(inp, pos) THEN Soft(0, pos) ELSE Ok(<<inp[pos + 1]>>, pos)
    [] t.op = "one" -> IF ~Eof(inp, pos) /\ inp[pos + 1] = A THEN Ok(<<A>>, pos + 1) ELSE Soft(0, pos)
    [] t.op = "oneof" -> IF ~Eof(inp, pos) /\ inp[pos + 1] \in {A, B} THEN Ok(<<inp[pos + 1]>>, pos + 1) ELSE Soft(0, pos)
    [] t.op = "sup" -> Ok(<<>>, pos)
    [] t.op = "softfail" -> Soft(1, pos)
    [] t.op = "fatalfail" -> Fatal(9, pos)
    \* ---- decorators that pass results and positions through
    [] t.op = "map" -> LET r == Eval(t.p, inp, pos) IN IF IsOk(r) THEN Ok(r.v \o <<33>>, r.pos) ELSE r
    [] t.op = "lazy" -> Eval(t.p, inp, pos)
    [] t.op = "to_fatal" -> ToFatal(Eval(t.p, inp, pos))
    [] t.op = "with_soft_err" -> LET r == Eval(t.p, inp, pos) IN IF IsSoft(r) THEN Soft(2, r.pos) ELSE r
    [] t.op = "or_fail" -> LET r == Eval(t.p, inp, pos) IN IF IsSoft(r) THEN Fatal(8, r.pos) ELSE r
    [] t.op = "map_fatal_err" -> LET r == Eval(t.p, inp, pos) IN IF IsFatal(r) THEN Fatal(7, r.pos) ELSE r
    \* and_then: the mapper may fail; the input is documented NOT to be backtracked
    [] t.op = "and_then_ok" -> LET r == Eval(t.p, inp, pos) IN IF IsOk(r) THEN Ok(r.v \o <<43>>, r.pos) ELSE r
    [] t.op = "and_then_soft" ->
         LET r == Eval(t.p, inp, pos) IN
         IF IsOk(r) THEN (IF StartsWithB(r.v) THEN Soft(3, r.pos) ELSE Ok(r.v, r.pos)) ELSE r
    [] t.op = "and_then_fatal" ->
         LET r == Eval(t.p, inp, pos) IN
         IF IsOk(r) THEN (IF StartsWithB(r.v) THEN Fatal(5, r.pos) ELSE Ok(r.v, r.pos)) ELSE r
    \* and_then_err: a soft error is mapped (here: recovered into an empty value)
    [] t.op = "and_then_err" -> LET r == Eval(t.p, inp, pos) IN IF IsSoft(r) THEN Ok(<<>>, r.pos) ELSE r
    \* ---- combinators under which a soft failure leaves the input where it started
    [] t.op \in {"filter", "filter_map"} ->
         LET r == Eval(t.p, inp, pos) IN
         IF IsOk(r) THEN (IF StartsWithA(r.v) THEN r ELSE Soft(0, pos))
         ELSE IF IsSoft(r) THEN At(r, pos) ELSE r
    [] t.op = "peek" ->
         LET r == Eval(t.p, inp, pos) IN IF IsFatal(r) THEN r ELSE At(r, pos)
    [] t.op \in {"to_option", "or_default"} ->
         LET r == Eval(t.p, inp, pos) IN IF IsSoft(r) THEN Ok(<<>>, pos) ELSE r
    [] t.op \in {"many1", "many0"} ->
         LET m == Many(t.p, inp, pos, <<>>, 0) IN
         IF m.c = "end" THEN
           (IF m.n = 0 THEN (IF t.op = "many0" THEN Ok(<<>>, pos) ELSE Soft(m.e, pos))
            ELSE Ok(m.v, m.pos))
         ELSE m
    \* a run of elements, each of which knows the one before it (its context): here an element is one character that
    \* must differ from the previous element; the first element knows the empty context.  "_fatal": the character b
    \* is a fatal error of the element (after consuming it)
    [] t.op \in {"many_ctx0", "many_ctx1", "many_ctx0_fatal"} ->
         LET m == ManyCtx(inp, pos, <<>>, 0, t.op = "many_ctx0_fatal") IN
         IF m.c = "end" THEN
           (IF m.n = 0 THEN (IF t.op = "many_ctx1" THEN Soft(0, pos) ELSE Ok(<<>>, pos))
            ELSE Ok(m.v, m.pos))
         ELSE m
    [] t.op \in {"and", "and_left", "and_right"} ->
         LET l == Eval(t.l, inp, pos) IN
         IF IsSoft(l) THEN At(l, pos)
         ELSE IF IsFatal(l) THEN l
         ELSE LET r == Eval(t.r, inp, l.pos) IN
              IF IsOk(r) THEN Ok(IF t.op = "and" THEN l.v \o r.v ELSE IF t.op = "and_left" THEN l.v ELSE r.v, r.pos)
              ELSE IF IsSoft(r) THEN At(r, pos)          \* the left side is undone
              ELSE r
    [] t.op \in {"or", "orbox"} ->
         LET l == Eval(t.l, inp, pos) IN
         IF IsOk(l) \/ IsFatal(l) THEN l
         ELSE LET r == Eval(t.r, inp, pos) IN            \* from the original position
              IF IsSoft(r) THEN At(r, pos) ELSE r
    [] t.op = "seq2" ->
         LET l == Eval(t.l, inp, pos) IN
         IF ~IsOk(l) THEN l
         ELSE LET r == Eval(t.r, inp, l.pos) IN
              IF IsOk(r) THEN Ok(l.v \o r.v, r.pos) ELSE ToFatal(r)
    [] t.op = "then_with" ->   \* the right side receives the left output as context and is complete
         LET l == Eval(t.p, inp, pos) IN IF IsOk(l) THEN Ok(l.v \o l.v, l.pos) ELSE l
    \* the right side is the dependent element with the left output as its context: it reads one character, and rejects
    \* it - softly, without consuming - when the left output is exactly that character (softly too at the end of the
    \* input); a failure of the right side of then_with is fatal whatever it was
    [] t.op = "then_dep" ->
         LET l == Eval(t.p, inp, pos) IN
         IF ~IsOk(l) THEN l
         ELSE IF Eof(inp, l.pos) THEN Fatal(0, l.pos)
         ELSE IF l.v = <<inp[l.pos + 1]>> THEN Fatal(0, l.pos)
         ELSE Ok(Append(l.v, inp[l.pos + 1]), l.pos + 1)
    [] t.op = "surround_opt" ->
         LET l == Eval(t.l, inp, pos) IN
         IF IsFatal(l) THEN l
         ELSE LET p1 == IF IsOk(l) THEN l.pos ELSE pos
                  m == Eval(t.p, inp, p1)
              IN IF IsFatal(m) THEN m
                 ELSE IF IsSoft(m) THEN At(m, pos)       \* the left boundary is reverted
                 ELSE LET r == Eval(t.r, inp, m.pos) IN
                      IF IsFatal(r) THEN r ELSE Ok(m.v, IF IsOk(r) THEN r.pos ELSE m.pos)
    [] t.op = "surround_mand" ->
         LET l == Eval(t.l, inp, pos) IN
         IF IsFatal(l) THEN l
         ELSE IF IsSoft(l) THEN At(l, pos)
         ELSE LET m == Eval(t.p, inp, l.pos) IN
              IF ~IsOk(m) THEN ToFatal(m)
              ELSE LET r == Eval(t.r, inp, m.pos) IN
                   IF ~IsOk(r) THEN ToFatal(r) ELSE Ok(m.v, r.pos)
    [] t.op = "delimited" -> Delim(t.l, t.r, FALSE, inp, pos, <<>>, "nothing")
    [] t.op = "delimited_opt" -> Delim(t.l, t.r, TRUE, inp, pos, <<>>, "nothing")

(***************************************************************************)
(* The contract clauses of C20, as predicates over a term and an input.       *)
(***************************************************************************)
Undoing == {"filter", "filter_map", "peek", "to_option", "or_default", "many1", "many0",
            "and", "and_left", "and_right", "or", "orbox", "surround_opt"}

\* a soft failure of an undoing combinator leaves the input where it started
SoftKeepsPos(t, inp, pos) ==
  LET r == Eval(t, inp, pos) IN (t.op \in Undoing /\ IsSoft(r)) => r.pos = pos

\* a success never moves the position backwards
NeverBackwards(t, inp, pos) ==
  LET r == Eval(t, inp, pos) IN IsOk(r) => r.pos >= pos
=============================================================================
