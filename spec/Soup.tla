-------------------------------- MODULE Soup --------------------------------
(* The input spaces of C07 as state spaces: (a) token soups - every sequence of    *)
(* up to MaxLen tokens over an alphabet of NTok token classes; (b) the mutation      *)
(* neighbourhood of seed programs - every delete / duplicate / swap / truncate at     *)
(* every token position of every seed (the seeds' lengths come from IOEnv.SEEDS).     *)
(* TLC enumerates the states and prints one line per state; the driver materialises   *)
(* the text (token texts and seeds are its data) and runs the real parser + checker.  *)
EXTENDS Integers, Sequences, TLC, Json, IOUtils

CONSTANTS NTok, MaxLen,
          NTokLong       \* the alphabet of the soups of the greatest length (the first NTokLong classes): keeps the space in reach
SeedLens == ndJsonDeserialize(IOEnv.SEEDS)[1].lens

VARIABLES kind, a, b, c
vars == <<kind, a, b, c>>

Ops == {"delete", "duplicate", "swap", "truncate"}

Init ==
  \/ /\ kind = "soup" /\ b = 0 /\ c = ""
     /\ \E n \in 1..MaxLen : a \in [1..n -> 1..(IF n = MaxLen /\ MaxLen > 2 THEN NTokLong ELSE NTok)]
  \/ /\ kind = "mutation" /\ a \in 1..Len(SeedLens) /\ b \in 1..SeedLens[a] /\ c \in Ops
Next == UNCHANGED vars
Spec == Init /\ [][Next]_vars

RECURSIVE Join(_)
Join(s) == IF s = <<>> THEN "" ELSE IF Len(s) = 1 THEN ToString(s[1]) ELSE ToString(s[1]) \o "," \o Join(Tail(s))
Emit == IF kind = "soup" THEN PrintT("SOUP " \o Join(a))
        ELSE PrintT("MUT " \o ToString(a) \o " " \o ToString(b) \o " " \o c)
=============================================================================
