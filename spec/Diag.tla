-------------------------------- MODULE Diag --------------------------------
(***************************************************************************)
(* The space of C11 cases: an accepted program skeleton with ONE fault injected.  *)
(* A case is built step by step (one dimension per step), so that TLC can either   *)
(* enumerate the whole space of a configuration (BFS) or sample deep histories     *)
(* (-simulate).  The final state of a behaviour is a case; the driver renders it   *)
(* (lib/props/c11.py), runs the real pipeline and Trace_Diag.tla judges the          *)
(* diagnostic.                                                                     *)
(*                                                                                 *)
(*   fault  : what is injected and at which stage it must be reported, with the      *)
(*            admissible error families; form = how the statement sits in a line     *)
(*            (simple; ifline = a one-line IF, which cannot sit in another one-line   *)
(*            IF; header / closer / inner = a line of a block construct)              *)
(*   chain  : the procedures between the main module and the fault (call depth);      *)
(*            mods: each one plain, STATIC or recursive through one call site         *)
(*   nest   : the blocks around the fault statement (nesting depth); "oneline" is     *)
(*            IF .. THEN <statement> on one line                                      *)
(*   csnest : the block around every call site;  csform : spelling of the call       *)
(*   layout : blank lines / comment lines before the line, statements joined with     *)
(*            colons before / after it, trailing comment, indentation, line-ending     *)
(*            convention (one of the three, or mixed per line), noise lines before     *)
(*            each procedure                                                          *)
(*   prior  : a handled and resumed run-time error happens before the fault            *)
(*   helpers: calls that have already returned before each call site and the fault     *)
(***************************************************************************)
EXTENDS Integers, Sequences, FiniteSets, TLC, Json

CONSTANTS MaxCall, MaxNest, Rich,
          FaultSel      \* "base" = the named faults, "all" = also every host statement x fault expression

BaseFaults == {
  [n |-> "s-missing-operand", stage |-> "parse", fams |-> {"SyntaxError"}, form |-> "simple"],
  [n |-> "s-unbalanced", stage |-> "parse", fams |-> {"SyntaxError"}, form |-> "simple"],
  [n |-> "s-missing-then", stage |-> "parse", fams |-> {"SyntaxError"}, form |-> "ifline"],
  [n |-> "s-missing-to", stage |-> "parse", fams |-> {"SyntaxError"}, form |-> "header"],
  [n |-> "s-illegal-char", stage |-> "parse", fams |-> {"SyntaxError"}, form |-> "simple"],
  [n |-> "s-two-operands", stage |-> "parse", fams |-> {"SyntaxError"}, form |-> "simple"],
  [n |-> "s-dim-noname", stage |-> "parse", fams |-> {"SyntaxError"}, form |-> "simple"],
  [n |-> "s-goto-nolabel", stage |-> "parse", fams |-> {"SyntaxError"}, form |-> "simple"],
  [n |-> "s-open-call", stage |-> "parse", fams |-> {"SyntaxError"}, form |-> "simple"],
  [n |-> "s-bad-assign", stage |-> "parse", fams |-> {"SyntaxError"}, form |-> "simple"],
  \* a string literal that is not closed runs to the end of its line: nothing else can stand behind it there ("toeol")
  [n |-> "s-open-quote", stage |-> "parse", fams |-> {"SyntaxError"}, form |-> "toeol"],
  [n |-> "s-open-quote-2", stage |-> "parse", fams |-> {"SyntaxError"}, form |-> "toeol"],
  [n |-> "s-open-quote-if", stage |-> "parse", fams |-> {"SyntaxError"}, form |-> "toeol"],
  [n |-> "t-assign-str", stage |-> "lint", fams |-> {"TypeMismatch", "ArgumentTypeMismatch"}, form |-> "simple"],
  [n |-> "t-assign-num", stage |-> "lint", fams |-> {"TypeMismatch", "ArgumentTypeMismatch"}, form |-> "simple"],
  [n |-> "t-binary", stage |-> "lint", fams |-> {"TypeMismatch", "ArgumentTypeMismatch"}, form |-> "simple"],
  [n |-> "t-cond", stage |-> "lint", fams |-> {"TypeMismatch", "ArgumentTypeMismatch"}, form |-> "ifline"],
  [n |-> "t-argtype", stage |-> "lint", fams |-> {"TypeMismatch", "ArgumentTypeMismatch"}, form |-> "simple"],
  [n |-> "t-while", stage |-> "lint", fams |-> {"TypeMismatch", "ArgumentTypeMismatch"}, form |-> "header"],
  [n |-> "l-goto", stage |-> "lint", fams |-> {"LabelNotDefined", "IllegalInSubFunction"}, form |-> "simple"],
  [n |-> "l-gosub", stage |-> "lint", fams |-> {"LabelNotDefined", "IllegalInSubFunction"}, form |-> "simple"],
  [n |-> "l-onerror", stage |-> "lint", fams |-> {"LabelNotDefined", "IllegalInSubFunction"}, form |-> "simple"],
  [n |-> "l-resume", stage |-> "lint", fams |-> {"LabelNotDefined", "IllegalInSubFunction"}, form |-> "simple"],
  [n |-> "a-sub", stage |-> "lint", fams |-> {"ArgumentCountMismatch"}, form |-> "simple"],
  [n |-> "a-fun", stage |-> "lint", fams |-> {"ArgumentCountMismatch"}, form |-> "simple"],
  [n |-> "a-builtin", stage |-> "lint", fams |-> {"ArgumentCountMismatch"}, form |-> "simple"],
  [n |-> "a-sub-shift", stage |-> "lint", fams |-> {"ArgumentCountMismatch"}, form |-> "simple"],
  [n |-> "a-fun-shift", stage |-> "lint", fams |-> {"ArgumentCountMismatch"}, form |-> "simple"],
  [n |-> "a-sub-extra-front", stage |-> "lint", fams |-> {"ArgumentCountMismatch"}, form |-> "simple"],
  [n |-> "a-builtin2", stage |-> "lint", fams |-> {"ArgumentCountMismatch"}, form |-> "simple"],
  [n |-> "r-div", stage |-> "run", fams |-> {"DivisionByZero"}, form |-> "simple"],
  [n |-> "r-mod", stage |-> "run", fams |-> {"DivisionByZero"}, form |-> "simple"],
  [n |-> "r-div-if", stage |-> "run", fams |-> {"DivisionByZero"}, form |-> "header"],
  [n |-> "r-div-for", stage |-> "run", fams |-> {"DivisionByZero"}, form |-> "header"],
  [n |-> "r-div-while", stage |-> "run", fams |-> {"DivisionByZero"}, form |-> "header"],
  [n |-> "r-div-select", stage |-> "run", fams |-> {"DivisionByZero"}, form |-> "header"],
  [n |-> "r-div-case", stage |-> "run", fams |-> {"DivisionByZero"}, form |-> "inner"],
  [n |-> "r-div-elseif", stage |-> "run", fams |-> {"DivisionByZero"}, form |-> "inner"],
  [n |-> "r-div-until", stage |-> "run", fams |-> {"DivisionByZero"}, form |-> "closer"],
  [n |-> "r-div-arg", stage |-> "run", fams |-> {"DivisionByZero"}, form |-> "simple"],
  [n |-> "r-div-print", stage |-> "run", fams |-> {"DivisionByZero"}, form |-> "simple"],
  [n |-> "r-sub-write", stage |-> "run", fams |-> {"SubscriptOutOfRange"}, form |-> "simple"],
  [n |-> "r-sub-read", stage |-> "run", fams |-> {"SubscriptOutOfRange"}, form |-> "simple"],
  [n |-> "r-ovf-add", stage |-> "run", fams |-> {"Overflow"}, form |-> "simple"],
  [n |-> "r-ovf-mul", stage |-> "run", fams |-> {"Overflow"}, form |-> "simple"],
  [n |-> "r-ovf-assign", stage |-> "run", fams |-> {"Overflow"}, form |-> "simple"],
  [n |-> "r-ifc", stage |-> "run", fams |-> {"IllegalFunctionCall"}, form |-> "simple"],
  [n |-> "r-ifc-mid", stage |-> "run", fams |-> {"IllegalFunctionCall"}, form |-> "simple"] }

\* the fault as an EXPRESSION placed at every kind of syntactic position of a host statement
Hosts == {
  [n |-> "h-assign", form |-> "simple"],
  [n |-> "h-assign-nested", form |-> "simple"],
  [n |-> "h-print", form |-> "simple"],
  [n |-> "h-print-comma", form |-> "simple"],
  [n |-> "h-subarg", form |-> "simple"],
  [n |-> "h-funarg", form |-> "simple"],
  [n |-> "h-subscript-r", form |-> "simple"],
  [n |-> "h-subscript-w", form |-> "simple"],
  [n |-> "h-builtin", form |-> "simple"],
  [n |-> "h-unary", form |-> "simple"],
  [n |-> "h-not", form |-> "simple"],
  [n |-> "h-ifline", form |-> "ifline"],
  [n |-> "h-dim", form |-> "simple"],
  [n |-> "h-if", form |-> "header"],
  [n |-> "h-while", form |-> "header"],
  [n |-> "h-for-lo", form |-> "header"],
  [n |-> "h-for-hi", form |-> "header"],
  [n |-> "h-for-step", form |-> "header"],
  [n |-> "h-select", form |-> "header"],
  [n |-> "h-dowhile", form |-> "header"],
  [n |-> "h-dountil", form |-> "header"],
  [n |-> "h-case", form |-> "inner"],
  [n |-> "h-case-range", form |-> "inner"],
  [n |-> "h-case-is", form |-> "inner"],
  [n |-> "h-elseif", form |-> "inner"],
  [n |-> "h-until", form |-> "closer"],
  [n |-> "h-loopwhile", form |-> "closer"] }
Exprs == {
  [n |-> "e-div", stage |-> "run", fams |-> {"DivisionByZero"}],
  [n |-> "e-mod", stage |-> "run", fams |-> {"DivisionByZero"}],
  [n |-> "e-ovf", stage |-> "run", fams |-> {"Overflow"}],
  [n |-> "e-sub", stage |-> "run", fams |-> {"SubscriptOutOfRange"}],
  [n |-> "e-ifc", stage |-> "run", fams |-> {"IllegalFunctionCall"}],
  [n |-> "e-str", stage |-> "lint", fams |-> {"TypeMismatch", "ArgumentTypeMismatch"}],
  [n |-> "e-argc", stage |-> "lint", fams |-> {"ArgumentCountMismatch"}],
  [n |-> "e-argc-b", stage |-> "lint", fams |-> {"ArgumentCountMismatch"}] }
ProductFaults == {[n |-> h.n \o "|" \o e.n, stage |-> e.stage, fams |-> e.fams, form |-> h.form] : h \in Hosts, e \in Exprs}
Faults == IF FaultSel = "all" THEN BaseFaults \cup ProductFaults ELSE BaseFaults

BlockKinds == {"if", "else", "elseif", "for", "while", "do", "dowhile", "select", "caseelse"}
ProcKinds == {"sub", "fun"}
SeqsUpTo(S, n) == UNION {[1..k -> S] : k \in 0..n}

\* layout dimensions: reduced sets for exhaustive enumeration, full sets for sampling
Blank == IF Rich THEN 0..2 ELSE {0}
Cmt == IF Rich THEN 0..1 ELSE {0}
Joined == IF Rich THEN {<<b, a, t>> : b \in 0..2, a \in 0..1, t \in 0..1}
          ELSE {<<0, 0, 0>>, <<1, 1, 1>>}
Indent == IF Rich THEN {"none", "two", "tab"} ELSE {"two"}
\* (the deep exhaustive configuration of the quick tier keeps two of the four conventions: the wide one has all four)
Eol == IF FaultSel = "base" /\ MaxCall = 1 /\ MaxNest = 1 /\ ~Rich THEN {"crlf", "mixed"} ELSE {"crlf", "lf", "cr", "mixed"}
Pre == IF Rich THEN 0..3 ELSE {0}
CsNest == IF Rich THEN {"none", "if", "for", "select", "oneline"} ELSE {"none"}
\* 1: a division by zero, 2: a failing built-in function (which has a context and a call-stack entry of its own)
\* 3: the earlier error happens two procedures deep and is answered with RESUME label (the procedures are abandoned)
Prior == IF Rich THEN 0..3 ELSE IF FaultSel = "base" THEN {0, 2, 3} ELSE {0}
\* calls that have already RETURNED before each call site and before the fault (the call stack must forget them)
Helpers == IF Rich THEN 0..2 ELSE {1}
\* how each procedure of the chain is declared / entered: plain; STATIC (its own kind of activation record); "rec": it
\* first calls itself twice through ONE call site (the same call site is active several times, in a row); "recback": the same,
\* but the innermost activation returns and the fault happens one level up (the call site has been left once and is active once)
\* (exhaustive configurations: only where the nesting dimension is small, or the product is out of reach)
Mods == IF Rich \/ (FaultSel = "base" /\ MaxNest <= 1 /\ MaxCall <= 1) \/ (FaultSel = "base" /\ MaxNest = 0)
        THEN {"plain", "static", "rec", "recback"} ELSE {"plain"}

VARIABLES phase, c
vars == <<phase, c>>

Init == phase = "fault" /\ c = [fault |-> "", stage |-> "", fams |-> {}, form |-> ""]

PickFault ==
  /\ phase = "fault"
  /\ \E f \in Faults : c' = [fault |-> f.n, stage |-> f.stage, fams |-> f.fams, form |-> f.form]
  /\ phase' = "chain"

PickChain ==
  /\ phase = "chain"
  /\ \E ch \in SeqsUpTo(ProcKinds, MaxCall) : \E cs \in CsNest : \E cf \in 0..(IF Rich THEN 1 ELSE 0) : \E hp \in Helpers :
     \E md \in [1..Len(ch) -> Mods] :
        c' = c @@ [chain |-> ch, mods |-> md, csnest |-> IF ch = <<>> THEN "none" ELSE cs, csform |-> IF ch = <<>> THEN 0 ELSE cf, helpers |-> hp]
  /\ phase' = "nest"

\* "oneline" only innermost and only around a statement that is a whole simple statement
PickNest ==
  /\ phase = "nest"
  /\ \E ns \in SeqsUpTo(BlockKinds, MaxNest) : \E ol \in BOOLEAN :
        /\ ol => (c.form = "simple" /\ Len(ns) < MaxNest + 1)
        /\ c' = c @@ [nest |-> IF ol THEN Append(ns, "oneline") ELSE ns]
  /\ phase' = "layout"

\* statements may be joined before / after the fault only where the language allows it
PickLayout ==
  /\ phase = "layout"
  /\ \E bl \in Blank, cm \in Cmt, j \in Joined :
        c' = c @@ [blank |-> bl, cmt |-> cm,
                   before |-> IF c.form = "inner" THEN 0 ELSE j[1],
                   after |-> IF c.form \in {"inner", "header", "toeol"} THEN 0 ELSE j[2],
                   trail |-> IF c.form = "toeol" THEN 0 ELSE j[3]]
  /\ phase' = "file"

\* properties of the whole file
PickFile ==
  /\ phase = "file"
  /\ \E ind \in Indent, e \in Eol, pr \in Pre, mix \in 0..(IF Rich THEN 2 ELSE 0) :
        c' = c @@ [indent |-> ind, eol |-> e, pre |-> pr, mix |-> mix]
  /\ phase' = "prior"

\* a prior handled error only matters when the program runs up to the fault
PickPrior ==
  /\ phase = "prior"
  /\ \E p \in Prior : c' = c @@ [prior |-> IF c.stage = "run" THEN p ELSE 0]
  /\ phase' = "done"

Next == PickFault \/ PickChain \/ PickNest \/ PickLayout \/ PickFile \/ PickPrior
Spec == Init /\ [][Next]_vars

\* sanity of the space itself
TypeOK == phase \in {"fault", "chain", "nest", "layout", "file", "prior", "done"}
WellFormed ==
  phase = "done" =>
    /\ Len(c.chain) <= MaxCall /\ Len(c.mods) = Len(c.chain)
    /\ (c.form \in {"inner", "header"} => c.after = 0)
    /\ (c.form = "inner" => c.before = 0)
    /\ (\E i \in 1..Len(c.nest) : c.nest[i] = "oneline") => (c.form = "simple" /\ c.nest[Len(c.nest)] = "oneline")

Emit == phase = "done" => PrintT("CASE " \o ToJson(c))
=============================================================================
