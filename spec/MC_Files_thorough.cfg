SPECIFICATION Spec
CONSTANT MaxOps = 7
INVARIANT TableOK
INVARIANT ErrorChangesNothing
INVARIANT OpenModes
INVARIANT PrintAppends
INVARIANT CloseFrees
INVARIANT EofExact
CHECK_DEADLOCK FALSE
