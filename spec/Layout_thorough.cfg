SPECIFICATION Spec
CONSTANT MaxSites = 2
INVARIANT CanonPreserved
INVARIANT Emit
CHECK_DEADLOCK FALSE
