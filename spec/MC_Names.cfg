SPECIFICATION Spec
INVARIANT DefaultIsSingle
INVARIANT BareIsDefault
INVARIANT SuffixesDistinct
INVARIANT ExtendedExcludes
INVARIANT LocalByDefault
CHECK_DEADLOCK FALSE
