SPECIFICATION Spec
INVARIANT DefaultIsSingle
INVARIANT BareIsDefault
INVARIANT SuffixesDistinct
INVARIANT ExtendedExcludes
INVARIANT LocalByDefault
INVARIANT UseSiteIndifferent
CHECK_DEADLOCK FALSE
