SPECIFICATION Spec
CONSTANTS MaxDims = 3 MaxExtent = 4 LoNeg = 2 LoMax = 2
INVARIANT Agrees
INVARIANT InRange
INVARIANT Bijection
INVARIANT FrameCondition
CHECK_DEADLOCK FALSE
