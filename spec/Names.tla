-------------------------------- MODULE Names --------------------------------
(***************************************************************************)
(* Name resolution (C13): which variable a name denotes, and which uses the   *)
(* checker must reject.  A program is                                        *)
(*   [defs |-> <<[t, lo, hi]>>,   DEFINT/DEFLNG/DEFSNG/DEFDBL/DEFSTR lo-hi      *)
(*    main |-> <<stmt>>, sub |-> <<stmt>>,                                      *)
(*    params |-> << >> or <<[b, t, ext, argb]>>  one parameter of the SUB: name,   *)
(*              type, declared AS type (ext) or with a suffix, and the base name    *)
(*              of the caller's variable passed for it]                             *)
(* the SUB is called where main has [k |-> "call", args |-> <<[b, c, sfx]>>].   *)
(* Statements (b = base name in canonical upper case, c = code of its first     *)
(* letter, sfx in "", "I", "L", "S", "D", "$"):                                 *)
(*   [k |-> "let", b, c, sfx, id]     name = <value derived from id>            *)
(*   [k |-> "print", b, c, sfx]                                                 *)
(*   [k |-> "parg", b, c, sfx]        the name as an argument of a call to a    *)
(*                                     SUB that prints its parameter: what a name  *)
(*                                     denotes does not depend on where it is used *)
(*   [k |-> "dimas", b, c, t, shared]  DIM [SHARED] name AS type                *)
(*   [k |-> "dimsfx", b, c, sfx, shared] DIM [SHARED] name<sfx>                 *)
(*   [k |-> "const", b, c, sfx, id]                                             *)
(*   [k |-> "def", t, lo, hi]          a DEFtype statement in the middle of main:   *)
(*                                     it governs the names that FOLLOW it          *)
(*                                                                           *)
(* The oracle is three-valued: accept (with the printed output), reject (the   *)
(* checker must refuse the program) or unspec (the documents leave it open).   *)
(***************************************************************************)
EXTENDS Integers, Sequences, TLC

Types == {"I", "L", "S", "D", "$"}

\* the type a bare name gets: SINGLE unless a DEFtype range covers its first letter (last one wins)
RECURSIVE DefOf(_, _, _)
DefOf(defs, c, j) ==
  IF j = 0 THEN "S"
  ELSE IF c >= defs[j].lo /\ c <= defs[j].hi THEN defs[j].t ELSE DefOf(defs, c, j - 1)
DefaultType(defs, c) == DefOf(defs, c, Len(defs))

Empty == [x \in {} |-> 0]

\* declarations of one scope: ext[b] = type (DIM AS), cst[b] = [t, v], seen = {<<b, t>>} used so far,
\* prm[b] = set of parameter types
NewScope == [ext |-> Empty, cst |-> Empty, seen |-> {}]

\* where does <<b, t>> live when used in scope sc ("main" / "sub")?  shared variables live in main
Key(sc, b, t) == <<sc, b, t>>

(***************************************************************************)
(* Resolution of a use of name (b, c, sfx) in scope sc.                        *)
(*  st: [defs, g (global scope decls), l (sub scope decls), shared (set of      *)
(*       <<b, t>> shared from main), sharedext (set of b shared AS type)]       *)
(* Result: [r |-> "var", key] | [r |-> "const", v] | [r |-> "reject"]           *)
(***************************************************************************)
Resolve(st, sc, b, c, sfx) ==
  LET loc == IF sc = "main" THEN st.g ELSE st.l
      dflt == DefaultType(st.defs, c)
      ty == IF sfx = "" THEN dflt ELSE sfx
  IN
  \* a constant of this scope, or (inside the SUB) of the module
  IF b \in DOMAIN loc.cst THEN
       (IF sfx = "" \/ sfx = loc.cst[b].t THEN [r |-> "const", v |-> loc.cst[b].v] ELSE [r |-> "reject"])
  ELSE IF sc = "sub" /\ b \in DOMAIN st.g.cst /\ b \notin DOMAIN loc.ext /\ \A t \in Types : <<b, t>> \notin loc.seen THEN
       (IF sfx = "" \/ sfx = st.g.cst[b].t THEN [r |-> "const", v |-> st.g.cst[b].v] ELSE [r |-> "reject"])
  \* DIM name AS type in this scope: bare or matching suffix is that variable, anything else is rejected
  ELSE IF b \in DOMAIN loc.ext THEN
       (IF sfx = "" \/ sfx = loc.ext[b] THEN [r |-> "var", key |-> Key(sc, b, loc.ext[b])] ELSE [r |-> "reject"])
  \* DIM SHARED name AS type seen from the SUB
  ELSE IF sc = "sub" /\ b \in st.sharedext THEN
       (IF sfx = "" \/ sfx = st.g.ext[b] THEN [r |-> "var", key |-> Key("main", b, st.g.ext[b])] ELSE [r |-> "reject"])
  \* DIM SHARED name<sfx> seen from the SUB
  ELSE IF sc = "sub" /\ <<b, ty>> \in st.shared THEN [r |-> "var", key |-> Key("main", b, ty)]
  ELSE [r |-> "var", key |-> Key(sc, b, ty)]

ValueFor(t, id) == IF t = "$" THEN [num |-> FALSE, v |-> <<115, 48 + id>>] ELSE [num |-> TRUE, v |-> id]   \* "s<id>" or id

RECURSIVE NatDigits(_)
NatDigits(n) == IF n < 10 THEN <<48 + n>> ELSE NatDigits(n \div 10) \o <<48 + (n % 10)>>
Show(x) == IF x.num THEN <<32>> \o NatDigits(x.v) \o <<32, 13, 10>> ELSE x.v \o <<13, 10>>
DefaultVal(t) == IF t = "$" THEN [num |-> FALSE, v |-> <<>>] ELSE [num |-> TRUE, v |-> 0]

(***************************************************************************)
(* One pass over a statement list: declarations are registered, uses resolved,  *)
(* and (when run = TRUE) assignments and prints executed.                       *)
(* st additionally carries vars (key -> value), out, verdict.                    *)
(***************************************************************************)
Reject(st) == [st EXCEPT !.verdict = "reject"]
Unspec(st) == [st EXCEPT !.verdict = "unspec"]

Loc(st, sc) == IF sc = "main" THEN st.g ELSE st.l
SetLoc(st, sc, d) == IF sc = "main" THEN [st EXCEPT !.g = d] ELSE [st EXCEPT !.l = d]

UsedAny(d, b) == \E t \in Types : <<b, t>> \in d.seen

\* A FUNCTION of the program: its base name has one meaning everywhere, with the type of its header.  The name
\* with that suffix (or bare, when the default type of its letter is that type) is a call; any other suffix, an
\* assignment outside the function, and every declaration of the name are rejected ("Duplicate definition").
IsFn(st, b) == b \in DOMAIN st.fn
FnStmt(st, sc, s) ==
  LET f == st.fn[s.b] IN
  IF s.k \in {"print", "parg"} THEN
       (IF s.sfx = f.t THEN [st EXCEPT !.out = @ \o Show(ValueFor(f.t, f.id))]
        ELSE IF s.sfx = "" THEN (IF DefaultType(st.defs, s.c) = f.t THEN [st EXCEPT !.out = @ \o Show(ValueFor(f.t, f.id))] ELSE Unspec(st))
        ELSE Reject(st))
  ELSE IF s.k = "let" /\ s.sfx = "" /\ DefaultType(st.defs, s.c) # f.t THEN Unspec(st)
  ELSE Reject(st)

Stmt(st, sc, s) ==
  LET d == Loc(st, sc) IN
  IF s.k \in {"let", "print", "parg", "dimas", "dimsfx", "const", "redim"} /\ IsFn(st, s.b) THEN FnStmt(st, sc, s) ELSE
  CASE s.k \in {"let", "print", "parg"} ->
         LET r == Resolve(st, sc, s.b, s.c, s.sfx) IN
         IF r.r = "reject" THEN Reject(st)
         ELSE IF r.r = "const" THEN
           (IF s.k = "let" THEN Reject(st) ELSE [st EXCEPT !.out = @ \o Show(r.v)])
         ELSE
           LET key0 == r.key
               \* a parameter is the caller's variable (by reference)
               key == IF key0 \in DOMAIN st.alias THEN st.alias[key0] ELSE key0
               st1 == IF key0[1] = sc THEN SetLoc(st, sc, [d EXCEPT !.seen = @ \cup {<<key0[2], key0[3]>>}]) ELSE st
               cur == IF key \in DOMAIN st.vars THEN st.vars[key] ELSE DefaultVal(key[3])
           IN IF s.k = "let"
              THEN [st1 EXCEPT !.vars = IF key \in DOMAIN @ THEN [@ EXCEPT ![key] = ValueFor(key[3], s.id)]
                                                            ELSE @ @@ (key :> ValueFor(key[3], s.id))]
              ELSE [st1 EXCEPT !.out = @ \o Show(cur)]
    [] s.k = "dimas" ->
         \* declaring after a use, a second declaration, or over a constant: left open / rejected
         IF s.b \in DOMAIN d.cst THEN Reject(st)
         ELSE IF s.b \in DOMAIN d.ext \/ UsedAny(d, s.b) THEN Unspec(st)
         ELSE IF sc = "sub" /\ (s.b \in st.sharedext \/ \E t \in Types : <<s.b, t>> \in st.shared \/ s.b \in DOMAIN st.g.cst) THEN Unspec(st)
         ELSE LET st1 == SetLoc(st, sc, [d EXCEPT !.ext = @ @@ (s.b :> s.t)]) IN
              IF s.shared THEN [st1 EXCEPT !.sharedext = @ \cup {s.b}] ELSE st1
    [] s.k = "dimsfx" ->
         LET ty == IF s.sfx = "" THEN DefaultType(st.defs, s.c) ELSE s.sfx IN
         IF s.b \in DOMAIN d.cst THEN Reject(st)
         ELSE IF s.b \in DOMAIN d.ext THEN (IF s.sfx = "" \/ s.sfx = d.ext[s.b] THEN Unspec(st) ELSE Reject(st))
         ELSE IF <<s.b, ty>> \in d.seen THEN Unspec(st)
         ELSE IF sc = "sub" /\ (s.b \in st.sharedext \/ <<s.b, ty>> \in st.shared \/ s.b \in DOMAIN st.g.cst) THEN Unspec(st)
         ELSE LET st1 == SetLoc(st, sc, [d EXCEPT !.seen = @ \cup {<<s.b, ty>>}]) IN
              IF s.shared THEN [st1 EXCEPT !.shared = @ \cup {<<s.b, ty>>}] ELSE st1
    \* REDIM name(n): the dynamic array of that name and type - made anew if it exists (its elements start over),
    \* declared otherwise.  A bare name means the array of the default type of its letter, never one of another suffix
    [] s.k = "redim" ->
         LET ty == IF s.sfx = "" THEN DefaultType(st.defs, s.c) ELSE s.sfx
             key == Key(sc, s.b, ty)
         IN
         IF s.b \in DOMAIN d.cst THEN Reject(st)
         ELSE IF s.b \in DOMAIN d.ext THEN Unspec(st)
         ELSE IF sc = "sub" /\ (s.b \in st.sharedext \/ <<s.b, ty>> \in st.shared \/ s.b \in DOMAIN st.g.cst) THEN Unspec(st)
         ELSE LET st1 == SetLoc(st, sc, [d EXCEPT !.seen = @ \cup {<<s.b, ty>>}]) IN
              [st1 EXCEPT !.vars = IF key \in DOMAIN @ THEN [@ EXCEPT ![key] = DefaultVal(ty)] ELSE @ @@ (key :> DefaultVal(ty))]
    [] s.k = "const" ->
         IF s.b \in DOMAIN d.cst \/ s.b \in DOMAIN d.ext \/ UsedAny(d, s.b) THEN Unspec(st)
         ELSE IF sc = "sub" /\ (s.b \in st.sharedext \/ \E t \in Types : <<s.b, t>> \in st.shared) THEN Unspec(st)
         ELSE IF "ref" \in DOMAIN s /\ s.ref # "" THEN
              \* CONST b = <another constant>: the name on the right is resolved like any use in this scope
              LET r == Resolve(st, sc, s.ref, s.refc, "") IN
              IF r.r # "const" THEN Unspec(st)
              ELSE SetLoc(st, sc, [d EXCEPT !.cst = @ @@ (s.b :> [t |-> IF r.v.num THEN "I" ELSE "$", v |-> r.v])])
         ELSE LET ty == IF s.sfx = "" THEN "I" ELSE s.sfx IN     \* the constant is a small whole number or a string
              SetLoc(st, sc, [d EXCEPT !.cst = @ @@ (s.b :> [t |-> ty, v |-> ValueFor(ty, s.id)])])
    [] s.k = "call" -> st      \* handled by Run
    [] s.k = "def" -> [st EXCEPT !.defs = Append(@, [t |-> s.t, lo |-> s.lo, hi |-> s.hi])]
    [] s.k = "printlit" -> [st EXCEPT !.out = @ \o s.text \o <<13, 10>>]

RECURSIVE Pass(_, _, _, _)
Pass(st, sc, stmts, j) ==
  IF j > Len(stmts) \/ st.verdict # "accept" THEN st
  ELSE Pass(Stmt(st, sc, stmts[j]), sc, stmts, j + 1)

Start(p) == [defs |-> p.defs, g |-> NewScope, l |-> NewScope, shared |-> {}, sharedext |-> {},
             vars |-> Empty, out |-> <<>>, verdict |-> "accept", alias |-> Empty,
             fn |-> IF "fn" \in DOMAIN p /\ Len(p.fn) > 0 THEN (p.fn[1].b :> p.fn[1]) ELSE Empty]

\* The scope of the SUB at entry: its parameter (at most one is modelled).  A parameter declared AS type is an
\* extended declaration of its name (other suffixes are rejected); one declared with a suffix is that compact
\* variable.  Either way it IS the caller's variable of that type (arrays: the element used by the histories).
ParamScope(p) ==
  IF Len(p.params) = 0 THEN NewScope
  ELSE LET q == p.params[1] IN
       IF q.ext THEN [ext |-> (q.b :> q.t), cst |-> Empty, seen |-> {}]
       ELSE [ext |-> Empty, cst |-> Empty, seen |-> {<<q.b, q.t>>}]
ParamAlias(p) ==
  IF Len(p.params) = 0 THEN Empty
  ELSE LET q == p.params[1] IN (Key("sub", q.b, q.t) :> Key("main", q.argb, q.t))

\* the static verdict: walk main, then the body of the SUB (declarations of main are visible as far
\* as they are shared / constant)
\* a parameter is a declaration too: one that carries the name of a FUNCTION with another type is rejected; with the
\* function's own type it is left open (the code allows FUNCTION Add (Add))
CheckProg(p) ==
  LET m == Pass(Start(p), "main", p.main, 1)
      clash(j) == IsFn(m, p.params[j].b)
      bad == \E j \in 1..Len(p.params) : clash(j) /\ p.params[j].t # m.fn[p.params[j].b].t
      open == \E j \in 1..Len(p.params) : clash(j)
  IN
  IF m.verdict # "accept" THEN m
  ELSE IF bad THEN Reject(m)
  ELSE IF open THEN Unspec(m)
  ELSE Pass([m EXCEPT !.l = ParamScope(p), !.alias = ParamAlias(p)], "sub", p.sub, 1)

\* running: main up to the call, the body (fresh locals), the rest of main
RECURSIVE CallIndex(_, _)
CallIndex(stmts, j) == IF j > Len(stmts) THEN 0 ELSE IF stmts[j].k = "call" THEN j ELSE CallIndex(stmts, j + 1)

RunProg(p) ==
  LET ci == CallIndex(p.main, 1) IN
  IF ci = 0 THEN Pass(Start(p), "main", p.main, 1)
  ELSE LET a == Pass(Start(p), "main", SubSeq(p.main, 1, ci - 1), 1)
           \* the declarations of the rest of main are not yet in force while the SUB runs, except that
           \* DIM SHARED / CONST are static: take the static tables of the whole main module
           full == Pass(Start(p), "main", p.main, 1)
           \* the SUB stands after the whole main module: every DEFtype of main governs its names
           b == Pass([a EXCEPT !.g.cst = full.g.cst, !.g.ext = full.g.ext, !.shared = full.shared,
                                !.sharedext = full.sharedext, !.l = ParamScope(p), !.alias = ParamAlias(p),
                                !.defs = full.defs], "sub", p.sub, 1)
       IN Pass([b EXCEPT !.g = a.g, !.shared = a.shared, !.sharedext = a.sharedext, !.defs = a.defs, !.alias = Empty], "main",
               SubSeq(p.main, ci + 1, Len(p.main)), 1)

Oracle(p) ==
  LET c == CheckProg(p) IN
  IF c.verdict # "accept" THEN [verdict |-> c.verdict, out |-> <<>>]
  ELSE LET r == RunProg(p) IN [verdict |-> r.verdict, out |-> r.out]
=============================================================================
