----------------------------- MODULE Trace_Diag -----------------------------
(***************************************************************************)
(* C11: every diagnostic names the right place.  One record per rendered case:   *)
(*   [id, rt |-> run-compressed text (Text.tla), len,                              *)
(*    stmt |-> <<a, b>>  first and last character of the offending statement,       *)
(*    term |-> the character that ends it (colon, apostrophe, first character of     *)
(*             the line break),                                                      *)
(*    sites |-> <<<<a, b>>, ...>> the call-site statements, innermost first,          *)
(*    stage, fams |-> where the fault must be reported and the admissible families,    *)
(*    obs |-> [stage, fam, pos |-> <<<<row, col>>, ...>>] what the real code said]      *)
(* Rows and columns are derived HERE from the characters with the position machine.   *)
(*                                                                                   *)
(* Judgement (the statement of C11):                                                  *)
(*   - the error is reported by the expected stage with an admissible family;          *)
(*   - its row is the row of the offending statement, its column lies inside the        *)
(*     statement's text (a syntax error may also point at the character that ends       *)
(*     the statement: "expected X" is reported where X is missing);                     *)
(*   - a run-time error carries, after its own position, the rows of the active call     *)
(*     sites, innermost first, ending in the main module.                               *)
(***************************************************************************)
EXTENDS Text, Json, IOUtils, FiniteSets

Recs == ndJsonDeserialize(IOEnv.TRACE)
VARIABLE idx
Init == idx \in 1..Len(Recs)
Next == UNCHANGED idx
Spec == Init /\ [][Next]_idx

\* position of the character with 1-based index i
PosOf(r, i) == AfterR(r.rt, i - 1)

Judge(r) ==
  LET pa == PosOf(r, r.stmt[1])
      pb == PosOf(r, r.stmt[2])
      pt == PosOf(r, r.term)
      o == r.obs
  IN
  IF LenR(r.rt) # r.len \/ pa.row # pb.row \/ pt.row # pa.row \/ pt.col <= pb.col THEN "SPECBUG marks"
  ELSE IF o.stage # r.stage THEN "stage"
  ELSE IF ~(\E i \in 1..Len(r.fams) : r.fams[i] = o.fam) THEN "family"
  ELSE IF Len(o.pos) = 0 THEN "noposition"
  ELSE IF o.pos[1][1] # pa.row THEN "row"
  ELSE IF o.pos[1][2] < pa.col \/ o.pos[1][2] > (IF r.stage = "parse" THEN pt.col ELSE pb.col) THEN "column"
  ELSE IF r.stage # "run" THEN (IF Len(o.pos) = 1 THEN "ok" ELSE "extra-positions")
  ELSE IF Len(o.pos) # 1 + Len(r.sites) THEN "callsites-count"
  ELSE IF \E i \in 1..Len(r.sites) : o.pos[i + 1][1] # PosOf(r, r.sites[i][1]).row THEN "callsites-rows"
  ELSE "ok"

\* Second kind of record: ONE program whose fault can only be noticed at the end of the input (a block that is never
\* closed), written with each line-end convention (with / without a line end after the last line).  Where exactly
\* such a diagnostic points is not fixed; what is: it is a static error with one position, that position is the same
\* whatever the line-end convention, and its row exists in the text.
\*   [id, kind |-> "eof", rts |-> <<rt...>>, lens |-> <<len...>>, obs |-> <<[stage, fam, pos]...>>]
JudgeEof(r) ==
  LET n == Len(r.rts) IN
  IF \E k \in 1..n : LenR(r.rts[k]) # r.lens[k] THEN "SPECBUG lens"
  ELSE IF \E k \in 1..n : r.obs[k].stage \notin {"parse", "lint"} THEN "stage"
  ELSE IF \E k \in 1..n : Len(r.obs[k].pos) # 1 THEN "noposition"
  ELSE IF \E k \in 1..n : r.obs[k].pos[1] # r.obs[1].pos[1] THEN "position-depends-on-line-ends"
  ELSE IF \E k \in 1..n : r.obs[k].fam # r.obs[1].fam THEN "family-depends-on-line-ends"
  ELSE IF \E k \in 1..n : r.obs[k].pos[1][1] < 1 \/ r.obs[k].pos[1][1] > AfterR(r.rts[k], r.lens[k] - 1).row THEN "row-outside-text"
  ELSE "ok"

Verdict ==
  LET r == Recs[idx]
      j == IF "kind" \in DOMAIN r /\ r.kind = "eof" THEN JudgeEof(r) ELSE Judge(r)
  IN PrintT((IF j = "ok" THEN "AGREE " ELSE "MISMATCH ") \o ToString(r.id) \o " " \o j)
=============================================================================
