-------------------------------- MODULE Print --------------------------------
(***************************************************************************)
(* PRINT layout (C16).  A history is a sequence of PRINT statements, each     *)
(* addressed to a device ("scr" screen, "lpt" printer, "f1", "f2" files) and   *)
(* made of items:                                                             *)
(*    [k |-> "num", v |-> whole number]   [k |-> "str", v |-> codes]           *)
(*    [k |-> "sep", s |-> ";" | ","]                                           *)
(* or a PRINT USING statement [dev, using |-> format codes, vals |-> items].   *)
(*                                                                           *)
(* The machine keeps, per device, the bytes written and the current column    *)
(* (characters since the last line break).  Line-break token: the statement-   *)
(* end CR LF and every CR or LF embedded in a string are each written as the   *)
(* single code 10 (the property fixes the column behaviour of an embedded      *)
(* break, not its bytes; the driver maps the real bytes the same way).         *)
(***************************************************************************)
EXTENDS Integers, Sequences

Devices == {"scr", "lpt", "f1", "f2"}
Zone == 14
BRK == 10

RECURSIVE NatDigits(_), Blanks(_)
NatDigits(n) == IF n < 10 THEN <<48 + n>> ELSE NatDigits(n \div 10) \o <<48 + (n % 10)>>
Blanks(n) == IF n <= 0 THEN <<>> ELSE <<32>> \o Blanks(n - 1)

\* a number: leading blank or minus sign, digits, trailing blank
NumText(n) == (IF n < 0 THEN <<45>> \o NatDigits(0 - n) ELSE <<32>> \o NatDigits(n)) \o <<32>>

Init0 == [out |-> [d \in Devices |-> <<>>], col |-> [d \in Devices |-> 0], bad |-> FALSE]

\* write characters one by one: CR and LF restart the column
RECURSIVE Put(_, _, _)
Put(st, dev, text) ==
  IF text = <<>> THEN st
  ELSE LET c == Head(text) IN
       IF c \in {10, 13}
       THEN Put([st EXCEPT !.out[dev] = Append(@, BRK), !.col[dev] = 0], dev, Tail(text))
       ELSE Put([st EXCEPT !.out[dev] = Append(@, c), !.col[dev] = @ + 1], dev, Tail(text))

PutItem(st, dev, it) ==
  CASE it.k = "num" -> Put(st, dev, NumText(it.v))
    [] it.k = "str" -> Put(st, dev, it.v)
    [] it.k = "sep" -> IF it.s = "," THEN Put(st, dev, Blanks(Zone - (st.col[dev] % Zone))) ELSE st

RECURSIVE PutItems(_, _, _, _)
PutItems(st, dev, items, j) ==
  IF j > Len(items) THEN st ELSE PutItems(PutItem(st, dev, items[j]), dev, items, j + 1)

EndsWithSep(items) == items # <<>> /\ items[Len(items)].k = "sep"

(***************************************************************************)
(* PRINT USING.  The format is scanned left to right; literal text is copied;  *)
(* a field consumes the next value.  Fields:                                   *)
(*   numeric: a run of # with optional commas and one . followed by #s;         *)
(*            the number is right-aligned in the field width, with a comma      *)
(*            every three digits if the field has one, and as many zero         *)
(*            decimals as the field has (values are whole)                      *)
(*   !        the first character of the string                                 *)
(*   \ .. \   two backslashes n blanks apart: the first n + 2 characters,       *)
(*            padded with blanks                                                *)
(* When the values are not exhausted at the end of the format it is reused     *)
(* from its start.  After the last value the literal text up to the next       *)
(* field (or the end of the format) is copied.                                  *)
(***************************************************************************)
Hash == 35
Comma == 44
Dot == 46
Bang == 33
Bsl == 92

IsFieldStart(f, i) == f[i] \in {Hash, Bang, Bsl} \/ (f[i] = Dot /\ i < Len(f) /\ f[i + 1] = Hash)

\* end index of the numeric field starting at i: #s and commas, then optionally . and #s
RECURSIVE IntPartEnd(_, _), FracEnd(_, _)
IntPartEnd(f, i) == IF i <= Len(f) /\ f[i] \in {Hash, Comma} THEN IntPartEnd(f, i + 1) ELSE i - 1
FracEnd(f, i) == IF i <= Len(f) /\ f[i] = Hash THEN FracEnd(f, i + 1) ELSE i - 1

NumField(f, i) ==
  LET ie == IF f[i] = Dot THEN i - 1 ELSE IntPartEnd(f, i)
      hasdot == ie < Len(f) /\ f[ie + 1] = Dot /\ ie + 1 < Len(f) /\ f[ie + 2] = Hash
      fe == IF hasdot THEN FracEnd(f, ie + 2) ELSE ie
      intchars == SubSeq(f, i, ie)
  IN [last |-> fe,
      width |-> fe - i + 1,
      comma |-> \E j \in 1..Len(intchars) : intchars[j] = Comma,
      decimals |-> IF hasdot THEN fe - (ie + 1) ELSE 0]

\* end of a \ .. \ field starting at i (0 when there is no closing backslash)
RECURSIVE BslEnd(_, _)
BslEnd(f, j) == IF j > Len(f) THEN 0 ELSE IF f[j] = Bsl THEN j ELSE IF f[j] = 32 THEN BslEnd(f, j + 1) ELSE 0

RECURSIVE Group3(_)
Group3(ds) == IF Len(ds) <= 3 THEN ds ELSE Group3(SubSeq(ds, 1, Len(ds) - 3)) \o <<Comma>> \o SubSeq(ds, Len(ds) - 2, Len(ds))

RECURSIVE Zeros(_)
Zeros(n) == IF n <= 0 THEN <<>> ELSE <<48>> \o Zeros(n - 1)

\* text of whole number n in a numeric field; "wide" when it does not fit
NumInField(n, fld) ==
  LET ds == NatDigits(IF n < 0 THEN 0 - n ELSE n)
      body == (IF n < 0 THEN <<45>> ELSE <<>>) \o (IF fld.comma THEN Group3(ds) ELSE ds)
              \o (IF fld.decimals > 0 THEN <<Dot>> \o Zeros(fld.decimals) ELSE <<>>)
  IN [fits |-> Len(body) <= fld.width, text |-> Blanks(fld.width - Len(body)) \o body]

\* text of the number c / 100 (c a whole number of hundredths, |c| >= 100) in a numeric field: rounded to the decimals
\* of the field (the generator avoids ties, which the property does not fix)
Abs(x) == IF x < 0 THEN 0 - x ELSE x
TwoDigits(n) == <<48 + (n \div 10), 48 + (n % 10)>>
ScaledInField(c, fld) ==
  LET a == Abs(c)
      d == fld.decimals
      whole == IF d = 0 THEN (a + 50) \div 100 ELSE IF d = 1 THEN ((a + 5) \div 10) \div 10 ELSE a \div 100
      frac == IF d = 0 THEN <<>> ELSE IF d = 1 THEN <<Dot, 48 + (((a + 5) \div 10) % 10)>>
              ELSE <<Dot>> \o TwoDigits(a % 100) \o Zeros(d - 2)
      ds == NatDigits(whole)
      body == (IF c < 0 THEN <<45>> ELSE <<>>) \o (IF fld.comma THEN Group3(ds) ELSE ds) \o frac
      \* a negative number of which nothing is left in the field (-0.37 in ###): whether the sign of what vanished is shown
      \* is not fixed by the property - not judged (reported as "does not fit" to the caller, which skips the statement)
      vanished == c < 0 /\ whole = 0 /\ (d = 0 \/ (d = 1 /\ ((a + 5) \div 10) % 10 = 0) \/ (d >= 2 /\ a % 100 = 0))
  IN [fits |-> Len(body) <= fld.width /\ ~vanished, text |-> Blanks(fld.width - Len(body)) \o body]

StrInField(s, n) == IF Len(s) >= n THEN SubSeq(s, 1, n) ELSE s \o Blanks(n - Len(s))

\* result of PRINT USING: [ok, text] ; ok = FALSE when the statement is outside the
\* part of the format language fixed here (then the case is not judged)
RECURSIVE Using(_, _, _, _, _, _)
Using(f, i, vals, j, acc, wrapped) ==
  IF i > Len(f) THEN
    (IF j > Len(vals) THEN [ok |-> TRUE, text |-> acc]
     ELSE IF wrapped THEN [ok |-> FALSE, text |-> acc]      \* a format without any field
     ELSE Using(f, 1, vals, j, acc, TRUE))                  \* reuse the format
  ELSE IF ~IsFieldStart(f, i) THEN Using(f, i + 1, vals, j, Append(acc, f[i]), wrapped)
  ELSE IF j > Len(vals) THEN [ok |-> TRUE, text |-> acc]    \* next field, no value left: stop
  ELSE LET v == vals[j] IN
    IF f[i] = Bang THEN
      (IF v.k # "str" \/ v.v = <<>> THEN [ok |-> FALSE, text |-> acc]
       ELSE Using(f, i + 1, vals, j + 1, Append(acc, v.v[1]), FALSE))
    ELSE IF f[i] = Bsl THEN
      (LET e == BslEnd(f, i + 1) IN
       IF e = 0 \/ v.k # "str" THEN [ok |-> FALSE, text |-> acc]
       ELSE Using(f, e + 1, vals, j + 1, acc \o StrInField(v.v, e - i + 1), FALSE))
    ELSE
      (LET fld == NumField(f, i)
           r == IF "c" \in DOMAIN v THEN ScaledInField(v.c, fld) ELSE NumInField(v.v, fld)
       IN IF v.k # "num" \/ ~r.fits THEN [ok |-> FALSE, text |-> acc]
          ELSE Using(f, fld.last + 1, vals, j + 1, acc \o r.text, FALSE))

HasField(f) == \E i \in 1..Len(f) : IsFieldStart(f, i)

\* A comma or a point that touches a # on exactly one side (a trailing comma or point of a
\* numeric field, a leading point) is a corner the property does not fix: not judged.
HashAt(f, i) == i >= 1 /\ i <= Len(f) /\ f[i] = Hash
Ambiguous(f) == \E i \in 1..Len(f) : f[i] \in {Comma, Dot} /\ (HashAt(f, i - 1) # HashAt(f, i + 1))

\* one PRINT statement
Stmt(st, s) ==
  IF "using" \in DOMAIN s THEN
    LET vs == [j \in 1..Len(s.vals) |-> s.vals[j]]
        u == Using(s.using, 1, vs, 1, <<>>, FALSE)
    IN IF Ambiguous(s.using) \/ ~u.ok \/ ~HasField(s.using) THEN [st EXCEPT !.bad = TRUE]
       ELSE LET st1 == Put(st, s.dev, u.text) IN
            IF s.semi THEN st1 ELSE Put(st1, s.dev, <<BRK>>)
  ELSE
    LET st1 == PutItems(st, s.dev, s.items, 1) IN
    IF EndsWithSep(s.items) THEN st1 ELSE Put(st1, s.dev, <<BRK>>)

Unjudged(st) == st.bad

\* the column is the number of characters since the last break
RECURSIVE SinceBreak(_)
SinceBreak(o) == IF o = <<>> \/ o[Len(o)] = BRK THEN 0 ELSE 1 + SinceBreak(SubSeq(o, 1, Len(o) - 1))
ColOK(st) == Unjudged(st) \/ \A d \in Devices : st.col[d] = SinceBreak(st.out[d])
=============================================================================
