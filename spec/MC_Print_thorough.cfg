SPECIFICATION Spec
CONSTANT MaxStmts = 2
INVARIANT ColumnOK
INVARIANT OtherDevicesUntouched
INVARIANT CommaLandsOnZone
INVARIANT LineEnds
CHECK_DEADLOCK FALSE
