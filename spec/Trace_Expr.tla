----------------------------- MODULE Trace_Expr -----------------------------
(* Parse trees and literal nodes produced by the REAL parser, checked against    *)
(* Expr.tla.  Records:                                                           *)
(*   [id, k |-> "chain", toks, tree]   tree must equal Prec(toks) (up to Norm)    *)
(*   [id, k |-> "dec", ds, neg, t, d]  decimal literal: type and value            *)
(*   [id, k |-> "radix", bits, t, d]   &H / &O literal                            *)
(*   [id, k |-> "nradix", bits, t, d]  -&H / -&O literal (unary minus in front)    *)
EXTENDS Expr, Json, IOUtils, TLC

Recs == ndJsonDeserialize(IOEnv.TRACE)

VARIABLE idx
Init == idx \in 1..Len(Recs)
Next == UNCHANGED idx
Spec == Init /\ [][Next]_idx

Holds(r) ==
  CASE r.k = "chain" -> Norm(r.tree) = Norm(Prec(r.toks))
    [] r.k = "dec" -> LET e == DecLit(r.ds, r.neg) IN
                      r.t = e.t /\ (e.t # "D" => r.v = e.v)
    [] r.k = "radix" -> LET e == RadixLit(r.bits) IN r.t = e.t /\ (e.t # "overflow" => r.v = e.v)
    [] r.k = "nradix" -> NegRadixOK(r.bits, r.t, r.v)

Verdict == IF Holds(Recs[idx]) THEN TRUE ELSE PrintT("MISMATCH " \o ToString(Recs[idx].id))
=============================================================================
