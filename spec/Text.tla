-------------------------------- MODULE Text --------------------------------
(***************************************************************************)
(* Source texts as character / token sequences (C07, C09, C11).               *)
(*                                                                           *)
(*  RowCol  - the position machine: rows are separated by CR, LF or CR LF,     *)
(*            columns count from 1.  Step by step over the characters.          *)
(*  LineOf / ColOf - the declarative definition the machine is checked against. *)
(*  Soup    - token sequences over the lexer's alphabet (by index).             *)
(*  Mutate  - delete / duplicate / swap / truncate at a token position.         *)
(***************************************************************************)
EXTENDS Integers, Sequences, TLC

CR == 13
LF == 10

\* position machine: state [row, col, prevcr]; the position OF character i is the state before consuming it
Start == [row |-> 1, col |-> 1, prevcr |-> FALSE]
Consume(p, c) ==
  IF c = CR THEN [row |-> p.row + 1, col |-> 1, prevcr |-> TRUE]
  ELSE IF c = LF THEN (IF p.prevcr THEN [p EXCEPT !.prevcr = FALSE]           \* the LF of a CR LF: same break
                       ELSE [row |-> p.row + 1, col |-> 1, prevcr |-> FALSE])
  ELSE [row |-> p.row, col |-> p.col + 1, prevcr |-> FALSE]

RECURSIVE After(_, _)
\* machine state after the first n characters
After(t, n) == IF n = 0 THEN Start ELSE Consume(After(t, n - 1), t[n])

\* declarative: number of line breaks among the first n characters (a CR LF pair is one break)
IsBreakAt(t, i) == t[i] = CR \/ (t[i] = LF /\ (i = 1 \/ t[i - 1] # CR))
RECURSIVE Breaks(_, _), LastBreakEnd(_, _)
Breaks(t, n) == IF n = 0 THEN 0 ELSE Breaks(t, n - 1) + (IF IsBreakAt(t, n) THEN 1 ELSE 0)
\* index of the last character that belongs to a line break within the first n characters (0 if none)
LastBreakEnd(t, n) ==
  IF n = 0 THEN 0 ELSE IF t[n] \in {CR, LF} THEN n ELSE LastBreakEnd(t, n - 1)
RowOf(t, n) == 1 + Breaks(t, n)
ColOf(t, n) == 1 + (n - LastBreakEnd(t, n))

\* Run-compressed texts: a positive number n stands for n ordinary characters, 0 for CR, -1 for LF.
\* Compress is the definition; AfterR is the position machine on the compressed form (C11 sends
\* compressed texts; MC_Text checks AfterR(Compress(t), n) = After(t, n) for every small text).
RECURSIVE Compress(_)
Compress(t) ==
  IF t = <<>> THEN <<>>
  ELSE LET rest == Compress(Tail(t)) IN
       IF Head(t) = CR THEN <<0>> \o rest
       ELSE IF Head(t) = LF THEN <<-1>> \o rest
       ELSE IF rest # <<>> /\ Head(rest) > 0 THEN <<Head(rest) + 1>> \o Tail(rest)
       ELSE <<1>> \o rest
RECURSIVE LenR(_)
LenR(rt) == IF rt = <<>> THEN 0 ELSE (IF Head(rt) > 0 THEN Head(rt) ELSE 1) + LenR(Tail(rt))
RECURSIVE WalkR(_, _, _, _)
\* state after n more characters, starting before token i in state p
WalkR(rt, i, n, p) ==
  IF n = 0 \/ i > Len(rt) THEN p
  ELSE IF rt[i] > 0 THEN
         IF rt[i] >= n THEN [row |-> p.row, col |-> p.col + n, prevcr |-> FALSE]
         ELSE WalkR(rt, i + 1, n - rt[i], [row |-> p.row, col |-> p.col + rt[i], prevcr |-> FALSE])
  ELSE WalkR(rt, i + 1, n - 1, Consume(p, IF rt[i] = 0 THEN CR ELSE LF))
AfterR(rt, n) == WalkR(rt, 1, n, Start)

\* mutations of a token sequence
Delete(s, i) == SubSeq(s, 1, i - 1) \o SubSeq(s, i + 1, Len(s))
Duplicate(s, i) == SubSeq(s, 1, i) \o SubSeq(s, i, Len(s))
Swap(s, i) == IF i < Len(s) THEN SubSeq(s, 1, i - 1) \o <<s[i + 1], s[i]>> \o SubSeq(s, i + 2, Len(s)) ELSE s
Truncate(s, i) == SubSeq(s, 1, i - 1)
Mutate(s, op, i) ==
  CASE op = "delete" -> Delete(s, i) [] op = "duplicate" -> Duplicate(s, i)
    [] op = "swap" -> Swap(s, i) [] op = "truncate" -> Truncate(s, i)
=============================================================================
