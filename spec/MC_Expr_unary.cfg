SPECIFICATION Spec
CONSTANTS MaxOps = 2 Unaries = TRUE
INVARIANT FlipIsPrec
INVARIANT OperandsKept
CHECK_DEADLOCK FALSE
