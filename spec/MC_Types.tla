------------------------------ MODULE MC_Types ------------------------------
(* D-level soundness of the kinding rules: an expression that Kind accepts never    *)
(* evaluates to Type mismatch (13) with Values.tla, whatever boundary operands its    *)
(* leaves hold; one that Kind rejects has an operator applied to the wrong kind.      *)
EXTENDS Types, TLC

Leaves == {[k |-> "lit", t |-> "I", v |-> 2], [k |-> "lit", t |-> "$", v |-> <<97>>], [k |-> "lit", t |-> "D", v |-> 0],
           [k |-> "lit", t |-> "$", v |-> <<>>], [k |-> "lit", t |-> "L", v |-> 40000]}
Ops == {"+", "-", "*", "/", "mod", "and", "or", "=", "<", ">="}
D1 == Leaves \cup {[k |-> "bin", op |-> o, l |-> a, r |-> b] : o \in Ops, a \in Leaves, b \in Leaves}
            \cup {[k |-> "un", op |-> u, e |-> a] : u \in {"neg", "not"}, a \in Leaves}
            \cup {[k |-> "par", e |-> a] : a \in Leaves}

VARIABLE e
Init == e \in D1 \cup {[k |-> "bin", op |-> o, l |-> a, r |-> b] : o \in Ops, a \in D1, b \in Leaves}
                 \cup {[k |-> "bin", op |-> o, l |-> a, r |-> b] : o \in {"+", "=", "and"}, a \in Leaves, b \in D1}
Next == UNCHANGED e
Spec == Init /\ [][Next]_e

RECURSIVE Ev(_)
Ev(x) ==
  CASE x.k = "lit" -> Val(x.t, x.v)
    [] x.k = "par" -> Ev(x.e)
    [] x.k = "un" -> IF x.op = "neg" THEN Neg(Ev(x.e)) ELSE Not(Ev(x.e))
    [] x.k = "bin" -> Arith(x.op, Ev(x.l), Ev(x.r))

Sound == Kind(e) # "err" => ~(IsErr(Ev(e)) /\ Ev(e).c = 13)
ResultKind == (Kind(e) # "err" /\ ~IsErr(Ev(e))) => (Kind(e) = "s") = IsStr(Ev(e))
Complete == Kind(e) = "err" => (IsErr(Ev(e)) /\ Ev(e).c \in {13, 6, 11, 0})
=============================================================================
