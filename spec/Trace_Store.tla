---------------------------- MODULE Trace_Store ----------------------------
(* Call records of the real VArray (abs_index, get_element_mut / get) checked *)
(* against Store.tla.  Every record is an initial state; the verdict is an     *)
(* invariant evaluated on it.                                                  *)
EXTENDS Store, Json, IOUtils

Recs == ndJsonDeserialize(IOEnv.TRACE)

VARIABLE idx
Init == idx \in 1..Len(Recs)
Next == UNCHANGED idx
Spec == Init /\ [][Next]_idx

DimsOf(r) == [j \in 1..Len(r.dims) |-> [lo |-> r.dims[j][1], hi |-> r.dims[j][2]]]

\* expected cells after writing k at the k-th tuple (ignored when outside the box)
RECURSIVE Fold(_, _, _, _)
Fold(dims, writes, k, cells) ==
  IF k > Len(writes) THEN cells
  ELSE Fold(dims, writes, k + 1,
            IF InBox(dims, writes[k]) THEN [cells EXCEPT ![RefIndex(dims, writes[k]) + 1] = k] ELSE cells)

Holds(r) ==
  LET dims == DimsOf(r) IN
  IF r.k = "abs" THEN r.res = RefIndex(dims, r.idx) /\ r.len = Size(dims) /\ r.res = AbsIndex(dims, r.idx)
  ELSE /\ Len(r.cells) = Size(dims)
       /\ r.cells = Fold(dims, r.writes, 1, [c \in 1..Size(dims) |-> 0])
       /\ \A k \in 1..Len(r.writes) : (r.wres[k] = 1) = InBox(dims, r.writes[k])

Verdict ==
  IF Holds(Recs[idx]) THEN TRUE
  ELSE PrintT("MISMATCH " \o ToString(Recs[idx].id))
=============================================================================
