SPECIFICATION Spec
CONSTANT MaxOps = 6
INVARIANT TableOK
INVARIANT ErrorChangesNothing
INVARIANT OpenModes
INVARIANT PrintAppends
INVARIANT CloseFrees
INVARIANT EofExact
CHECK_DEADLOCK FALSE
