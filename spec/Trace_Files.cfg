SPECIFICATION Spec
INVARIANT Verdict
INVARIANT TableOK
CHECK_DEADLOCK FALSE
