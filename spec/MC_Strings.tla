----------------------------- MODULE MC_Strings -----------------------------
(* D-level check: the defining equations of C17 hold of Strings.tla for all      *)
(* strings up to MaxLen over the alphabet {a, B, blank, CHR$(200)} and all        *)
(* counts / positions in -1..7.                                                    *)
EXTENDS Strings, TLC

CONSTANT MaxLen
Alphabet == {97, 66, 32, 200}
Strs == UNION {[1..n -> Alphabet] : n \in 0..MaxLen}
Nums == (0 - 1)..7

VARIABLES s, t, n, m
vars == <<s, t, n, m>>
Init == s \in Strs /\ t \in {x \in Strs : Len(x) <= 2} /\ n \in Nums /\ m \in {0 - 1, 0, 1, 2, 7}
Next == UNCHANGED vars
Spec == Init /\ [][Next]_vars

\* LEFT$(s,n) + MID$(s,n+1) = s, counts clamped to the length
SplitLaw ==
  n >= 0 => Left(s, n).v \o Mid(s, n + 1, 0, FALSE).v = s
Clamp ==
  /\ (n >= 0 => Len(Left(s, n).v) = Min(n, Len(s)) /\ Len(Right(s, n).v) = Min(n, Len(s)))
  /\ (n >= 0 => Left(s, n).v \o Right(s, Len(s) - Min(n, Len(s))).v = s)
  /\ (n >= 1 /\ m >= 0 => Len(Mid(s, n, m, TRUE).v) = Max(0, Min(m, Len(s) - n + 1)))
Negative ==
  /\ (n < 0 => ~Left(s, n).ok /\ ~Right(s, n).ok /\ ~Space(n).ok /\ ~StringN(n, 65).ok)
  /\ (n < 1 => ~Mid(s, n, 1, TRUE).ok /\ ~Mid(s, n, 0, FALSE).ok)
  /\ (n < 1 /\ t # <<>> => ~Instr(n, s, t).ok)
  /\ (m < 0 /\ n >= 1 => ~Mid(s, n, m, TRUE).ok)
InstrLaw ==
  (n >= 1 /\ t # <<>>) =>
     LET r == Instr(n, s, t).v IN
     /\ (r # 0 => r >= n /\ OccursAt(s, t, r) /\ \A q \in n..(r - 1) : ~OccursAt(s, t, q))
     /\ (r = 0 => \A q \in n..Len(s) : ~OccursAt(s, t, q))
LenLaw == Len(s \o t) = Len(s) + Len(t)
CaseLaw ==
  /\ Len(UCase(s)) = Len(s) /\ Len(LCase(s)) = Len(s)
  /\ \A i \in 1..Len(s) : (~IsLower(s[i]) => UCase(s)[i] = s[i]) /\ (~IsUpper(s[i]) => LCase(s)[i] = s[i])
  /\ LCase(UCase(s)) = LCase(s)
TrimLaw ==
  /\ \E k \in 0..Len(s) : s = Rep(k, 32) \o LTrim(s) /\ (LTrim(s) = <<>> \/ Head(LTrim(s)) # 32)
  /\ \E k \in 0..Len(s) : s = RTrim(s) \o Rep(k, 32) /\ (RTrim(s) = <<>> \/ RTrim(s)[Len(RTrim(s))] # 32)
SpaceLaw == n >= 0 => Space(n).v = StringN(n, 32).v /\ Len(Space(n).v) = n
ValStr == \A k \in {0 - 32768, 0 - 100, 0 - 1, 0, 1, 9, 10, 255, 32767, 65536, 2147483647} : Val(Str(k)) = k
=============================================================================
