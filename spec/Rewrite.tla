------------------------------ MODULE Rewrite ------------------------------
(***************************************************************************)
(* Equivalent spellings (C02).  A rule rewrites ONE statement (the site,     *)
(* identified by its id) into a sequence of statements; everything else is    *)
(* left untouched.  Rules:                                                    *)
(*   for2while   FOR as the equivalent WHILE (hidden limit / step variables,  *)
(*               the direction decided by the sign of the step at each test)  *)
(*   while2do    WHILE c ... WEND       as  DO WHILE c ... LOOP               *)
(*   until2not   DO UNTIL c             as  DO WHILE NOT c  (c a comparison)  *)
(*   select2if   SELECT CASE            as  an IF / ELSEIF chain, the subject *)
(*               bound once                                                   *)
(*   oneline     block IF               as  single-line IF                    *)
(*   addstep1    FOR without STEP       as  FOR ... STEP 1                    *)
(*   wrapbody    loop body              as  IF -1 THEN body END IF            *)
(*   colonline   a loop whose body consists of simple statements and such     *)
(*               loops, written on ONE line with colons                        *)
(* New statements get ids derived from the site id (unique: ids * 100 + k).   *)
(***************************************************************************)
EXTENDS Core

Rules == {"for2while", "while2do", "until2not", "select2if", "oneline", "addstep1", "wrapbody", "colonline"}

Lit(t, v) == [k |-> "lit", t |-> t, v |-> v]
Var(n, t) == [k |-> "var", n |-> n, t |-> t]
Bin(op, l, r) == [k |-> "bin", op |-> op, l |-> l, r |-> r]
Par(e) == [k |-> "par", e |-> e]
Let(id, lhs, e) == [k |-> "let", id |-> id, lhs |-> lhs, e |-> e]

RelOpsSet == {"=", "<>", "<", "<=", ">", ">="}
IsComparison(e) == e.k = "bin" /\ e.op \in RelOpsSet

\* the static type of an expression, where it can be read off the node
HasKnownType(e) == e.k \in {"lit", "var"} \/ (e.k = "un" /\ e.op = "neg" /\ e.e.k = "lit")
KnownType(e) == IF e.k = "un" THEN e.e.t ELSE e.t
NonZeroLit(e) == (e.k = "lit" /\ e.v # 0) \/ (e.k = "un" /\ e.e.k = "lit" /\ e.e.v # 0)

Simple(s) == s.k \in {"let", "print", "goto", "gosub", "return", "read", "end"}

Loops == {"for", "while", "do"}
RECURSIVE Colonable(_), AllColonable(_)
Colonable(x) == (x.k \in {"let", "print", "read"}) \/ (x.k \in Loops /\ AllColonable(x.body))
AllColonable(b) == \A j9 \in 1..Len(b) : Colonable(b[j9])
RECURSIVE MarkColon(_)
MarkColon(x) == IF x.k \in Loops THEN [x EXCEPT !.body = [j8 \in 1..Len(x.body) |-> MarkColon(x.body[j8])]] @@ [colon |-> TRUE] ELSE x

Applicable(rule, s) ==
  CASE rule = "for2while" -> s.k = "for" /\ s.v.k = "var" /\ HasKnownType(s.step) /\ KnownType(s.step) # "$"
    [] rule = "while2do" -> s.k = "while"
    [] rule = "until2not" -> s.k = "do" /\ s.kind = "until" /\ IsComparison(s.c)
    [] rule = "select2if" -> s.k = "select" /\ HasKnownType(s.e)
    [] rule = "oneline" -> s.k = "if" /\ Len(s.arms) = 1 /\ ~("oneline" \in DOMAIN s)
                           /\ Len(s.arms[1].body) >= 1 /\ \A j1 \in 1..Len(s.arms[1].body) : Simple(s.arms[1].body[j1])
                           /\ \A j2 \in 1..Len(s.els) : Simple(s.els[j2])
    [] rule = "addstep1" -> s.k = "for" /\ ~s.hasstep
    [] rule = "wrapbody" -> s.k \in {"for", "while", "do"}
    [] rule = "colonline" -> s.k \in Loops /\ ~("colon" \in DOMAIN s) /\ Len(s.body) >= 1 /\ AllColonable(s.body)

\* names of the hidden variables of site s
HidL(s) == "ZL" \o ToString(s.id)
HidS(s) == "ZS" \o ToString(s.id)
HidT(s) == "ZT" \o ToString(s.id)

TestCond(subj, t) ==
  CASE t.k = "eq" -> Bin("=", subj, t.e)
    [] t.k = "is" -> Bin(t.op, subj, t.e)
    [] t.k = "range" -> Par(Bin("and", Bin(">=", subj, t.lo), Bin("<=", subj, t.hi)))

RECURSIVE OrTests(_, _, _)
OrTests(subj, tests, j) ==
  IF j = Len(tests) THEN TestCond(subj, tests[j])
  ELSE Bin("or", TestCond(subj, tests[j]), OrTests(subj, tests, j + 1))

Rw(rule, s) ==
  CASE rule = "for2while" ->
         LET ct == s.v.t
             stt == KnownType(s.step)
             zl == Var(HidL(s), ct)
             zs == Var(HidS(s), stt)
             zero == Lit("I", 0)
             cond == Bin("or", Par(Bin("and", Bin(">", zs, zero), Bin("<=", s.v, zl))),
                               Par(Bin("and", Bin("<", zs, zero), Bin(">=", s.v, zl))))
         IN << Let(s.id * 100 + 1, s.v, s.lo),
               Let(s.id * 100 + 2, zl, s.hi),
               Let(s.id * 100 + 3, zs, s.step),
               [k |-> "while", id |-> s.id, c |-> cond,
                body |-> s.body \o <<Let(s.id * 100 + 4, s.v, Bin("+", s.v, zs))>>] >>
    [] rule = "while2do" ->
         << [k |-> "do", id |-> s.id, pos |-> "top", kind |-> "while", c |-> s.c, body |-> s.body] >>
    [] rule = "until2not" ->
         << [s EXCEPT !.kind = "while", !.c = [k |-> "un", op |-> "not", e |-> Par(s.c)]] >>
    [] rule = "select2if" ->
         LET zt == Var(HidT(s), KnownType(s.e)) IN
         << Let(s.id * 100 + 1, zt, s.e),
            IF Len(s.cases) = 0
            THEN [k |-> "if", id |-> s.id, arms |-> <<[c |-> Lit("I", 0), body |-> <<>>]>>, els |-> s.els, hasels |-> TRUE]
            ELSE [k |-> "if", id |-> s.id,
                  arms |-> [j \in 1..Len(s.cases) |->
                              [c |-> OrTests(zt, s.cases[j].tests, 1), body |-> s.cases[j].body]],
                  els |-> s.els, hasels |-> s.hasels] >>
    [] rule = "oneline" -> << s @@ [oneline |-> TRUE] >>
    [] rule = "addstep1" -> << [s EXCEPT !.hasstep = TRUE, !.step = Lit("I", 1)] >>
    [] rule = "colonline" -> << MarkColon(s) >>
    [] rule = "wrapbody" ->
         << [s EXCEPT !.body = << [k |-> "if", id |-> s.id * 100 + 9,
                                   arms |-> << [c |-> [k |-> "un", op |-> "neg", e |-> Lit("I", 1)], body |-> s.body] >>,
                                   els |-> <<>>, hasels |-> FALSE] >>] >>

RECURSIVE RwBody(_, _, _), RwOne(_, _, _)
RwBody(body, rule, sid) ==
  IF body = <<>> THEN <<>> ELSE RwOne(Head(body), rule, sid) \o RwBody(Tail(body), rule, sid)
RwOne(s, rule, sid) ==
  IF s.id = sid THEN Rw(rule, s)
  ELSE CASE s.k = "if" ->
         << [s EXCEPT !.arms = [j \in 1..Len(s.arms) |-> [s.arms[j] EXCEPT !.body = RwBody(@, rule, sid)]],
                      !.els = RwBody(@, rule, sid)] >>
       [] s.k = "select" ->
         << [s EXCEPT !.cases = [j \in 1..Len(s.cases) |-> [s.cases[j] EXCEPT !.body = RwBody(@, rule, sid)]],
                      !.els = RwBody(@, rule, sid)] >>
       [] s.k \in {"for", "while", "do"} -> << [s EXCEPT !.body = RwBody(@, rule, sid)] >>
       [] OTHER -> << s >>

RwProg(p, rule, sid) ==
  [p EXCEPT !.main = RwBody(@, rule, sid),
            !.subs = [j \in 1..Len(p.subs) |-> [p.subs[j] EXCEPT !.body = RwBody(@, rule, sid)]]]

\* the ids of the statements of a body where the rule applies
RECURSIVE SitesIn(_, _), SitesOf(_, _), SitesArms(_, _, _)
SitesArms(arms, rule, j) ==
  IF j > Len(arms) THEN {} ELSE SitesIn(arms[j].body, rule) \cup SitesArms(arms, rule, j + 1)
SitesOf(s, rule) ==
  (IF Applicable(rule, s) THEN {s.id} ELSE {}) \cup
  (CASE s.k = "if" -> SitesArms(s.arms, rule, 1) \cup SitesIn(s.els, rule)
     [] s.k = "select" -> SitesArms(s.cases, rule, 1) \cup SitesIn(s.els, rule)
     [] s.k \in {"for", "while", "do"} -> SitesIn(s.body, rule)
     [] OTHER -> {})
SitesIn(body, rule) == IF body = <<>> THEN {} ELSE SitesOf(Head(body), rule) \cup SitesIn(Tail(body), rule)

RECURSIVE SubSites(_, _, _)
SubSites(subs, rule, j) == IF j > Len(subs) THEN {} ELSE SitesIn(subs[j].body, rule) \cup SubSites(subs, rule, j + 1)
Sites(p, rule) == SitesIn(p.main, rule) \cup SubSites(p.subs, rule, 1)
=============================================================================
