------------------------------ MODULE StackMon ------------------------------
(* Dynamic monitor (C15 / C05): the depth vectors the hook recorded at statement   *)
(* boundaries of real runs.  A boundary reached again with the same context depth,   *)
(* the same pending returns and GOSUBs must show the same value / register /          *)
(* variable-path / by-ref / argument depths: nothing a statement pushed is left       *)
(* behind, nothing grows with the iteration count.                                     *)
(* Record: [id, b |-> << <<addr, states, gosub, ret, val, reg, vp, byref, arg>> >>]      *)
(*         (distinct tuples of one run, in order of first occurrence)                    *)
(* Second record kind: [id, k |-> "delta", op, d |-> <<val, reg, vp, byref, arg, frames>>] *)
(* an observed effect of an opcode, compared with the table of VMAbs (drift indicator).  *)
EXTENDS VMEffects, TLC, Json, IOUtils

Recs == ndJsonDeserialize(IOEnv.TRACE)

VARIABLE idx
MInit == idx \in 1..Len(Recs)
MNext == UNCHANGED idx
MSpec == MInit /\ [][MNext]_idx

Key(t) == <<t[1], t[2], t[3], t[4]>>
Consistent(b) == \A i, j \in 1..Len(b) : Key(b[i]) = Key(b[j]) => i = j
\* the variable-path, by-ref and argument stacks are empty at every statement boundary (relative to the
\* activation); the value and register stacks may hold what enclosing SELECT CASE / FOR statements keep there
Clean(b) == \A i \in 1..Len(b) : b[i][5] >= 0 /\ b[i][6] >= 0 /\ b[i][7] = 0 /\ b[i][8] = 0 /\ b[i][9] = 0

MVerdict ==
  LET r == Recs[idx] IN
  IF "k" \in DOMAIN r /\ r.k = "delta" THEN
    (IF r.op \in Known THEN
       LET d == Delta(r.op) IN
       (<<d.val, d.reg, d.vp, d.byref, d.arg, d.frames>> = r.d \/ PrintT("DRIFT " \o ToString(r.id)))
     ELSE PrintT("DRIFT " \o ToString(r.id)))
  ELSE
    /\ (Consistent(r.b) \/ PrintT("INCONSISTENT " \o ToString(r.id)))
    /\ (Clean(r.b) \/ PrintT("DIRTY " \o ToString(r.id)))
=============================================================================
