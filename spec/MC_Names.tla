------------------------------ MODULE MC_Names ------------------------------
(* D-level: the resolution rules of Names.tla satisfy the statements of C13 on     *)
(* every DEFtype configuration of the first letter, every declaration state of one   *)
(* base name and every pair of suffixes.                                             *)
EXTENDS Names

Sfx == {"", "I", "L", "S", "D", "$"}
A == 65

VARIABLES dt, decl, s1, s2, sc
vars == <<dt, decl, s1, s2, sc>>
\* dt: DEFtype of the letter A ("" = none); decl: "none" | a type (DIM A AS type) in the scope of use
Init == dt \in {""} \cup Types /\ decl \in {"none"} \cup Types /\ s1 \in Sfx /\ s2 \in Sfx /\ sc \in {"main", "sub"}
Next == UNCHANGED vars
Spec == Init /\ [][Next]_vars

Defs == IF dt = "" THEN <<>> ELSE <<[t |-> dt, lo |-> 65, hi |-> 67]>>
Scope == IF decl = "none" THEN NewScope ELSE [NewScope EXCEPT !.ext = ("A" :> decl)]
St == [defs |-> Defs, g |-> IF sc = "main" THEN Scope ELSE NewScope, l |-> IF sc = "sub" THEN Scope ELSE NewScope,
       shared |-> {}, sharedext |-> {}, vars |-> Empty, out |-> <<>>, verdict |-> "accept"]
R(s) == Resolve(St, sc, "A", A, s)

\* the default type is SINGLE unless a DEFtype covers the letter
DefaultIsSingle == DefaultType(Defs, A) = (IF dt = "" THEN "S" ELSE dt)
\* a bare name and the name with the default suffix are one variable
BareIsDefault == decl = "none" => R("") = R(DefaultType(Defs, A))
\* differently suffixed names are different variables
SuffixesDistinct == (decl = "none" /\ s1 # "" /\ s2 # "" /\ s1 # s2) => R(s1).key # R(s2).key
\* after DIM A AS type: bare or matching suffix is that variable, every other suffix is rejected
ExtendedExcludes ==
  decl # "none" => (IF s1 \in {"", decl} THEN R(s1) = [r |-> "var", key |-> <<sc, "A", decl>>] ELSE R(s1).r = "reject")
\* a name used in the SUB is local unless shared / constant
LocalByDefault == (decl = "none" /\ sc = "sub") => R(s1).key[1] = "sub"
\* what a name denotes does not depend on WHERE it is used: as an item of PRINT or as an argument of a call (statement parg),
\* for variables, declared names and the names of FUNCTIONs alike
StF(fn) == St @@ [alias |-> Empty, fn |-> fn]
Same(fn) == LET a == Stmt(StF(fn), sc, [k |-> "print", b |-> "A", c |-> A, sfx |-> s1])
                b == Stmt(StF(fn), sc, [k |-> "parg", b |-> "A", c |-> A, sfx |-> s1])
            IN a.out = b.out /\ a.verdict = b.verdict /\ a.vars = b.vars
UseSiteIndifferent == Same(Empty) /\ (s2 # "" => Same("A" :> [b |-> "A", t |-> s2, id |-> 4]))
=============================================================================
