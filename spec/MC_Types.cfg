SPECIFICATION Spec
INVARIANT Sound
INVARIANT ResultKind
CHECK_DEADLOCK FALSE
