SPECIFICATION Spec
CONSTANT MaxCall = 3
CONSTANT MaxNest = 3
CONSTANT Rich = TRUE
CONSTANT FaultSel = "all"
INVARIANT TypeOK
INVARIANT WellFormed
INVARIANT Emit
CHECK_DEADLOCK FALSE
