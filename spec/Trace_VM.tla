------------------------------ MODULE Trace_VM ------------------------------
(***************************************************************************)
(* Trace validation of the real VM against VM.tla.  A record is                  *)
(*   [id, insns |-> <<instruction records>>, errsteps |-> <<steps that raised>>,     *)
(*    trace |-> <<[pc, r |-> <<a,b,c,d>>, vs, rs, vp, cx, ret, gs, br (depths)]>>]    *)
(* one trace entry per executed instruction (the state BEFORE it runs).            *)
(* The specification is run in lock-step: before every instruction its pc, its      *)
(* registers (where both sides know the value) and the depths of its stacks must     *)
(* be what the real machine recorded.  Where the model holds an opaque register and    *)
(* the machine recorded a value, the recorded value is adopted (Refine).                *)
(*  - An error the machine raised transfers control as the machine says: argument        *)
(*    lists are dropped, an error handler gets its own context entry, the stacks are       *)
(*    cut back to the recorded depths (ErrorTransfer).                                     *)
(*  - After an instruction outside the model, or when the recorded shape cannot be          *)
(*    explained, the state is re-synchronised from the record (Resync): registers as         *)
(*    recorded, stacks of the recorded depths filled with opaque values, every block          *)
(*    unknown.                                                                             *)
(* Verdict per record: AGREE <id> <validated steps> <resynchronisations>, or                *)
(* DRIFT <id> <step> <what> - a disagreement between model and machine (reported as          *)
(* evidence by the driver: either the model or the machine changed).                         *)
(***************************************************************************)
EXTENDS VM, Json, IOUtils

Recs == ndJsonDeserialize(IOEnv.TRACE)
\* the check of a record is evaluated on the successor state (done = TRUE): TLC evaluates invariants of successor
\* states in its worker threads, whose stack size can be set; initial states are handled by the main thread
VARIABLES idx, done
Init == idx \in 1..Len(Recs) /\ done = FALSE
Next == ~done /\ done' = TRUE /\ idx' = idx
Spec == Init /\ [][Next]_<<idx, done>>

SameVal(x, y) == IsOpaque(x) \/ IsOpaque(y) \/ (x.t = y.t /\ x.v = y.v)
SameRegs(st, e) == SameVal(st.a, e.r[1]) /\ SameVal(st.b, e.r[2]) /\ SameVal(st.c, e.r[3]) /\ SameVal(st.d, e.r[4])
\* the machine counts the live registers as the top frame of its register stack
SameDepths(st, e) == /\ Len(st.vs) = e.vs /\ Len(st.rs) + 1 = e.rs /\ Len(st.vp) = e.vp
                     /\ Len(st.ctx) = e.cx /\ Len(st.ret) = e.ret /\ Len(st.gs) = e.gs /\ Len(st.br) = e.br
Pick(x, y) == IF IsOpaque(x) THEN y ELSE x
Refine(st, e) == [st EXCEPT !.a = Pick(@, e.r[1]), !.b = Pick(@, e.r[2]), !.c = Pick(@, e.r[3]), !.d = Pick(@, e.r[4])]

OpaqueSeq(n) == [j \in 1..n |-> Opaque]
\* nothing is known but the shape: the context entries all name unknown blocks of their own (no sharing is assumed,
\* which only loses knowledge: every value read from them is opaque)
Resync(e) == [pc |-> e.pc, a |-> e.r[1], b |-> e.r[2], c |-> e.r[3], d |-> e.r[4],
              vs |-> OpaqueSeq(e.vs), rs |-> [j \in 1..(e.rs - 1) |-> <<Opaque, Opaque, Opaque, Opaque>>],
              vp |-> [j \in 1..e.vp |-> [n |-> "?", q |-> "?", sh |-> FALSE, deep |-> TRUE]],
              ret |-> [j \in 1..e.ret |-> -1], gs |-> [j \in 1..e.gs |-> [pc |-> 0 - 1, d |-> 0, nr |-> 0, nv |-> 0]], br |-> OpaqueSeq(e.br), fres |-> Opaque,
              ctx |-> [j \in 1..e.cx |-> [blk |-> j - 1, coll |-> FALSE, args |-> <<>>]],
              blocks |-> [j \in 0..(e.cx - 1) |-> UnknownBlock], statics |-> [x \in {} |-> 0], nb |-> e.cx, lost |-> TRUE]

\* a resynchronised state does not know which context entries collect arguments or which STATIC blocks exist
Lost(st) == "lost" \in DOMAIN st

RECURSIVE DropColl(_)
DropColl(cx) == IF Len(cx) > 1 /\ Last(cx).coll THEN DropColl(Front(cx)) ELSE cx
Prefix(s, n) == SubSeq(s, 1, n)
\* control after an error, as far as the model can tell it: the next entry is either the handler (one more context
\* entry, on the module's block) or the next statement (ON ERROR RESUME NEXT); the stacks are cut to the recorded depths
ErrorTransfer(st, e) ==
  LET cx0 == DropColl(st.ctx)
      cx1 == IF e.cx = Len(cx0) + 1 THEN Append(cx0, [blk |-> 0, coll |-> FALSE, args |-> <<>>]) ELSE cx0
  IN IF Lost(st) \/ Len(cx1) # e.cx \/ e.vs > Len(st.vs) \/ e.rs - 1 > Len(st.rs) \/ e.vp > Len(st.vp) \/ e.br > Len(st.br)
        \/ e.ret # Len(st.ret) \/ e.gs # Len(st.gs)
     THEN Resync(e)
     ELSE [st EXCEPT !.pc = e.pc, !.ctx = cx1, !.vs = Prefix(@, e.vs), !.rs = Prefix(@, e.rs - 1), !.vp = Prefix(@, e.vp),
                     !.br = Prefix(@, e.br), !.a = e.r[1], !.b = e.r[2], !.c = e.r[3], !.d = e.r[4]]

ErrOps == Binary \cup {"Cast", "NegateA", "NotA"}

RECURSIVE Check(_, _, _, _, _)
\* k: index of the trace entry the state st must match; ok: validated steps; rsn: resynchronisations
Check(r, k, st0, ok, rsn) ==
  IF k > Len(r.trace) THEN <<"AGREE", ok, rsn>>
  ELSE LET e == r.trace[k] IN
    IF st0.pc # e.pc THEN <<"DRIFT", k, "pc">>
    ELSE IF ~SameRegs(st0, e) THEN <<"DRIFT", k, "registers model=" \o ToString(<<st0.a, st0.b, st0.c, st0.d>>)>>
    ELSE IF ~SameDepths(st0, e) THEN <<"DRIFT", k, "depths model=" \o ToString(<<Len(st0.vs), Len(st0.rs) + 1, Len(st0.vp), Len(st0.ctx), Len(st0.ret), Len(st0.gs), Len(st0.br)>>)>>
    ELSE IF e.pc + 1 > Len(r.insns) THEN <<"DRIFT", k, "pc-out-of-range">>
    ELSE LET st == Refine(st0, e)
             ins == r.insns[e.pc + 1]
             x == Exec(ins, st)
             errHere == k \in {r.errsteps[j] : j \in 1..Len(r.errsteps)}
             last == k = Len(r.trace)
         IN
      IF errHere /\ (IsState(x) \/ "trust" \in DOMAIN x) THEN
           \* the machine raised an error the model did not predict: a disagreement when the operands were known
           \* (a result the model leaves open - outside the exact domain - is opaque, and then nothing is claimed)
           (IF IsState(x) /\ Known2(st.a, st.b) /\ ~IsOpaque(x.a) /\ ins.op \in ErrOps THEN <<"DRIFT", k, "unexpected-error">>
            ELSE IF last THEN <<"AGREE", ok, rsn>> ELSE Check(r, k + 1, ErrorTransfer(st, r.trace[k + 1]), ok, rsn))
      ELSE IF IsState(x) THEN Check(r, k + 1, IF Lost(st) THEN x @@ [lost |-> TRUE] ELSE x, ok + 1, rsn)
      ELSE IF "trust" \in DOMAIN x THEN
           (IF last THEN <<"AGREE", ok + 1, rsn>> ELSE Check(r, k + 1, [x.trust EXCEPT !.pc = r.trace[k + 1].pc], ok + 1, rsn))
      ELSE IF "halt" \in DOMAIN x THEN (IF last THEN <<"AGREE", ok + 1, rsn>> ELSE <<"DRIFT", k, "halt">>)
      ELSE IF "err" \in DOMAIN x THEN
           \* the machine must have raised an error here too (the driver lists the failing addresses)
           (IF errHere THEN (IF last THEN <<"AGREE", ok + 1, rsn>> ELSE Check(r, k + 1, ErrorTransfer(st, r.trace[k + 1]), ok + 1, rsn))
            ELSE <<"DRIFT", k, "error-not-raised">>)
      ELSE \* an instruction outside the model: take the machine's word and go on
           (IF last THEN <<"AGREE", ok, rsn>> ELSE Check(r, k + 1, Resync(r.trace[k + 1]), ok, rsn + 1))

Verdict ==
  done =>
  LET r == Recs[idx]
      v == Check(r, 1, Start, 0, 0)
  IN PrintT(v[1] \o " " \o ToString(r.id) \o " " \o ToString(v[2]) \o " " \o ToString(v[3]))
=============================================================================
