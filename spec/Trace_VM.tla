------------------------------ MODULE Trace_VM ------------------------------
(***************************************************************************)
(* Trace validation of the real VM against VM.tla.  A record is                  *)
(*   [id, insns |-> <<instruction records>>, trace |-> <<[pc, r |-> <<a,b,c,d>>,    *)
(*    vs, rs, vp (depths)]>>]                                                      *)
(* one trace entry per executed instruction (the state BEFORE it runs).            *)
(* The specification is run in lock-step: before every instruction its pc, its      *)
(* registers (where both sides know the value) and its stack depths must be what     *)
(* the real machine recorded.  After an instruction outside the model the state is    *)
(* re-synchronised from the record: registers as recorded, stacks of the recorded       *)
(* depths filled with opaque values, every variable opaque.                           *)
(* Verdict per record: AGREE <validated steps> <resynchronisations>, or                *)
(* DRIFT <step> <what> - a disagreement between model and machine (reported as          *)
(* evidence by the driver: either the model or the machine changed).                    *)
(***************************************************************************)
EXTENDS VM, Json, IOUtils

Recs == ndJsonDeserialize(IOEnv.TRACE)
\* the check of a record is evaluated on the successor state (done = TRUE): TLC evaluates invariants of successor
\* states in its worker threads, whose stack size can be set; initial states are handled by the main thread
VARIABLES idx, done
Init == idx \in 1..Len(Recs) /\ done = FALSE
Next == ~done /\ done' = TRUE /\ idx' = idx
Spec == Init /\ [][Next]_<<idx, done>>

SameVal(x, y) == IsOpaque(x) \/ IsOpaque(y) \/ (x.t = y.t /\ x.v = y.v)
SameRegs(st, e) == SameVal(st.a, e.r[1]) /\ SameVal(st.b, e.r[2]) /\ SameVal(st.c, e.r[3]) /\ SameVal(st.d, e.r[4])
\* the machine counts the live registers as the top frame of its register stack
SameDepths(st, e) == Len(st.vs) = e.vs /\ Len(st.rs) + 1 = e.rs /\ Len(st.vp) = e.vp

OpaqueSeq(n) == [j \in 1..n |-> Opaque]
Resync(e) == [pc |-> e.pc, a |-> e.r[1], b |-> e.r[2], c |-> e.r[3], d |-> e.r[4],
              vs |-> OpaqueSeq(e.vs), rs |-> [j \in 1..(e.rs - 1) |-> <<Opaque, Opaque, Opaque, Opaque>>],
              vp |-> [j \in 1..e.vp |-> "?"], vars |-> [x \in {} |-> Opaque]]

RECURSIVE Check(_, _, _, _, _)
\* k: index of the trace entry the state st must match; ok: validated steps; rs: resynchronisations
Check(r, k, st, ok, rsn) ==
  IF k > Len(r.trace) THEN <<"AGREE", ok, rsn>>
  ELSE LET e == r.trace[k] IN
    IF st.pc # e.pc THEN <<"DRIFT", k, "pc">>
    ELSE IF ~SameRegs(st, e) THEN <<"DRIFT", k, "registers">>
    ELSE IF ~SameDepths(st, e) THEN <<"DRIFT", k, "depths">>
    ELSE IF e.pc + 1 > Len(r.insns) THEN <<"DRIFT", k, "pc-out-of-range">>
    ELSE LET x == Exec(r.insns[e.pc + 1], st)
             errHere == e.pc \in {r.errors[j] : j \in 1..Len(r.errors)}
         IN
      IF errHere /\ IsState(x) THEN
           \* the machine raised an error the model did not predict: a disagreement when the operands were known
           \* (a result the model leaves open - outside the exact domain - is opaque, and then nothing is claimed)
           (IF Known2(st.a, st.b) /\ ~IsOpaque(x.a) /\ r.insns[e.pc + 1].op \in Binary \cup {"Cast", "NegateA", "NotA"} THEN <<"DRIFT", k, "unexpected-error">>
            ELSE IF k = Len(r.trace) THEN <<"AGREE", ok, rsn>> ELSE Check(r, k + 1, Resync(r.trace[k + 1]), ok, rsn + 1))
      ELSE IF IsState(x) THEN Check(r, k + 1, x, ok + 1, rsn)
      ELSE IF "halt" \in DOMAIN x THEN (IF k = Len(r.trace) THEN <<"AGREE", ok + 1, rsn>> ELSE <<"DRIFT", k, "halt">>)
      ELSE IF "err" \in DOMAIN x THEN
           \* the machine must have raised an error here too (the driver checks the list of failing addresses)
           (IF errHere THEN
              (IF k = Len(r.trace) THEN <<"AGREE", ok + 1, rsn>> ELSE Check(r, k + 1, Resync(r.trace[k + 1]), ok + 1, rsn + 1))
            ELSE <<"DRIFT", k, "error-not-raised">>)
      ELSE \* unmodelled instruction or a jump on an opaque value: take the machine's word and go on
           (IF k = Len(r.trace) THEN <<"AGREE", ok, rsn>> ELSE Check(r, k + 1, Resync(r.trace[k + 1]), ok, rsn + 1))

Verdict ==
  done =>
  LET r == Recs[idx]
      v == Check(r, 1, Start, 0, 0)
  IN PrintT(v[1] \o " " \o ToString(r.id) \o " " \o ToString(v[2]) \o " " \o ToString(v[3]))
=============================================================================
