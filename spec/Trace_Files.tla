----------------------------- MODULE Trace_Files -----------------------------
(* Recorded file histories of the real interpreter (stdout, the bytes of the      *)
(* scratch files afterwards, the final result) validated against Files.tla.       *)
(* Record: [id, ops, stdin, obs |-> [out, files |-> <<[name, bytes]>>, status, code]] *)
EXTENDS Files, Json, IOUtils

Recs == ndJsonDeserialize(IOEnv.TRACE)

VARIABLES idx, st, i
vars == <<idx, st, i>>
Init == idx \in 1..Len(Recs) /\ st = Init0(Recs[idx].stdin) /\ i = 1
Next == /\ i <= Len(Recs[idx].ops) /\ st.status = "run" /\ ~st.skip
        /\ st' = Step(st, Recs[idx].ops[i]) /\ i' = i + 1 /\ UNCHANGED idx
Spec == Init /\ [][Next]_vars

Finished == i > Len(Recs[idx].ops) \/ st.status # "run" \/ st.skip
TableOK == HandlesOK(st) /\ CursorOK(st)

CodeOK(e, a) == e = a \/ (e = FileErr /\ a >= 50 /\ a <= 76)

FilesAgree(o) ==
  /\ {o.files[j].name : j \in 1..Len(o.files)} = DOMAIN st.store
  /\ \A j \in 1..Len(o.files) : o.files[j].name \in DOMAIN st.store /\ st.store[o.files[j].name] = o.files[j].bytes

Verdict ==
  Finished =>
    LET o == Recs[idx].obs IN
    IF st.skip THEN PrintT("SKIP " \o ToString(Recs[idx].id))
    ELSE IF /\ st.out = o.out
            /\ st.status = o.status
            /\ (st.status = "err" => CodeOK(st.code, o.code))
            /\ FilesAgree(o)
         THEN PrintT("AGREE " \o ToString(Recs[idx].id))
         ELSE PrintT("MISMATCH " \o ToString(Recs[idx].id) \o " " \o
                     ToJson([out |-> st.out, status |-> st.status, code |-> st.code,
                             files |-> [n \in DOMAIN st.store |-> st.store[n]]]))
=============================================================================
