-------------------------------- MODULE Expr --------------------------------
(***************************************************************************)
(* Expressions as token sequences (C10).                                     *)
(*                                                                           *)
(*  Prec     - the reference: precedence climbing with the ranks of the       *)
(*             property (unary minus 7; * / 6; MOD 5; + - 4; relational 3;    *)
(*             NOT 2; AND 1; OR 0), equal ranks grouping left to right.       *)
(*  RightLean / Flip - the implementation-shaped route: the parser builds a   *)
(*             right-leaning tree and repairs it by rotating whenever the     *)
(*             left operator binds at least as tight as the right one.        *)
(*  Literals - value and narrowest type of decimal, &H, &O and fractional     *)
(*             literals, also directly after a unary minus.                   *)
(*                                                                           *)
(* Tokens: [k |-> "v", n |-> name] operand, [k |-> "op", op |-> name] binary  *)
(* operator, [k |-> "un", op |-> "neg" | "not"], [k |-> "("], [k |-> ")"].    *)
(* Trees:  [k |-> "v", n], [k |-> "bin", op, l, r], [k |-> "un", op, e],      *)
(*         [k |-> "par", e].                                                  *)
(***************************************************************************)
EXTENDS Integers, Sequences, Bits

Rank(op) ==
  CASE op \in {"Multiply", "Divide"} -> 6
    [] op = "Modulo" -> 5
    [] op \in {"Plus", "Minus"} -> 4
    [] op \in {"Less", "LessOrEqual", "Equal", "GreaterOrEqual", "Greater", "NotEqual"} -> 3
    [] op = "And" -> 1
    [] op = "Or" -> 0
URank(op) == IF op = "neg" THEN 7 ELSE 2

BinOps == {"Multiply", "Divide", "Modulo", "Plus", "Minus", "Less", "LessOrEqual", "Equal",
           "GreaterOrEqual", "Greater", "NotEqual", "And", "Or"}

V(n) == [k |-> "v", n |-> n]
Bin(op, l, r) == [k |-> "bin", op |-> op, l |-> l, r |-> r]
Un(op, e) == [k |-> "un", op |-> op, e |-> e]
Par(e) == [k |-> "par", e |-> e]

(***************************************************************************)
(* Reference: precedence climbing.  Result [t |-> tree, p |-> next position]  *)
(***************************************************************************)
RECURSIVE PExpr(_, _, _), PLoop(_, _, _, _), PPrimary(_, _)

PPrimary(toks, p) ==
  LET tk == toks[p] IN
  CASE tk.k = "v" -> [t |-> tk, p |-> p + 1]
    [] tk.k = "(" -> LET r == PExpr(toks, p + 1, 0) IN [t |-> Par(r.t), p |-> r.p + 1]   \* skips ")"
    [] tk.k = "un" -> LET r == PExpr(toks, p + 1, URank(tk.op)) IN [t |-> Un(tk.op, r.t), p |-> r.p]

PLoop(toks, left, p, minrank) ==
  IF p > Len(toks) \/ toks[p].k # "op" \/ Rank(toks[p].op) < minrank THEN [t |-> left, p |-> p]
  ELSE LET op == toks[p].op
           r == PExpr(toks, p + 1, Rank(op) + 1)      \* left associative
       IN PLoop(toks, Bin(op, left, r.t), r.p, minrank)

PExpr(toks, p, minrank) ==
  LET l == PPrimary(toks, p) IN PLoop(toks, l.t, l.p, minrank)

Prec(toks) == PExpr(toks, 1, 0).t

(***************************************************************************)
(* Implementation-shaped: right-leaning parse + rotation repair               *)
(***************************************************************************)
RECURSIVE RExpr(_, _), RPrimary(_, _), MkBin(_, _, _), MkUn(_, _)

\* binary_expr: build, then flip while the left operator binds at least as tight
MkBin(op, l, r) ==
  IF r.k = "bin" /\ Rank(op) >= Rank(r.op) THEN Bin(r.op, MkBin(op, l, r.l), r.r) ELSE Bin(op, l, r)

\* apply_unary_priority_order
MkUn(op, e) ==
  IF e.k = "bin" /\ (op = "neg" \/ e.op \in {"And", "Or"}) THEN MkBin(e.op, MkUn(op, e.l), e.r) ELSE Un(op, e)

RPrimary(toks, p) ==
  LET tk == toks[p] IN
  CASE tk.k = "v" -> [t |-> tk, p |-> p + 1]
    [] tk.k = "(" -> LET r == RExpr(toks, p + 1) IN [t |-> Par(r.t), p |-> r.p + 1]
    [] tk.k = "un" -> LET r == RExpr(toks, p + 1) IN [t |-> MkUn(tk.op, r.t), p |-> r.p]

RExpr(toks, p) ==
  LET l == RPrimary(toks, p) IN
  IF toks[p].k = "un" THEN l     \* a unary operator swallows the rest of the expression, then it is repaired
  ELSE IF l.p <= Len(toks) /\ toks[l.p].k = "op"
  THEN LET r == RExpr(toks, l.p + 1) IN [t |-> MkBin(toks[l.p].op, l.t, r.t), p |-> r.p]
  ELSE l

Flip(toks) == RExpr(toks, 1).t

(***************************************************************************)
(* Trees are compared up to the placement of a unary minus over * / MOD:      *)
(* -(a * b) and (-a) * b are the same value, the property fixes evaluation.   *)
(***************************************************************************)
RECURSIVE Norm(_)
Norm(t) ==
  CASE t.k = "v" -> t
    [] t.k = "lit" -> t
    [] t.k = "par" -> Par(Norm(t.e))
    [] t.k = "bin" -> Bin(t.op, Norm(t.l), Norm(t.r))
    [] t.k = "un" ->
         LET e == Norm(t.e) IN
         IF t.op = "neg" /\ e.k = "bin" /\ e.op \in {"Multiply", "Divide", "Modulo"}
         THEN Bin(e.op, Norm(Un("neg", e.l)), e.r)
         ELSE Un(t.op, e)

\* the operands in order (an in-order traversal returns the operand tokens unchanged)
RECURSIVE Leaves(_)
Leaves(t) ==
  CASE t.k \in {"v", "lit"} -> <<t>>
    [] t.k = "par" -> Leaves(t.e)
    [] t.k = "un" -> Leaves(t.e)
    [] t.k = "bin" -> Leaves(t.l) \o Leaves(t.r)

(***************************************************************************)
(* Literals.  Digits are given as a sequence of digit values.                 *)
(***************************************************************************)
MaxI == 32767
MaxL == 2147483647

\* decimal value while it stays within 2^31 - 1; -1 = larger
RECURSIVE DecVal(_, _)
DecVal(ds, acc) ==
  IF ds = <<>> THEN acc
  ELSE IF acc > (MaxL - Head(ds)) \div 10 THEN 0 - 1
  ELSE DecVal(Tail(ds), acc * 10 + Head(ds))

\* [t |-> type, v |-> value] ; for DOUBLE the value is not representable here (v = -1)
RECURSIVE StripLeadingZeros(_)
StripLeadingZeros(ds) == IF Len(ds) > 1 /\ Head(ds) = 0 THEN StripLeadingZeros(Tail(ds)) ELSE ds
DecLit(ds, neg) ==
  LET n == DecVal(ds, 0) IN
  IF neg /\ StripLeadingZeros(ds) = <<2, 1, 4, 7, 4, 8, 3, 6, 4, 8>> THEN [t |-> "L", v |-> 0 - MaxL - 1]
  ELSE IF n < 0 THEN [t |-> "D", v |-> 0 - 1]
  ELSE IF neg THEN (IF n <= MaxI + 1 THEN [t |-> "I", v |-> 0 - n] ELSE [t |-> "L", v |-> 0 - n])
  ELSE IF n <= MaxI THEN [t |-> "I", v |-> n] ELSE [t |-> "L", v |-> n]

\* &H / &O: bits (most significant first) -> 16- or 32-bit two's complement
RECURSIVE StripZeros(_), BitsVal(_, _)
StripZeros(b) == IF b # <<>> /\ Head(b) = 0 THEN StripZeros(Tail(b)) ELSE b
BitsVal(b, acc) == IF b = <<>> THEN acc ELSE BitsVal(Tail(b), acc * 2 + Head(b))
RadixLit(bits) ==
  LET b == StripZeros(bits) IN
  IF Len(b) <= 16 THEN [t |-> "I", v |-> LET u == BitsVal(b, 0) IN IF u >= 32768 THEN u - 65536 ELSE u]
  ELSE IF Len(b) <= 32 THEN
    (IF Len(b) = 32 THEN [t |-> "L", v |-> BitsVal(Tail(b), 0) - MaxL - 1]   \* sign bit set
     ELSE [t |-> "L", v |-> BitsVal(b, 0)])
  ELSE [t |-> "overflow", v |-> 0]

\* a unary minus directly in front of an &H / &O literal: the value is the negated value, in a type that holds it
\* (the minimum of each type widens: -&H8000 = 32768 is a LONG, -&H80000000 is a DOUBLE); whether a small value
\* of a LONG literal narrows to INTEGER is not fixed by the property.  Result: the set of admissible [t, v].
NegRadixOK(bits, t, v) ==
  LET e == RadixLit(bits) IN
  IF e.t = "overflow" THEN TRUE
  ELSE IF e.v = 0 - MaxL - 1 THEN t = "D"
  ELSE LET nv == 0 - e.v IN
       /\ v = nv
       /\ \/ (t = "I" /\ nv >= 0 - MaxI - 1 /\ nv <= MaxI)
          \/ (t = "L" /\ (e.t = "L" \/ nv > MaxI))
=============================================================================
