---------------------------- MODULE Trace_Strings ----------------------------
(* Results of the real string built-ins (recorded from BASIC programs) checked     *)
(* against the definitions of Strings.tla - not only against the laws, so that a    *)
(* wrong but law-abiding implementation is still caught.                            *)
(* Record: [id, fn, s, t, n, m, has, ok, v | c]                                     *)
EXTENDS Strings, Json, IOUtils, TLC

Recs == ndJsonDeserialize(IOEnv.TRACE)

VARIABLE idx
Init == idx \in 1..Len(Recs)
Next == UNCHANGED idx
Spec == Init /\ [][Next]_idx

Expected(r) ==
  CASE r.fn = "LEFT$" -> Left(r.s, r.n)
    [] r.fn = "RIGHT$" -> Right(r.s, r.n)
    [] r.fn = "MID$" -> Mid(r.s, r.n, r.m, r.has)
    [] r.fn = "INSTR" -> Instr(r.n, r.s, r.t)
    [] r.fn = "LEN" -> Ok(Len(r.s))
    [] r.fn = "LENCAT" -> Ok(Len(r.s) + Len(r.t))
    [] r.fn = "UCASE$" -> Ok(UCase(r.s))
    [] r.fn = "LCASE$" -> Ok(LCase(r.s))
    [] r.fn = "LTRIM$" -> Ok(LTrim(r.s))
    [] r.fn = "RTRIM$" -> Ok(RTrim(r.s))
    [] r.fn = "SPACE$" -> Space(r.n)
    [] r.fn = "STRING$" -> StringN(r.n, r.m)
    [] r.fn = "STRINGS$" -> StringS(r.n, r.s)
    [] r.fn = "STR$" -> Ok(Str(r.n))
    [] r.fn = "VALSTR" -> Ok(r.n)
    [] r.fn = "VAL" -> Ok(Val(r.s))

Holds(r) ==
  LET e == Expected(r) IN
  IF e.ok THEN r.ok /\ r.v = e.v ELSE ~r.ok /\ r.c = e.c

Verdict == IF Holds(Recs[idx]) THEN TRUE ELSE PrintT("MISMATCH " \o ToString(Recs[idx].id))
=============================================================================
