----------------------------- MODULE Trace_Print -----------------------------
(* Recorded PRINT histories of the real interpreter (bytes that arrived on the     *)
(* screen, the printer and two files) validated against Print.tla: the spec's own   *)
(* step processes the recorded statements one by one (the column invariant is       *)
(* checked in every state) and the final bytes must be the recorded ones.           *)
EXTENDS Print, Json, IOUtils, TLC

Recs == ndJsonDeserialize(IOEnv.TRACE)

VARIABLES idx, st, i
vars == <<idx, st, i>>
Init == idx \in 1..Len(Recs) /\ st = Init0 /\ i = 1
Next == /\ i <= Len(Recs[idx].hist) /\ ~Unjudged(st)
        /\ st' = Stmt(st, Recs[idx].hist[i])
        /\ i' = i + 1
        /\ UNCHANGED idx
Spec == Init /\ [][Next]_vars

Finished == i > Len(Recs[idx].hist) \/ Unjudged(st)
ColumnOK == ColOK(st)

Verdict ==
  Finished =>
    IF Unjudged(st) THEN PrintT("SKIP " \o ToString(Recs[idx].id))
    ELSE IF \A d \in Devices : st.out[d] = Recs[idx].obs[d] THEN PrintT("AGREE " \o ToString(Recs[idx].id))
    ELSE PrintT("MISMATCH " \o ToString(Recs[idx].id) \o " " \o ToJson(st.out))
=============================================================================
