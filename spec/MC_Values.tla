----------------------------- MODULE MC_Values -----------------------------
(* D-level check of the value domain: conversions and arithmetic are total    *)
(* over the boundary set, every result lies in the range of its type or is     *)
(* one of the admissible errors.  The state space is the set of argument        *)
(* tuples; the invariants are evaluated on each.                                *)
EXTENDS Values, TLC

Boundary == {MinI, MinI - 1, MinI + 1, 0 - 1, 0, 1, 2, MaxI - 1, MaxI, MaxI + 1,
             MinL, MinL + 1, MaxL - 1, MaxL, MaxSExact, MaxSExact - 1, 0 - MaxSExact,
             46340, 46341, 0 - 46341, 65535, 65536}

Fits(t, n) == InRange(t, n)

VARIABLES mode, op, ta, tb, a, b
vars == <<mode, op, ta, tb, a, b>>

Init ==
  \/ /\ mode = "cast" /\ op = "" /\ ta \in NumTypes /\ tb \in NumTypes
     /\ a \in {n \in Boundary : Fits(ta, n)} /\ b = 0
  \/ /\ mode = "arith" /\ op \in BinOps /\ ta \in NumTypes /\ tb \in NumTypes
     /\ a \in {n \in Boundary : Fits(ta, n)} /\ b \in {n \in Boundary : Fits(tb, n)}
  \/ /\ mode = "unary" /\ op \in {"neg", "not"} /\ ta \in NumTypes /\ tb = "I"
     /\ a \in {n \in Boundary : Fits(ta, n)} /\ b = 0
  \/ /\ mode = "frac" /\ op = "" /\ ta \in {"S", "D"} /\ tb \in {"I", "L"}
     /\ a \in {0, 1, 2, MaxI - 1, MaxI, MaxI + 1} /\ b \in {1, 4, 6, 9}
Next == UNCHANGED vars
Spec == Init /\ [][Next]_vars

ResultOK(t, r) ==
  IF IsErr(r) THEN r.c \in {0, 6, 11} ELSE r.t = t /\ InRange(t, r.v)

CastOK ==
  mode = "cast" =>
    LET r == Cast(tb, Val(ta, a)) IN
    /\ ResultOK(tb, r)
    /\ (InRange(tb, a) => r = Val(tb, a))                    \* a fitting value is kept
    /\ (~InRange(tb, a) /\ tb \in {"I", "L"} => r = Overflow) \* a non-fitting one is Overflow

ArithOK ==
  mode = "arith" => ResultOK(ResType(op, ta, tb), Arith(op, Val(ta, a), Val(tb, b)))

\* results of + - * are the mathematical ones whenever they are produced
ArithExact ==
  mode = "arith" /\ op = "+" =>
    LET r == Arith(op, Val(ta, a), Val(tb, b)) IN ~IsErr(r) => r.v - a = b

UnaryOK ==
  mode = "unary" =>
    LET r == IF op = "neg" THEN Neg(Val(ta, a)) ELSE Not(Val(ta, a)) IN ResultOK(ta, r)

\* a fractional constant is rounded to the nearest whole number
FracOK ==
  mode = "frac" =>
    LET x == FracVal(ta, a, b, FALSE)
        r == Cast(tb, x)
        want == IF b < 5 THEN a ELSE a + 1
    IN IF InRange(tb, want) THEN r = Val(tb, want) ELSE r = Overflow
=============================================================================
