------------------------------ MODULE Strings ------------------------------
(***************************************************************************)
(* The string functions of the dialect as definitions over sequences of      *)
(* character codes.  A result is [ok |-> TRUE, v |-> value] or               *)
(* [ok |-> FALSE, c |-> error code].  Character 32 is the blank; letters are  *)
(* the ASCII letters.  The definitions are written from the language manual   *)
(* (and the property statement), not from the implementation.                 *)
(***************************************************************************)
EXTENDS Integers, Sequences

Ok(v) == [ok |-> TRUE, v |-> v]
Bad(c) == [ok |-> FALSE, c |-> c]
Illegal == Bad(5)

Min(a, b) == IF a < b THEN a ELSE b
Max(a, b) == IF a > b THEN a ELSE b

Left(s, n) == IF n < 0 THEN Illegal ELSE Ok(SubSeq(s, 1, Min(n, Len(s))))
Right(s, n) == IF n < 0 THEN Illegal ELSE Ok(SubSeq(s, Len(s) - Min(n, Len(s)) + 1, Len(s)))

\* MID$(s, start, count); count = -1 encodes "no count given"
Mid(s, start, count, hascount) ==
  IF start < 1 \/ (hascount /\ count < 0) THEN Illegal
  ELSE IF start > Len(s) THEN Ok(<<>>)
  ELSE IF hascount THEN Ok(SubSeq(s, start, Min(Len(s), start + count - 1)))
  ELSE Ok(SubSeq(s, start, Len(s)))

OccursAt(s, t, p) == p >= 1 /\ p + Len(t) - 1 <= Len(s) /\ SubSeq(s, p, p + Len(t) - 1) = t

\* INSTR(n, s, t) for non-empty t: the least position >= n where t occurs in s, else 0
Instr(n, s, t) ==
  IF n < 1 THEN Illegal
  ELSE LET ps == {p \in n..Len(s) : OccursAt(s, t, p)} IN
       IF ps = {} THEN Ok(0) ELSE Ok(CHOOSE p \in ps : \A q \in ps : p <= q)

IsLower(c) == c >= 97 /\ c <= 122
IsUpper(c) == c >= 65 /\ c <= 90
UCase(s) == [i \in 1..Len(s) |-> IF IsLower(s[i]) THEN s[i] - 32 ELSE s[i]]
LCase(s) == [i \in 1..Len(s) |-> IF IsUpper(s[i]) THEN s[i] + 32 ELSE s[i]]

RECURSIVE LTrim(_), RTrim(_)
LTrim(s) == IF s # <<>> /\ Head(s) = 32 THEN LTrim(Tail(s)) ELSE s
RTrim(s) == IF s # <<>> /\ s[Len(s)] = 32 THEN RTrim(SubSeq(s, 1, Len(s) - 1)) ELSE s

Rep(n, c) == [i \in 1..n |-> c]
Space(n) == IF n < 0 THEN Illegal ELSE Ok(Rep(n, 32))
StringN(n, c) == IF n < 0 \/ c < 0 \/ c > 255 THEN Illegal ELSE Ok(Rep(n, c))
StringS(n, s) == IF n < 0 \/ s = <<>> THEN Illegal ELSE Ok(Rep(n, s[1]))

RECURSIVE Digits(_)
Digits(n) == IF n < 10 THEN <<48 + n>> ELSE Digits(n \div 10) \o <<48 + (n % 10)>>
\* STR$(k): a leading blank for non-negative numbers, a minus sign otherwise
Str(k) == IF k < 0 THEN <<45>> \o Digits(0 - k) ELSE <<32>> \o Digits(k)

\* VAL restricted to what STR$ produces and to plain digit strings with blanks / sign
RECURSIVE DigitsVal(_, _)
DigitsVal(s, acc) ==
  IF s = <<>> \/ Head(s) < 48 \/ Head(s) > 57 THEN acc ELSE DigitsVal(Tail(s), acc * 10 + (Head(s) - 48))
\* blanks do not count, wherever they stand ("VAL ignores blanks": VAL("1 2") is 12)
RECURSIVE NoBlanks(_)
NoBlanks(s) == IF s = <<>> THEN <<>> ELSE IF Head(s) = 32 THEN NoBlanks(Tail(s)) ELSE <<Head(s)>> \o NoBlanks(Tail(s))
Val(s0) ==
  LET s == NoBlanks(s0)
      t == s IN
  IF t = <<>> THEN 0
  ELSE IF Head(t) = 45 THEN 0 - DigitsVal(LTrim(Tail(t)), 0)
  ELSE IF Head(t) = 43 THEN DigitsVal(LTrim(Tail(t)), 0)
  ELSE DigitsVal(t, 0)
=============================================================================
