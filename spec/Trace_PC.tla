------------------------------ MODULE Trace_PC ------------------------------
(* Results of the REAL combinators (built from the same terms by the harness)   *)
(* checked against the denotational model PC.tla.  One record per term:          *)
(*   [id, term, res |-> << <<class, value, code, pos>> per input >>]             *)
(* The inputs (all strings over {a,b,c} up to a length) come from a second file. *)
EXTENDS PC, Json, IOUtils, TLC

Recs == ndJsonDeserialize(IOEnv.TRACE)
Inputs == ndJsonDeserialize(IOEnv.INPUTS)[1].inputs

VARIABLE idx
Init == idx \in 1..Len(Recs)
Next == UNCHANGED idx
Spec == Init /\ [][Next]_idx

Agrees(e, o) ==
  \/ e.c = "diverges"                     \* repetition of a non-consuming success: not judged
  \/ /\ e.c = o[1]
     /\ e.pos = o[4]
     /\ (e.c = "ok" => e.v = o[2])
     /\ (e.c # "ok" => e.e = o[3])

Bad(r) == {i \in 1..Len(Inputs) : ~Agrees(Eval(r.term, Inputs[i], 0), r.res[i])}

\* the contract clauses, evaluated on the model for the same terms and inputs
Contract(r) ==
  \A i \in 1..Len(Inputs) : SoftKeepsPos(r.term, Inputs[i], 0) /\ NeverBackwards(r.term, Inputs[i], 0)

Verdict ==
  LET r == Recs[idx]
      bad == Bad(r)
  IN /\ (bad = {} \/ PrintT("MISMATCH " \o ToString(r.id) \o " " \o ToString(CHOOSE i \in bad : \A j \in bad : i <= j)
                              \o " " \o ToJson(Eval(r.term, Inputs[CHOOSE i \in bad : \A j \in bad : i <= j], 0))))
     /\ (Contract(r) \/ PrintT("SPECBUG " \o ToString(r.id)))
=============================================================================
