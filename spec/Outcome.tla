------------------------------- MODULE Outcome -------------------------------
(***************************************************************************)
(* Admissible outcomes (C07, C08).  A record describes how one text fared:     *)
(*   [id, stage |-> "parse" | "lint" | "igen" | "run", kind |-> "ok" | "error" |   *)
(*    "budget" | "panic" | "abort" | "timeout", code, row, col,                  *)
(*    lens |-> <<length of every line of the text>>]                            *)
(* C07: parsing + checking ends with a program or ONE error whose position lies   *)
(*      inside the text or immediately at its end.                                *)
(* C08: an accepted program compiles and runs to normal termination or to a       *)
(*      BASIC run-time error with a known code and a position inside the text.    *)
(***************************************************************************)
EXTENDS Integers, Sequences, TLC, Json, IOUtils

Recs == ndJsonDeserialize(IOEnv.TRACE)
VARIABLE idx
Init == idx \in 1..Len(Recs)
Next == UNCHANGED idx
Spec == Init /\ [][Next]_idx

\* the codes a BASIC-level run-time error may carry
Codes == {3, 4, 5, 6, 9, 11, 13, 20, 40, 50, 52, 53, 54, 55, 57, 59, 62, 63, 257, 258}

\* a position inside the text, or immediately at the end of a line / of the text
InsideText(r) ==
  LET n == Len(r.lens) IN
  \/ (n = 0 /\ r.row = 1 /\ r.col = 1)
  \/ (r.row >= 1 /\ r.row <= n /\ r.col >= 1 /\ r.col <= r.lens[r.row] + 1)
  \/ (r.row = n + 1 /\ r.col = 1)            \* immediately after a final line break
  \/ (r.row = r.endrow /\ r.col = r.endcol)  \* immediately after the last character of the text, in the coordinates
                                             \* of the position machine of Text.tla (the characters of a line break
                                             \* sit at the column after the line's last character)

Admissible(r) ==
  CASE r.kind \in {"panic", "abort", "timeout"} -> FALSE
    [] r.kind = "ok" -> TRUE
    [] r.kind = "budget" -> r.stage = "run"
    [] r.kind = "error" ->
         IF r.stage = "run" THEN r.code \in Codes /\ InsideText(r)
         ELSE IF r.stage \in {"parse", "lint"} THEN InsideText(r)
         ELSE FALSE

Verdict == IF Admissible(Recs[idx]) THEN TRUE ELSE PrintT("MISMATCH " \o ToString(Recs[idx].id))
=============================================================================
