----------------------------- MODULE Trace_Names -----------------------------
(* Verdict of the real checker and output of the real run for declaration / use   *)
(* histories, validated against the three-valued oracle of Names.tla.              *)
EXTENDS Names, Json, IOUtils

Recs == ndJsonDeserialize(IOEnv.TRACE)
VARIABLE idx
Init == idx \in 1..Len(Recs)
Next == UNCHANGED idx
Spec == Init /\ [][Next]_idx

Verdict ==
  LET r == Recs[idx]
      o == Oracle(r.prog)
  IN IF o.verdict = "unspec" THEN PrintT("SKIP " \o ToString(r.id))
     ELSE IF o.verdict = r.obs.verdict /\ (o.verdict = "accept" => o.out = r.obs.out) THEN PrintT("AGREE " \o ToString(r.id))
     ELSE PrintT("MISMATCH " \o ToString(r.id) \o " " \o ToJson(o))
=============================================================================
