------------------------------- MODULE Store -------------------------------
(***************************************************************************)
(* Arrays as boxes.  A box is a sequence of dimensions [lo, hi]; an index    *)
(* tuple denotes an element exactly when every index lies within its         *)
(* dimension.                                                                *)
(*                                                                           *)
(*  RefIndex  - the definition: the lexicographic rank of the tuple among    *)
(*              all tuples of the box (row-major), 0-based.                  *)
(*  AbsIndex  - transcription of the implementation's loop (last dimension   *)
(*              first, running multiplier), as a machine with state          *)
(*              (i, index, multiplier) so that TLC explores its steps.        *)
(*                                                                           *)
(* D-level (MC_Store): for every box in the bounded family and every tuple   *)
(* within one step of every face: both agree, the map is a bijection onto    *)
(* 0..len-1, it is an error exactly outside the box, and a write changes      *)
(* exactly one cell.                                                         *)
(***************************************************************************)
EXTENDS Integers, Sequences, FiniteSets, TLC

Extent(d) == d.hi - d.lo + 1

RECURSIVE Size(_)
Size(dims) == IF dims = <<>> THEN 1 ELSE Extent(Head(dims)) * Size(Tail(dims))

InBox(dims, idx) ==
  Len(idx) = Len(dims) /\ \A j \in 1..Len(dims) : idx[j] >= dims[j].lo /\ idx[j] <= dims[j].hi

\* reference: rank of idx in lexicographic order (first dimension most significant)
RECURSIVE RefFrom(_, _, _)
RefFrom(dims, idx, j) ==
  IF j > Len(dims) THEN 0
  ELSE (idx[j] - dims[j].lo) * Size(SubSeq(dims, j + 1, Len(dims))) + RefFrom(dims, idx, j + 1)
RefIndex(dims, idx) == IF InBox(dims, idx) THEN RefFrom(dims, idx, 1) ELSE -1

\* the implementation's loop, one iteration per step
LoopInit(dims) == [i |-> Len(dims), index |-> 0, mult |-> 1, err |-> FALSE]
LoopStep(dims, idx, s) ==
  IF idx[s.i] < dims[s.i].lo \/ idx[s.i] > dims[s.i].hi THEN [s EXCEPT !.err = TRUE, !.i = 0]
  ELSE [s EXCEPT !.index = @ + (idx[s.i] - dims[s.i].lo) * s.mult,
                 !.mult = @ * Extent(dims[s.i]), !.i = @ - 1]
RECURSIVE LoopRun(_, _, _)
LoopRun(dims, idx, s) == IF s.i = 0 THEN s ELSE LoopRun(dims, idx, LoopStep(dims, idx, s))
AbsIndex(dims, idx) ==
  LET s == LoopRun(dims, idx, LoopInit(dims)) IN IF s.err THEN -1 ELSE s.index

\* all index tuples within one step of the box (each index from lo-1 to hi+1)
RECURSIVE Around(_)
Around(dims) ==
  IF dims = <<>> THEN {<<>>}
  ELSE {<<x>> \o t : x \in (Head(dims).lo - 1)..(Head(dims).hi + 1), t \in Around(Tail(dims))}

Cells(dims) == {idx \in Around(dims) : InBox(dims, idx)}

\* writing a cell of an array (cells as a function of the flat index)
Write(cells, dims, idx, v) == [cells EXCEPT ![RefIndex(dims, idx)] = v]
=============================================================================
