-------------------------------- MODULE Core --------------------------------
(***************************************************************************)
(* Reference semantics of the core language: a small-step machine over the  *)
(* SOURCE STRUCTURE of a program (not over instructions).  One step runs     *)
(* one statement (or one loop test / block end); expressions are evaluated   *)
(* by the recursive operator Eval, which threads the machine state so that   *)
(* user FUNCTION calls inside expressions have their effects in order.       *)
(*                                                                          *)
(* The machine is a transformer Step(st) on one state record; the modules    *)
(* MC_Core / Trace_Core wrap it in the action  st' = Step(st).              *)
(*                                                                          *)
(* status: "run" | "ok" | "err" (BASIC run-time error: code, estmt, stack)   *)
(*         | "skip" (the program left the part of the language the           *)
(*           properties fix: never judged) | "fuel" (step budget exhausted)  *)
(***************************************************************************)
EXTENDS Values, TLC
StrFn == INSTANCE Strings

Last(s) == s[Len(s)]
Front(s) == SubSeq(s, 1, Len(s) - 1)
Has(r, f) == f \in DOMAIN r

NoFun == [x \in {} |-> 0]   \* the empty function (an environment with no variable)

(***************************************************************************)
(* Variables.  A scalar is identified by <<name, type, "s">>, an array by    *)
(* <<name, type, "a">>.  An array value is                                   *)
(*   [t |-> "A", et |-> element type, dims |-> <<[lo, hi]>>, cells, fix]     *)
(***************************************************************************)
KeyS(n, t) == <<n, t, "s">>
KeyA(n, t) == <<n, t, "a">>

\* flat index (1-based) of an index tuple, row-major; 0 when out of the box
RECURSIVE FlatFrom(_, _, _, _)
FlatFrom(dims, idx, j, acc) ==
  IF j > Len(dims) THEN acc + 1
  ELSE IF idx[j] < dims[j].lo \/ idx[j] > dims[j].hi THEN 0
  ELSE FlatFrom(dims, idx, j + 1, acc * (dims[j].hi - dims[j].lo + 1) + (idx[j] - dims[j].lo))
FlatIndex(dims, idx) == IF Len(idx) # Len(dims) THEN 0 ELSE FlatFrom(dims, idx, 1, 0)

RECURSIVE BoxSize(_)
BoxSize(dims) == IF dims = <<>> THEN 1 ELSE (Head(dims).hi - Head(dims).lo + 1) * BoxSize(Tail(dims))

(***************************************************************************)
(* Activations.  act[1] is the module level; the last one is current.       *)
(* A variable lives at module level when it is DIM SHARED, else in the       *)
(* current activation.  CONSTs are one table for all scopes.                 *)
(***************************************************************************)
ScopeOf(st, key) == IF key \in st.shared THEN 1 ELSE Len(st.act)

DeclFix(st, key) == IF key \in DOMAIN st.fix THEN st.fix[key] ELSE 0

\* constants: a CONST of a subprogram is local to it, a module-level CONST is visible everywhere
HasConst(st, n) == n \in DOMAIN Last(st.act).lc \/ n \in DOMAIN st.consts
GetConst(st, n) == IF n \in DOMAIN Last(st.act).lc THEN Last(st.act).lc[n] ELSE st.consts[n]

GetKey(st, key) ==
  IF key[3] = "s" /\ HasConst(st, key[1]) THEN GetConst(st, key[1])
  ELSE LET vars == st.act[ScopeOf(st, key)].vars IN
       IF key \in DOMAIN vars THEN vars[key]
       ELSE IF key[2] = "$" /\ DeclFix(st, key) > 0 THEN Val("$", Blanks(DeclFix(st, key)))
       ELSE Default(key[2])

SetKey(st, key, v) ==
  LET a == ScopeOf(st, key)
      vars == st.act[a].vars
      nv == IF key \in DOMAIN vars THEN [vars EXCEPT ![key] = v] ELSE vars @@ (key :> v)
  IN [st EXCEPT !.act[a].vars = nv]

(***************************************************************************)
(* Program lookup                                                           *)
(***************************************************************************)
SubIndex(prog, n) == CHOOSE i \in 1..Len(prog.subs) : prog.subs[i].n = n
HasSub(prog, n) == \E i \in 1..Len(prog.subs) : prog.subs[i].n = n

\* location of a label: the block that contains it and its index there
NoLoc == [found |-> FALSE]
RECURSIVE LabelInBody(_, _, _, _), LabelInStmt(_, _), LabelInArms(_, _, _, _)
LabelInArms(arms, sid, j, l) ==
  IF j > Len(arms) THEN NoLoc
  ELSE LET r == LabelInBody(arms[j].body, <<sid, j>>, 1, l) IN
       IF r.found THEN r ELSE LabelInArms(arms, sid, j + 1, l)
LabelInStmt(s, l) ==
  CASE s.k = "if" ->
         LET r == LabelInArms(s.arms, s.id, 1, l) IN
         IF r.found THEN r ELSE LabelInBody(s.els, <<s.id, 0>>, 1, l)
    [] s.k = "select" ->
         LET r == LabelInArms(s.cases, s.id, 1, l) IN
         IF r.found THEN r ELSE LabelInBody(s.els, <<s.id, 0>>, 1, l)
    [] s.k \in {"for", "while", "do"} -> LabelInBody(s.body, <<s.id, 1>>, 1, l)
    [] OTHER -> NoLoc
LabelInBody(body, blk, i, l) ==
  IF i > Len(body) THEN NoLoc
  ELSE IF body[i].k = "label" /\ body[i].l = l THEN [found |-> TRUE, blk |-> blk, i |-> i]
  ELSE LET r == LabelInStmt(body[i], l) IN
       IF r.found THEN r ELSE LabelInBody(body, blk, i + 1, l)

(***************************************************************************)
(* Continuations.  k is a stack of frames, the current one last:            *)
(*   [f |-> "seq", b, i, blk]   executing statement i of block b            *)
(*   [f |-> "for", s, lim, step] a FOR loop whose body is above it          *)
(*   [f |-> "while", s] / [f |-> "do", s]                                   *)
(*   [f |-> "call"]             the bottom of a subprogram activation       *)
(***************************************************************************)
SeqFrame(b, blk) == [f |-> "seq", b |-> b, i |-> 1, blk |-> blk]
Adv(k) == [k EXCEPT ![Len(k)].i = @ + 1]

\* index of the innermost "call" barrier (0 = module level)
RECURSIVE BarrierAt(_, _)
BarrierAt(k, j) == IF j = 0 THEN 0 ELSE IF k[j].f = "call" THEN j ELSE BarrierAt(k, j - 1)

\* pop frames until a seq frame of block blk is on top; <<>> if there is none
RECURSIVE PopTo(_, _, _)
PopTo(k, blk, floor) ==
  IF Len(k) <= floor THEN <<>>
  ELSE IF Last(k).f = "seq" /\ Last(k).blk = blk THEN k
  ELSE PopTo(Front(k), blk, floor)

\* continuation for "continue at label l" inside the current procedure
GotoK(k, l) ==
  LET floor == BarrierAt(k, Len(k))
      base == k[floor + 1]
      loc == LabelInBody(base.b, base.blk, 1, l)
  IN IF ~loc.found THEN <<>>
     ELSE LET kk == PopTo(k, loc.blk, floor) IN
          IF kk = <<>> THEN <<>> ELSE [kk EXCEPT ![Len(kk)].i = loc.i]

(***************************************************************************)
(* Errors                                                                   *)
(***************************************************************************)
Skip(st) == [st EXCEPT !.status = "skip"]

CallSites(st) == [j \in 1..(Len(st.act) - 1) |-> st.act[Len(st.act) + 1 - j].site]

Fatal(st, sid, code) ==
  [st EXCEPT !.status = "err", !.code = code, !.estmt = sid, !.stack = CallSites(st)]

\* A statement (id sid) failed with code c while the continuation was st.k.
Raise(st, sid, c) ==
  IF c = 0 THEN Skip(st)
  ELSE IF st.h.m = "none" THEN Fatal(st, sid, c)
  ELSE IF st.ei.on THEN Skip(st)                  \* an error inside a handler: not fixed by the properties
  \* ON ERROR RESUME NEXT: continue with the next statement of the activation that failed - also when that
  \* activation is a FUNCTION under evaluation (the pending expression of the caller goes on afterwards)
  ELSE IF st.h.m = "next" THEN [st EXCEPT !.k = Adv(st.k), !.errv = c]
  ELSE IF st.nest > 0 THEN Skip(st)               \* a module-level handler entered from a nested evaluation: not modelled
  ELSE \* ON ERROR GOTO label: the handler runs at module level
    LET hk == GotoK(<<st.k[1]>>, st.h.l) IN
    IF hk = <<>> THEN Skip(st)
    ELSE [st EXCEPT !.ei = [on |-> TRUE, kAt |-> st.k, kNext |-> Adv(st.k), act |-> st.act],
                    !.errv = c, !.k = hk, !.act = <<st.act[1]>>]

(***************************************************************************)
(* Expressions.  Eval(e, st) = [v |-> value or error, st |-> state after]   *)
(***************************************************************************)
RECURSIVE Eval(_, _), EvalSeq(_, _, _, _), EvalRaw(_, _, _, _), Step(_), RunNested(_, _), CallFun(_, _),
          BindArgs(_, _, _, _, _), ResolveLv(_, _)

R(v, st) == [v |-> v, st |-> st]

\* evaluate a sequence of expressions left to right, each cast to INTEGER
\* (subscripts); result [v |-> <<ints>> or error, st]
EvalSeq(es, st, j, acc) ==
  IF j > Len(es) THEN R([t |-> "Q", v |-> acc], st)
  ELSE LET r == Eval(es[j], st)
           c == Cast("I", r.v)
       IN IF IsErr(c) THEN R(c, r.st) ELSE EvalSeq(es, r.st, j + 1, Append(acc, c.v))

\* evaluate a sequence of expressions left to right, as they are; result [v |-> <<values>> or the first error, st]
EvalRaw(es, st, j, acc) ==
  IF j > Len(es) THEN R([t |-> "Q", v |-> acc], st)
  ELSE LET r == Eval(es[j], st)
       IN IF IsErr(r.v) THEN r ELSE EvalRaw(es, r.st, j + 1, Append(acc, r.v))

\* an lvalue resolved to a storage place:
\*   [key, flat (0 for a scalar), path (record fields), vt (type stored there), fix]
ResolveLv(lhs, st) ==
  IF lhs.k = "var" THEN
    R([t |-> "P", key |-> KeyS(lhs.n, lhs.t), flat |-> 0, path |-> <<>>, vt |-> lhs.t,
       fix |-> DeclFix(st, KeyS(lhs.n, lhs.t))], st)
  \* a whole array (an argument A()): the place is the array itself
  ELSE IF lhs.k = "arr" THEN
    LET key == KeyA(lhs.n, lhs.t)
        a == GetKey(st, key)
    IN IF a.t # "A" THEN R(Err(0), st)
       ELSE R([t |-> "P", key |-> key, flat |-> 0, path |-> <<>>, vt |-> lhs.t, fix |-> a.fix], st)
  ELSE IF lhs.k = "fld" THEN
    LET r == ResolveLv(lhs.base, st) IN
    IF IsErr(r.v) THEN r
    ELSE R([r.v EXCEPT !.path = Append(@, lhs.f), !.vt = lhs.t, !.fix = lhs.fix], r.st)
  ELSE \* "idx"
    LET key == KeyA(lhs.n, lhs.t)
        arr == GetKey(st, key)
        r == EvalSeq(lhs.subs, st, 1, <<>>)
    IN IF arr.t # "A" THEN R(Err(0), st)          \* undeclared array: not modelled
       ELSE IF IsErr(r.v) THEN r
       ELSE LET fi == FlatIndex(arr.dims, r.v.v) IN
            IF fi = 0 THEN R(Err(9), r.st)
            ELSE R([t |-> "P", key |-> key, flat |-> fi, path |-> <<>>, vt |-> arr.et, fix |-> arr.fix], r.st)

RECURSIVE GetPath(_, _), SetPath(_, _, _)
GetPath(v, path) == IF path = <<>> THEN v ELSE GetPath(v.f[Head(path)], Tail(path))
SetPath(v, path, nv) ==
  IF path = <<>> THEN nv ELSE [v EXCEPT !.f[Head(path)] = SetPath(@, Tail(path), nv)]

\* the built-in functions as functions of their (already evaluated) arguments
StrRes(r) == IF r.ok THEN Val("$", r.v) ELSE Err(r.c)
IntRes(r) == IF r.ok THEN Val("I", r.v) ELSE Err(r.c)
BuiltIn(n, a) ==
  LET k == Len(a)
      S(i) == a[i].v                                   \* the i-th argument as a string (checked by the guards below)
      N(i) == Cast("I", a[i])                          \* the i-th argument as an INTEGER
      strs(is) == \A i \in is : i <= k /\ IsStr(a[i])
      nums(is) == \A i \in is : i <= k /\ IsNum(a[i])
      bad(is) == \E i \in is : IsErr(N(i))
      firstbad(is) == N(CHOOSE i \in is : IsErr(N(i)) /\ \A j \in is : IsErr(N(j)) => i <= j)
  IN
  CASE n = "LEN" /\ k = 1 /\ strs({1}) -> Val("I", Len(S(1)))
    [] n \in {"LEFT$", "RIGHT$"} /\ k = 2 /\ strs({1}) /\ nums({2}) ->
         IF bad({2}) THEN N(2) ELSE StrRes(IF n = "LEFT$" THEN StrFn!Left(S(1), N(2).v) ELSE StrFn!Right(S(1), N(2).v))
    [] n = "MID$" /\ k = 3 /\ strs({1}) /\ nums({2, 3}) ->
         IF bad({2, 3}) THEN firstbad({2, 3}) ELSE StrRes(StrFn!Mid(S(1), N(2).v, N(3).v, TRUE))
    [] n = "MID$" /\ k = 2 /\ strs({1}) /\ nums({2}) ->
         IF bad({2}) THEN N(2) ELSE StrRes(StrFn!Mid(S(1), N(2).v, 0, FALSE))
    [] n = "INSTR" /\ k = 2 /\ strs({1, 2}) ->
         IF S(2) = <<>> THEN Err(0) ELSE IntRes(StrFn!Instr(1, S(1), S(2)))
    [] n = "INSTR" /\ k = 3 /\ nums({1}) /\ strs({2, 3}) ->
         IF bad({1}) THEN N(1) ELSE IF S(3) = <<>> THEN Err(0) ELSE IntRes(StrFn!Instr(N(1).v, S(2), S(3)))
    [] n = "UCASE$" /\ k = 1 /\ strs({1}) -> Val("$", StrFn!UCase(S(1)))
    [] n = "LCASE$" /\ k = 1 /\ strs({1}) -> Val("$", StrFn!LCase(S(1)))
    [] n = "LTRIM$" /\ k = 1 /\ strs({1}) -> Val("$", StrFn!LTrim(S(1)))
    [] n = "RTRIM$" /\ k = 1 /\ strs({1}) -> Val("$", StrFn!RTrim(S(1)))
    [] n = "SPACE$" /\ k = 1 /\ nums({1}) -> IF bad({1}) THEN N(1) ELSE StrRes(StrFn!Space(N(1).v))
    [] n = "STRING$" /\ k = 2 /\ nums({1, 2}) ->
         IF bad({1, 2}) THEN firstbad({1, 2}) ELSE StrRes(StrFn!StringN(N(1).v, N(2).v))
    [] n = "STRING$" /\ k = 2 /\ nums({1}) /\ strs({2}) -> IF bad({1}) THEN N(1) ELSE StrRes(StrFn!StringS(N(1).v, S(2)))
    [] n = "CHR$" /\ k = 1 /\ nums({1}) ->
         IF bad({1}) THEN N(1) ELSE IF N(1).v < 0 \/ N(1).v > 255 THEN Err(5) ELSE Val("$", <<N(1).v>>)
    \* STR$ of a whole number of a whole-number type; VAL gives a DOUBLE
    [] n = "STR$" /\ k = 1 /\ nums({1}) -> IF a[1].t \in {"I", "L"} THEN Val("$", StrFn!Str(a[1].v)) ELSE Err(0)
    [] n = "VAL" /\ k = 1 /\ strs({1}) ->
         IF Len(S(1)) > 9 \/ \E i \in 1..Len(S(1)) : ~(S(1)[i] \in 48..57 \/ S(1)[i] \in {32, 43, 45}) THEN Err(0)
         ELSE IF \E i \in 2..Len(StrFn!NoBlanks(S(1))) : StrFn!NoBlanks(S(1))[i] \in {43, 45} THEN Err(0)
         ELSE Val("D", StrFn!Val(S(1)))
    [] OTHER -> Err(0)

ReadPlace(st, p) ==
  LET root == GetKey(st, p.key) IN
  GetPath(IF p.flat = 0 THEN root ELSE root.cells[p.flat], p.path)

\* store v (already of the right type) into place p: exactly that place changes
WritePlace(st, p, v) ==
  LET root == GetKey(st, p.key) IN
  IF p.flat = 0 THEN SetKey(st, p.key, SetPath(root, p.path, v))
  ELSE SetKey(st, p.key, [root EXCEPT !.cells[p.flat] = SetPath(@, p.path, v)])

PlaceType(p) == p.vt
PlaceFix(st, p) == p.fix

\* convert v for storing into place p (type conversion, fixed-length strings)
ConvFor(st, p, v) ==
  LET c == Cast(PlaceType(p), v) IN
  IF IsErr(c) THEN c
  ELSE IF c.t = "$" /\ PlaceFix(st, p) > 0 THEN Val("$", FixLen(PlaceFix(st, p), c.v))
  ELSE c

Eval(e, st) ==
  CASE e.k = "lit" -> R(Val(e.t, e.v), st)
    [] e.k = "flit" -> R(FracVal(e.t, e.w, e.f, e.neg), st)
    \* a literal written with more digits than the exact domain holds (1E+38 and beyond): its value is not modelled
    [] e.k = "big" -> R(Err(0), st)
    [] e.k = "var" -> R(GetKey(st, KeyS(e.n, e.t)), st)
    [] e.k = "idx" ->
         LET r == ResolveLv(e, st) IN
         IF IsErr(r.v) THEN r ELSE R(ReadPlace(r.st, r.v), r.st)
    [] e.k = "fld" ->
         LET r == ResolveLv(e, st) IN
         IF IsErr(r.v) THEN r ELSE R(ReadPlace(r.st, r.v), r.st)
    [] e.k = "bound" ->   \* LBOUND / UBOUND (arr [, dimension])
         LET arr == GetKey(st, KeyA(e.n, e.t))
             r == Eval(e.d, st)
             c == Cast("I", r.v)
         IN IF arr.t # "A" THEN R(Err(0), st)
            ELSE IF IsErr(c) THEN R(c, r.st)
            ELSE IF c.v < 1 \/ c.v > Len(arr.dims) THEN R(Err(9), r.st)
            ELSE R(Val("I", IF e.which = "l" THEN arr.dims[c.v].lo ELSE arr.dims[c.v].hi), r.st)
    [] e.k = "par" -> Eval(e.e, st)
    [] e.k = "un" ->
         \* a minus sign directly in front of a whole-number literal is part of the literal, which
         \* has the narrowest type that holds the written value (-32768 is an INTEGER)
         IF e.op = "neg" /\ e.e.k = "lit" /\ e.e.t \in {"I", "L"}
         THEN R(Val(IF 0 - e.e.v >= MinI THEN "I" ELSE "L", 0 - e.e.v), st)
         ELSE LET r == Eval(e.e, st) IN R(IF e.op = "neg" THEN Neg(r.v) ELSE Not(r.v), r.st)
    [] e.k = "bin" ->
         LET a == Eval(e.l, st) IN
         IF IsErr(a.v) THEN a
         ELSE LET b == Eval(e.r, a.st) IN R(Arith(e.op, a.v, b.v), b.st)
    [] e.k = "err" -> R(Val("I", st.errv), st)
    [] e.k = "cref" ->   \* reference to a constant, bare or with a type suffix
         IF ~HasConst(st, e.n) THEN R(Err(0), st)
         ELSE LET c == GetConst(st, e.n) IN
              IF e.sfx # "" /\ e.sfx # c.t THEN R(Err(0 - 2), st)   \* wrong suffix: rejected statically
              ELSE R(c, st)
    [] e.k = "fcall" -> CallFun(e, st)
    \* built-in functions (the definitions of the string functions are those of Strings.tla): the arguments are evaluated
    \* left to right, then the function is applied; a numeric argument is converted to INTEGER first (STR$ takes the value as it is); a bad argument is Illegal function call (5)
    [] e.k = "bcall" ->
         LET r == EvalRaw(e.args, st, 1, <<>>) IN
         IF IsErr(r.v) THEN r ELSE R(BuiltIn(e.n, r.v.v), r.st)

(***************************************************************************)
(* Calls.  Arguments are evaluated left to right in the caller.  An          *)
(* argument that is a plain variable or an array element is passed by        *)
(* reference (modelled as copy-in / copy-out, written back left to right    *)
(* after return); anything else by value after conversion to the parameter  *)
(* type.                                                                    *)
(***************************************************************************)
IsLvalue(e) == e.k \in {"var", "idx", "fld", "arr"}

\* result: [v |-> error or "ok", st, vars (callee env), refs]
BindArgs(params, args, st, j, acc) ==
  IF j > Len(params) THEN [v |-> Val("I", 0), st |-> st, vars |-> acc.vars, refs |-> acc.refs]
  ELSE
    LET p == params[j]
        a == args[j]
        parr == "arr" \in DOMAIN p /\ p.arr          \* an array parameter X(): the whole array comes in and goes back
        pkey == IF parr THEN KeyA(p.n, p.t) ELSE KeyS(p.n, p.t)
    IN IF parr # (a.k = "arr") THEN [v |-> Err(0), st |-> st, vars |-> acc.vars, refs |-> acc.refs]
       ELSE IF IsLvalue(a) THEN
         LET r == ResolveLv(a, st) IN
         IF IsErr(r.v) THEN [v |-> r.v, st |-> r.st, vars |-> acc.vars, refs |-> acc.refs]
         ELSE IF PlaceType(r.v) # p.t THEN [v |-> Err(0), st |-> r.st, vars |-> acc.vars, refs |-> acc.refs]
         ELSE BindArgs(params, args, r.st, j + 1,
                [vars |-> (pkey :> ReadPlace(r.st, r.v)) @@ acc.vars,
                 refs |-> Append(acc.refs, [key |-> pkey, place |-> r.v])])
       ELSE
         LET r == Eval(a, st)
             c == Cast(p.t, r.v)
         IN IF IsErr(c) THEN [v |-> c, st |-> r.st, vars |-> acc.vars, refs |-> acc.refs]
            ELSE BindArgs(params, args, r.st, j + 1,
                   [vars |-> (pkey :> c) @@ acc.vars, refs |-> acc.refs])

\* enter procedure number pi with bound arguments; kk is the continuation
\* the callee's frames are pushed onto
Enter(pi, b, sid, kk) ==
  LET st == b.st
      proc == st.prog.subs[pi]
      \* a STATIC procedure that is entered while an activation of it is still running (recursion) works on the variables
      \* of that activation: there is one set of them, whoever calls
      running == {j \in 1..Len(st.act) : st.act[j].sub = proc.n}
      base == IF proc.static /\ running # {} THEN st.act[CHOOSE j \in running : \A q \in running : q <= j].vars
              ELSE IF proc.static /\ proc.n \in DOMAIN st.statics THEN st.statics[proc.n] ELSE NoFun
      vars == b.vars @@ base        \* parameters are (re)bound at each call
      \* gsb: how many GOSUBs were pending when the procedure was entered (its own come on top of them)
      a == [sub |-> proc.n, vars |-> vars, refs |-> b.refs, site |-> sid, lc |-> NoFun, gsb |-> Len(st.gs)]
  IN [b.st EXCEPT !.act = Append(@, a),
                  !.k = kk \o <<[f |-> "call"], SeqFrame(proc.body, <<0 - pi, 0>>)>>]

RECURSIVE CopyOut(_, _, _, _)
CopyOut(st, refs, vars, j) ==
  IF j > Len(refs) THEN st
  ELSE IF refs[j].key[3] = "a" THEN      \* a whole array goes back as it is
       CopyOut(IF refs[j].key \in DOMAIN vars THEN WritePlace(st, refs[j].place, vars[refs[j].key]) ELSE st, refs, vars, j + 1)
  ELSE LET v == IF refs[j].key \in DOMAIN vars THEN vars[refs[j].key] ELSE Default(refs[j].key[2])
           c == ConvFor(st, refs[j].place, v)
       IN CopyOut(WritePlace(st, refs[j].place, c), refs, vars, j + 1)

\* the body of the current procedure is finished (or EXIT was executed):
\* k's top is the "call" barrier
ReturnFromCall(st) ==
  LET a == Last(st.act)
      pi == SubIndex(st.prog, a.sub)
      proc == st.prog.subs[pi]
      rkey == KeyS(proc.n, proc.t)
      rv == IF proc.kind = "fun"
            THEN (IF rkey \in DOMAIN a.vars THEN a.vars[rkey] ELSE Default(proc.t))
            ELSE Val("I", 0)
      \* the GOSUBs that are still pending in the procedure that ends are gone with it
      st1 == [st EXCEPT !.act = Front(@), !.k = Front(@), !.ret = rv,
                        !.gs = IF Len(@) > a.gsb THEN SubSeq(@, 1, a.gsb) ELSE @,
                        !.statics = IF proc.static
                                    THEN (IF proc.n \in DOMAIN @ THEN [@ EXCEPT ![proc.n] = a.vars]
                                          ELSE @ @@ (proc.n :> a.vars))
                                    ELSE @]
      \* the STATIC variables as the inner activation leaves them are those of the outer activation of the same procedure
      \* (its parameters stay its own)
      pkeys == {KeyS(proc.params[j].n, proc.params[j].t) : j \in 1..Len(proc.params)}
      outer == {j \in 1..Len(st1.act) : st1.act[j].sub = proc.n}
      st2 == IF proc.static /\ outer # {}
             THEN LET o == CHOOSE j \in outer : \A q \in outer : q <= j
                      ov == st1.act[o].vars
                      merged == [key \in (DOMAIN ov) \cup ((DOMAIN a.vars) \ pkeys) |->
                                   IF key \in DOMAIN a.vars /\ key \notin pkeys THEN a.vars[key] ELSE ov[key]]
                  IN [st1 EXCEPT !.act[o].vars = merged]
             ELSE st1
  IN CopyOut(st2, a.refs, a.vars, 1)

\* run the machine until the activation entered at depth d has returned
RunNested(st, d) ==
  IF st.status # "run" THEN st
  ELSE IF Len(st.act) < d THEN st
  ELSE RunNested(Step(st), d)

CallFun(e, st) ==
  IF ~HasSub(st.prog, e.n) THEN R(Err(0), st)
  ELSE
    LET pi == SubIndex(st.prog, e.n)
        proc == st.prog.subs[pi]
        b == BindArgs(proc.params, e.args, st, 1, [vars |-> NoFun, refs |-> <<>>])
    IN IF Len(proc.params) # Len(e.args) THEN R(Err(0), st)
       ELSE IF IsErr(b.v) THEN R(b.v, b.st)
       ELSE
         LET st1 == Enter(pi, [b EXCEPT !.st.nest = @ + 1], e.sid, <<>>)
             st2 == RunNested(st1, Len(st1.act))
         IN IF st2.status # "run" THEN R(Err(-1), st2)     \* -1: already final
            ELSE R(st2.ret, [st2 EXCEPT !.k = st.k, !.nest = st.nest])

(***************************************************************************)
(* Statements                                                               *)
(***************************************************************************)
Tick(st) == [st EXCEPT !.fuel = @ - 1]

\* the static checker rejects the program: nothing runs, nothing is printed
Reject(st, sid, c) ==
  [st EXCEPT !.status = "reject", !.code = c, !.estmt = sid, !.out = <<>>, !.stack = <<>>]

\* finish a failed evaluation: -1 means the nested run already ended the program,
\* -2 that the statement is statically ill-formed
Fail(st, sid, c) == IF c = -1 THEN st ELSE IF c = -2 THEN Reject(st, sid, 0) ELSE Raise(st, sid, c)

Emit(st, text) ==
  [st EXCEPT !.out = @ \o text, !.col = @ + Len(text)]

NewLine(st) == [st EXCEPT !.out = @ \o <<13, 10>>, !.col = 0]

RECURSIVE PrintItems(_, _, _)
PrintItems(st, s, j) ==
  IF j > Len(s.items) THEN
    (IF Len(s.items) > 0 /\ s.items[Len(s.items)].k = "sep"
     THEN [st EXCEPT !.k = Adv(@)]
     ELSE [NewLine(st) EXCEPT !.k = Adv(@)])
  ELSE LET it == s.items[j] IN
    IF it.k = "sep" THEN
      (IF it.s = "," THEN PrintItems(Emit(st, Blanks(14 - (st.col % 14))), s, j + 1)
       ELSE PrintItems(st, s, j + 1))
    ELSE LET r == Eval(it.e, st) IN
      IF IsErr(r.v) THEN Fail(r.st, s.id, r.v.c)
      ELSE IF r.v.t \in {"F", "U", "A"} THEN Skip(r.st)
      ELSE PrintItems(Emit(r.st, PrintText(r.v)), s, j + 1)

ExecLet(st, s) ==
  LET r == Eval(s.e, st) IN
  IF IsErr(r.v) THEN Fail(r.st, s.id, r.v.c)
  ELSE LET c0 == Cast(s.lhs.t, r.v) IN     \* conversion happens before the place is computed
    IF IsErr(c0) THEN Raise(r.st, s.id, c0.c)
    ELSE LET p == ResolveLv(s.lhs, r.st) IN
      IF IsErr(p.v) THEN Fail(p.st, s.id, p.v.c)
      ELSE [WritePlace(p.st, p.v, ConvFor(p.st, p.v, c0)) EXCEPT !.k = Adv(@)]

RECURSIVE IfArms(_, _, _)
IfArms(st, s, j) ==
  IF j > Len(s.arms) THEN
    [st EXCEPT !.k = Append(Adv(@), SeqFrame(s.els, <<s.id, 0>>))]
  ELSE LET r == Eval(s.arms[j].c, st) IN
    IF IsErr(r.v) THEN Fail(r.st, s.id, r.v.c)
    ELSE IF ~HasTruth(r.v) THEN Skip(r.st)
    ELSE IF Truth(r.v) THEN [r.st EXCEPT !.k = Append(Adv(@), SeqFrame(s.arms[j].body, <<s.id, j>>))]
    ELSE IfArms(r.st, s, j + 1)

\* one CASE test against the subject value
TestCase(subj, t, st) ==
  CASE t.k = "eq" -> LET r == Eval(t.e, st) IN R(Arith("=", subj, r.v), r.st)
    [] t.k = "is" -> LET r == Eval(t.e, st) IN R(Arith(t.op, subj, r.v), r.st)
    [] t.k = "range" ->
         LET a == Eval(t.lo, st) IN
         IF IsErr(a.v) THEN a
         ELSE LET b == Eval(t.hi, a.st)
                  x == Arith(">=", subj, a.v)
                  y == Arith("<=", subj, b.v)
              IN IF IsErr(b.v) THEN b
                 ELSE IF IsErr(x) THEN R(x, b.st) ELSE IF IsErr(y) THEN R(y, b.st)
                 ELSE R(Bool(Truth(x) /\ Truth(y)), b.st)

RECURSIVE SelectCases(_, _, _, _, _)
SelectCases(st, s, subj, j, t) ==
  IF j > Len(s.cases) THEN
    [st EXCEPT !.k = Append(Adv(@), SeqFrame(s.els, <<s.id, 0>>))]
  ELSE IF t > Len(s.cases[j].tests) THEN SelectCases(st, s, subj, j + 1, 1)
  ELSE LET r == TestCase(subj, s.cases[j].tests[t], st) IN
    IF IsErr(r.v) THEN Fail(r.st, s.id, r.v.c)
    ELSE IF Truth(r.v) THEN [r.st EXCEPT !.k = Append(Adv(@), SeqFrame(s.cases[j].body, <<s.id, j>>))]
    ELSE SelectCases(r.st, s, subj, j, t + 1)

ExecSelect(st, s) ==
  LET r == Eval(s.e, st) IN
  IF IsErr(r.v) THEN Fail(r.st, s.id, r.v.c) ELSE SelectCases(r.st, s, r.v, 1, 1)

ForPasses(cv, lim, step) == IF step.v > 0 THEN cv.v <= lim.v ELSE cv.v >= lim.v

\* FOR: start, limit and step are evaluated once, in this order; the counter
\* receives the start value before the first test; the test precedes each
\* iteration.  A zero step is the dialect's own error 258.
ExecFor(st, s) ==
  LET ckey == KeyS(s.v.n, s.v.t)
      a == Eval(s.lo, st)
      ca == Cast(s.v.t, a.v)
  IN IF IsErr(ca) THEN Fail(a.st, s.id, ca.c)
     ELSE
       LET b == Eval(s.hi, a.st)
           cb == Cast(s.v.t, b.v)
       IN IF IsErr(cb) THEN Fail(b.st, s.id, cb.c)
          ELSE
            LET c == Eval(s.step, b.st) IN
            IF IsErr(c.v) THEN Fail(c.st, s.id, c.v.c)
            ELSE IF ~IsNum(c.v) THEN Skip(c.st)
            ELSE IF c.v.v = 0 THEN Raise(c.st, s.id, 258)
            ELSE
              LET st1 == SetKey(c.st, ckey, ca) IN
              IF ForPasses(ca, cb, c.v)
              THEN [st1 EXCEPT !.k = Adv(@) \o <<[f |-> "for", s |-> s, lim |-> cb, step |-> c.v],
                                                   SeqFrame(s.body, <<s.id, 1>>)>>]
              ELSE [st1 EXCEPT !.k = Adv(@)]

\* the body of a FOR ended: increment, store, test
ForNext(st) ==
  LET fr == Last(st.k)
      s == fr.s
      ckey == KeyS(s.v.n, s.v.t)
      nv == Cast(s.v.t, Arith("+", GetKey(st, ckey), fr.step))
  IN IF IsErr(nv) THEN Raise(st, s.id, nv.c)
     ELSE LET st1 == SetKey(st, ckey, nv) IN
          IF ForPasses(nv, fr.lim, fr.step)
          THEN [st1 EXCEPT !.k = Append(@, SeqFrame(s.body, <<s.id, 1>>))]
          ELSE [st1 EXCEPT !.k = Front(@)]

CondHolds(s, v) == IF Has(s, "kind") /\ s.kind = "until" THEN ~Truth(v) ELSE Truth(v)

\* WHILE and DO WHILE|UNTIL ... LOOP: test first
ExecPreLoop(st, s) ==
  LET r == Eval(s.c, st) IN
  IF IsErr(r.v) THEN Fail(r.st, s.id, r.v.c)
  ELSE IF ~HasTruth(r.v) THEN Skip(r.st)
  ELSE IF CondHolds(s, r.v)
       THEN [r.st EXCEPT !.k = Adv(@) \o <<[f |-> s.k, s |-> s], SeqFrame(s.body, <<s.id, 1>>)>>]
       ELSE [r.st EXCEPT !.k = Adv(@)]

\* the body of a WHILE / DO ended (or a bottom-tested DO starts): test again
LoopAgain(st) ==
  LET s == Last(st.k).s
      r == Eval(s.c, st)
  IN IF IsErr(r.v) THEN Fail(r.st, s.id, r.v.c)
     ELSE IF ~HasTruth(r.v) THEN Skip(r.st)
     ELSE IF CondHolds(s, r.v)
          THEN [r.st EXCEPT !.k = Append(@, SeqFrame(s.body, <<s.id, 1>>))]
          ELSE [r.st EXCEPT !.k = Front(@)]

ExecDo(st, s) ==
  IF s.pos = "top" THEN ExecPreLoop(st, s)
  ELSE [st EXCEPT !.k = Adv(@) \o <<[f |-> "do", s |-> s], SeqFrame(s.body, <<s.id, 1>>)>>]

RECURSIVE ReadTargets(_, _, _)
ReadTargets(st, s, j) ==
  IF j > Len(s.targets) THEN [st EXCEPT !.k = Adv(@)]
  ELSE IF st.dcur > Len(st.data) THEN Raise(st, s.id, 4)
  ELSE LET d == st.data[st.dcur]
           tgt == s.targets[j]
           c == Cast(tgt.t, IF d.k = "flit" THEN FracVal(d.t, d.w, d.f, d.neg) ELSE Val(d.t, d.v))
       IN IF IsErr(c) THEN (IF c.c = 13 THEN Skip(st) ELSE Raise(st, s.id, c.c))
          ELSE LET p == ResolveLv(tgt, st) IN
               IF IsErr(p.v) THEN Fail(p.st, s.id, p.v.c)
               ELSE ReadTargets([WritePlace(p.st, p.v, ConvFor(p.st, p.v, c)) EXCEPT !.dcur = @ + 1], s, j + 1)

ExecGoto(st, s) ==
  LET kk == GotoK(st.k, s.l) IN IF kk = <<>> THEN Skip(st) ELSE [st EXCEPT !.k = kk]

ExecGosub(st, s) ==
  LET kk == GotoK(st.k, s.l) IN
  IF kk = <<>> THEN Skip(st) ELSE [st EXCEPT !.gs = Append(@, Adv(st.k)), !.k = kk]

\* RETURN continues after the most recent pending GOSUB (of this activation)
ExecReturn(st, s) ==
  IF st.gs = <<>> THEN Raise(st, s.id, 3)
  \* the pending GOSUBs belong to other activations (the callers): for this one there is none
  ELSE IF BarrierAt(Last(st.gs), Len(Last(st.gs))) # BarrierAt(st.k, Len(st.k)) THEN Raise(st, s.id, 3)
  ELSE IF Has(s, "l") /\ s.l # "" THEN
    LET kk == GotoK(Last(st.gs), s.l) IN
    IF kk = <<>> THEN Skip(st) ELSE [st EXCEPT !.k = kk, !.gs = Front(@)]
  ELSE [st EXCEPT !.k = Last(st.gs), !.gs = Front(@)]

ExecOnError(st, s) ==
  [st EXCEPT !.h = [m |-> IF s.mode = "zero" THEN "none" ELSE s.mode, l |-> s.l], !.k = Adv(@)]

\* procedures that are left without returning: what their STATIC variables hold stays
RECURSIVE KeepStatics(_, _, _)
KeepStatics(st, acts, j) ==
  IF j > Len(acts) THEN st
  ELSE LET a == acts[j]
           proc == st.prog.subs[SubIndex(st.prog, a.sub)]
       IN KeepStatics(IF proc.static
                      THEN [st EXCEPT !.statics = IF proc.n \in DOMAIN @ THEN [@ EXCEPT ![proc.n] = a.vars] ELSE @ @@ (proc.n :> a.vars)]
                      ELSE st, acts, j + 1)

\* the part of a continuation that belongs to the module (below the first call barrier)
RECURSIVE FirstCall(_, _)
FirstCall(k, j) == IF j > Len(k) THEN Len(k) + 1 ELSE IF k[j].f = "call" THEN j ELSE FirstCall(k, j + 1)
ModulePart(k) == SubSeq(k, 1, FirstCall(k, 1) - 1)

\* RESUME: leave the handler; module-level variables stay as the handler left them
ExecResume(st, s) ==
  IF ~st.ei.on THEN Raise(st, s.id, 20)
  ELSE
    LET back == [st.ei.act EXCEPT ![1] = st.act[1]]
        off == [on |-> FALSE]
    IN CASE s.mode = "bare" -> [st EXCEPT !.k = st.ei.kAt, !.act = back, !.ei = off, !.errv = 0]
         [] s.mode = "next" -> [st EXCEPT !.k = st.ei.kNext, !.act = back, !.ei = off, !.errv = 0]
         \* the label is in the module: the procedures that were active when the error happened are left for good (their
         \* pending GOSUBs with them); the module goes on with its variables as the handler left them
         [] s.mode = "label" ->
              \* like a GOTO from the place in the module where the error happened (the blocks around the label must be
              \* active there: their loop counters and limits go on as they are)
              LET kk == GotoK(ModulePart(st.ei.kAt), s.l) IN
              IF kk = <<>> THEN Skip(st)
              ELSE KeepStatics([st EXCEPT !.k = kk, !.act = <<st.act[1]>>, !.ei = off, !.errv = 0,
                                           !.gs = SelectSeq(@, LAMBDA g : BarrierAt(g, Len(g)) = 0)], st.ei.act, 2)

ExecCall(st, s) ==
  IF ~HasSub(st.prog, s.n) THEN Skip(st)
  ELSE
    LET pi == SubIndex(st.prog, s.n)
        proc == st.prog.subs[pi]
        b == BindArgs(proc.params, s.args, st, 1, [vars |-> NoFun, refs |-> <<>>])
    IN IF Len(proc.params) # Len(s.args) THEN Skip(st)
       ELSE IF IsErr(b.v) THEN Fail(b.st, s.id, b.v.c)
       ELSE Enter(pi, b, s.id, Adv(b.st.k))

\* default value of a declared type: numbers 0, strings empty or n blanks, records fieldwise
RECURSIVE DefaultOf(_, _, _, _)
TypeIndex(prog, ty) == CHOOSE i \in 1..Len(prog.types) : prog.types[i].n = ty
DefaultOf(prog, t, ty, fix) ==
  IF t = "U" THEN
    LET td == prog.types[TypeIndex(prog, ty)] IN
    [t |-> "U", ty |-> ty,
     f |-> [fn \in {td.fields[i].n : i \in 1..Len(td.fields)} |->
              LET fd == td.fields[CHOOSE i \in 1..Len(td.fields) : td.fields[i].n = fn] IN
              DefaultOf(prog, fd.t, fd.ty, fd.fix)]]
  ELSE IF t = "$" /\ fix > 0 THEN Val("$", Blanks(fix))
  ELSE Default(t)

RECURSIVE EvalDims(_, _, _, _)
EvalDims(ds, st, j, acc) ==
  IF j > Len(ds) THEN R([t |-> "Q", v |-> acc], st)
  ELSE LET a == Eval(ds[j].lo, st)
           ca == Cast("I", a.v)
       IN IF IsErr(ca) THEN R(ca, a.st)
          ELSE LET b == Eval(ds[j].hi, a.st)
                   cb == Cast("I", b.v)
               IN IF IsErr(cb) THEN R(cb, b.st)
                  ELSE IF cb.v < ca.v THEN R(Err(9), b.st)
                  ELSE EvalDims(ds, b.st, j + 1, Append(acc, [lo |-> ca.v, hi |-> cb.v]))

\* inside a STATIC procedure a DIM takes effect once: at later calls the array / record / fixed-length string it
\* declared is still there, with its contents
InStaticProc(st) ==
  Len(st.act) > 1 /\ \E i \in 1..Len(st.prog.subs) : st.prog.subs[i].n = st.act[Len(st.act)].sub /\ st.prog.subs[i].static
DimKey(s) == IF s.dims = <<>> THEN KeyS(s.n, s.t) ELSE KeyA(s.n, s.t)
ExecDim(st, s) ==
  IF InStaticProc(st) /\ DimKey(s) \in DOMAIN st.act[Len(st.act)].vars /\ ~("redim" \in DOMAIN s /\ s.redim)
  THEN [st EXCEPT !.k = Adv(@)] ELSE
  LET st0 == IF s.shared
             THEN [st EXCEPT !.shared = @ \cup {IF s.dims = <<>> THEN KeyS(s.n, s.t) ELSE KeyA(s.n, s.t)}]
             ELSE st
  IN IF s.dims = <<>> THEN
       (IF s.t = "U"
        THEN [SetKey(st0, KeyS(s.n, "U"), DefaultOf(st.prog, "U", s.ty, 0)) EXCEPT !.k = Adv(@)]
        ELSE IF s.fix > 0
        THEN [st0 EXCEPT !.fix = (KeyS(s.n, s.t) :> s.fix) @@ @, !.k = Adv(@)]
        ELSE [st0 EXCEPT !.k = Adv(@)])
     ELSE
       LET r == EvalDims(s.dims, st0, 1, <<>>) IN
       IF IsErr(r.v) THEN Fail(r.st, s.id, r.v.c)
       ELSE LET n == BoxSize(r.v.v)
                dv == DefaultOf(st.prog, s.t, IF s.t = "U" THEN s.ty ELSE "", s.fix)
                arr == [t |-> "A", et |-> s.t, dims |-> r.v.v, cells |-> [i \in 1..n |-> dv], fix |-> s.fix]
            IN [SetKey(r.st, KeyA(s.n, s.t), arr) EXCEPT !.k = Adv(@)]

\* CONST: the value is that of the expression, converted to the suffix type if there is one.
\* A constant expression that overflows or divides by zero is rejected before anything runs.
ExecConst(st, s) ==
  LET r == Eval(s.e, st)
      t == IF s.t = "" THEN r.v.t ELSE s.t
      c == Cast(t, r.v)
  IN IF IsErr(r.v) THEN (IF r.v.c \in {6, 11} THEN Reject(r.st, s.id, r.v.c) ELSE Fail(r.st, s.id, r.v.c))
     ELSE IF IsErr(c) THEN (IF c.c = 6 THEN Reject(r.st, s.id, 6) ELSE Skip(r.st))
     ELSE IF Len(st.act) > 1
          THEN [r.st EXCEPT !.act[Len(st.act)].lc = (s.n :> c) @@ @, !.k = Adv(@)]
          ELSE [r.st EXCEPT !.consts = (s.n :> c) @@ @, !.k = Adv(@)]

\* EXIT SUB / EXIT FUNCTION: drop the frames of the current activation
ExecExit(st, s) ==
  LET b == BarrierAt(st.k, Len(st.k)) IN
  IF b = 0 THEN Skip(st) ELSE [st EXCEPT !.k = SubSeq(@, 1, b)]

ExecStmt(st, s) ==
  CASE s.k = "let" -> ExecLet(st, s)
    [] s.k = "print" -> PrintItems(st, s, 1)
    [] s.k = "if" -> IfArms(st, s, 1)
    [] s.k = "select" -> ExecSelect(st, s)
    [] s.k = "for" -> ExecFor(st, s)
    [] s.k = "while" -> ExecPreLoop(st, s)
    [] s.k = "do" -> ExecDo(st, s)
    [] s.k = "read" -> ReadTargets(st, s, 1)
    [] s.k \in {"data", "label", "rem"} -> [st EXCEPT !.k = Adv(@)]
    [] s.k = "goto" -> ExecGoto(st, s)
    [] s.k = "gosub" -> ExecGosub(st, s)
    [] s.k = "return" -> ExecReturn(st, s)
    [] s.k = "onerror" -> ExecOnError(st, s)
    [] s.k = "resume" -> ExecResume(st, s)
    [] s.k = "call" -> ExecCall(st, s)
    [] s.k = "dim" -> ExecDim(st, s)
    [] s.k = "const" -> ExecConst(st, s)
    [] s.k = "exit" -> ExecExit(st, s)
    [] s.k = "end" -> [st EXCEPT !.status = "ok"]

\* what the next step will do (for coverage and for the action split)
NextKind(st) ==
  IF st.status # "run" THEN "done"
  ELSE IF st.k = <<>> THEN "halt"
  ELSE LET top == Last(st.k) IN
    IF top.f = "seq" THEN (IF top.i > Len(top.b) THEN "blockend" ELSE top.b[top.i].k)
    ELSE IF top.f = "for" THEN "next"
    ELSE IF top.f = "call" THEN "ret"
    ELSE "loop"

Step(st) ==
  IF st.status # "run" THEN st
  ELSE IF st.fuel <= 0 THEN [st EXCEPT !.status = "fuel"]
  ELSE IF st.k = <<>> THEN [st EXCEPT !.status = "ok"]
  ELSE
    LET top == Last(st.k)
        st1 == Tick(st)
    IN CASE top.f = "seq" ->
              IF top.i > Len(top.b) THEN [st1 EXCEPT !.k = Front(@)]
              ELSE ExecStmt(st1, top.b[top.i])
         [] top.f = "for" -> ForNext(st1)
         [] top.f \in {"while", "do"} -> LoopAgain(st1)
         [] top.f = "call" -> ReturnFromCall(st1)

(***************************************************************************)
(* Start state.  DATA statements of the main module are collected in         *)
(* textual order before anything runs.                                      *)
(***************************************************************************)
RECURSIVE DataOf(_)
DataOf(body) ==
  IF body = <<>> THEN <<>>
  ELSE (IF Head(body).k = "data" THEN Head(body).vals ELSE <<>>) \o DataOf(Tail(body))

Start(prog, fuel) ==
  [prog |-> prog,
   k |-> <<SeqFrame(prog.main, <<0, 0>>)>>,
   act |-> <<[sub |-> "", vars |-> NoFun, refs |-> <<>>, site |-> 0, lc |-> NoFun, gsb |-> 0]>>,
   statics |-> NoFun, shared |-> {}, consts |-> NoFun, fix |-> NoFun,
   gs |-> <<>>, h |-> [m |-> "none", l |-> ""], ei |-> [on |-> FALSE], errv |-> 0,
   data |-> DataOf(prog.main), dcur |-> 1,
   out |-> <<>>, col |-> 0, ret |-> Val("I", 0), nest |-> 0,
   status |-> "run", code |-> 0, estmt |-> 0, stack |-> <<>>, fuel |-> fuel]

Done(st) == st.status # "run"

\* the observables of a finished run
Obs(st) ==
  [status |-> st.status, out |-> st.out, code |-> st.code, estmt |-> st.estmt, stack |-> st.stack]

(***************************************************************************)
(* Invariants of the reference semantics (checked in every state).          *)
(***************************************************************************)
RECURSIVE ScalarOK(_, _)
ScalarOK(t, v) ==
  /\ v.t = t
  /\ (t \in NumTypes => InRange(t, v.v))
  /\ (t = "U" => \A fn \in DOMAIN v.f : ScalarOK(v.f[fn].t, v.f[fn]))
ValueOK(key, v) ==
  IF v.t = "A" THEN \A i \in DOMAIN v.cells : ScalarOK(v.et, v.cells[i]) /\
                      (v.et = "$" /\ v.fix > 0 => Len(v.cells[i].v) = v.fix)
  ELSE ScalarOK(key[2], v)

\* C06 inside the oracle: a numeric variable only ever holds a value of its type
TypeOK(st) ==
  \A a \in DOMAIN st.act : \A key \in DOMAIN st.act[a].vars : ValueOK(key, st.act[a].vars[key])

FixOK(st) ==
  \A a \in DOMAIN st.act : \A key \in DOMAIN st.act[a].vars :
     (key \in DOMAIN st.fix /\ key[3] = "s") => Len(st.act[a].vars[key].v) = st.fix[key]

\* the column is the number of characters since the last line break
RECURSIVE SinceBreak(_)
SinceBreak(o) == IF o = <<>> \/ Last(o) \in {10, 13} THEN 0 ELSE 1 + SinceBreak(Front(o))
ColOK(st) == st.col = SinceBreak(st.out)
=============================================================================
