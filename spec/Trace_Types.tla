----------------------------- MODULE Trace_Types -----------------------------
(* Verdicts of the real checker (and outcomes of the real runs) validated against   *)
(* Types.tla.  Records:                                                              *)
(*  [id, k |-> "kind", s (statement for WellKinded), obs |-> [verdict, family, rowok, run]] *)
(*  [id, k |-> "edit", edit, obs |-> [verdict, family, rowok]]                        *)
EXTENDS Types, Json, IOUtils, TLC

Recs == ndJsonDeserialize(IOEnv.TRACE)
VARIABLE idx
Init == idx \in 1..Len(Recs)
Next == UNCHANGED idx
Spec == Init /\ [][Next]_idx

Line(tag) == PrintT(tag \o " " \o ToString(Recs[idx].id))

Verdict ==
  LET r == Recs[idx]
      o == r.obs
  IN IF r.k = "kind" THEN
       (IF WellKinded(r.s) THEN
          (IF o.verdict = "reject" THEN Line("NOCLAIM")            \* the property constrains acceptance only
           ELSE IF o.run \in {"err13", "panic"} THEN Line("MISMATCH")  \* accepted, then a kind error at run time
           ELSE Line("AGREE"))
        ELSE \* ill-kinded: must be rejected, as a type error, in that statement
          \* (where the position wants a VARIABLE - the counter of a FOR loop - "variable required" is the matching family too)
          (IF o.verdict = "reject" /\ o.rowok /\
              o.family \in ({"TypeMismatch", "ArgumentTypeMismatch"} \cup (IF "lvalue" \in DOMAIN r.s /\ r.s.lvalue THEN {"VariableRequired"} ELSE {}))
           THEN Line("AGREE")
           ELSE Line("MISMATCH")))
     ELSE
       (IF o.verdict = "reject" /\ o.family \in Families(r.edit) /\ o.rowok THEN Line("AGREE") ELSE Line("MISMATCH"))
=============================================================================
