INIT MInit
NEXT MNext
INVARIANT MVerdict
CHECK_DEADLOCK FALSE
