SPECIFICATION Spec
CONSTANT MaxCall = 2
CONSTANT MaxNest = 0
CONSTANT Rich = FALSE
CONSTANT FaultSel = "base"
INVARIANT TypeOK
INVARIANT WellFormed
INVARIANT Emit
CHECK_DEADLOCK FALSE
