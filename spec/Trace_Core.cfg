SPECIFICATION Spec
INVARIANT Verdict
INVARIANT OracleOK
CHECK_DEADLOCK FALSE
