SPECIFICATION Spec
CONSTANTS MaxOps = 4 Unaries = FALSE
INVARIANT FlipIsPrec
INVARIANT OperandsKept
CHECK_DEADLOCK FALSE
