SPECIFICATION Spec
INVARIANT CastOK
INVARIANT ArithOK
INVARIANT ArithExact
INVARIANT UnaryOK
INVARIANT FracOK
CHECK_DEADLOCK FALSE
