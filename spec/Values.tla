------------------------------- MODULE Values -------------------------------
(***************************************************************************)
(* The value domain of the BASIC dialect, restricted to the exactly         *)
(* representable numeric domain: INTEGER (I), LONG (L), SINGLE (S) and      *)
(* DOUBLE (D) carry whole numbers n with |n| < 2^31 (SINGLE: |n| <= 2^24),  *)
(* STRING ($) carries a sequence of character codes.                        *)
(*                                                                          *)
(* A value is a record [t |-> tag, v |-> payload].  An evaluation result is *)
(* a value or an error [t |-> "E", c |-> code].  The pseudo error code 0    *)
(* means "outside the exact domain": the case is dropped, never judged.     *)
(*                                                                          *)
(* Every operator here is a transcription of the documented language rule,  *)
(* not of the Rust code.                                                    *)
(***************************************************************************)
EXTENDS Integers, Sequences, Bits

NumTypes == {"I", "L", "S", "D"}
AllTypes == NumTypes \cup {"$"}

MinI == -32768
MaxI == 32767
MaxL == 2147483647
MinL == -MaxL - 1
MaxSExact == 16777216      \* 2^24: every whole number up to here is a SINGLE

Val(t, v) == [t |-> t, v |-> v]
Err(c) == [t |-> "E", c |-> c]
IsErr(x) == x.t = "E"
Inexact == Err(0)           \* leaves the exactly representable domain
Overflow == Err(6)
DivZero == Err(11)
TypeMismatch == Err(13)

IsNum(x) == x.t \in NumTypes
IsStr(x) == x.t = "$"

Default(t) == IF t = "$" THEN Val("$", <<>>) ELSE Val(t, 0)

Abs(n) == IF n < 0 THEN -n ELSE n

\* range of each type inside the exact domain
InRange(t, n) ==
  CASE t = "I" -> n >= MinI /\ n <= MaxI
    [] t = "L" -> n >= MinL /\ n <= MaxL
    [] t = "S" -> n >= 0 - MaxSExact /\ n <= MaxSExact
    [] t = "D" -> n >= MinL /\ n <= MaxL

\* "wider" numeric type: I < L < S < D
Rank(t) == CASE t = "I" -> 1 [] t = "L" -> 2 [] t = "S" -> 3 [] t = "D" -> 4
Wider(a, b) == IF Rank(a) >= Rank(b) THEN a ELSE b

\* Build a numeric result of type t from the mathematical value n.
\* Whole-number types overflow (6); floating types leave the exact domain.
Fit(t, n) ==
  IF InRange(t, n) THEN Val(t, n)
  ELSE IF t \in {"I", "L"} THEN Overflow ELSE Inexact

\* A fractional constant  +-(w + f/10)  with f in 1..9 \ {5} (ties are excluded: "rounding
\* to nearest" does not fix them).  It exists only to be converted to a whole-number type;
\* anything else done with it leaves the exact domain.
FracVal(ft, w, f, neg) == [t |-> "F", ft |-> ft, w |-> w, f |-> f, neg |-> neg]
IsFrac(x) == x.t = "F"
RoundFrac(x) == LET m == IF x.f < 5 THEN x.w ELSE x.w + 1 IN IF x.neg THEN 0 - m ELSE m

\* Conversion on assignment / parameter passing / READ.
Cast(t, x) ==
  IF IsErr(x) THEN x
  ELSE IF IsFrac(x) THEN
    (IF t \in {"I", "L"} THEN (IF x.w >= MaxL THEN Overflow ELSE Fit(t, RoundFrac(x)))
     ELSE IF t \in {"$", "U"} THEN TypeMismatch ELSE Inexact)
  ELSE IF t = "U" THEN (IF x.t = "U" THEN x ELSE TypeMismatch)
  ELSE IF x.t = "U" THEN TypeMismatch
  ELSE IF t = "$" THEN (IF IsStr(x) THEN x ELSE TypeMismatch)
  ELSE IF IsStr(x) THEN TypeMismatch
  ELSE Fit(t, x.v)

(***************************************************************************)
(* Safe arithmetic on TLC's 32-bit integers: the mathematical result is     *)
(* computed only when it is known to stay inside the 32-bit range, else     *)
(* the sentinel "big" is returned.                                          *)
(***************************************************************************)
Big == [big |-> TRUE, v |-> 0]
Small(n) == [big |-> FALSE, v |-> n]
IsBig(x) == x.big

SafeAdd(a, b) ==
  IF (b > 0 /\ a > MaxL - b) \/ (b < 0 /\ a < MinL - b) THEN Big ELSE Small(a + b)

SafeSub(a, b) ==
  IF (b < 0 /\ a > MaxL + b) \/ (b > 0 /\ a < MinL + b) THEN Big ELSE Small(a - b)

SafeMul(a, b) ==
  IF a = 0 \/ b = 0 THEN Small(0)
  ELSE IF a = MinL \/ b = MinL THEN (IF a = 1 THEN Small(b) ELSE IF b = 1 THEN Small(a) ELSE Big)
  ELSE IF Abs(a) > MaxL \div Abs(b) THEN
         \* the one product beyond MaxL in magnitude that is still a LONG: exactly -2^31
         (IF ((a < 0) # (b < 0)) /\ Abs(a) = (MaxL \div Abs(b)) + 1 /\ MaxL % Abs(b) = Abs(b) - 1
          THEN Small(MinL) ELSE Big)
  ELSE Small(a * b)

\* result of a whole-number computation for result type t
FitBig(t, r) ==
  IF IsBig(r) THEN (IF t \in {"I", "L"} THEN Overflow ELSE Inexact) ELSE Fit(t, r.v)

ArithOps == {"+", "-", "*", "/"}
RelOps == {"=", "<>", "<", "<=", ">", ">="}
LogicOps == {"and", "or"}
BinOps == ArithOps \cup RelOps \cup LogicOps \cup {"mod"}

\* static result type of a binary operator (numeric operands)
ResType(op, ta, tb) ==
  CASE op \in {"+", "-", "*"} -> Wider(ta, tb)
    \* a division is never a whole-number type; a LONG or DOUBLE operand makes it a DOUBLE
    [] op = "/" -> IF ta \in {"L", "D"} \/ tb \in {"L", "D"} THEN "D" ELSE "S"
    [] OTHER -> "I"

Bool(b) == Val("I", IF b THEN -1 ELSE 0)

\* lexicographic comparison of code sequences: -1, 0, 1
RECURSIVE SeqCmp(_, _)
SeqCmp(a, b) ==
  IF a = <<>> THEN (IF b = <<>> THEN 0 ELSE -1)
  ELSE IF b = <<>> THEN 1
  ELSE IF Head(a) < Head(b) THEN -1
  ELSE IF Head(a) > Head(b) THEN 1
  ELSE SeqCmp(Tail(a), Tail(b))

Cmp3(x, y) ==
  IF IsStr(x) THEN SeqCmp(x.v, y.v)
  ELSE IF x.v < y.v THEN -1 ELSE IF x.v > y.v THEN 1 ELSE 0

RelHolds(op, c) ==
  CASE op = "=" -> c = 0
    [] op = "<>" -> c # 0
    [] op = "<" -> c < 0
    [] op = "<=" -> c <= 0
    [] op = ">" -> c > 0
    [] op = ">=" -> c >= 0

\* remainder with the sign of the dividend (truncated division)
TruncMod(a, b) ==
  LET m == Abs(a) % Abs(b) IN IF a < 0 THEN -m ELSE m

\* MOD / AND / OR work on whole numbers.  The dialect deliberately raises Overflow
\* when an operand does not fit INTEGER where the language itself would work on
\* LONGs; the properties do not fix that case, so it is left undecided (never judged).
IntOperand(x) == IF InRange("I", x.v) THEN Val("I", x.v) ELSE Inexact

Arith(op, x, y) ==
  IF IsErr(x) THEN x
  ELSE IF IsErr(y) THEN y
  ELSE IF IsFrac(x) \/ IsFrac(y) THEN Inexact
  ELSE IF op = "+" /\ IsStr(x) /\ IsStr(y) THEN Val("$", x.v \o y.v)
  ELSE IF op \in RelOps THEN
    (IF IsStr(x) # IsStr(y) THEN TypeMismatch ELSE Bool(RelHolds(op, Cmp3(x, y))))
  ELSE IF IsStr(x) \/ IsStr(y) THEN TypeMismatch
  ELSE LET t == ResType(op, x.t, y.t) IN
    CASE op = "+" -> FitBig(t, SafeAdd(x.v, y.v))
      [] op = "-" -> FitBig(t, SafeSub(x.v, y.v))
      [] op = "*" -> FitBig(t, SafeMul(x.v, y.v))
      [] op = "/" -> IF y.v = 0 THEN DivZero
                     ELSE IF x.v = MinL \/ y.v = MinL THEN Inexact
                     ELSE IF TruncMod(x.v, y.v) # 0 THEN Inexact
                     ELSE Fit(t, (Abs(x.v) \div Abs(y.v)) *
                                 (IF (x.v < 0) # (y.v < 0) THEN -1 ELSE 1))
      [] op = "mod" ->
           LET a == IntOperand(x)
               b == IntOperand(y)
           IN IF IsErr(a) THEN a ELSE IF IsErr(b) THEN b
              ELSE IF b.v = 0 THEN DivZero ELSE Val("I", TruncMod(a.v, b.v))
      [] op = "and" ->
           LET a == IntOperand(x)
               b == IntOperand(y)
           IN IF IsErr(a) THEN a ELSE IF IsErr(b) THEN b ELSE Val("I", And16(a.v, b.v))
      [] op = "or" ->
           LET a == IntOperand(x)
               b == IntOperand(y)
           IN IF IsErr(a) THEN a ELSE IF IsErr(b) THEN b ELSE Val("I", Or16(a.v, b.v))

Neg(x) ==
  IF IsErr(x) THEN x
  ELSE IF IsFrac(x) THEN Inexact
  ELSE IF IsStr(x) THEN TypeMismatch
  ELSE IF x.v = MinL THEN (IF x.t = "L" THEN Overflow ELSE Inexact)
  ELSE Fit(x.t, -x.v)

\* NOT n = -n - 1 on whole numbers (two's complement), type preserved
Not(x) ==
  IF IsErr(x) THEN x
  ELSE IF IsFrac(x) THEN Inexact
  ELSE IF IsStr(x) THEN TypeMismatch
  ELSE Fit(x.t, (0 - 1) - x.v)

\* truth value used by IF / WHILE / DO: zero is false
\* (a fractional constant +-(w + f/10), f # 0, is never zero)
Truth(x) == IF x.t = "F" THEN TRUE ELSE x.v # 0
HasTruth(x) == x.t \in NumTypes \/ x.t = "F"

(***************************************************************************)
(* Text of a number as PRINT shows it: a leading blank or minus sign, the    *)
(* decimal digits, a trailing blank.                                        *)
(***************************************************************************)
RECURSIVE NatDigits(_)
NatDigits(n) == IF n < 10 THEN <<48 + n>> ELSE NatDigits(n \div 10) \o <<48 + (n % 10)>>

IntDigits(n) ==
  IF n = MinL THEN <<45, 50,49,52,55,52,56,51,54,52,56>>
  ELSE IF n < 0 THEN <<45>> \o NatDigits(-n) ELSE NatDigits(n)

PrintText(x) ==
  IF IsStr(x) THEN x.v
  ELSE (IF x.v < 0 THEN IntDigits(x.v) ELSE <<32>> \o IntDigits(x.v)) \o <<32>>

\* a fixed-length string always has exactly n characters
RECURSIVE Blanks(_)
Blanks(n) == IF n <= 0 THEN <<>> ELSE <<32>> \o Blanks(n - 1)
FixLen(n, s) == IF Len(s) >= n THEN SubSeq(s, 1, n) ELSE s \o Blanks(n - Len(s))
=============================================================================
