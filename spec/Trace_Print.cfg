SPECIFICATION Spec
INVARIANT Verdict
INVARIANT ColumnOK
CHECK_DEADLOCK FALSE
