-------------------------------- MODULE Slots --------------------------------
(***************************************************************************)
(* A grammar-aware input space for C07 and C08: statement TEMPLATES with one or   *)
(* two slots, filled with every FILLER - variables and parts of variables,          *)
(* declared things that are not variables, built-in function names bare /            *)
(* qualified / called with good and bad arguments, built-in statement names and      *)
(* keywords where a name is expected, literals and broken expressions.  The texts     *)
(* of templates and fillers are the driver's data (lib/slots.py), keyed by the names   *)
(* listed here.  A two-slot template is combined with every pair of fillers of which    *)
(* at least one belongs to Core.  TLC enumerates the space; the driver renders each      *)
(* state, the real parser and checker must end with a program or a located error        *)
(* (C07, Outcome.tla), and what they accept must run to a BASIC-level outcome (C08).     *)
(***************************************************************************)
EXTENDS Integers, Sequences, TLC

Fillers == {
    "N%", "S$", "D#", "Arr", "Arr(1)", "Arr(N%)", "Arr(MyFn%(1))", "Arr(9)", "Arr(1,1)", "Arr()", "ArrS$(1)",
    "Rec", "Rec.X", "Rec.S", "Rec.Q", "RecArr(1).X", "RecArr(MyFn%(1)).X", "RecArr(1)", "RecArr", "N%.X",
    "A.B.C", "Undef", "Undef%", "Undef(1)", "Undef$(1)", "Undef.X", "N", "N$", "S", "S%", "MyConst",
    "MyConst%", "MySub", "MyFn%", "MyFn", "MyFn%(1)", "MyFn%(1,2)", "MyFn%()", "MyStr$(S$)", "MyStr$(1)",
    "MyType", "MyLabel", "Str", "Chr", "Len", "Mid", "Val", "Eof", "Err", "Inkey", "Environ", "Lbound",
    "String", "Space", "Str$", "Chr$", "Mid$", "Inkey$", "Err%", "Len(S$)", "Len(N%)", "Len(1)", "Str$(1)",
    "Str$(S$)", "Chr$(65)", "Chr$(999)", "Mid$(S$,1)", "Mid$(S$,0)", "Mid$(S$,1,2,3)", "Val(S$)", "Val(1)",
    "Eof(1)", "Eof(S$)", "Lbound(Arr)", "Ubound(Arr,1)", "Ubound(Arr,5)", "Lbound(N%)", "Instr(S$,\"a\")",
    "Instr(0,S$,\"a\")", "Varptr(N%)", "Varptr(1)", "Varseg(Arr(1))", "Peek(0)", "Cvd(S$)", "Mkd$(1)",
    "Left$(S$,-1)", "Right$(S$,1)", "Space$(-1)", "String$(2,\"\")", "Ucase$(S$)", "Ltrim$(1)",
    "Environ$(\"A\")", "Environ$(1)", "Cls", "Beep", "Close", "Name", "Kill", "Field", "Get", "Open",
    "Input", "Line", "View", "Width", "Locate", "Poke", "Def", "Seg", "Read", "Data", "Lset", "End", "Next",
    "Sub", "Function", "Type", "As", "To", "Step", "Then", "Else", "Case", "Is", "Select", "Loop", "Until",
    "While", "Wend", "Dim", "Shared", "Static", "Const", "Declare", "Goto", "Gosub", "Return", "On", "Error",
    "Resume", "Exit", "Print", "Using", "And", "Not", "Mod", "Integer", "String$", "Access", "Random",
    "Output", "Append", "Rem", "1", "0", "-1", "2.5", "32768", "99999999999", "&HFF", "&H", "1E5", "1.",
    ".5", "1#", "\"s\"", "\"\"", "\"s", "(1)", "((1))", "(", ")", "1 +", "+ 1", "N% + 1", "N% = 1",
    "\"a\" + \"b\"", "S$ + 1", "-N%", "NOT N%", "1, 2", "1; 2", "1 / 0", "N% MOD 0", "1 AND S$",
    "S$ < \"b\"", "1 < S$", "#1", "7 MOD .4", "7 MOD 0", ".4", "1 / .0000001", "2 ^ 2", "1 \\ 2", "N% AND",
    "Arr(1 TO 2)", "1 TO", "(1 TO 2)", "N% * 99999", "32767 + N%", "8", "80", "25", "F$", "A", "Z", "X",
    "Qq", "Pq%", "\"T.TXT\"", "\"##\"", "", " ", ":", "'", ",", ";", "=", "1 TO 2", "-", "- -1", "(N%",
    "N%)", "\"abc\"+Chr$(200)", "Chr$(200)+\"abcd\"", "String$(5,200)", "\"aé\"", "Pa() AS MyType", "Pr AS MyType", "Pi() AS INTEGER", "Ps$()", "Pn AS LONG", "Pu AS Undef", "Pq%()", "#99999999999", "#256", "#0", "#-1", "#1.5", "#N%", "#", "#Arr(1)", "#Rec.X", "#(1)", "#1 + 1", "#MyConst", "#S$", "#D#", "c", "x", "z", "-5", "32768", "(Arr())", "ArrS$()", "RecArr()", "Arr(1)()", "FxArr()", "(FxArr())", "FxArr(1)", "My.Const", "My.Const%", "MY.CONST", "My.Const.X", "VARPTR", "VARSEG", "LEN", "MID$", "CHR$", "EOF", "PEEK", "INSTR", "UBOUND", "CVD", "MKD$", "VAL", "STR$", "VARPTR()", "LEN()",
    "Qf", "Qf%", "Qf!", "Qg", "Qg$", "QQ", "A.B$", "Rec.X%", "Undef.X$", "Rec.S$", "&O8", "&o17", "2#" }

Core == {
    "N%", "S$", "Arr(1)", "Arr", "Rec.X", "RecArr(1).X", "Rec", "Undef", "Undef(1)", "MyConst", "MySub",
    "MyFn%", "MyFn%(1)", "MyFn%(1,2)", "MyType", "MyLabel", "Str", "Len", "Len(S$)", "Str$(1)", "Mid$(S$,1)",
    "Cls", "End", "Next", "Print", "As", "1", "0", "-1", "2.5", "99999999999", "\"s\"", "\"\"", "(1)", "1 +",
    "N% + 1", "S$ + 1", "1, 2", "1 / 0", "", "#1", "Arr(MyFn%(1))", "RecArr(MyFn%(1)).X", "\"##\"", "Qq",
    "Integer", "8", "F$", "\"T.TXT\"", "Varptr(N%)", "80", "25", "A", "Z", "X", "RecArr", "Pq%" }

OneSlot == {
    "print", "print-file", "lprint", "bare", "dim", "dim-shared", "redim-bare", "static-decl", "shared-decl",
    "erase", "print-semi", "print-comma", "print-spc", "let-only", "end-kw", "data-read2", "if-block",
    "elseif", "while", "do-while", "loop-until", "for-var", "for-step", "next-var", "case-is", "goto",
    "gosub", "on-error", "resume", "return", "label", "input", "line-input", "read", "data", "open",
    "open-len", "open-num", "close", "get", "input-file", "line-input-file", "kill", "environ", "def-seg",
    "exit", "byref-arg", "byref-fn-arg", "type-member", "fixed-member", "fixed-var", "fixed-lset",
    "using-field", "using-bang", "fixed-input", "arr-arg", "str-arr-arg", "dotted-const-assign", "dotted-const-input", "close-n", "print-n", "input-n", "get-n",
    "line-input-n", "put-n", "field-n", "print-using-n", "eof-n", "open-as-n",
    "fixed-const-len", "fixed-const-len-type", "fixed-const-len-arr" }

TwoSlot == {
    "assign", "let", "print2", "print-using", "call1", "call-kw", "dim-arr", "dim-as", "redim", "redim-as",
    "redim-shared", "dim-shared-arr", "dim-arr-as", "dim-two", "dim-to", "const-two", "print-tab",
    "while-wend-var", "if-else-line", "on-goto", "mid-stmt", "swap", "const", "if-line", "for-bounds",
    "select", "case-range", "input2", "field", "lset", "name", "poke", "locate", "color", "width",
    "view-print", "defint", "member-assign", "elem-assign", "elem-member-assign", "elem-print",
    "elem-member-print", "two-subscripts", "swap-assign", "nested", "sub-decl", "function-decl", "declare",
    "type-decl", "type-two", "field-two", "function-assign", "function-assign-s" }

VARIABLES t, a, b
vars == <<t, a, b>>

Init ==
  \/ /\ t \in OneSlot /\ a \in Fillers /\ b = ""
  \/ /\ t \in TwoSlot /\ a \in Fillers /\ b \in Fillers /\ (a \in Core \/ b \in Core)
Next == UNCHANGED vars
Spec == Init /\ [][Next]_vars

CoreIsPart == Core \subseteq Fillers
Emit == PrintT("SLOT " \o t \o "\t" \o a \o "\t" \o b)
=============================================================================
