SPECIFICATION Spec
CONSTANT MaxSites = 1
INVARIANT CanonPreserved
INVARIANT Emit
CHECK_DEADLOCK FALSE
