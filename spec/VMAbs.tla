-------------------------------- MODULE VMAbs --------------------------------
(***************************************************************************)
(* Abstract virtual machine over the REAL instruction lists the code generator *)
(* produced (C15).  The programs are data (IOEnv.PROGS): for each one its       *)
(* instructions [op, t (target address or -1), lab (label name)] and its         *)
(* statement start addresses.  The abstract state keeps only the DEPTHS of the   *)
(* VM's stacks, the pending return addresses and the pending GOSUBs; TLC          *)
(* explores every control-flow path of every program (both arms of every          *)
(* conditional jump, every call and return) and checks:                           *)
(*   static:  targets resolved and in range, labels defined once, procedures       *)
(*            closed under branches, main ends in Halt, procedures in PopRet,       *)
(*            statement addresses ascending;                                       *)
(*   on every path: no stack underflows, at every statement boundary the value,     *)
(*            variable-path, by-ref and argument stacks are empty again, no depth    *)
(*            grows beyond a bound, at the final Halt the register stack is back     *)
(*            at its base.                                                          *)
(* Addresses are 0-based as in the implementation; insns[a + 1] is address a.       *)
(***************************************************************************)
EXTENDS VMEffects, FiniteSets, TLC, Json, IOUtils

Progs == ndJsonDeserialize(IOEnv.PROGS)
K == 10          \* bound on every depth (growth beyond it = unbounded growth)
MaxRets == 3     \* call depth explored

Ins(p, a) == Progs[p].insns[a + 1]
N(p) == Len(Progs[p].insns)

VARIABLES p, s
vars == <<p, s>>

Start == [pc |-> 0, val |-> 0, reg |-> 1, vp |-> 0, byref |-> 0, arg |-> 0, frames |-> 0,
          rets |-> <<>>, gos |-> <<>>, bases |-> <<>>, inh |-> 0, st |-> "run"]

\* the depths of the caller at the moment of the call: boundaries inside the callee are judged relative to them
BaseOf(st) == [val |-> st.val, reg |-> st.reg, vp |-> st.vp, byref |-> st.byref, arg |-> st.arg, frames |-> st.frames,
               gos |-> Len(st.gos)]
Base(st) == IF st.bases = <<>> THEN [val |-> 0, reg |-> 1, vp |-> 0, byref |-> 0, arg |-> 0, frames |-> 0, gos |-> 0]
            ELSE st.bases[Len(st.bases)]

Apply(st, op) ==
  LET d == Delta(op) IN
  [st EXCEPT !.val = @ + d.val, !.reg = @ + d.reg, !.vp = @ + d.vp, !.byref = @ + d.byref, !.arg = @ + d.arg,
             !.frames = @ + d.frames]

Init == p \in 1..Len(Progs) /\ s = Start

Underflows(st) == st.val < 0 \/ st.reg < 1 \/ st.vp < 0 \/ st.byref < 0 \/ st.arg < 0 \/ st.frames < 0
TooDeep(st) == st.val > K \/ st.reg > K \/ st.vp > K \/ st.byref > K \/ st.arg > K \/ st.frames > K

Next ==
  /\ s.st = "run" /\ s.pc < N(p) /\ ~Underflows(s) /\ ~TooDeep(s)
  /\ UNCHANGED p
  /\ LET i == Ins(p, s.pc)
         op == i.op
         a == IF op \in Known THEN Apply(s, op) ELSE s
     IN CASE op \notin Known -> s' = [s EXCEPT !.st = "unknown"]
          [] op = "Halt" -> s' = [s EXCEPT !.st = "halt"]
          [] op = "Throw" -> s' = [s EXCEPT !.st = "throw"]
          [] op = "Jump" -> s' = [a EXCEPT !.pc = i.t]
          [] op = "JumpIfFalse" -> \/ s' = [a EXCEPT !.pc = i.t]
                                  \/ s' = [a EXCEPT !.pc = @ + 1]
          [] op = "PushRet" ->
               IF Len(s.rets) >= MaxRets THEN s' = [s EXCEPT !.st = "deep"]
               ELSE s' = [a EXCEPT !.pc = @ + 1, !.rets = Append(@, i.t), !.bases = Append(@, BaseOf(s))]
          [] op = "PopRet" ->
               IF s.rets = <<>> THEN s' = [s EXCEPT !.st = "popret-empty"]
               \* the GOSUBs of the procedure that ends are not pending any more (ff637ed)
               ELSE s' = [a EXCEPT !.pc = s.rets[Len(s.rets)], !.rets = SubSeq(@, 1, Len(@) - 1),
                                   !.bases = SubSeq(@, 1, Len(@) - 1),
                                   !.gos = IF Len(@) > Base(s).gos THEN SubSeq(@, 1, Base(s).gos) ELSE @]
          [] op = "GoSub" ->
               IF Len(s.gos) >= MaxRets THEN s' = [s EXCEPT !.st = "deep"]
               \* a pending GOSUB remembers the depths of the register and value stacks (13e046b)
               ELSE s' = [a EXCEPT !.pc = i.t, !.gos = Append(@, [pc |-> s.pc, val |-> s.val, reg |-> s.reg])]
          [] op = "Return" ->
               \* only a GOSUB of this activation counts; without one it is a BASIC error (3), not a defect
               IF Len(s.gos) <= Base(s).gos THEN s' = [s EXCEPT !.st = "return-without-gosub"]
               \* RETURN leaves the FOR / SELECT CASE blocks of the routine: the two stacks are cut back to what they were
               ELSE LET g == s.gos[Len(s.gos)] IN
                    s' = [a EXCEPT !.pc = IF i.t >= 0 THEN i.t ELSE g.pc + 1,
                                   !.val = IF @ > g.val THEN g.val ELSE @, !.reg = IF @ > g.reg THEN g.reg ELSE @,
                                   !.gos = SubSeq(@, 1, Len(@) - 1)]
          [] op = "OnErrorGoTo" ->
               \* the handler may start running from a statement boundary: explore it in a handler context
               \/ s' = [a EXCEPT !.pc = @ + 1]
               \/ s' = [a EXCEPT !.pc = i.t, !.frames = @ + 1, !.inh = @ + 1]
          [] op \in {"Resume", "ResumeNext", "ResumeLabel"} ->
               \* where it continues depends on the failing statement: the path ends here (covered dynamically)
               \* without a pending error it is the BASIC error 20, raised before anything is popped
               IF s.inh = 0 THEN s' = [s EXCEPT !.st = "resume-without-error"]
               ELSE s' = [a EXCEPT !.st = "resumed", !.inh = @ - 1]
          [] OTHER -> s' = [a EXCEPT !.pc = @ + 1]
Spec == Init /\ [][Next]_vars

(***************************************************************************)
(* Static well-formedness of program q                                        *)
(***************************************************************************)
HasTarget(op) == op \in {"Jump", "JumpIfFalse", "GoSub", "OnErrorGoTo", "ResumeLabel", "PushRet"}
TargetsOK(q) ==
  \A a \in 0..(N(q) - 1) :
     LET i == Ins(q, a) IN
     /\ i.t # 0 - 2                                   \* -2 encodes an unresolved label
     /\ (HasTarget(i.op) => i.t >= 0 /\ i.t < N(q))
     /\ (i.op = "Return" /\ i.t # 0 - 1 => i.t >= 0 /\ i.t < N(q))
LabelsOnce(q) ==
  \A a, b \in 0..(N(q) - 1) : (Ins(q, a).op = "Label" /\ Ins(q, b).op = "Label" /\ Ins(q, a).lab = Ins(q, b).lab) => a = b
StmtsAscending(q) ==
  LET ss == Progs[q].stmts IN \A j \in 1..(Len(ss) - 1) : ss[j] <= ss[j + 1]    \* a statement may emit no instruction
\* a statement starts inside the list, and never AT the entry label of a procedure (the last statement mark of the
\* main module stands before its Halt, that of a procedure before its PopRet)
StmtsInRange(q) == \A j \in 1..Len(Progs[q].stmts) :
                      LET a == Progs[q].stmts[j] IN a >= 0 /\ a <= N(q) /\ (a < N(q) => ~Ins(q, a).proc)
\* procedures start at the labels the driver marked proc = TRUE; main is everything before the first one
ProcStarts(q) == {a \in 0..(N(q) - 1) : Ins(q, a).proc}
RegionOf(q, a) == LET ps == {b \in ProcStarts(q) : b <= a} IN IF ps = {} THEN 0 - 1 ELSE CHOOSE b \in ps : \A c \in ps : c <= b
ProcClosed(q) ==
  \A a \in 0..(N(q) - 1) :
     LET i == Ins(q, a) IN
     (i.op \in {"Jump", "JumpIfFalse", "GoSub", "ResumeLabel"} /\ i.t >= 0 /\ ~i.call) => RegionOf(q, a) = RegionOf(q, i.t)
RegionEnd(q, b) ==
  LET later == {c \in ProcStarts(q) : c > b} IN IF later = {} THEN N(q) - 1 ELSE (CHOOSE c \in later : \A e \in later : c <= e) - 1
EndsOK(q) ==
  /\ LET mainend == IF ProcStarts(q) = {} THEN N(q) - 1 ELSE (CHOOSE c \in ProcStarts(q) : \A e \in ProcStarts(q) : c <= e) - 1
     IN mainend >= 0 /\ Ins(q, mainend).op = "Halt"
  /\ \A b \in ProcStarts(q) : Ins(q, RegionEnd(q, b)).op = "PopRet"

StaticOK(q) == TargetsOK(q) /\ LabelsOnce(q) /\ StmtsAscending(q) /\ StmtsInRange(q) /\ ProcClosed(q) /\ EndsOK(q)

(***************************************************************************)
(* Verdict lines (the driver turns them into violations)                       *)
(***************************************************************************)
IsBoundary(q, a) == \E j \in 1..Len(Progs[q].stmts) : Progs[q].stmts[j] = a
Say(tag) == PrintT(tag \o " " \o ToString(Progs[p].id) \o " " \o ToString(s.pc))

Verdict ==
  /\ (s = Start => (StaticOK(p) \/ Say("STATIC")))
  /\ (s.st = "unknown" => Say("UNKNOWN-OPCODE"))
  /\ (Underflows(s) => Say("UNDERFLOW"))
  /\ (TooDeep(s) => Say("GROWS"))
  \* every reachable (boundary, context, depths relative to the activation) is handed to the second pass
  \* (StackMon), which checks that a boundary in a context has ONE depth vector, whatever the path
  /\ ((s.st = "run" /\ s.pc < N(p) /\ IsBoundary(p, s.pc)) =>
        LET b == Base(s) IN
        PrintT("B " \o ToString(Progs[p].id) \o " " \o ToString(s.pc) \o " " \o ToString(s.frames - b.frames) \o " "
               \o ToString(Len(s.gos) - b.gos) \o " " \o ToString(Len(s.rets)) \o " " \o ToString(s.val - b.val) \o " "
               \o ToString(s.reg - b.reg) \o " " \o ToString(s.vp - b.vp) \o " " \o ToString(s.byref - b.byref) \o " "
               \o ToString(s.arg - b.arg)))
  /\ ((s.st = "halt" /\ s.frames = 0 /\ (s.reg # 1 \/ s.val # 0 \/ s.vp # 0 \/ s.arg # 0)) => Say("HALT-DIRTY"))
  /\ (s.st = "popret-empty" => Say("POPRET-EMPTY"))
  /\ ((s.st = "run" /\ s.pc >= N(p)) => Say("RUNS-OFF-END"))
=============================================================================
