------------------------------ MODULE MC_Store ------------------------------
(* Model checking instance of Store: every box with 1..MaxDims dimensions,   *)
(* lower bounds LoSet, extents 1..MaxExtent; TLC explores the index loop of    *)
(* every tuple around every box and checks the invariants in every state.     *)
EXTENDS Store

CONSTANTS MaxDims, MaxExtent, LoNeg, LoMax
LoMin == 0 - LoNeg

DimSet == {[lo |-> l, hi |-> l + e - 1] : l \in LoMin..LoMax, e \in 1..MaxExtent}
Boxes == UNION {[1..n -> DimSet] : n \in 1..MaxDims}

VARIABLES dims, idx, s
vars == <<dims, idx, s>>

Init == /\ dims \in Boxes
        /\ idx \in Around(dims)
        /\ s = LoopInit(dims)

Step == s.i > 0 /\ s' = LoopStep(dims, idx, s) /\ UNCHANGED <<dims, idx>>
Next == Step
Spec == Init /\ [][Next]_vars

Finished == s.i = 0

\* the loop agrees with the definition, and fails exactly outside the box
Agrees == Finished => (IF s.err THEN ~InBox(dims, idx) ELSE InBox(dims, idx) /\ s.index = RefIndex(dims, idx))

\* partial sums stay inside the array
InRange == ~s.err => s.index >= 0 /\ s.index < Size(dims)

\* distinct tuples denote distinct elements; every element is denoted (bijection)
FirstTuple == idx = [j \in 1..Len(dims) |-> dims[j].lo - 1]
Bijection ==
  (s.i = Len(dims) /\ FirstTuple) =>   \* evaluated once per box
     /\ \A a, b \in Cells(dims) : (RefIndex(dims, a) = RefIndex(dims, b)) => a = b
     /\ {RefIndex(dims, a) : a \in Cells(dims)} = 0..(Size(dims) - 1)

\* a write changes the written cell and nothing else
FrameCondition ==
  (s.i = Len(dims) /\ InBox(dims, idx)) =>
     LET cells == [k \in 0..(Size(dims) - 1) |-> 0]
         w == Write(cells, dims, idx, 7)
     IN /\ w[RefIndex(dims, idx)] = 7
        /\ \A a \in Cells(dims) : a # idx => w[RefIndex(dims, a)] = 0
=============================================================================
