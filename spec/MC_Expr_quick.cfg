SPECIFICATION Spec
CONSTANTS MaxOps = 3 Unaries = FALSE
INVARIANT FlipIsPrec
INVARIANT OperandsKept
CHECK_DEADLOCK FALSE
