----------------------------- MODULE Trace_Bits -----------------------------
(* Call records of the real bit-level primitives (qb_and, qb_or, NOT,          *)
(* i32_to_bytes, bytes_to_i32, f64_to_bytes, bytes_to_f64) checked against      *)
(* Bits.tla.  Doubles travel as their IEEE fields <<sign, exp, m3, m2, m1, m0>>. *)
EXTENDS Bits, Json, IOUtils, TLC

Recs == ndJsonDeserialize(IOEnv.TRACE)

VARIABLE idx
Init == idx \in 1..Len(Recs)
Next == UNCHANGED idx
Spec == Init /\ [][Next]_idx

Holds(r) ==
  CASE r.k = "and" -> r.res = And16(r.a, r.b)
    [] r.k = "or" -> r.res = Or16(r.a, r.b)
    [] r.k = "not" -> r.res = Not16(r.a)
    [] r.k = "tob" -> r.res = BytesLE16(r.a)
    [] r.k = "fromb" -> r.res = FromBytesLE16(r.b)
    \* one byte of the word, read or written on its own: lob (PEEK of the low byte), setlo (the word after a POKE into the low
    \* byte of a word that was a: the other byte stays)
    \* the operators where a CONDITION stands (IF, ELSEIF, WHILE, DO UNTIL): true exactly when the word they yield is not 0
    [] r.k = "andtruth" -> r.res = (IF And16(r.a, r.b) # 0 THEN 1 ELSE 0)
    [] r.k = "ortruth" -> r.res = (IF Or16(r.a, r.b) # 0 THEN 1 ELSE 0)
    [] r.k = "nottruth" -> r.res = (IF Not16(r.a) # 0 THEN 1 ELSE 0)
    [] r.k = "lob" -> r.res = BytesLE16(r.a)[1]
    [] r.k = "setlo" -> r.res = FromBytesLE16(<<r.b, BytesLE16(r.a)[2]>>)
    [] r.k = "f64" -> r.bytes = IeeeBytesLE(r.f) /\ r.back = r.f
    [] r.k = "fromf64" -> r.res = IeeeFromBytesLE(r.b)

Verdict == IF Holds(Recs[idx]) THEN TRUE ELSE PrintT("MISMATCH " \o ToString(Recs[idx].id))
=============================================================================
