-------------------------------- MODULE Calls --------------------------------
(***************************************************************************)
(* The input space of C08 as a state space: every built-in function and        *)
(* statement with every tuple of argument CLASSES that is statically            *)
(* admissible for its parameters, in every expression wrapper and program        *)
(* position.  TLC enumerates the states and prints one CASE line per state; the   *)
(* driver renders each case as a program, the real checker decides acceptance,     *)
(* accepted programs are run and their outcomes validated by Outcome.tla.          *)
(*                                                                               *)
(* Parameter kinds: "n" numeric expression, "s" string expression, "h" file        *)
(* handle, "v" numeric variable, "vs" string variable, "a" array name.             *)
(***************************************************************************)
EXTENDS Integers, Sequences, TLC

\* functions: name |-> parameter kinds (several arities are separate entries)
Funs == {
  [n |-> "CHR$", ps |-> <<"n">>], [n |-> "CVD", ps |-> <<"s">>], [n |-> "ENVIRON$", ps |-> <<"s">>],
  [n |-> "EOF", ps |-> <<"h">>], [n |-> "ERR", ps |-> <<>>], [n |-> "INKEY$", ps |-> <<>>],
  [n |-> "INSTR", ps |-> <<"s", "s">>], [n |-> "INSTR", ps |-> <<"n", "s", "s">>],
  [n |-> "LBOUND", ps |-> <<"a">>], [n |-> "LBOUND", ps |-> <<"a", "n">>],
  [n |-> "UBOUND", ps |-> <<"a">>], [n |-> "UBOUND", ps |-> <<"a", "n">>],
  [n |-> "LCASE$", ps |-> <<"s">>], [n |-> "UCASE$", ps |-> <<"s">>], [n |-> "LTRIM$", ps |-> <<"s">>],
  [n |-> "RTRIM$", ps |-> <<"s">>], [n |-> "LEFT$", ps |-> <<"s", "n">>], [n |-> "RIGHT$", ps |-> <<"s", "n">>],
  [n |-> "MID$", ps |-> <<"s", "n">>], [n |-> "MID$", ps |-> <<"s", "n", "n">>],
  [n |-> "LEN", ps |-> <<"s">>], [n |-> "LEN", ps |-> <<"v">>], [n |-> "MKD$", ps |-> <<"n">>],
  [n |-> "PEEK", ps |-> <<"n">>], [n |-> "SPACE$", ps |-> <<"n">>], [n |-> "STR$", ps |-> <<"n">>],
  [n |-> "STRING$", ps |-> <<"n", "n">>], [n |-> "STRING$", ps |-> <<"n", "s">>], [n |-> "VAL", ps |-> <<"s">>],
  [n |-> "VARPTR", ps |-> <<"v">>], [n |-> "VARSEG", ps |-> <<"v">>], [n |-> "VARPTR", ps |-> <<"vs">>] }

\* statements (built-in subs)
Subs == {
  [n |-> "BEEP", ps |-> <<>>], [n |-> "CLS", ps |-> <<>>], [n |-> "CLOSE", ps |-> <<>>], [n |-> "CLOSE", ps |-> <<"h">>],
  [n |-> "COLOR", ps |-> <<"n">>], [n |-> "COLOR", ps |-> <<"n", "n">>], [n |-> "DEF SEG", ps |-> <<>>],
  [n |-> "DEF SEG =", ps |-> <<"n">>], [n |-> "ENVIRON", ps |-> <<"s">>], [n |-> "KILL", ps |-> <<"s">>],
  [n |-> "LOCATE", ps |-> <<"n">>], [n |-> "LOCATE", ps |-> <<"n", "n">>], [n |-> "NAME", ps |-> <<"s", "s">>],
  [n |-> "POKE", ps |-> <<"n", "n">>], [n |-> "VIEW PRINT", ps |-> <<>>], [n |-> "VIEW PRINT", ps |-> <<"n", "n">>],
  [n |-> "WIDTH", ps |-> <<"n", "n">>], [n |-> "INPUT", ps |-> <<"v">>], [n |-> "INPUT", ps |-> <<"vs">>],
  [n |-> "LINE INPUT", ps |-> <<"vs">>], [n |-> "READ", ps |-> <<"v">>], [n |-> "READ", ps |-> <<"vs">>],
  [n |-> "OPEN", ps |-> <<"s", "h">>], [n |-> "GET", ps |-> <<"h", "n">>], [n |-> "PUT", ps |-> <<"h", "n">>],
  [n |-> "FIELD", ps |-> <<"h", "n">>], [n |-> "LSET", ps |-> <<"vs", "s">>], [n |-> "INPUT #", ps |-> <<"h", "v">>],
  [n |-> "LINE INPUT #", ps |-> <<"h", "vs">>], [n |-> "PRINT #", ps |-> <<"h", "s">>] }

\* argument classes per parameter kind (the driver knows the text of each class)
Classes(kind) ==
  CASE kind = "n" -> {"0", "1", "-1", "2", "255", "256", "32767", "32768", "-32769", "65535", "65536", "big", "half", "var%", "var&",
                      "var!", "var#", "expr", "elem"}
    [] kind = "s" -> {"empty", "a", "abc", "hi200", "long", "var$", "fixed", "concat", "num-text", "eightbytes"}
    [] kind = "h" -> {"1", "2", "0", "256", "-1", "var%"}
    [] kind = "v" -> {"var%", "var&", "var!", "var#", "elem", "field"}
    [] kind = "vs" -> {"var$", "fixed", "elems"}
    [] kind = "a" -> {"arr1", "arr2"}

Wrappers == {"plain", "paren", "nested"}
Places == {"main", "sub", "handler"}

VARIABLES what, sig, args, wrap, place
vars == <<what, sig, args, wrap, place>>

RECURSIVE Tuples(_, _)
Tuples(ps, j) ==
  IF j > Len(ps) THEN {<<>>} ELSE {<<c>> \o t : c \in Classes(ps[j]), t \in Tuples(ps, j + 1)}

\* Mis-kinded calls: one argument of a foreign kind (written "kind:class"), the others nominal.  Whether such a call
\* is accepted is the checker's decision; the property starts from that decision, so these belong to the space too
\* (they are the cases in which the run-time code relies on the checker having looked at that very parameter).
Reps == {<<"n", "1">>, <<"n", "half">>, <<"n", "var#">>, <<"n", "elem">>, <<"s", "abc">>, <<"s", "fixed">>, <<"s", "hi200">>,
         <<"v", "field">>, <<"vs", "elems">>, <<"vs", "var$">>, <<"a", "arr1">>, <<"a", "arr2">>}
Nominal(kind) == CASE kind = "n" -> "n:1" [] kind = "s" -> "s:abc" [] kind = "h" -> "h:1" [] kind = "v" -> "v:var%"
                   [] kind = "vs" -> "vs:var$" [] kind = "a" -> "a:arr1"
Foreign(kind) == {r[1] \o ":" \o r[2] : r \in {q \in Reps : q[1] # kind}}
Mis(ps) == UNION {{[j \in 1..Len(ps) |-> IF j = i THEN f ELSE Nominal(ps[j])] : f \in Foreign(ps[i])} : i \in 1..Len(ps)}

Init ==
  \/ /\ what = "fun" /\ sig \in Funs /\ args \in Mis(sig.ps) /\ wrap \in {"plain", "nested"} /\ place \in {"main", "handler"}
  \/ /\ what = "sub" /\ sig \in Subs /\ args \in Mis(sig.ps) /\ wrap = "plain" /\ place \in {"main", "handler"}
  \/ /\ what = "fun" /\ sig \in Funs /\ args \in Tuples(sig.ps, 1) /\ wrap \in Wrappers /\ place \in Places
  \/ /\ what = "sub" /\ sig \in Subs /\ args \in Tuples(sig.ps, 1) /\ wrap = "plain" /\ place \in Places
Next == UNCHANGED vars
Spec == Init /\ [][Next]_vars

RECURSIVE Join(_)
Join(xs) == IF xs = <<>> THEN "" ELSE IF Len(xs) = 1 THEN xs[1] ELSE xs[1] \o "," \o Join(Tail(xs))
Emit == PrintT("CASE " \o what \o "|" \o sig.n \o "|" \o Join(args) \o "|" \o wrap \o "|" \o place)
=============================================================================
