------------------------------ MODULE MC_Bits ------------------------------
(* D-level check of Bits.tla: the definitions used as the oracle for C19 are   *)
(* themselves consistent with two's complement arithmetic and with each other. *)
EXTENDS Bits, TLC

Edge == {0 - 32768, 0 - 32767, 0 - 256, 0 - 255, 0 - 2, 0 - 1, 0, 1, 2, 127, 128, 255, 256, 21845, 0 - 21846,
         16384, 0 - 16385, 32766, 32767} \cup {2 ^ i : i \in 0..14}

VARIABLES mode, x, y
vars == <<mode, x, y>>

ExpSet == {0, 1, 2, 1022, 1023, 1024, 2046, 2047}
LimbSet == {0, 1, 32768, 65535, 21845}

Init ==
  \/ mode = "word" /\ x \in (0 - 32768)..32767 /\ y = 0
  \/ mode = "pair" /\ x \in Edge /\ y \in Edge
  \/ mode = "ieee" /\ x \in {<<s, e, m3, m2, m1, m0>> : s \in {0, 1}, e \in ExpSet, m3 \in {0, 8, 15},
                                                        m2 \in LimbSet, m1 \in {0, 65535}, m0 \in LimbSet} /\ y = 0
Next == UNCHANGED vars
Spec == Init /\ [][Next]_vars

WordOK ==
  mode = "word" =>
    /\ FromTwos16(Twos16(x)) = x
    /\ Len(Twos16(x)) = 16
    /\ Not16(x) = 0 - x - 1
    /\ FromBytesLE16(BytesLE16(x)) = x
    /\ BytesLE16(x)[1] \in 0..255 /\ BytesLE16(x)[2] \in 0..255
    /\ And16(x, x) = x /\ Or16(x, x) = x
    /\ And16(x, 0 - 1) = x /\ Or16(x, 0) = x /\ And16(x, 0) = 0 /\ Or16(x, 0 - 1) = 0 - 1
    /\ And16(x, Not16(x)) = 0 /\ Or16(x, Not16(x)) = 0 - 1

PairOK ==
  mode = "pair" =>
    /\ And16(x, y) = And16(y, x) /\ Or16(x, y) = Or16(y, x)
    /\ And16(x, y) + Or16(x, y) = x + y                       \* inclusion-exclusion on bits
    /\ Not16(And16(x, y)) = Or16(Not16(x), Not16(y))          \* De Morgan
    /\ And16(x, y) \in (0 - 32768)..32767 /\ Or16(x, y) \in (0 - 32768)..32767

IeeeOK ==
  mode = "ieee" =>
    /\ IeeeFromBytesLE(IeeeBytesLE(x)) = x
    /\ \A i \in 1..8 : IeeeBytesLE(x)[i] \in 0..255
=============================================================================
