SPECIFICATION Spec
CONSTANT MaxLen = 5
INVARIANT SplitLaw
INVARIANT Clamp
INVARIANT Negative
INVARIANT InstrLaw
INVARIANT LenLaw
INVARIANT CaseLaw
INVARIANT TrimLaw
INVARIANT SpaceLaw
INVARIANT ValStr
CHECK_DEADLOCK FALSE
