-------------------------------- MODULE Types --------------------------------
(***************************************************************************)
(* Static typing at the granularity C12 speaks of: the KIND of a value         *)
(* ("n" number, "s" string).  An expression is well-kinded when every operator  *)
(* and built-in gets operands of the kind it needs; a statement when every      *)
(* expression position gets the kind it needs.                                  *)
(* Expression nodes are those of Core.tla plus                                  *)
(*   [k |-> "bcall", n |-> name, args]   a built-in function call                *)
(*   [k |-> "ucall", ps |-> <<kinds>>, r |-> kind, args]  a user FUNCTION call    *)
(* "err" is the kind of an ill-kinded expression.                                *)
(***************************************************************************)
EXTENDS Integers, Sequences, Values

KindOfType(t) == IF t = "$" THEN "s" ELSE "n"
\* a whole record has the kind of its TYPE ("u:" + name): it can be assigned to / passed as a record of the same TYPE
\* and is no operand of any operator or built-in
KindOfLeaf(e) == IF e.t = "U" THEN "u:" \o e.ty ELSE KindOfType(e.t)
Scalar(k) == k \in {"n", "s"}

\* built-in functions: parameter kinds and result kind
Sig(name, n) ==
  CASE name = "LEN" -> [ps |-> <<"s">>, r |-> "n"]
    [] name = "UCASE$" -> [ps |-> <<"s">>, r |-> "s"]
    [] name = "LCASE$" -> [ps |-> <<"s">>, r |-> "s"]
    [] name = "LTRIM$" -> [ps |-> <<"s">>, r |-> "s"]
    [] name = "RTRIM$" -> [ps |-> <<"s">>, r |-> "s"]
    [] name = "LEFT$" -> [ps |-> <<"s", "n">>, r |-> "s"]
    [] name = "RIGHT$" -> [ps |-> <<"s", "n">>, r |-> "s"]
    [] name = "MID$" -> [ps |-> IF n = 2 THEN <<"s", "n">> ELSE <<"s", "n", "n">>, r |-> "s"]
    [] name = "INSTR" -> [ps |-> IF n = 3 THEN <<"n", "s", "s">> ELSE <<"s", "s">>, r |-> "n"]
    [] name = "STR$" -> [ps |-> <<"n">>, r |-> "s"]
    [] name = "VAL" -> [ps |-> <<"s">>, r |-> "n"]
    [] name = "CHR$" -> [ps |-> <<"n">>, r |-> "s"]
    [] name = "SPACE$" -> [ps |-> <<"n">>, r |-> "s"]
    [] name = "MKD$" -> [ps |-> <<"n">>, r |-> "s"]
    [] name = "CVD" -> [ps |-> <<"s">>, r |-> "n"]
    [] name = "ENVIRON$" -> [ps |-> <<"s">>, r |-> "s"]

RECURSIVE Kind(_), ArgsOK(_, _, _)
ArgsOK(args, ps, j) ==
  IF Len(args) # Len(ps) THEN FALSE
  ELSE IF j > Len(args) THEN TRUE
  ELSE Kind(args[j]) = ps[j] /\ ArgsOK(args, ps, j + 1)

Kind(e) ==
  CASE e.k = "lit" -> KindOfType(e.t)
    [] e.k = "var" -> KindOfLeaf(e)
    [] e.k = "idx" -> IF \A j \in 1..Len(e.subs) : Kind(e.subs[j]) = "n" THEN KindOfType(e.t) ELSE "err"
    [] e.k = "par" -> Kind(e.e)
    [] e.k = "un" -> IF Kind(e.e) = "n" THEN "n" ELSE "err"
    [] e.k = "bin" ->
         LET a == Kind(e.l)
             b == Kind(e.r)
         IN IF a = "err" \/ b = "err" THEN "err"
            ELSE IF e.op = "+" THEN (IF a = b /\ Scalar(a) THEN a ELSE "err")
            ELSE IF e.op \in RelOps THEN (IF a = b /\ Scalar(a) THEN "n" ELSE "err")
            ELSE (IF a = "n" /\ b = "n" THEN "n" ELSE "err")
    [] e.k = "bcall" -> LET s == Sig(e.n, Len(e.args)) IN IF ArgsOK(e.args, s.ps, 1) THEN s.r ELSE "err"
    [] e.k = "ucall" -> IF ArgsOK(e.args, e.ps, 1) THEN e.r ELSE "err"

\* a statement: [k |-> "need", e, kind] - expression e stands where kind ("n", "s", "any") is needed
\*              [k |-> "caseof", subj, test] - a CASE test must have the kind of the subject
WellKinded(s) ==
  \* "top": the position applies no operator to the value (the subject of a SELECT CASE that has only CASE ELSE)
  CASE s.k = "need" -> LET kd == Kind(s.e) IN kd # "err" /\ (IF s.kind = "any" THEN Scalar(kd) ELSE IF s.kind = "top" THEN TRUE ELSE kd = s.kind)
    [] s.k = "caseof" -> Scalar(Kind(s.subj)) /\ Kind(s.test) = Kind(s.subj)

(***************************************************************************)
(* Single ill-forming edits and the family of error each must produce           *)
(***************************************************************************)
Families(edit) ==
  CASE edit = "strop" -> {"TypeMismatch"}
    [] edit = "missinglabel" -> {"LabelNotDefined"}
    [] edit = "foreignlabel" -> {"LabelNotDefined"}      \* the label exists, but in another procedure / in the main module
    [] edit = "argcount" -> {"ArgumentCountMismatch"}
    [] edit = "byreftype" -> {"ArgumentTypeMismatch"}
    [] edit = "duplicate" -> {"DuplicateDefinition", "DuplicateLabel"}
    [] edit = "nextcounter" -> {"NextWithoutFor"}
=============================================================================
