-------------------------------- MODULE Files --------------------------------
(***************************************************************************)
(* Files and handles (C18).  State:                                          *)
(*   store  name -> bytes, for the files that exist                          *)
(*   h      handle -> [m |-> "closed"] | [m |-> "input", name, cur]            *)
(*                   | [m |-> "output", name] | [m |-> "random", name, len, fld] *)
(*   stdin  the bytes still to be read from the console                       *)
(*   out    what the program printed (values read back, EOF results)           *)
(*   status "run" | "err" (code)                                              *)
(* Operations (each a record [op |-> ..]) are applied one by one; the first    *)
(* error ends the history (no handler).  Error codes: 55 file already open,    *)
(* 53 file not found, 62 input past end; the class "a file error" (any code    *)
(* 50..76) for a handle that is closed or open in the wrong mode, written -50. *)
(***************************************************************************)
EXTENDS Integers, Sequences, TLC

Handles == 1..3
FileErr == 0 - 50

NoFiles == [x \in {} |-> <<>>]
Closed == [m |-> "closed"]
Init0(stdin) == [store |-> NoFiles, h |-> [n \in Handles |-> Closed], stdin |-> stdin,
                 out |-> <<>>, status |-> "run", code |-> 0, skip |-> FALSE]

Fail(st, c) == [st EXCEPT !.status = "err", !.code = c]
Unfixed(st) == [st EXCEPT !.skip = TRUE]
Exists(st, name) == name \in DOMAIN st.store
SetFile(st, name, bytes) ==
  [st EXCEPT !.store = IF name \in DOMAIN @ THEN [@ EXCEPT ![name] = bytes] ELSE @ @@ (name :> bytes)]
DelFile(st, name) == [st EXCEPT !.store = [n \in (DOMAIN @) \ {name} |-> @[n]]]
IsOpenName(st, name) == \E n \in Handles : st.h[n].m # "closed" /\ st.h[n].name = name

CRLF == <<13, 10>>
Emit(st, text) == [st EXCEPT !.out = @ \o text \o CRLF]

RECURSIVE NatDigits(_)
NatDigits(n) == IF n < 10 THEN <<48 + n>> ELSE NatDigits(n \div 10) \o <<48 + (n % 10)>>
NumText(n) == (IF n < 0 THEN <<45>> \o NatDigits(0 - n) ELSE <<32>> \o NatDigits(n)) \o <<32>>

(***************************************************************************)
(* Reading: lines end with CR LF, CR or LF; fields end with a comma or a line   *)
(* end.  Both return [text, next cursor].                                      *)
(***************************************************************************)
IsEol(c) == c \in {10, 13}
RECURSIVE ScanTo(_, _, _)
\* index of the first position >= i whose character is a stop character, or Len + 1
ScanTo(b, i, commas) ==
  IF i > Len(b) THEN i
  ELSE IF IsEol(b[i]) \/ (commas /\ b[i] = 44) THEN i
  ELSE ScanTo(b, i + 1, commas)
AfterStop(b, j) ==
  IF j > Len(b) THEN j
  ELSE IF b[j] = 13 /\ j < Len(b) /\ b[j + 1] = 10 THEN j + 2
  ELSE j + 1
ReadLine(b, cur) == LET j == ScanTo(b, cur, FALSE) IN [text |-> SubSeq(b, cur, j - 1), next |-> AfterStop(b, j)]
\* INPUT skips the blanks in front of a field (after having looked for the end of the input)
RECURSIVE SkipBlanks(_, _)
SkipBlanks(b, i) == IF i <= Len(b) /\ b[i] = 32 THEN SkipBlanks(b, i + 1) ELSE i
ReadField(b, cur0) == LET cur == SkipBlanks(b, cur0)
                         j == ScanTo(b, cur, TRUE) IN [text |-> SubSeq(b, cur, j - 1), next |-> AfterStop(b, j)]

RECURSIVE DigitsVal(_, _)
DigitsVal(s, acc) == IF s = <<>> THEN acc ELSE DigitsVal(Tail(s), acc * 10 + (Head(s) - 48))
IsNumber(s) == s # <<>> /\ \A i \in 1..Len(s) : s[i] \in 48..57

(***************************************************************************)
(* RANDOM files: record r (1-based) lives at offset (r-1)*len; the FIELD        *)
(* buffer is a sequence of [w, v] (width, current text, always w characters).   *)
(***************************************************************************)
RECURSIVE Blanks(_), Zeros(_), Concat(_)
Blanks(n) == IF n <= 0 THEN <<>> ELSE <<32>> \o Blanks(n - 1)
Zeros(n) == IF n <= 0 THEN <<>> ELSE <<32>> \o Zeros(n - 1)   \* the pad byte is not fixed: the driver reads NUL as blank
FixLen(n, s) == IF Len(s) >= n THEN SubSeq(s, 1, n) ELSE s \o Blanks(n - Len(s))
Concat(fld) == IF fld = <<>> THEN <<>> ELSE Head(fld).v \o Concat(Tail(fld))
\* bytes of the file after writing rec at record r
PutRec(bytes, len, r, rec) ==
  LET off == (r - 1) * len
      padded == IF Len(bytes) < off THEN bytes \o Zeros(off - Len(bytes)) ELSE bytes
  IN SubSeq(padded, 1, off) \o rec \o SubSeq(padded, off + Len(rec) + 1, Len(padded))
GetRec(bytes, len, r) ==
  LET off == (r - 1) * len
      have == SubSeq(bytes, off + 1, IF off + len <= Len(bytes) THEN off + len ELSE Len(bytes))
  IN IF off >= Len(bytes) THEN Zeros(len) ELSE have \o Zeros(len - Len(have))
RECURSIVE Scatter(_, _, _)
Scatter(fld, rec, i) ==
  IF i > Len(fld) THEN fld
  ELSE LET before == Len(Concat(SubSeq(fld, 1, i - 1))) IN
       Scatter([fld EXCEPT ![i].v = SubSeq(rec, before + 1, before + fld[i].w)], rec, i + 1)

Step(st, o) ==
  IF st.status # "run" \/ st.skip THEN st
  ELSE CASE o.op = "open" ->
         IF st.h[o.n].m # "closed" THEN Fail(st, 55)
         ELSE IF o.mode = "input" THEN
           (IF ~Exists(st, o.name) THEN Fail(st, 53)
            ELSE [st EXCEPT !.h[o.n] = [m |-> "input", name |-> o.name, cur |-> 1]])
         ELSE IF IsOpenName(st, o.name) THEN Unfixed(st)     \* the same file open twice: not fixed
         ELSE IF o.mode = "output" THEN [SetFile(st, o.name, <<>>) EXCEPT !.h[o.n] = [m |-> "output", name |-> o.name]]
         ELSE IF o.mode = "append" THEN
           [(IF Exists(st, o.name) THEN st ELSE SetFile(st, o.name, <<>>)) EXCEPT !.h[o.n] = [m |-> "output", name |-> o.name]]
         ELSE \* random
           \* an existing file keeps its records: what was PUT before the file was closed is what GET returns later
           [(IF Exists(st, o.name) THEN st ELSE SetFile(st, o.name, <<>>))
              EXCEPT !.h[o.n] = [m |-> "random", name |-> o.name, len |-> o.len, fld |-> <<>>, more |-> <<>>]]
    [] o.op = "print" ->
         IF st.h[o.n].m # "output" THEN Fail(st, FileErr)
         ELSE SetFile(st, st.h[o.n].name, st.store[st.h[o.n].name] \o o.text \o CRLF)
    [] o.op = "printnl" ->     \* PRINT #n, (no items): just the line end
         IF st.h[o.n].m # "output" THEN Fail(st, FileErr)
         ELSE SetFile(st, st.h[o.n].name, st.store[st.h[o.n].name] \o CRLF)
    [] o.op = "given" ->       \* the file exists with this content before the program starts
         SetFile(st, o.name, o.text)
    [] o.op = "printsemi" ->   \* PRINT #n, text;
         IF st.h[o.n].m # "output" THEN Fail(st, FileErr)
         ELSE SetFile(st, st.h[o.n].name, st.store[st.h[o.n].name] \o o.text)
    [] o.op = "lineinput" ->
         IF st.h[o.n].m # "input" THEN Fail(st, FileErr)
         ELSE LET b == st.store[st.h[o.n].name]
                  cur == st.h[o.n].cur
              IN IF cur > Len(b) THEN Fail(st, 62)
                 ELSE LET r == ReadLine(b, cur) IN Emit([st EXCEPT !.h[o.n].cur = r.next], <<91>> \o r.text \o <<93>>)
    [] o.op = "input" ->      \* INPUT #n, A$
         IF st.h[o.n].m # "input" THEN Fail(st, FileErr)
         ELSE LET b == st.store[st.h[o.n].name]
                  cur == st.h[o.n].cur
              IN IF cur > Len(b) THEN Fail(st, 62)
                 ELSE LET r == ReadField(b, cur) IN Emit([st EXCEPT !.h[o.n].cur = r.next], <<91>> \o r.text \o <<93>>)
    [] o.op = "inputnum" ->   \* INPUT #n, A%
         IF st.h[o.n].m # "input" THEN Fail(st, FileErr)
         ELSE LET b == st.store[st.h[o.n].name]
                  cur == st.h[o.n].cur
              IN IF cur > Len(b) THEN Fail(st, 62)
                 ELSE LET r == ReadField(b, cur) IN
                      IF ~IsNumber(r.text) THEN Unfixed(st)
                      ELSE Emit([st EXCEPT !.h[o.n].cur = r.next], NumText(DigitsVal(r.text, 0)))
    [] o.op = "eof" ->
         IF st.h[o.n].m # "input" THEN (IF st.h[o.n].m = "closed" THEN Fail(st, FileErr) ELSE Unfixed(st))
         ELSE Emit(st, NumText(IF st.h[o.n].cur > Len(st.store[st.h[o.n].name]) THEN 0 - 1 ELSE 0))
    [] o.op = "close" -> [st EXCEPT !.h[o.n] = Closed]
    [] o.op = "closeall" -> [st EXCEPT !.h = [n \in Handles |-> Closed]]
    [] o.op = "close2" -> [st EXCEPT !.h[o.n] = Closed, !.h[o.m] = Closed]     \* CLOSE #n, #m
    [] o.op = "kill" ->
         IF ~Exists(st, o.name) THEN Fail(st, 53)
         ELSE IF IsOpenName(st, o.name) THEN Unfixed(st)
         ELSE DelFile(st, o.name)
    [] o.op = "name" ->
         IF ~Exists(st, o.name) THEN Fail(st, 53)
         ELSE IF Exists(st, o.to) \/ IsOpenName(st, o.name) THEN Unfixed(st)
         ELSE SetFile(DelFile(st, o.name), o.to, st.store[o.name])
    [] o.op = "cinput" ->      \* console INPUT A$
         IF st.stdin = <<>> THEN Unfixed(st)
         ELSE LET r == ReadField(st.stdin, 1) IN
              Emit([st EXCEPT !.stdin = SubSeq(@, r.next, Len(@))], <<91>> \o r.text \o <<93>>)
    [] o.op = "clineinput" ->  \* console LINE INPUT A$
         IF st.stdin = <<>> THEN Unfixed(st)
         ELSE LET r == ReadLine(st.stdin, 1) IN
              Emit([st EXCEPT !.stdin = SubSeq(@, r.next, Len(@))], <<91>> \o r.text \o <<93>>)
    [] o.op = "field" ->       \* FIELD #n, w1 AS F1$, w2 AS F2$ ...
         \* a handle that is closed or open in another mode: a file error
         IF st.h[o.n].m # "random" THEN Fail(st, FileErr)
         \* every FIELD statement adds a list; all lists describe the record from its first byte
         ELSE LET lst == [i \in 1..Len(o.ws) |-> [w |-> o.ws[i], v |-> Blanks(o.ws[i])]] IN
              IF st.h[o.n].fld = <<>> THEN [st EXCEPT !.h[o.n].fld = lst]
              ELSE [st EXCEPT !.h[o.n].more = Append(@, st.h[o.n].fld), !.h[o.n].fld = lst]
    [] o.op = "lset" ->        \* LSET F<i>$ = text
         \* with several lists the variables overlap: what LSET into one of them means for the others is not fixed
         IF st.h[o.n].m # "random" \/ o.i > Len(st.h[o.n].fld) \/ st.h[o.n].more # <<>> THEN Unfixed(st)
         ELSE [st EXCEPT !.h[o.n].fld[o.i].v = FixLen(st.h[o.n].fld[o.i].w, o.text)]
    [] o.op = "put" ->
         IF st.h[o.n].m # "random" THEN Fail(st, FileErr)
         ELSE LET hh == st.h[o.n]
                  \* a list may describe only the beginning of the record: those bytes are written at the record's
                  \* offset; what the rest of the record holds is not fixed (and no field shows it)
                  rec == Concat(hh.fld)
              IN IF Len(rec) > hh.len \/ hh.fld = <<>> \/ hh.more # <<>> THEN Unfixed(st)
                 ELSE SetFile(st, hh.name, PutRec(st.store[hh.name], hh.len, o.r, rec))
    [] o.op = "get" ->
         IF st.h[o.n].m # "random" THEN Fail(st, FileErr)
         ELSE LET hh == st.h[o.n] IN
              IF Len(Concat(hh.fld)) > hh.len \/ hh.fld = <<>> \/ \E l \in 1..Len(hh.more) : Len(Concat(hh.more[l])) > hh.len THEN Unfixed(st)
              ELSE LET rec == GetRec(st.store[hh.name], hh.len, o.r) IN
                   [st EXCEPT !.h[o.n].fld = Scatter(hh.fld, rec, 1),
                              !.h[o.n].more = [l \in 1..Len(hh.more) |-> Scatter(hh.more[l], rec, 1)]]
    [] o.op = "show" ->        \* PRINT "[" + F<i>$ + "]"
         IF st.h[o.n].m # "random" THEN Unfixed(st)
         ELSE LET hh == st.h[o.n]
                  \* l = 0: the newest list, l = k: the k-th older one
                  lst == IF "l" \in DOMAIN o /\ o.l > 0 THEN (IF o.l <= Len(hh.more) THEN hh.more[o.l] ELSE <<>>) ELSE hh.fld
              IN IF o.i > Len(lst) THEN Unfixed(st) ELSE Emit(st, <<91>> \o lst[o.i].v \o <<93>>)

(***************************************************************************)
(* Invariants of the model                                                   *)
(***************************************************************************)
HandlesOK(st) ==
  \A n \in Handles : st.h[n].m \in {"closed", "input", "output", "random"} /\
     (st.h[n].m # "closed" => st.h[n].name \in DOMAIN st.store)
CursorOK(st) ==
  \A n \in Handles : st.h[n].m = "input" => st.h[n].cur >= 1 /\ st.h[n].cur <= Len(st.store[st.h[n].name]) + 1
=============================================================================
