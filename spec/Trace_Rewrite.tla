--------------------------- MODULE Trace_Rewrite ---------------------------
(* For every recorded program, every rule and every site where it applies:    *)
(* the reference semantics runs the program and its rewritten form side by     *)
(* side; the verdict says whether the rule preserved the printed output and     *)
(* the outcome IN THE ORACLE, and hands the rewritten program to the driver,     *)
(* which then compares the real interpreter with itself on the two spellings.    *)
EXTENDS Rewrite, Json, IOUtils

Recs == ndJsonDeserialize(IOEnv.TRACE)
Fuel == 3000

VARIABLES idx, rule, sid, a, b
vars == <<idx, rule, sid, a, b>>

Init == /\ idx \in 1..Len(Recs)
        /\ rule \in Rules
        /\ sid \in Sites(Recs[idx].prog, rule)
        /\ a = Start(Recs[idx].prog, Fuel)
        /\ b = Start(RwProg(Recs[idx].prog, rule, sid), Fuel)

Next == /\ ~(Done(a) /\ Done(b))
        /\ a' = Step(a) /\ b' = Step(b)
        /\ UNCHANGED <<idx, rule, sid>>
Spec == Init /\ [][Next]_vars

Same == a.status = b.status /\ a.out = b.out /\ a.code = b.code

Verdict ==
  (Done(a) /\ Done(b)) =>
    PrintT("REWRITE " \o ToString(Recs[idx].id) \o " " \o rule \o " " \o ToString(sid) \o " "
           \o (IF a.status \in {"skip", "fuel"} \/ b.status \in {"skip", "fuel"} THEN "skip"
               ELSE IF Same THEN "same" ELSE "differ")
           \o " " \o ToJson(b.prog))
=============================================================================
