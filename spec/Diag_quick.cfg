SPECIFICATION Spec
CONSTANT MaxCall = 1
CONSTANT MaxNest = 0
CONSTANT Rich = FALSE
CONSTANT FaultSel = "all"
INVARIANT TypeOK
INVARIANT WellFormed
INVARIANT Emit
CHECK_DEADLOCK FALSE
